// Package c20cache is the pseudo-property "C20CACHE" (run as part of C20): differential correspondence
// between the real block cache (/repo/pkg/blockchain/block_cache.go, reached through the add-only hook
// export_c20cache_verif.go) and the Lean model LiskVerif.CacheModel (lean/LiskVerif/Lemmas/LocksData.lean)
// about which Props/C20_Data.lean proves the data-level clause of C20 ("readers always obtain some
// complete committed tip"), plus a model-free oracle: a slice of blocks as reference for
// last / get / getByHeight / len / pop and for the refusal of non-consecutive pushes.
//
// Line protocol (see lean/Driver/Cache.lean for the outputs):
//
//	reset <maxSize> | push <idhex> <height> | pop | last | get <idhex> | byheight <h> | len |
//	replace <id:h,id:h,...|-> | dump
//
// Every block object made by push / replace gets the next serial number of the case (stored in
// Header.Timestamp, the model's Blk.body) and is printed as <idhex>:<height>:<serial>, so that the two
// sides agree on WHICH block object a reader returned, not only on its id.
package c20cache

import (
	"encoding/hex"
	"fmt"
	"math"
	"math/rand"
	"sort"
	"strconv"
	"strings"

	"github.com/LiskHQ/lisk-engine/pkg/blockchain"

	"verifharness/corr"
)

type prop struct{}

func init() { corr.Register(prop{}) }

func (prop) ID() string    { return "C20CACHE" }
func (prop) Parallel() int { return 8 }

// ---------------------------------------------------------------------------------------------
// parsing (mirrors Driver/Cache.lean: natArg / u32Arg / sizeArg / hexArg / parseBlocks)

func natArg(s string) (uint64, bool) {
	if s == "" {
		return 0, false
	}
	for _, c := range s {
		if c < '0' || c > '9' {
			return 0, false
		}
	}
	n, err := strconv.ParseUint(s, 10, 64)
	if err != nil {
		return 0, false
	}
	return n, true
}

func u32Arg(s string) (uint32, bool) {
	n, ok := natArg(s)
	if !ok || n > math.MaxUint32 {
		return 0, false
	}
	return uint32(n), true
}

func sizeArg(s string) (int, bool) {
	n, ok := natArg(s)
	if !ok || n > math.MaxInt64 {
		return 0, false
	}
	return int(n), true
}

func hexArg(s string) ([]byte, bool) {
	if s == "-" {
		return []byte{}, true
	}
	b, err := hex.DecodeString(s)
	if err != nil {
		return nil, false
	}
	return b, true
}

type idh struct {
	id []byte
	h  uint32
}

func parseBlocks(s string) ([]idh, bool) {
	if s == "-" {
		return nil, true
	}
	var res []idh
	for _, item := range strings.Split(s, ",") {
		p := strings.Split(item, ":")
		if len(p) != 2 {
			return nil, false
		}
		id, ok := hexArg(p[0])
		if !ok {
			return nil, false
		}
		h, ok := u32Arg(p[1])
		if !ok {
			return nil, false
		}
		res = append(res, idh{id, h})
	}
	return res, true
}

// ---------------------------------------------------------------------------------------------
// printing

func showBlk(b *blockchain.Block) string {
	if b == nil {
		return "nil"
	}
	return corr.Hex(b.Header.ID) + ":" + strconv.FormatUint(uint64(b.Header.Height), 10) + ":" + strconv.FormatUint(uint64(b.Header.Timestamp), 10)
}

func showOpt(b *blockchain.Block, ok bool) string {
	if !ok {
		return "none"
	}
	return "some " + showBlk(b)
}

func joinOrDash(l []string) string {
	if len(l) == 0 {
		return "-"
	}
	return strings.Join(l, ",")
}

func showDump(f blockchain.VerifCacheFields) string {
	ids := make([]string, 0, len(f.CachedBlocks))
	for k := range f.CachedBlocks {
		ids = append(ids, k)
	}
	sort.Strings(ids) // byte-wise, as the model's bcmp
	bs := make([]string, len(ids))
	for i, k := range ids {
		bs[i] = corr.Hex([]byte(k)) + "=" + showBlk(f.CachedBlocks[k])
	}
	hs := make([]uint32, 0, len(f.HeightIndex))
	for h := range f.HeightIndex {
		hs = append(hs, h)
	}
	sort.Slice(hs, func(i, j int) bool { return hs[i] < hs[j] })
	ix := make([]string, len(hs))
	for i, h := range hs {
		ix[i] = strconv.FormatUint(uint64(h), 10) + "=" + corr.Hex([]byte(f.HeightIndex[h]))
	}
	return fmt.Sprintf("blocks=%s index=%s size=%d cur=%d max=%d", joinOrDash(bs), joinOrDash(ix), f.Size, f.CurrentHeight, f.MaxSize)
}

// ---------------------------------------------------------------------------------------------
// the reference: the window of cached blocks as a plain slice (oldest first). It is an oracle only
// while the history is one a chain can produce (`clean`): capacity >= 1, accepted pushes and replace
// arguments have consecutive non-wrapping heights and ids that are distinct inside the window.

type ref struct {
	max   int
	win   []*blockchain.Block
	gone  []*blockchain.Block // blocks that recently left the window (evicted, popped, replaced)
	clean bool
}

func (r *ref) tip() *blockchain.Block {
	if len(r.win) == 0 {
		return nil
	}
	return r.win[len(r.win)-1]
}

func (r *ref) byID(id []byte) *blockchain.Block {
	for i := len(r.win) - 1; i >= 0; i-- {
		if string(r.win[i].Header.ID) == string(id) {
			return r.win[i]
		}
	}
	return nil
}

func (r *ref) byHeight(h uint32) *blockchain.Block {
	for i := len(r.win) - 1; i >= 0; i-- {
		if r.win[i].Header.Height == h {
			return r.win[i]
		}
	}
	return nil
}

func (r *ref) leave(b *blockchain.Block) {
	r.gone = append(r.gone, b)
	if len(r.gone) > 4 {
		r.gone = r.gone[len(r.gone)-4:]
	}
}

func (r *ref) trim() {
	for len(r.win) > r.max {
		r.leave(r.win[0])
		r.win = r.win[1:]
	}
}

// ---------------------------------------------------------------------------------------------
// runner

type runner struct {
	c     *blockchain.VerifBlockCache
	ctr   uint32
	ref   ref
	fails []corr.Fail
	op    int
}

func (r *runner) fail(sig, format string, a ...any) {
	r.fails = append(r.fails, corr.Fail{Sig: sig, Detail: fmt.Sprintf(format, a...), Op: r.op})
	r.ref.clean = false // one report per history
}

func (r *runner) newBlock(id []byte, h uint32) *blockchain.Block {
	b := &blockchain.Block{Header: &blockchain.BlockHeader{ID: append([]byte{}, id...), Height: h, Timestamp: r.ctr}}
	r.ctr++
	return b
}

// pushErrKind: the two errors of push are fmt.Errorf values without sentinel; they are told apart by
// the fixed beginning of their format strings (block_cache.go:62 "height %d cannot ..." / :69 "oldest
// height %d ...").
func pushErrKind(err error) string {
	switch {
	case err == nil:
		return "ok"
	case strings.HasPrefix(err.Error(), "oldest height "):
		return "err-oldest"
	case strings.HasPrefix(err.Error(), "height "):
		return "err-height"
	}
	return "err-other"
}

func (r *runner) step(w []string) string {
	const bad = "bad-op"
	if len(w) == 0 {
		return bad
	}
	if w[0] == "reset" {
		if len(w) != 2 {
			return bad
		}
		m, ok := sizeArg(w[1])
		if !ok {
			return bad
		}
		r.c = blockchain.VerifNewBlockCache(m)
		r.ctr = 0
		r.ref = ref{max: m, clean: m >= 1}
		return "ok"
	}
	if r.c == nil { // cannot happen: Ops[0] is a valid reset
		r.c = blockchain.VerifNewBlockCache(0)
		r.ref = ref{}
	}
	switch {
	case w[0] == "push" && len(w) == 3:
		id, ok1 := hexArg(w[1])
		h, ok2 := u32Arg(w[2])
		if !ok1 || !ok2 {
			return bad
		}
		b := r.newBlock(id, h)
		kind := pushErrKind(blockchain.VerifCachePush(r.c, b))
		r.refPush(b, kind)
		return kind
	case w[0] == "pop" && len(w) == 1:
		b := blockchain.VerifCachePop(r.c)
		if r.ref.clean {
			exp := r.ref.tip()
			if b != exp {
				r.fail("c20cache-pop-wrong", "pop returned %s, the newest cached block is %s", showBlk(b), showBlk(exp))
			} else if exp != nil {
				r.ref.win = r.ref.win[:len(r.ref.win)-1]
				r.ref.leave(exp)
			}
		}
		return showBlk(b)
	case w[0] == "last" && len(w) == 1:
		b, ok := blockchain.VerifCacheLast(r.c)
		if r.ref.clean {
			r.expect("c20cache-last-not-tip", "last()", b, ok, r.ref.tip())
		}
		return showOpt(b, ok)
	case w[0] == "get" && len(w) == 2:
		id, ok1 := hexArg(w[1])
		if !ok1 {
			return bad
		}
		b, ok := blockchain.VerifCacheGet(r.c, id)
		if r.ref.clean {
			r.expect("c20cache-get-wrong", "get("+corr.Hex(id)+")", b, ok, r.ref.byID(id))
		}
		return showOpt(b, ok)
	case w[0] == "byheight" && len(w) == 2:
		h, ok1 := u32Arg(w[1])
		if !ok1 {
			return bad
		}
		b, ok := blockchain.VerifCacheGetByHeight(r.c, h)
		if r.ref.clean {
			r.expect("c20cache-byheight-wrong", fmt.Sprintf("getByHeight(%d)", h), b, ok, r.ref.byHeight(h))
		}
		return showOpt(b, ok)
	case w[0] == "len" && len(w) == 1:
		n := blockchain.VerifCacheLen(r.c)
		if r.ref.clean && n != len(r.ref.win) {
			r.fail("c20cache-len-wrong", "len() = %d, %d blocks are cached", n, len(r.ref.win))
		}
		return strconv.Itoa(n)
	case w[0] == "replace" && len(w) == 2:
		l, ok := parseBlocks(w[1])
		if !ok {
			return bad
		}
		blocks := make([]*blockchain.Block, len(l))
		for i, e := range l {
			blocks[i] = r.newBlock(e.id, e.h)
		}
		blockchain.VerifCacheReplace(r.c, blocks)
		r.refReplace(blocks)
		return "ok"
	case w[0] == "dump" && len(w) == 1:
		return showDump(blockchain.VerifCacheDump(r.c))
	}
	return bad
}

func (r *runner) expect(sig, what string, b *blockchain.Block, ok bool, exp *blockchain.Block) {
	if !r.ref.clean { // one report per history
		return
	}
	switch {
	case exp == nil && (ok || b != nil):
		r.fail(sig, "%s returned %s, no such block is cached", what, showOpt(b, ok))
	case exp != nil && (!ok || b != exp):
		r.fail(sig, "%s returned %s, the cached block is %s", what, showOpt(b, ok), showBlk(exp))
	}
}

func (r *runner) refPush(b *blockchain.Block, kind string) {
	rf := &r.ref
	if !rf.clean {
		return
	}
	if t := rf.tip(); t != nil {
		if t.Header.Height == math.MaxUint32 {
			rf.clean = false // nothing is claimed above the last uint32 height
			return
		}
		if b.Header.Height != t.Header.Height+1 {
			if kind == "ok" {
				r.fail("c20cache-push-accepted", "push of height %d accepted on top of height %d", b.Header.Height, t.Header.Height)
			}
			return
		}
	}
	if kind != "ok" {
		r.fail("c20cache-push-refused", "push of %s on top of %s refused: %s", showBlk(b), showBlk(rf.tip()), kind)
		return
	}
	if rf.byID(b.Header.ID) != nil {
		rf.clean = false // block ids are assumed collision-free
		return
	}
	rf.win = append(rf.win, b)
	rf.trim()
}

func (r *runner) refReplace(blocks []*blockchain.Block) {
	rf := &r.ref
	if !rf.clean {
		return
	}
	seen := map[string]bool{}
	for i, b := range blocks {
		if seen[string(b.Header.ID)] || (i > 0 && (blocks[i-1].Header.Height == math.MaxUint32 || b.Header.Height != blocks[i-1].Header.Height+1)) {
			rf.clean = false
			return
		}
		seen[string(b.Header.ID)] = true
	}
	for _, b := range rf.win {
		rf.leave(b)
	}
	rf.win = append([]*blockchain.Block{}, blocks...)
	rf.trim()
}

// checkReaders: after every operation of a clean history all readers agree with the reference on the
// tip, the oldest cached block, the heights just outside the window and the blocks that just left it.
func (r *runner) checkReaders(full bool) {
	rf := &r.ref
	if !rf.clean {
		return
	}
	if n := blockchain.VerifCacheLen(r.c); n != len(rf.win) {
		r.fail("c20cache-len-wrong", "len() = %d, %d blocks are cached", n, len(rf.win))
		return
	}
	b, ok := blockchain.VerifCacheLast(r.c)
	r.expect("c20cache-last-not-tip", "last()", b, ok, rf.tip())
	if !rf.clean || len(rf.win) == 0 {
		return
	}
	check := []*blockchain.Block{rf.tip(), rf.win[0], rf.win[len(rf.win)/2]}
	if full {
		check = rf.win
	}
	for _, e := range check {
		b, ok = blockchain.VerifCacheGet(r.c, e.Header.ID)
		r.expect("c20cache-get-wrong", "get("+corr.Hex(e.Header.ID)+")", b, ok, e)
		b, ok = blockchain.VerifCacheGetByHeight(r.c, e.Header.Height)
		r.expect("c20cache-byheight-wrong", fmt.Sprintf("getByHeight(%d)", e.Header.Height), b, ok, e)
		if !rf.clean {
			return
		}
	}
	if lo := rf.win[0].Header.Height; lo > 0 {
		b, ok = blockchain.VerifCacheGetByHeight(r.c, lo-1)
		r.expect("c20cache-byheight-wrong", fmt.Sprintf("getByHeight(%d) (below the window)", lo-1), b, ok, nil)
	}
	if hi := rf.tip().Header.Height; hi < math.MaxUint32 && rf.clean {
		b, ok = blockchain.VerifCacheGetByHeight(r.c, hi+1)
		r.expect("c20cache-byheight-wrong", fmt.Sprintf("getByHeight(%d) (above the tip)", hi+1), b, ok, nil)
	}
	for _, g := range rf.gone {
		if !rf.clean {
			return
		}
		b, ok = blockchain.VerifCacheGet(r.c, g.Header.ID)
		r.expect("c20cache-get-wrong", "get("+corr.Hex(g.Header.ID)+") (left the cache)", b, ok, rf.byID(g.Header.ID))
		b, ok = blockchain.VerifCacheGetByHeight(r.c, g.Header.Height)
		r.expect("c20cache-byheight-wrong", fmt.Sprintf("getByHeight(%d) (left the cache)", g.Header.Height), b, ok, rf.byHeight(g.Header.Height))
	}
	if full && rf.clean {
		f := blockchain.VerifCacheDump(r.c)
		if len(f.CachedBlocks) != len(rf.win) || len(f.HeightIndex) != len(rf.win) || f.Size != len(rf.win) || f.CurrentHeight != rf.tip().Header.Height {
			r.fail("c20cache-fields-disagree", "window of %d blocks ending at height %d, but %d blocks / %d heights / size %d / currentHeight %d", len(rf.win), rf.tip().Header.Height, len(f.CachedBlocks), len(f.HeightIndex), f.Size, f.CurrentHeight)
		}
	}
}

func (prop) RunImpl(c corr.Case) ([]string, []corr.Fail) {
	r := &runner{}
	out := make([]string, len(c.Ops))
	for i, op := range c.Ops {
		r.op = i
		func() {
			defer func() {
				if p := recover(); p != nil {
					out[i] = "panic"
					r.fails = append(r.fails, corr.Fail{Sig: "c20cache-panic", Detail: fmt.Sprintf("%s: %v", op, p), Op: i})
					r.ref.clean = false
				}
			}()
			out[i] = r.step(strings.Fields(op))
			if r.c != nil {
				r.checkReaders(len(r.ref.win) <= 16 || i%64 == 0 || i == len(c.Ops)-1)
			}
		}()
	}
	return out, r.fails
}

// Classify: the behaviours a case exercised, from the ops and the implementation's outputs.
func (prop) Classify(c corr.Case, out []string) string {
	flags := map[string]bool{}
	size, max := 0, 0
	emptied := false
	ids := map[string]bool{}
	for i, op := range c.Ops {
		if i >= len(out) {
			break
		}
		w := strings.Fields(op)
		if len(w) == 0 {
			continue
		}
		if out[i] == "bad-op" {
			flags["malformed"] = true
			continue
		}
		switch w[0] {
		case "reset":
			m, _ := sizeArg(w[1])
			size, max, emptied = 0, m, false
			ids = map[string]bool{}
			if m == 0 {
				flags["cap0"] = true
			}
		case "push":
			switch out[i] {
			case "ok":
				if size > 0 && w[2] == "0" {
					flags["wrap32"] = true
				}
				if size >= max {
					flags["evict"] = true
				} else {
					size++
				}
				if size == 1 && max > 0 && emptied {
					flags["push-into-emptied"] = true
				}
				if ids[w[1]] {
					flags["id-reused"] = true
				}
				ids[w[1]] = true
				if w[2] == "4294967295" {
					flags["height-max"] = true
				}
			case "err-height":
				flags["refused"] = true
			case "err-oldest":
				flags["oldest-missing"] = true
			}
		case "pop":
			if size == 0 {
				flags["pop-empty"] = true
			} else {
				size--
				if size == 0 {
					flags["drained"] = true
					emptied = true
				}
				if out[i] == "nil" {
					flags["pop-nil-nonempty"] = true
				}
			}
		case "replace":
			l, _ := parseBlocks(w[1])
			switch {
			case len(l) == 0:
				flags["replace-empty"] = true
				emptied = true
			case len(l) > max:
				flags["replace-truncated"] = true
			case size == 1:
				flags["refill"] = true
			default:
				flags["replace"] = true
			}
			size = len(l)
			if size > max {
				size = max
			}
		case "last":
			if out[i] == "none" && i > 1 {
				flags["last-none"] = true
			}
		}
	}
	if len(flags) == 0 {
		return ""
	}
	fl := make([]string, 0, len(flags))
	for f := range flags {
		fl = append(fl, f)
	}
	sort.Strings(fl)
	tag := c.Tag
	if strings.HasPrefix(tag, "corpus:") || tag == "replay" {
		tag = "corpus"
	}
	return tag + ":" + strings.Join(fl, "+")
}

// ---------------------------------------------------------------------------------------------
// generators

type sblk struct {
	id string // hex
	h  uint32
}

type gen struct {
	rng    *rand.Rand
	ops    []string
	nextID int
	long   bool // 32-byte ids (as real block ids) instead of 2-byte ones
	salt   byte
}

func (g *gen) emit(format string, a ...any) { g.ops = append(g.ops, fmt.Sprintf(format, a...)) }

func (g *gen) freshID() string {
	g.nextID++
	b := []byte{byte(g.nextID >> 8), byte(g.nextID)}
	if g.long {
		l := make([]byte, 32)
		for i := range l {
			l[i] = g.salt + byte(i)*7
		}
		l[0], l[31] = b[0], b[1]
		b = l
	}
	return hex.EncodeToString(b)
}

func blockList(bs []sblk) string {
	if len(bs) == 0 {
		return "-"
	}
	p := make([]string, len(bs))
	for i, b := range bs {
		p[i] = b.id + ":" + strconv.FormatUint(uint64(b.h), 10)
	}
	return strings.Join(p, ",")
}

var smallCaps = []int{1, 2, 3, 4, 5, 6}

func genesisHeight(rng *rand.Rand, room int) uint32 {
	switch rng.Intn(8) {
	case 0, 1:
		return 0
	case 2:
		return 1
	case 3:
		return uint32(2 + rng.Intn(20))
	case 4:
		return uint32(1<<31) - uint32(rng.Intn(4))
	case 5:
		return uint32(rng.Int63n(1 << 32))
	default: // the chain tops out at (or just below) the last uint32 height
		return math.MaxUint32 - uint32(rng.Intn(room+1))
	}
}

// chainSim emits the cache operations of a Chain over a simulated block store: genesis / PrepareCache,
// AddBlock (push), RemoveBlock (last, len, then pop or the refill through replace), and the readers.
type chainSim struct {
	*gen
	cap   int
	chain []sblk // the stored chain, genesis first
	win   int    // number of cached blocks
	dumpP int    // probability (percent) of a dump after a write
}

func (s *chainSim) tip() sblk { return s.chain[len(s.chain)-1] }

func (s *chainSim) maybeDump() {
	if s.rng.Intn(100) < s.dumpP {
		s.emit("dump")
	}
}

func (s *chainSim) cached(b sblk) {
	s.emit("push %s %d", b.id, b.h)
	if s.win < s.cap {
		s.win++
	}
	s.maybeDump()
}

// prepareCache: chain.go PrepareCache — Cached(genesis)?, then the blocks from max(genesis, last-cap) on.
func (s *chainSim) prepareCache() {
	g := s.chain[0].h
	s.emit("byheight %d", g)
	from := 0
	if n := len(s.chain) - 1 - s.cap; n > 0 {
		from = n
	}
	for _, b := range s.chain[from:] {
		s.cached(b)
	}
}

func (s *chainSim) addBlock(wrap bool) bool {
	t := s.tip()
	if t.h == math.MaxUint32 && !wrap {
		return false
	}
	b := sblk{s.freshID(), t.h + 1}
	s.chain = append(s.chain, b)
	s.cached(b)
	return true
}

// removeBlock: chain.go RemoveBlock.
func (s *chainSim) removeBlock() bool {
	s.emit("last")
	if len(s.chain) == 1 {
		return false // genesis block cannot be removed
	}
	s.emit("len")
	s.chain = s.chain[:len(s.chain)-1]
	if s.win == 1 {
		from := len(s.chain) - s.cap
		if from < 0 {
			from = 0
		}
		s.emit("replace %s", blockList(s.chain[from:]))
		s.win = len(s.chain) - from
	} else {
		s.emit("pop")
		s.win--
	}
	s.maybeDump()
	return true
}

func (s *chainSim) read() {
	n := len(s.chain)
	pick := func() sblk {
		switch s.rng.Intn(5) {
		case 0:
			return s.tip()
		case 1: // oldest cached
			return s.chain[n-s.win]
		case 2: // just below the window
			if n-s.win-1 >= 0 {
				return s.chain[n-s.win-1]
			}
			return s.chain[0]
		case 3:
			return s.chain[0]
		default:
			return s.chain[s.rng.Intn(n)]
		}
	}
	switch s.rng.Intn(10) {
	case 9: // a block that does not extend the tip (received twice, stale, from the future): refused
		t := s.tip().h
		hs := []uint32{t, t + 2, t - 1, s.chain[0].h, t - uint32(s.cap) + 1, t + uint32(s.cap), uint32(s.rng.Int63n(1 << 32))}
		if h := hs[s.rng.Intn(len(hs))]; h != t+1 {
			s.emit("push %s %d", s.freshID(), h)
			s.maybeDump()
		}
	case 0, 1:
		s.emit("last")
	case 2:
		s.emit("len")
	case 3, 4:
		s.emit("get %s", pick().id)
	case 5:
		s.emit("get %s", s.freshID()) // unknown id
	case 6, 7:
		s.emit("byheight %d", pick().h)
	default:
		h := []uint32{s.tip().h + 1, s.tip().h + 2, 0, math.MaxUint32, s.chain[0].h - 1, uint32(s.rng.Int63n(1 << 32))}
		s.emit("byheight %d", h[s.rng.Intn(len(h))])
	}
}

func newGen(rng *rand.Rand) *gen {
	return &gen{rng: rng, long: rng.Intn(10) == 0, salt: byte(rng.Intn(256)), nextID: rng.Intn(200)}
}

// genChain: a whole life of a chain. big = capacity 515 (the default MaxBlockCache+...; long bursts, few dumps).
func genChain(rng *rand.Rand, big bool, wrap bool) []string {
	g := newGen(rng)
	cap := smallCaps[rng.Intn(len(smallCaps))]
	if big {
		cap = 515
		g.long = false
	}
	s := &chainSim{gen: g, cap: cap, dumpP: 60}
	if big {
		s.dumpP = 1
	}
	burst := func() int {
		switch rng.Intn(6) {
		case 0:
			return 1
		case 1:
			return cap
		case 2:
			return cap + 1
		case 3:
			return 2*cap + 1 + rng.Intn(3)
		case 4:
			if cap > 1 {
				return cap - 1
			}
			return 1
		default:
			return 1 + rng.Intn(2*cap+2)
		}
	}
	room := 3*cap + 6
	gh := genesisHeight(rng, room)
	if wrap {
		gh = math.MaxUint32 - uint32(rng.Intn(cap+3))
	}
	s.chain = []sblk{{g.freshID(), gh}}
	g.emit("reset %d", cap)
	if rng.Intn(3) == 0 { // restart over an existing chain: PrepareCache
		n := burst() - 1
		for i := 0; i < n && s.tip().h != math.MaxUint32; i++ {
			s.chain = append(s.chain, sblk{g.freshID(), s.tip().h + 1})
		}
		s.prepareCache()
	} else { // fresh database: the genesis block is added
		s.emit("byheight %d", gh)
		s.cached(s.chain[0])
	}
	phases := 2 + rng.Intn(5)
	if big {
		phases = 2 + rng.Intn(3)
	}
	for p := 0; p < phases; p++ {
		n := burst()
		switch rng.Intn(5) {
		case 0, 1: // grow
			for i := 0; i < n; i++ {
				if !s.addBlock(wrap) {
					break
				}
				if rng.Intn(4) == 0 {
					s.read()
				}
			}
		case 2, 3: // shrink (reverting a fork)
			for i := 0; i < n; i++ {
				if !s.removeBlock() {
					break
				}
				if rng.Intn(4) == 0 {
					s.read()
				}
			}
		default: // churn at the tip
			for i := 0; i < n; i++ {
				if rng.Intn(2) == 0 {
					s.addBlock(wrap)
				} else {
					s.removeBlock()
				}
				s.read()
			}
		}
		for i := rng.Intn(3); i > 0; i-- {
			s.read()
		}
	}
	s.emit("last")
	s.emit("dump")
	return g.ops
}

// genDirect: the cache used directly (not through Chain): pops down to empty and beyond, pushes into the
// emptied cache at any height, pushes that must be refused, replace with more / fewer / no blocks.
func genDirect(rng *rand.Rand) []string {
	g := newGen(rng)
	cap := smallCaps[rng.Intn(len(smallCaps))]
	g.emit("reset %d", cap)
	var win []sblk // expected window (only used to pick interesting arguments)
	cur := genesisHeight(rng, 2*cap+4)
	n := 6 + rng.Intn(30)
	for i := 0; i < n; i++ {
		switch r := rng.Intn(100); {
		case r < 35: // consecutive push
			h := cur
			if len(win) > 0 {
				if cur == math.MaxUint32 {
					continue
				}
				h = cur + 1
			}
			b := sblk{g.freshID(), h}
			g.emit("push %s %d", b.id, b.h)
			win = append(win, b)
			if len(win) > cap {
				win = win[1:]
			}
			cur = h
		case r < 50: // a push that must be refused (when the cache is not empty)
			hs := []uint32{cur, cur + 2, cur - 1, 0, math.MaxUint32, cur + uint32(cap), cur - uint32(cap) + 1, uint32(rng.Int63n(1 << 32))}
			h := hs[rng.Intn(len(hs))]
			if len(win) > 0 && h == cur+1 {
				continue
			}
			id := g.freshID()
			g.emit("push %s %d", id, h)
			if len(win) == 0 { // the empty cache takes any height
				win = []sblk{{id, h}}
				cur = h
			}
		case r < 72: // pops, possibly a run down to empty and one more
			k := 1
			if rng.Intn(3) == 0 {
				k = len(win) + rng.Intn(2)
			}
			for j := 0; j < k; j++ {
				g.emit("pop")
				if len(win) > 0 {
					win = win[:len(win)-1]
					cur--
				}
			}
			if len(win) == 0 && rng.Intn(2) == 0 { // the next push may start anywhere
				cur = genesisHeight(rng, 2*cap+4)
			}
		case r < 82: // replace with k consecutive blocks
			ks := []int{0, 1, cap - 1, cap, cap + 1, 2*cap + 1}
			k := ks[rng.Intn(len(ks))]
			if k < 0 {
				k = 0
			}
			start := genesisHeight(rng, k+2)
			if uint64(start)+uint64(k) > 1<<32 {
				start = math.MaxUint32 - uint32(k) + 1
			}
			bs := make([]sblk, k)
			for j := range bs {
				bs[j] = sblk{g.freshID(), start + uint32(j)}
			}
			g.emit("replace %s", blockList(bs))
			if k > cap {
				bs = bs[k-cap:]
			}
			win = bs
			if len(win) > 0 {
				cur = win[len(win)-1].h
			}
		default: // readers
			switch rng.Intn(6) {
			case 0:
				g.emit("last")
			case 1:
				g.emit("len")
			case 2:
				if len(win) > 0 {
					g.emit("get %s", win[rng.Intn(len(win))].id)
				} else {
					g.emit("get %s", g.freshID())
				}
			case 3:
				g.emit("byheight %d", cur-uint32(rng.Intn(cap+2)))
			case 4:
				g.emit("byheight %d", cur+1)
			default:
				g.emit("dump")
			}
		}
		if rng.Intn(3) == 0 {
			g.emit("dump")
		}
	}
	g.emit("last")
	g.emit("dump")
	return g.ops
}

// genSoup: anything goes — tiny id alphabet (duplicates, the empty id), capacities from 0, heights around
// the current one including both ends of uint32, replace with non-consecutive / descending / duplicate
// entries. No claim is made by the oracle on these histories; model and code must still agree.
func genSoup(rng *rand.Rand) []string {
	idsA := []string{"-", "aa", "bb", "cc", "aabb", "00", "ff"}
	caps := []int{0, 1, 1, 2, 2, 3, 4, 4294967296 + 2, math.MaxInt64}
	ops := []string{fmt.Sprintf("reset %d", caps[rng.Intn(len(caps))])}
	var cur uint32
	switch rng.Intn(4) {
	case 0:
		cur = 0
	case 1:
		cur = math.MaxUint32 - uint32(rng.Intn(3))
	default:
		cur = uint32(rng.Intn(6))
	}
	id := func() string { return idsA[rng.Intn(len(idsA))] }
	height := func() uint32 {
		switch rng.Intn(8) {
		case 0:
			return cur
		case 1:
			return cur - 1
		case 2:
			return cur + 2
		case 3:
			return uint32(rng.Intn(8))
		case 4:
			return math.MaxUint32 - uint32(rng.Intn(2))
		default:
			return cur + 1
		}
	}
	n := 4 + rng.Intn(28)
	for i := 0; i < n; i++ {
		switch r := rng.Intn(100); {
		case r < 35:
			h := height()
			ops = append(ops, fmt.Sprintf("push %s %d", id(), h))
			if h == cur+1 {
				cur = h
			} else if rng.Intn(3) == 0 {
				cur = h
			}
		case r < 55:
			ops = append(ops, "pop")
			if rng.Intn(2) == 0 {
				cur--
			}
		case r < 65:
			k := rng.Intn(6)
			bs := make([]sblk, k)
			h := height()
			for j := range bs {
				bs[j] = sblk{id(), h}
				switch rng.Intn(6) {
				case 0:
					h = height()
				case 1: // same height again
				case 2:
					h--
				default:
					h++
				}
			}
			ops = append(ops, "replace "+blockList(bs))
			if k > 0 {
				cur = bs[k-1].h
			}
		case r < 72:
			ops = append(ops, "last")
		case r < 78:
			ops = append(ops, "len")
		case r < 85:
			ops = append(ops, "get "+id())
		case r < 92:
			ops = append(ops, fmt.Sprintf("byheight %d", height()))
		default:
			ops = append(ops, "dump")
		}
		if rng.Intn(2) == 0 {
			ops = append(ops, "dump")
		}
	}
	ops = append(ops, "last", "len", "dump")
	return ops
}

// genMalformed: a valid prefix with syntactically broken lines in between; a bad op changes nothing.
func genMalformed(rng *rand.Rand) []string {
	badOps := []string{
		"reset", "reset x", "reset -1", "reset 1 2", "reset 9223372036854775808", "reset 1_0", "reset +1",
		"push", "push aa", "push aa 1 2", "push a 1", "push 0g 1", "push aa 4294967296", "push aa -1", "push aa 1_0",
		"push aa 99999999999999999999999999", "push aa 0x10", "push aa +5", "push aa 1.0", "push AA",
		"pop 1", "last 1", "len x", "dump all", "get", "get aa bb", "get a", "get zz", "byheight", "byheight -1",
		"byheight 4294967296", "byheight aa", "byheight 1 2",
		"replace", "replace aa", "replace aa:1:2", "replace aa:1,", "replace ,aa:1", "replace aa:1,,bb:2", "replace aa:x",
		"replace aa:4294967296", "replace a:1", "replace aa:1 bb:2", "replace -,-", "replace aa:1,-",
		"Push aa 1", "PUSH aa 1", "peek", "clear", "x", "reset", "push - -", "replace :",
	}
	ops := []string{fmt.Sprintf("reset %d", 1+rng.Intn(3))}
	cur := uint32(rng.Intn(5))
	first := true
	n := 4 + rng.Intn(14)
	for i := 0; i < n; i++ {
		switch rng.Intn(7) {
		case 0, 1:
			if !first {
				cur++
			}
			first = false
			ops = append(ops, fmt.Sprintf("push %02x %d", rng.Intn(256), cur))
		case 2:
			ops = append(ops, "pop")
			if !first {
				cur--
			}
		case 3:
			ops = append(ops, "dump")
		case 4: // valid, but unusual spellings both sides must read alike
			alt := []string{"push AB 007", "push aB 7", "replace AA:01,Bb:002", "replace :5", "replace :5,-:6", "get AA", "byheight 0005", "reset 003", "push  aa   3", " len", "dump "}
			ops = append(ops, alt[rng.Intn(len(alt))])
			first = true
		default:
			ops = append(ops, badOps[rng.Intn(len(badOps))])
		}
	}
	ops = append(ops, "last", "len", "dump")
	return ops
}

// directed: the corner cases named in the task, always run.
func directed() []corr.Case {
	mk := func(tag string, ops ...string) corr.Case { return corr.Case{Ops: ops, Tag: tag} }
	return []corr.Case{
		mk("directed", "reset 2", "last", "len", "pop", "get aa", "byheight 0", "dump"),
		mk("directed", "reset 1", "push aa 5", "push bb 6", "dump", "get aa", "byheight 5", "last", "pop", "last", "len", "dump", "push cc 9", "last", "dump"),
		mk("directed", "reset 3", "push aa 4294967294", "push bb 4294967295", "dump", "push cc 0", "push dd 1", "push ee 2", "dump", "byheight 4294967295", "byheight 0", "pop", "pop", "pop", "pop", "dump"),
		mk("directed", "reset 2", "push aa 0", "pop", "dump", "push bb 7", "last", "dump", "pop", "pop", "dump"),
		mk("directed", "reset 3", "push aa 5", "push bb 6", "push aa 7", "dump", "push cc 8", "dump", "byheight 7", "get aa", "last", "pop", "pop", "dump"),
		mk("directed", "reset 2", "replace aa:5,bb:9,cc:5", "dump", "last", "pop", "dump", "pop", "dump", "last", "len", "push dd 4", "dump"),
		mk("directed", "reset 2", "replace aa:5,aa:6", "dump", "pop", "last", "byheight 5", "len", "dump"),
		mk("directed", "reset 0", "push aa 1", "dump", "replace aa:1,bb:2", "dump", "pop", "last", "len"),
		mk("directed", "reset 2", "push aa 3", "push bb 4", "push cc 6", "push dd 3", "push ee 4", "push ff 5", "dump", "replace -", "dump", "last", "push aa 100", "dump"),
		mk("directed", "reset 2", "push - 3", "push aa 4", "get -", "pop", "pop", "pop", "dump", "replace -:1,aa:3", "pop", "pop", "dump"),
		mk("directed", "reset 3", "replace aa:7,bb:8,cc:9,dd:10,ee:11", "dump", "push ff 12", "dump", "byheight 9", "byheight 10", "get cc"),
		mk("directed", "reset 2", "replace aa:1,bb:2", "pop", "push cc 2", "dump", "push dd 3", "dump", "last"),
	}
}

func (prop) Generate(rng *rand.Rand, tier string) []corr.Case {
	n, nBig := 8000, 25
	if tier == "thorough" {
		n, nBig = 200000, 600
	}
	cases := directed()
	for i := 0; i < n; i++ {
		switch r := rng.Intn(100); {
		case r < 45:
			cases = append(cases, corr.Case{Ops: genChain(rng, false, false), Tag: "chain"})
		case r < 52:
			cases = append(cases, corr.Case{Ops: genChain(rng, false, true), Tag: "chain-wrap"})
		case r < 72:
			cases = append(cases, corr.Case{Ops: genDirect(rng), Tag: "direct"})
		case r < 90:
			cases = append(cases, corr.Case{Ops: genSoup(rng), Tag: "soup"})
		default:
			cases = append(cases, corr.Case{Ops: genMalformed(rng), Tag: "malformed"})
		}
	}
	for i := 0; i < nBig; i++ {
		cases = append(cases, corr.Case{Ops: genChain(rng, true, i%5 == 4), Tag: "chain-515"})
	}
	return cases
}
