package c19

import (
	"bytes"
	"fmt"
	"strconv"
	"strings"

	lsync "github.com/LiskHQ/lisk-engine/pkg/consensus/sync"
	"github.com/LiskHQ/lisk-engine/pkg/p2p"

	"verifharness/corr"
)

type tipSpec struct {
	mhp, height uint32
	id          string
}

func parseTips(w []string) ([]tipSpec, error) {
	tips := []tipSpec{}
	for _, t := range w {
		if t == "-" {
			continue
		}
		f := strings.Split(t, ".")
		if len(f) != 3 {
			return nil, fmt.Errorf("bad tip %q", t)
		}
		m, err1 := strconv.ParseUint(f[0], 10, 32)
		h, err2 := strconv.ParseUint(f[1], 10, 32)
		if err1 != nil || err2 != nil {
			return nil, fmt.Errorf("bad tip %q", t)
		}
		tips = append(tips, tipSpec{uint32(m), uint32(h), f[2]})
	}
	return tips, nil
}

func tipID(name string) []byte {
	return append([]byte(name), bytes.Repeat([]byte{0x2e}, 32-len(name))...)
}

// bestAllowed is the model-free reference: the peers a correct selection may return.
func bestAllowed(tips []tipSpec) map[int]bool {
	res := map[int]bool{}
	if len(tips) == 0 {
		return res
	}
	var maxMhp, maxH uint32
	for _, t := range tips {
		if t.mhp > maxMhp {
			maxMhp = t.mhp
		}
	}
	for _, t := range tips {
		if t.mhp == maxMhp && t.height > maxH {
			maxH = t.height
		}
	}
	count := map[string]int{}
	for _, t := range tips {
		if t.mhp == maxMhp && t.height == maxH {
			count[t.id]++
		}
	}
	best := 0
	for _, c := range count {
		if c > best {
			best = c
		}
	}
	for i, t := range tips {
		if t.mhp == maxMhp && t.height == maxH && count[t.id] == best {
			res[i] = true
		}
	}
	return res
}

// runBest evaluates getBestNodeInfo many times on the same list (map iteration order and
// rand.Intn vary between evaluations) and returns the set of peers it answered.
func runBest(w []string) (string, []corr.Fail) {
	tips, err := parseTips(w)
	if err != nil {
		return "bad-op", nil
	}
	infos := make([]*lsync.NodeInfo, len(tips))
	index := map[*lsync.NodeInfo]int{}
	ids := map[string]bool{}
	for i, t := range tips {
		infos[i] = lsync.VerifC19NewNodeInfo(t.height, t.mhp, 2, tipID(t.id), p2p.PeerID(strconv.Itoa(i)))
		index[infos[i]] = i
		ids[t.id] = true
	}
	if len(tips) == 0 {
		r, err := lsync.VerifC19BestNodeInfo(infos)
		if err == nil || r != nil {
			return "ok-on-empty", []corr.Fail{{Sig: "c19-best-peer-empty-no-error", Detail: "getBestNodeInfo(nil) returned no error", Op: -1}}
		}
		return "err", nil
	}
	// the least likely answer has probability >= 1/8 (first key visited) * 1/len(group)
	stable := 700
	if len(ids) > 2 {
		stable = 3000
	}
	allowed := bestAllowed(tips)
	seen := map[int]bool{}
	var fails []corr.Fail
	since := 0
	for evals := 0; since < stable && evals < 200000; evals++ {
		r, err := lsync.VerifC19BestNodeInfo(infos)
		if err != nil || r == nil {
			return "err", []corr.Fail{{Sig: "c19-best-peer-error", Detail: fmt.Sprintf("getBestNodeInfo failed on %v: %v", w, err), Op: -1}}
		}
		i, ok := index[r]
		if !ok {
			return "foreign", []corr.Fail{{Sig: "c19-best-peer-foreign", Detail: "answer is not an element of the input", Op: -1}}
		}
		if !seen[i] {
			seen[i] = true
			since = 0
			if !allowed[i] && len(fails) == 0 {
				fails = append(fails, corr.Fail{Sig: "c19-best-peer-not-best", Detail: fmt.Sprintf("tips %v: answered peer %d (%v); best peers are %v", w, i, tips[i], sortedInts(allowed)), Op: -1})
			}
		} else {
			since++
		}
	}
	return joinInts(sortedInts(seen)), fails
}

// ---------------------------------------------------------------------------------------------
// height helpers

func atoiU32(s string) (uint32, bool) {
	v, err := strconv.ParseUint(s, 10, 32)
	return uint32(v), err == nil
}

func runGap(w []string) (string, []corr.Fail) {
	if len(w) != 4 {
		return "bad-op", nil
	}
	start, ok1 := atoiU32(w[0])
	minimum, ok2 := atoiU32(w[1])
	gap, err3 := strconv.Atoi(w[2])
	num, err4 := strconv.Atoi(w[3])
	if !ok1 || !ok2 || err3 != nil || err4 != nil {
		return "bad-op", nil
	}
	res := lsync.VerifC19HeightWithGap(start, minimum, gap, num)
	var fails []corr.Fail
	bad := func(msg string) {
		fails = append(fails, corr.Fail{Sig: "c19-heights-arith", Detail: fmt.Sprintf("getHeightWithGap(%d,%d,%d,%d)=%v: %s", start, minimum, gap, num, res, msg), Op: -1})
	}
	// properties claimed when nothing overflows uint32
	if gap >= 0 && num >= 0 && uint64(minimum)+uint64(num)*uint64(gap) < 1<<32 {
		hi := start
		if minimum > hi {
			hi = minimum
		}
		for i, h := range res {
			if h < minimum || h > hi {
				bad("element outside [minimum, max(start,minimum)]")
				break
			}
			if i > 0 && gap > 0 && res[i-1]-h != uint32(gap) {
				bad("not descending in steps of gap")
				break
			}
		}
		switch {
		case start <= minimum:
			if len(res) != 1 || res[0] != minimum {
				bad("start <= minimum must give [minimum]")
			}
		case num >= 2:
			if len(res) == 0 || res[0] != start {
				bad("first element must be start")
			}
			if len(res) > num-1 {
				bad("more than num-1 elements")
			}
		default:
			if len(res) != 0 {
				bad("num <= 1 must give no element")
			}
		}
	}
	return joinU32(res), fails
}

func runLastHeights(w []string) (string, []corr.Fail) {
	if len(w) != 2 {
		return "bad-op", nil
	}
	start, ok1 := atoiU32(w[0])
	num, err2 := strconv.Atoi(w[1])
	if !ok1 || err2 != nil {
		return "bad-op", nil
	}
	res := lsync.VerifC19LastHeights(start, num)
	var fails []corr.Fail
	want := num - 1
	if want < 0 {
		want = 0
	}
	if uint64(want) > uint64(start)+1 {
		want = int(start) + 1
	}
	okAll := len(res) == want
	for i, h := range res {
		if h != start-uint32(i) {
			okAll = false
		}
	}
	if !okAll {
		fails = append(fails, corr.Fail{Sig: "c19-heights-arith", Detail: fmt.Sprintf("getLastHeights(%d,%d)=%v: want start, start-1, ... (%d elements)", start, num, res, want), Op: -1})
	}
	return joinU32(res), fails
}

func runStartSearch(w []string) (string, []corr.Fail) {
	if len(w) != 2 {
		return "bad-op", nil
	}
	height, ok1 := atoiU32(w[0])
	r, err2 := strconv.Atoi(w[1])
	if !ok1 || err2 != nil || r < 1 {
		return "bad-op", nil
	}
	res := lsync.VerifC19CommonBlockStartSearchHeight(height, r)
	var fails []corr.Fail
	okAll := res <= height && uint64(res)%uint64(r) == 0 && uint64(height-res) <= uint64(r) && (height == 0 || res < height)
	if !okAll {
		fails = append(fails, corr.Fail{Sig: "c19-heights-arith", Detail: fmt.Sprintf("getCommonBlockStartSearchHeight(%d,%d)=%d: want the largest multiple of the round length below the height", height, r, res), Op: -1})
	}
	return strconv.FormatUint(uint64(res), 10), fails
}
