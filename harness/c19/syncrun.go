package c19

import (
	"bytes"
	"context"
	"errors"
	"fmt"
	"strconv"
	"strings"
	"sync/atomic"
	"time"

	"github.com/LiskHQ/lisk-engine/pkg/blockchain"
	"github.com/LiskHQ/lisk-engine/pkg/codec"
	lsync "github.com/LiskHQ/lisk-engine/pkg/consensus/sync"
	"github.com/LiskHQ/lisk-engine/pkg/p2p"

	"verifharness/corr"
	"verifharness/node"
)

// behav is the behaviour of the peer the requester synchronises with.
type behav struct {
	cap       int    // > 0: at most that many blocks per getBlocksFromId response
	stop      int    // >= 0: blocks above that height are never served
	badStatic int    // >= 0: the block of that height fails Block.Validate (all later blocks relinked)
	badExec   int    // >= 0: the block of that height passes Validate but cannot be applied
	common    string // "", "none" or a token: forced answer to getHighestCommonBlock
	force     string // "", "fast", "block": run that synchroniser directly instead of Executer.process
	restart   bool   // C04SYNC: the requester node is restarted (new Chain / Executer over the same database) right before the synchronisation
	syncing   bool   // C04SYNC: forced synchroniser: the Executer's syncying flag is set, as Executer.process does around syncer.Sync
	target    int    // >= 0: the block the peer announced (received block, answer to getLastBlock) is the one of
	// that height although the peer's chain is longer: the peer kept growing after the announcement
	sweep    bool   // not an op option: the responder serves a geometry sweep (hundreds of requests within seconds)
	extra    string // more connected peers, one letter each (multipeer.go)
	mainFail bool   // `main=e`: the announcing peer answers getLastBlock with an error
	// failure geometry (failgeo.go)
	failAt  int // >= 0: getBlocksFromId for a start block of that height or above is answered with an error
	muteAt  int // >= 0: ... is never answered (the requester's request times out)
	preTemp int // > 0: the requester's temp block table holds stale copies of its top blocks before the synchronisation
	// state family "finality was reached and the blocks that carried it were reverted" (rollback.go): `rb=<via><k>`
	rbVia    byte // 'd' deleteBlock x k, 'b' block synchronisation that deletes k blocks and then fails, 't' tie-break replacement of the tip, 'f' aborted fast synchronisation (restore)
	rbK      int
	listenIP string // rollback.go: loopback address of the responder ("" = 127.0.0.1)
	dlCount  *int64 // rollback.go: counts the getBlocksFromId requests the responder receives
}

func parseBehav(w []string) behav {
	b := behav{stop: -1, badStatic: -1, badExec: -1, target: -1, failAt: -1, muteAt: -1}
	if v, ok := kvInt(w, "fail"); ok {
		b.failAt = v
	}
	if v, ok := kvInt(w, "mute"); ok {
		b.muteAt = v
	}
	if v, ok := kvInt(w, "pretemp"); ok {
		b.preTemp = v
	}
	if v, ok := kvInt(w, "cap"); ok {
		b.cap = v
	}
	if v, ok := kvInt(w, "stop"); ok {
		b.stop = v
	}
	if v, ok := kvInt(w, "badstatic"); ok {
		b.badStatic = v
	}
	if v, ok := kvInt(w, "badexec"); ok {
		b.badExec = v
	}
	b.common, _ = kvStr(w, "common")
	b.force, _ = kvStr(w, "force")
	if v, ok := kvInt(w, "target"); ok {
		b.target = v
	}
	b.extra, _ = kvStr(w, "extra")
	b.rbVia, b.rbK = parseRollback(w) // rollback.go
	if v, _ := kvStr(w, "main"); v == "e" {
		b.mainFail = true
	}
	// C04SYNC: options of the pseudo-property C04SYNC (c04sync.go)
	if v, ok := kvInt(w, "restart"); ok && v == 1 {
		b.restart = true
	}
	if v, ok := kvInt(w, "sy"); ok && v == 1 {
		b.syncing = true
	}
	return b
}

func (b behav) honest() bool {
	return b.cap == 0 && b.stop < 0 && b.badStatic < 0 && b.badExec < 0 && b.common == "" && b.failAt < 0 && b.muteAt < 0
}

// downloadFails: the download of the blocks above the common block (height `common`) up to height
// `target` meets the failure the behaviour describes (error reply, silence, missing or statically invalid block).
func downloadFails(b behav, common, target int) bool {
	step := b.cap
	if step <= 0 {
		step = lsync.VerifC19MaxBlocksPerResponse
	}
	for s := common; s < target; s += step {
		if (b.failAt >= 0 && s >= b.failAt) || (b.muteAt >= 0 && s >= b.muteAt) {
			return true
		}
	}
	return (b.stop >= 0 && b.stop < target) || (b.badStatic > common && b.badStatic <= target)
}

func (b behav) kind() string {
	switch {
	case b.badStatic >= 0:
		return "badstatic"
	case b.badExec >= 0:
		return "badexec"
	case b.common != "":
		return "liecommon"
	case b.failAt >= 0:
		return "peererror"
	case b.muteAt >= 0:
		return "timeout"
	case b.stop >= 0:
		return "truncated"
	case b.cap > 0:
		return "smallsegments"
	}
	return "honest"
}

// attackerChain: the responder chain with the block of height bad tampered with (and therefore a
// new id) and all later blocks relinked to it. Only the tampered block matters for validity: the
// blocks after it are never applied.
func attackerChain(pBlocks []*blockchain.Block, bad int, static bool) ([]*blockchain.Block, map[string]string, error) {
	if bad <= 0 || bad >= len(pBlocks) {
		return nil, nil, fmt.Errorf("c19: tampered height %d outside the chain", bad)
	}
	out := append([]*blockchain.Block{}, pBlocks[:bad]...)
	toks := map[string]string{}
	prev := pBlocks[bad-1].Header.ID
	for h := bad; h < len(pBlocks); h++ {
		b, err := node.CopyBlock(pBlocks[h])
		if err != nil {
			return nil, nil, err
		}
		b.Header.PreviousBlockID = append(codec.Hex{}, prev...)
		if h == bad {
			if static {
				b.Header.Signature = b.Header.Signature[:len(b.Header.Signature)-1]
			} else {
				b.Header.Signature[0] ^= 1
			}
		}
		b.Init()
		toks[string(b.Header.ID)] = "a" + strconv.Itoa(h)
		prev = b.Header.ID
		out = append(out, b)
	}
	return out, toks, nil
}

// newResponder starts a p2p connection on loopback that answers the three sync endpoints. An
// honest responder runs the REAL handlers of a Syncer over the responder node's chain; the other
// behaviours are served by the harness from an explicit block list.
func newResponder(c *chains, b behav, served []*blockchain.Block, armed *atomic.Bool, quit chan struct{}) (*p2p.Connection, error) {
	listen := "/ip4/127.0.0.1/tcp/0"
	if b.listenIP != "" {
		listen = "/ip4/" + b.listenIP + "/tcp/0"
	}
	conn := p2p.NewConnection(node.NopLogger(), &p2p.Config{ChainID: c.p.Cfg.ChainID, Addresses: []string{listen}})
	syncer := lsync.NewSyncer(c.p.Chain, c.p.BlockSlot(), conn, node.NopLogger(), nil, nil)
	last := syncer.HandleRPCEndpointGetLastBlock()
	common := syncer.HandleRPCEndpointGetHighestCommonBlock()
	blocks := syncer.HandleRPCEndpointGetBlocksFromID()
	if b.target >= 0 && b.target < len(served) {
		// an honest peer that has grown since: it reports the block it announced, everything else is
		// answered from its (longer) chain
		last = func(w p2p.ResponseWriter, r *p2p.Request) { w.Write(served[b.target].Encode()) }
	}
	if !b.honest() {
		if b.target < 0 {
			last = func(w p2p.ResponseWriter, r *p2p.Request) { w.Write(served[len(served)-1].Encode()) }
		}
		if b.common == "none" {
			common = func(w p2p.ResponseWriter, r *p2p.Request) { w.Write(nil) }
		} else if b.common != "" {
			id, err := c.resolve(b.common)
			if err != nil {
				return nil, err
			}
			common = func(w p2p.ResponseWriter, r *p2p.Request) {
				w.Write((&lsync.GetHighestCommonBlockResponse{ID: id}).Encode())
			}
		}
		blocks = func(w p2p.ResponseWriter, r *p2p.Request) {
			req := &lsync.GetBlocksFromIDRequest{}
			if r.Data == nil || req.Decode(r.Data) != nil || len(req.ID) != 32 {
				w.Error(errors.New("bad request"))
				return
			}
			idx := -1
			for i, blk := range served {
				if bytes.Equal(blk.Header.ID, req.ID) {
					idx = i
				}
			}
			if idx < 0 {
				w.Error(errors.New("unknown block"))
				return
			}
			if b.failAt >= 0 && idx >= b.failAt && armed.Load() {
				w.Error(errors.New("not available"))
				return
			}
			if b.muteAt >= 0 && idx >= b.muteAt && armed.Load() {
				// no answer before the requester has given up (request time-out incl. the retries of pkg/p2p)
				select {
				case <-quit:
				case <-time.After(muteFor):
				}
				return
			}
			to := idx + lsync.VerifC19MaxBlocksPerResponse
			if to > len(served)-1 {
				to = len(served) - 1
			}
			res := []*blockchain.Block{}
			for _, blk := range served[idx+1 : to+1] {
				if b.stop >= 0 && int(blk.Header.Height) > b.stop {
					continue
				}
				if b.cap > 0 && len(res) >= b.cap {
					break
				}
				res = append(res, blk)
			}
			w.Write((&lsync.GetBlocksFromIDResponse{Blocks: res}).Encode())
		}
	}
	if b.mainFail {
		honestLast := last
		last = func(w p2p.ResponseWriter, r *p2p.Request) {
			if armed.Load() {
				w.Error(errors.New("not available"))
			} else {
				honestLast(w, r)
			}
		}
	}
	if b.dlCount != nil {
		inner := blocks
		blocks = func(w p2p.ResponseWriter, r *p2p.Request) {
			atomic.AddInt64(b.dlCount, 1)
			inner(w, r)
		}
	}
	var opts []p2p.RPCHandlerOption
	if b.sweep {
		// pkg/p2p penalises a peer that sends more than 100 requests of one kind within 10 s (and bans it
		// after ten penalties); the responder of a sweep is configured not to count
		opts = append(opts, p2p.WithRPCMessageCounter(1<<30, 0))
	}
	if err := conn.RegisterRPCHandler(lsync.RPCEndpointGetLastBlock, last, opts...); err != nil {
		return nil, err
	}
	if err := conn.RegisterRPCHandler(lsync.RPCEndpointGetHighestCommonBlock, common, opts...); err != nil {
		return nil, err
	}
	if err := conn.RegisterRPCHandler(lsync.RPCEndpointGetBlocksFromID, blocks, opts...); err != nil {
		return nil, err
	}
	if err := conn.Start([]byte{}); err != nil {
		return nil, err
	}
	return conn, nil
}

const syncWatchdog = 25 * time.Second

// `mute=` scenarios: the requester's message protocol waits muteTimeout for a response (3 s by default) and
// retries three times; the responder stays silent for muteFor.
const (
	muteTimeout = 150 * time.Millisecond
	muteFor     = 1500 * time.Millisecond
)

func chainIDs(n *node.Node) [][]byte {
	res := [][]byte{}
	for h := uint32(0); h <= n.Height(); h++ {
		hd, err := n.HeaderAt(h)
		if err != nil {
			res = append(res, nil)
			continue
		}
		res = append(res, hd.ID)
	}
	return res
}

// runSync runs the scenario; a run that ends with an error is repeated and the majority outcome of
// up to three runs is reported. Reason: the request/response layer of pkg/p2p can drop a response
// that arrives before the requester registered its channel (property C17,
// fixes/C17-reqresp.patch); on loopback this turns roughly one request in 10^4 into a timeout,
// which is not a behaviour of the synchronisers.
func runSync(c *chains, w []string) (string, []corr.Fail) {
	out1, fails1 := runSyncOnce(c, w)
	if !strings.Contains(out1, " err=1 ") {
		return out1, fails1
	}
	out2, fails2 := runSyncOnce(c, w)
	if out2 == out1 {
		return out1, fails1
	}
	out3, fails3 := runSyncOnce(c, w)
	if out3 == out1 {
		return out1, fails1
	}
	if out3 == out2 {
		return out2, fails2
	}
	return out3, append(fails3, fail("c19-sync-unstable", "three runs of the scenario gave three outcomes: %q, %q, %q", out1, out2, out3))
}

// runSyncOnce lets a fresh requester node synchronise with a responder over two real libp2p hosts
// on loopback and reports what happened to the requester.
func runSyncOnce(c *chains, w []string) (out string, fails []corr.Fail) {
	b := parseBehav(w)
	served := c.pBlocks
	extraTok := map[string]string{}
	if b.badStatic >= 0 || b.badExec >= 0 {
		var err error
		bad, static := b.badExec, false
		if b.badStatic >= 0 {
			bad, static = b.badStatic, true
		}
		served, extraTok, err = attackerChain(c.pBlocks, bad, static)
		if err != nil {
			return "bad-op", nil
		}
	}
	target := served[len(served)-1]
	if b.target >= 0 {
		if b.target == 0 || b.target >= len(served) {
			return "bad-op", nil
		}
		target = served[b.target]
		// the sync line carries the prevoted height of the announced block (the model needs it)
		if v, ok := kvInt(w, "tmhp"); !ok || uint32(v) != target.Header.MaxHeightPrevoted {
			return fmt.Sprintf("param-mismatch tmhp=%d", target.Header.MaxHeightPrevoted), nil
		}
	}
	targetH := int(target.Header.Height)
	if c.prm.Rc {
		// recent chains: the sync line carries the age of the requester's finalized block in slots
		bs := c.p.BlockSlot()
		age := bs.GetSlotNumber(uint32(time.Now().Unix())) - bs.GetSlotNumber(c.qBlocks[c.facts.finQ].Header.Timestamp)
		if v, ok := kvInt(w, "age"); !ok || v != age {
			return fmt.Sprintf("param-mismatch age=%d", age), nil
		}
	}
	if b.badExec >= 0 {
		// the reset/sync lines carry the finalized height of the applicable part of the served chain
		if v, ok := kvInt(w, "finpeak"); !ok || b.badExec-1 >= len(c.finP) || uint32(v) != c.finP[b.badExec-1] {
			return fmt.Sprintf("param-mismatch finpeak=%d", c.finP[b.badExec-1]), nil
		}
	}

	pr, out, fails := startPair(c, b, served)
	if pr == nil {
		return out, fails
	}
	defer pr.stop()
	q, resp := pr.q, pr.resp
	q.AllowSync = true
	q.PeerID = resp.ID()
	if pr.view != nil {
		// rollback.go: the requester's tip was rolled back before the synchronisation; the oracles below see the
		// chains as they are now (own tip Q-k, the stored finalized height is still the one of the full chain)
		c = pr.view
		if out, ok := checkRollbackParams(c, q, w); !ok {
			return out, nil
		}
	}
	if b.muteAt >= 0 {
		q.Conn.VerifC19SetTimeout(muteTimeout)
	}
	if b.preTemp > 0 {
		// pseudo-property C19TEMP (failgeo.go): stale entries in the temp block table
		if err := staleTempBlocks(q, b.preTemp); err != nil {
			return "setup-failed", []corr.Fail{fail("c19-setup", "stale temp blocks: %v", err)}
		}
	}

	// the context Executer.createSyncContext would build
	prmBFT, err := q.BFTParams(q.Height() + 1)
	if err != nil {
		return "setup-failed", []corr.Fail{fail("c19-setup", "bft params: %v", err)}
	}
	vals := []codec.Lisk32{}
	for _, v := range prmBFT.Validators() {
		vals = append(vals, v.Address())
	}
	finBefore := q.Finalized()
	finHeader, err := q.HeaderAt(finBefore)
	if err != nil {
		return "setup-failed", []corr.Fail{fail("c19-setup", "finalized header: %v", err)}
	}
	tcopy, err := node.CopyBlock(target)
	if err != nil {
		return "setup-failed", []corr.Fail{fail("c19-setup", "target: %v", err)}
	}
	sctx := &lsync.SyncContext{Ctx: context.Background(), Block: tcopy, FinalizedBlockHeader: finHeader, PeerID: resp.ID(), CurrentValidators: vals}
	// C04SYNC: the context the Executer really builds (Executer.process calls createSyncContext itself; the forced
	// synchronisers get the real one): its finalized block must be the block at the stored finalized height
	if real, err := q.Exec.VerifC04CreateSyncContext(context.Background(), tcopy, resp.ID()); err != nil || real.FinalizedBlockHeader == nil {
		fails = append(fails, fail("c04-sync-context-finalized-wrong", "createSyncContext failed: %v", err))
	} else {
		if fh := real.FinalizedBlockHeader; fh.Height != finBefore || !bytes.Equal(fh.ID, finHeader.ID) {
			fails = append(fails, fail("c04-sync-context-finalized-wrong", "restart=%v: the sync context carries block %x at height %d as finalized block; the stored finalized height is %d (block %x)", b.restart, []byte(fh.ID), fh.Height, finBefore, []byte(finHeader.ID)))
		}
		if b.force != "" {
			real.Ctx = context.Background()
			sctx = real
		}
	}
	fails = append(fails, checkSyncContext(q, tcopy, resp.ID(), b)...) // rollback.go: every input of the synchronisers is a committed value
	syncer := q.Exec.VerifSyncer()
	mode := "none"
	switch {
	case b.force != "":
		mode = b.force
	case syncer.VerifC19ShouldFastSync(sctx):
		mode = "fast"
	case syncer.VerifC19ShouldSync(sctx):
		mode = "block"
	}
	if fc := q.ForkChoice(target); fc != "differentChain" && b.force == "" {
		return "not-different " + fc, nil
	}

	before := chainIDs(q)
	dumpBefore := q.DumpDB()
	q.DrainEvents() // C04SYNC: drop what building the requester chain published

	done := make(chan error, 1)
	go func() {
		defer func() {
			if r := recover(); r != nil {
				done <- fmt.Errorf("panic: %v", r)
			}
		}()
		// C04SYNC: a forced synchroniser may run with the syncying flag set (sy=1)
		exec := q.Exec
		if b.force != "" && b.syncing {
			exec.VerifC04SetSyncing(true)
		}
		var err error
		func() {
			defer func() {
				if b.force != "" && b.syncing {
					exec.VerifC04SetSyncing(false)
				}
			}()
			switch b.force {
			case "fast":
				_, err = syncer.VerifC19FastSync(sctx)
			case "block":
				_, err = syncer.VerifC19BlockSync(sctx)
			default:
				err = q.ProcessResult(target).Err
			}
		}()
		done <- err
	}()
	var syncErr error
	select {
	case syncErr = <-done:
	case <-time.After(syncWatchdog):
		pr.hung = true
		return "timeout", []corr.Fail{fail("c19-sync-hang", "synchronisation (%s, peer %s) did not return within %s", mode, b.kind(), syncWatchdog)}
	}
	var pe *node.PanicError
	if errors.As(syncErr, &pe) || (syncErr != nil && len(syncErr.Error()) > 6 && syncErr.Error()[:6] == "panic:") {
		fails = append(fails, fail("c19-sync-panic", "synchronisation panicked: %v", syncErr))
	}

	after := chainIDs(q)
	// C04SYNC: event stream / finalized blocks oracle (c04sync.go)
	fails = append(fails, checkSyncFinality(c, q, q.DrainEvents(), before, after, finBefore, mode, b)...)
	banned := len(q.Conn.VerifC19BannedIPs()) > 0
	if pr.view != nil {
		banned = hasIP(q.Conn.VerifC19BannedIPs(), mainPeerIP) // (rollback.go: the first peer of a rollback path has another address)
	}
	temp, _ := q.TempBlocks()
	tip := q.Tip().Header
	errFlag := 0
	if syncErr != nil {
		errFlag = 1
	}
	banFlag := 0
	if banned {
		banFlag = 1
	}
	out = fmt.Sprintf("mode=%s err=%d tip=%s h=%d ban=%d temp=%d", mode, errFlag, c.token(tip.ID, extraTok), tip.Height, banFlag, len(temp))

	// ---- model-free oracle ----
	// the synchroniser Syncer.Sync has to choose (refMode: signed arithmetic, LIP-0014): the real decision
	// above is only what gets printed and compared with the model
	omode := b.force
	if omode == "" {
		genIn := false
		for _, v := range vals {
			genIn = genIn || bytes.Equal(v, target.Header.GeneratorAddress)
		}
		bs := q.BlockSlot()
		curSlot, finSlot := int64(bs.GetSlotNumber(uint32(time.Now().Unix()))), int64(bs.GetSlotNumber(finHeader.Timestamp))
		omode = refMode(int64(len(before)-1), int64(targetH), len(vals), genIn, curSlot, finSlot)
		if mode != omode {
			fails = append(fails, fail("c19-sync-method-wrong", "own tip %d, announced block %d, %d validators (generator active: %v), finalized block %d slots old: Syncer.Sync chooses %q, specified %q",
				len(before)-1, targetH, len(vals), genIn, curSlot-finSlot, mode, omode))
		}
	}
	same := func(a, b [][]byte) bool {
		if len(a) != len(b) {
			return false
		}
		for i := range a {
			if !bytes.Equal(a[i], b[i]) {
				return false
			}
		}
		return true
	}
	// the chain is always a hash chain and finalized blocks are never replaced
	for h := 1; h < len(after); h++ {
		hd, err := q.HeaderAt(uint32(h))
		if err != nil || !bytes.Equal(hd.PreviousBlockID, after[h-1]) || int(hd.Height) != h {
			fails = append(fails, fail("c19-chain-broken", "after synchronisation the block of height %d does not follow the block below it", h))
			break
		}
	}
	for h := 0; h <= int(finBefore) && h < len(before); h++ {
		if h >= len(after) || !bytes.Equal(after[h], before[h]) {
			fails = append(fails, fail("c19-finalized-reverted", "finalized block of height %d (finalized height %d) was replaced or removed", h, finBefore))
			break
		}
	}
	// the honest peer's chain up to the block it announced
	pIDs := [][]byte{}
	for _, blk := range c.pBlocks[:min(targetH+1, len(c.pBlocks))] {
		pIDs = append(pIDs, blk.Header.ID)
	}
	n := c.prm.N
	// an honest responder (the real handlers) never bans the honest requester. (Known exception, see
	// commonSearch in geometry.go: a block synchroniser whose search fails below the finalized block of a
	// young chain sends a request without ids.)
	if b.honest() && len(resp.VerifC19BannedIPs()) > 0 && !(omode == "block" && c.prm.F < int(finBefore) && searchWraps(c.prm.Q, int(finBefore), n)) {
		fails = append(fails, fail("c19-honest-request-banned", "%s sync of an honest requester (tip %d, finalized %d, %d validators) with an honest peer (tip %d, fork after %d): the peer's handlers banned the requester",
			omode, c.prm.Q, finBefore, n, c.prm.P, c.prm.F))
	}
	switch {
	case b.honest() || (b.kind() == "smallsegments"):
		// honest peer with a better valid chain: the requester must end on it when the fork point is
		// not below its finalized height (and, for fast sync, inside the two-round window)
		// (for block sync: and one of the at most 3 x 9 sampled heights of the common block search, or its
		// last resort the finalized block, is in the common part - refCommonHeight)
		reach := c.prm.F >= int(finBefore)
		if omode == "fast" {
			reach = reach && c.prm.Q-c.prm.F <= 2*n-2 && targetH-c.prm.F <= 2*n
		} else {
			reach = reach && refCommonHeight(c.prm.Q, int(finBefore), n, c.prm.F) >= 0
		}
		// several connected peers (multipeer.go): what the best valid answer leads to
		expect, bannedKind := "converge", byte(0)
		if (b.extra != "" || b.mainFail) && omode == "block" {
			expect, bannedKind = multiPeerExpect(b)
		}
		if expect != "converge" {
			bannedIPs := q.Conn.VerifC19BannedIPs()
			culprit := false
			for _, ip := range bannedIPs {
				ok := false
				for _, e := range pr.extras {
					ok = ok || (e.ip == ip && e.kind == bannedKind)
				}
				if ok {
					culprit = true
				} else {
					fails = append(fails, fail("c19-honest-peer-banned", "peers %q, main=e %v: the peer with address %s was banned, it served no bad data", b.extra, b.mainFail, ip))
				}
			}
			if bannedKind != 0 && (syncErr == nil || !culprit) {
				fails = append(fails, fail("c19-bad-peer-not-banned", "peers %q: the peer announcing an invalid block of top priority was not refused and banned (err=%v, banned %v)", b.extra, syncErr, bannedIPs))
			}
			if expect == "nopeer" && (syncErr == nil || !same(after, before)) {
				fails = append(fails, fail("c19-no-peer-not-refused", "peers %q, main=e %v: no peer answered getLastBlock; err=%v, chain changed: %v", b.extra, b.mainFail, syncErr, !same(after, before)))
			}
			if (bannedKind != 0 || expect == "nopeer") && !same(after, before) {
				fails = append(fails, fail("c19-chain-changed-without-peer", "peers %q: the chain changed although no usable peer was selected", b.extra))
			}
		}
		if omode != "none" && reach && expect == "converge" {
			if !same(after, pIDs) || syncErr != nil {
				fails = append(fails, fail("c19-not-converged", "honest peer (tip %d) announced its block %d, fork height %d >= finalized %d, own tip %d, round length %d: %s sync ended at height %d (tip %s) err=%v instead of on the peer's chain up to the announced block",
					c.prm.P, targetH, c.prm.F, finBefore, c.prm.Q, n, omode, tip.Height, c.token(tip.ID, extraTok), syncErr))
			}
			if banned {
				fails = append(fails, fail("c19-honest-peer-banned", "the honest peer was banned (banned addresses %v, peers %q)", q.Conn.VerifC19BannedIPs(), b.extra))
			}
			if len(temp) != 0 {
				fails = append(fails, fail("c19-temp-blocks-left", "%d temp blocks left after a successful synchronisation", len(temp)))
			}
		}
		if omode == "fast" && c.prm.F < int(finBefore) && c.prm.Q-c.prm.F <= 2*n-2 {
			// common block below the finalized height: refused, chain untouched, peer banned
			if !same(after, before) || syncErr == nil {
				fails = append(fails, fail("c19-below-finalized-accepted", "common block %d below finalized %d was not refused", c.prm.F, finBefore))
			}
			if !banned {
				fails = append(fails, fail("c19-bad-peer-not-banned", "peer offering a common block below the finalized height was not banned"))
			}
		}
	case omode == "fast":
		// every failure of fast sync leaves (or restores) the original chain
		// (unless the applied part of the peer's chain finalized a block above the common block)
		if syncErr != nil && !same(after, before) && int(q.Finalized()) <= c.prm.F {
			fails = append(fails, fail("c19-fast-sync-not-restored", "fast sync failed (%s) and left height %d tip %s; the original tip was height %d", b.kind(), tip.Height, c.token(tip.ID, extraTok), len(before)-1))
		}
		if syncErr != nil && same(after, before) && q.Finalized() == finBefore {
			d := node.DiffDumps(dumpBefore, q.DumpDB())
			if b.preTemp > 0 || b.rbVia == 'b' {
				// (rollback.go: an interrupted block synchronisation leaves its deleted blocks in the temp table)
				// (C19TEMP: the stale entries of the temp table may be gone)
				kept := d[:0:0]
				for _, l := range d {
					if !strings.HasPrefix(l, "- temp ") {
						kept = append(kept, l)
					}
				}
				d = kept
			}
			if len(d) > 0 && len(temp) == 0 {
				fails = append(fails, fail("c19-restore-db-differs", "fast sync failed (%s), chain restored but the database differs: %v", b.kind(), d))
			}
			if len(temp) != 0 && b.preTemp == 0 && b.rbVia != 'b' {
				fails = append(fails, fail("c19-temp-blocks-left", "fast sync failed (%s), chain restored but %d temp blocks are left", b.kind(), len(temp)))
			}
		}
		// a failure before anything was applied (download error, time-out, statically invalid block) leaves
		// the chain untouched and is reported
		if downloadFails(b, c.prm.F, targetH) && (!same(after, before) || syncErr == nil) {
			fails = append(fails, fail("c19-fast-sync-not-restored", "fast sync from a peer failing during the download (%s) ended with err=%v at height %d tip %s; the original tip was height %d", b.kind(), syncErr, tip.Height, c.token(tip.ID, extraTok), len(before)-1))
		}
		// (a received block that is itself malformed is rejected by Syncer.Sync before any request is made)
		announcedBad := b.badStatic == len(c.pBlocks)-1 && b.force == ""
		reached := c.prm.F >= int(finBefore) && c.prm.Q-c.prm.F <= 2*n-2 && targetH-c.prm.F <= 2*n
		if (b.kind() == "badstatic" || b.kind() == "badexec") && syncErr != nil && !banned && int(q.Finalized()) <= c.prm.F && !announcedBad && reached {
			fails = append(fails, fail("c19-bad-peer-not-banned", "peer serving an invalid block (%s) was not banned", b.kind()))
		}
		if (b.kind() == "badstatic" || b.kind() == "badexec") && syncErr == nil && same(after, before) {
			fails = append(fails, fail("c19-invalid-block-unnoticed", "fast sync from a peer serving an invalid block reported success"))
		}
	}
	// rollback.go: a failed synchronisation leaves no truncated chain; nothing at or below the stored finalized height goes
	fails = append(fails, checkAfterFailedSync(c, q, omode, b, syncErr, before, after, finBefore, banned, pr)...)
	// nobody may end on a chain containing a tampered block
	for _, id := range after {
		if t, ok := extraTok[string(id)]; ok {
			fails = append(fails, fail("c19-invalid-block-applied", "tampered block %s is on the requester chain", t))
			break
		}
	}
	if b.preTemp > 0 {
		// C19TEMP: the same clauses with stale temp blocks, under signatures of their own
		for i := range fails {
			if strings.HasPrefix(fails[i].Sig, "c19-") && fails[i].Sig != "c19-setup" {
				fails[i].Sig = "c19-stale-temp-" + strings.TrimPrefix(fails[i].Sig, "c19-")
				fails[i].Detail = fmt.Sprintf("temp block table holding %d stale blocks before the synchronisation: %s", b.preTemp, fails[i].Detail)
			}
		}
	}
	return out, fails
}
