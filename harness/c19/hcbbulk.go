package c19

// C20HCB (model-free pseudo-property of C20, bulk-lookup clause "headers by IDs ... deadlock-free"): the REAL
// highest-common-block handler (Syncer.HandleRPCEndpointGetHighestCommonBlock, the by-id bulk lookup served to peers)
// asked for MANY blocks the responder knows - up to 72 ids, newest first and shuffled, on chains of 230 / 330 / 104
// blocks with small and large block caches - next to the ordinary handler requests. Every call runs under the
// watchdog of fixture.call (20 s): a handler that does not answer is reported as `harness-panic` (c19-handler-hung ...)
// with the case as failing input; the answers are judged by the oracles of handlers.go (the answer is the requested id
// highest on the responder's chain; ban iff malformed). The fast synchroniser sends 2*validators-1 ids (205 on a
// 103-validator chain); the C19 fixtures with 4-7 validators never asked for more than 13.

import (
	"math/rand"
	"time"

	"verifharness/corr"
)

type hcbBulk struct{ prop }

func init() { corr.Register(hcbBulk{}) }

func (hcbBulk) ID() string                 { return "C20HCB" }
func (hcbBulk) NoModel() bool              { return true }
func (hcbBulk) Parallel() int              { return 4 }
func (hcbBulk) CaseTimeout() time.Duration { return 2 * time.Minute }

func (hcbBulk) Generate(rng *rand.Rand, tier string) []corr.Case {
	prms := []params{
		{P: 230, F: 120, Q: 131, N: 4, Cache: 8},
		{P: 330, F: 300, Q: 310, N: 7, Cache: 16},
		{P: 104, F: 1, Q: 3, N: 4, Cache: 2},
		{P: 103, F: 0, Q: 0, N: 4, Cache: 600},
		{P: 40, F: 30, Q: 35, N: 5, Cache: 515},
	}
	rounds := 1
	if tier == "thorough" {
		rounds = 6
	}
	var cases []corr.Case
	for r := 0; r < rounds; r++ {
		for _, prm := range prms {
			f, err := factsOf(prm)
			if err != nil {
				continue
			}
			var ops []string
			for _, op := range handlerOps(rng, prm, false) {
				if len(op) > 4 && op[:4] == "hcb " {
					ops = append(ops, op)
				}
			}
			cases = append(cases, chunk("hcb-bulk", ops, 40, resetLine(prm, f))...)
		}
	}
	return cases
}

func (hcbBulk) Classify(c corr.Case, out []string) string {
	big := 0
	for _, op := range c.Ops {
		n := 0
		for _, ch := range op {
			if ch == ' ' {
				n++
			}
		}
		if len(op) > 4 && op[:4] == "hcb " && n >= 17 {
			big++
		}
	}
	if big > 0 {
		return "bulk"
	}
	return "small"
}
