package c19

// State family "finality was reached and the blocks that carried it were reverted" (miss C19-17).
//
// The stored finalized height (DataAccess.GetFinalizedHeight: saveBlock writes max(stored, maxHeightPrecommitted),
// removeBlock never lowers it, Executer.deleteBlock refuses heights at or below it) is MONOTONE; the BFT votes are
// part of the per-block state diff, so Executer.deleteBlock rolls the BFT store back. After a revert of blocks that
// had advanced finality which is not followed by a re-apply, the BFT store's maxHeightPrecommitted is LOWER than
// the node's finalized height. Every scenario of the other files starts from a freshly built requester, where the
// two agree, so an input of the synchronisers that is taken from the wrong one of the two was invisible.
//
// `sync ... rb=<via><k>`: before the requester meets the peer its tip (height Q, stored finalized height finQ) is
// rolled back through a path of the real code:
//
//	d<k>  k x Executer.deleteBlock(tip, saveTemp=false) - what a tie-break and restoreBlocks do call by call
//	b<k>  a real block synchronisation (blockSyncer.Sync over loopback) with a first peer that shares the
//	      requester's chain up to height Q-k and stops serving blocks: the node deletes down to the common block
//	      the search finds (a sampled height <= Q-k, or the finalized block) and the download fails; the block
//	      synchroniser does not restore, the deleted blocks stay in the temp table
//	t1    a tie-break replacement of the tip through Executer.process (recent chains, `rc=1`): deleteBlock(tip),
//	      processValidated(competitor of the same height forged in the current slot)
//	f<k>  a fast synchronisation that deletes k own blocks, fails in the processor and restores (the state is
//	      the original one again)
//
// and, with `restart=1`, the node is restarted after the rollback. Afterwards the scenario continues as every
// `sync` op does: the oracles of runSyncOnce see the chains as they are now (`chains.rolledBack`).
//
// Model-free oracles added for EVERY `sync` op (checkSyncContext, checkAfterFailedSync):
//
//   - c19-sync-context-not-committed-finalized: the finalized block Executer.createSyncContext hands to the
//     synchronisers is the block at the STORED finalized height; c19-sync-context-validators-not-committed /
//     c19-sync-context-block-wrong for the other fields of the context;
//   - c19-chain-truncated-after-failed-sync: a fast synchronisation that returns an error leaves no proper
//     prefix of the chain it started from (block synchroniser: recorded as an observation, C19 speaks of fast
//     sync only - see VERIF_C19_OBS);
//   - c19-downloaded-from-peer-below-finalized / c19-bad-peer-not-banned / c19-below-finalized-accepted: a peer
//     that names a common block below the stored finalized height is banned, no getBlocksFromId request is sent
//     to it and the chain is untouched - also when the name is forced (`common=`);
//   - c19-finalized-reverted (runSyncOnce): no block at or below the stored finalized height is removed.
//
// C19 runs the `d` family with the Lean model (the driver builds the context with Model/SyncCtx.lean from the
// node state: stored marker finQ, rolled-back BFT store `rmhpc`); the pseudo-property C19CTX (model-free, `also`
// of C19) runs all four paths.

import (
	"bytes"
	"context"
	"fmt"
	"math/rand"
	"os"
	"strconv"
	"strings"
	"sync/atomic"
	"time"

	"github.com/LiskHQ/lisk-engine/pkg/blockchain"
	lsync "github.com/LiskHQ/lisk-engine/pkg/consensus/sync"
	"github.com/LiskHQ/lisk-engine/pkg/p2p"

	"verifharness/corr"
	"verifharness/node"
)

const (
	mainPeerIP  = "127.0.0.1"
	firstPeerIP = "127.0.0.9" // the peer of the rollback paths b / f (bans are per IP)
)

func parseRollback(w []string) (byte, int) {
	v, ok := kvStr(w, "rb")
	if !ok || len(v) < 2 || !strings.ContainsRune("dbtf", rune(v[0])) {
		return 0, 0
	}
	k, err := strconv.Atoi(v[1:])
	if err != nil || k < 1 {
		return 0, 0
	}
	return v[0], k
}

// rolledBack is the pair of chains after the requester's tip went down to height tipH (and, tie-break, the block
// of that height was replaced by newTip): own tip Q' = tipH, fork point min(F, Q'); the stored finalized height
// facts.finQ is that of the full chain.
func (c *chains) rolledBack(tipH int, newTip *blockchain.Block) *chains {
	v := &chains{prm: c.prm, p: c.p, pBlocks: c.pBlocks, facts: c.facts, finP: c.finP, finQ: c.finQ, gts: c.gts, bt: c.bt, tok: c.tok}
	v.prm.Q = tipH
	if v.prm.F > tipH {
		v.prm.F = tipH
	}
	v.qBlocks = c.qBlocks[:tipH+1]
	if newTip != nil {
		v.qBlocks = append(append([]*blockchain.Block{}, c.qBlocks[:tipH]...), newTip)
		v.tok = map[string]string{string(newTip.Header.ID): "t" + strconv.Itoa(tipH)}
		for k, t := range c.tok {
			v.tok[k] = t
		}
		if v.prm.F >= tipH {
			v.prm.F = tipH - 1
		}
	}
	v.facts.mhpQ = v.qBlocks[tipH].Header.MaxHeightPrevoted
	return v
}

// connectHosts connects the requester's host to conn and waits until a request gets through.
func connectHosts(q *node.Node, conn *p2p.Connection) error {
	addrs, err := conn.MultiAddress()
	if err != nil || len(addrs) == 0 {
		return fmt.Errorf("address: %v", err)
	}
	info, err := p2p.AddrInfoFromMultiAddr(addrs[0])
	if err != nil {
		return err
	}
	if err := q.Conn.Connect(context.Background(), *info); err != nil {
		return err
	}
	for deadline := time.Now().Add(20 * time.Second); time.Now().Before(deadline); {
		for _, pid := range conn.ConnectedPeers() {
			if pid == q.Conn.ID() {
				ctx, cancel := context.WithTimeout(context.Background(), time.Second)
				_, err := lsync.VerifC19RequestLastBlockHeader(ctx, q.Conn, conn.ID())
				cancel()
				if err == nil {
					return nil
				}
			}
		}
		time.Sleep(5 * time.Millisecond)
	}
	return fmt.Errorf("the two hosts did not get connected")
}

// firstPeer: a node that shares the requester's chain up to height common and has `own` blocks of its own above
// (a twin node built from the same genesis; its first own block carries an event that makes it differ).
func firstPeer(c *chains, common, own int) (*chains, error) {
	t, err := node.New(c.nodeConfig(0))
	if err != nil {
		return nil, err
	}
	for _, b := range c.qBlocks[1 : common+1] {
		if err := t.Process(b); err != nil {
			t.Close()
			return nil, fmt.Errorf("first peer, common part: %w", err)
		}
	}
	tail, err := t.Extend(own, func(i int, o *node.BlockOpts) {
		if i == 0 {
			o.BeforeEvents = []*blockchain.Event{{Module: "fork", Name: "r", Data: []byte{0x72}}}
		}
	})
	if err != nil {
		t.Close()
		return nil, fmt.Errorf("first peer, own part: %w", err)
	}
	a := &chains{prm: params{P: common + own, F: common, Q: c.prm.Q, N: c.prm.N, Cache: c.prm.Cache}, p: t, qBlocks: c.qBlocks,
		facts: c.facts, gts: c.gts, bt: c.bt, tok: map[string]string{}}
	a.pBlocks = append(append([]*blockchain.Block{}, c.qBlocks[:common+1]...), tail...)
	for k, v := range c.tok {
		a.tok[k] = v
	}
	for _, b := range tail {
		a.tok[string(b.Header.ID)] = "r" + strconv.Itoa(int(b.Header.Height))
	}
	return a, nil
}

// withFirstPeer starts the first peer's host (behaviour fb over the block list served), connects the requester,
// runs f and takes the host away again.
func withFirstPeer(a *chains, q *node.Node, fb behav, served []*blockchain.Block, f func(peer p2p.PeerID) error) error {
	armed, quit := &atomic.Bool{}, make(chan struct{})
	armed.Store(true)
	fb.listenIP = firstPeerIP
	conn, err := newResponder(a, fb, served, armed, quit)
	if err != nil {
		return err
	}
	defer func() {
		close(quit)
		done := make(chan struct{})
		go func() { _ = conn.Stop(); close(done) }()
		select {
		case <-done:
		case <-time.After(15 * time.Second):
		}
		// the requester must have noticed that the peer is gone before it meets the next one
		for deadline := time.Now().Add(5 * time.Second); time.Now().Before(deadline); {
			gone := true
			for _, pid := range q.Conn.ConnectedPeers() {
				gone = gone && pid != conn.ID()
			}
			if gone {
				break
			}
			time.Sleep(2 * time.Millisecond)
		}
	}()
	if err := connectHosts(q, conn); err != nil {
		return err
	}
	return f(conn.ID())
}

// rollBack rolls the requester's tip back through the path b.rbVia names and returns the chains as they are
// afterwards. The requester's host is started, no peer is connected.
func rollBack(c *chains, q *node.Node, b behav) (*chains, error) {
	Q, k := c.prm.Q, b.rbK
	fin := int(q.Finalized())
	var newTip *blockchain.Block
	switch b.rbVia {
	case 'd':
		for i := 0; i < k; i++ {
			if err := q.DeleteTip(false); err != nil {
				return nil, fmt.Errorf("deleteBlock %d of %d at height %d (finalized %d): %w", i+1, k, q.Height(), fin, err)
			}
		}
	case 'b':
		if Q-k < fin {
			return nil, fmt.Errorf("first peer would fork below the finalized height %d", fin)
		}
		a, err := firstPeer(c, Q-k, k+3)
		if err != nil {
			return nil, err
		}
		defer a.p.Close()
		fb := parseBehav(nil)
		fb.failAt = 0 // every getBlocksFromId request is answered with an error: the peer stops serving blocks
		err = withFirstPeer(a, q, fb, a.pBlocks, func(peer p2p.PeerID) error {
			ann, err := node.CopyBlock(a.pBlocks[len(a.pBlocks)-1])
			if err != nil {
				return err
			}
			sctx, err := q.Exec.VerifC04CreateSyncContext(context.Background(), ann, peer)
			if err != nil {
				return err
			}
			if _, err := q.Exec.VerifSyncer().VerifC19BlockSync(sctx); err == nil {
				return fmt.Errorf("the interrupted block synchronisation reported success")
			}
			return nil
		})
		if err != nil {
			return nil, err
		}
		if int(q.Height()) > Q-k || int(q.Height()) < fin {
			return nil, fmt.Errorf("interrupted block synchronisation (first peer forks after %d) left the tip at %d, finalized %d", Q-k, q.Height(), fin)
		}
	case 'f':
		if Q-k < fin {
			return nil, fmt.Errorf("first peer would fork below the finalized height %d", fin)
		}
		a, err := firstPeer(c, Q-k, k+2)
		if err != nil {
			return nil, err
		}
		defer a.p.Close()
		served, _, err := attackerChain(a.pBlocks, Q-k+2, false)
		if err != nil {
			return nil, err
		}
		fb := parseBehav(nil)
		fb.badExec = Q - k + 2
		err = withFirstPeer(a, q, fb, served, func(peer p2p.PeerID) error {
			ann, err := node.CopyBlock(served[len(served)-1])
			if err != nil {
				return err
			}
			sctx, err := q.Exec.VerifC04CreateSyncContext(context.Background(), ann, peer)
			if err != nil {
				return err
			}
			if _, err := q.Exec.VerifSyncer().VerifC19FastSync(sctx); err == nil {
				return fmt.Errorf("the fast synchronisation with an inapplicable block reported success")
			}
			return nil
		})
		if err != nil {
			return nil, err
		}
		if int(q.Height()) != Q || !bytes.Equal(q.Tip().Header.ID, c.qBlocks[Q].Header.ID) {
			return nil, fmt.Errorf("the aborted fast synchronisation did not restore the chain (tip %d)", q.Height())
		}
	case 't':
		// the competitor: a block on the tip's parent, forged by the validator of the CURRENT slot (the tip's slot
		// lies before it: recent chains), so that Executer.process sees a tie break
		t, err := node.New(c.nodeConfig(0))
		if err != nil {
			return nil, err
		}
		defer t.Close()
		for _, blk := range c.qBlocks[1:Q] {
			if err := t.Process(blk); err != nil {
				return nil, fmt.Errorf("competitor, common part: %w", err)
			}
		}
		bs := t.BlockSlot()
		d := bs.GetSlotNumber(uint32(time.Now().Unix())) - bs.GetSlotNumber(c.qBlocks[Q-1].Header.Timestamp)
		if d < 2 {
			return nil, fmt.Errorf("no later slot for a competitor (distance %d)", d)
		}
		comp, err := t.BuildBlock(node.BlockOpts{SlotsAhead: d, BeforeEvents: []*blockchain.Event{{Module: "fork", Name: "t", Data: []byte{0x74}}}})
		if err != nil {
			return nil, fmt.Errorf("competitor: %w", err)
		}
		r := q.ProcessResult(comp)
		if r.ForkChoice != "tieBreak" || r.Err != nil || !r.Applied {
			return nil, fmt.Errorf("competitor of height %d: fork choice %q, applied %v, err %v", comp.Header.Height, r.ForkChoice, r.Applied, r.Err)
		}
		newTip = comp
	default:
		return nil, fmt.Errorf("unknown path")
	}
	if b.restart {
		_ = q.Conn.Stop()
		if err := q.Restart(); err != nil {
			return nil, fmt.Errorf("restart after the rollback: %w", err)
		}
		q.Conn.VerifC19SetListen([]string{"/ip4/" + mainPeerIP + "/tcp/0"})
		if err := q.Conn.Start([]byte{}); err != nil {
			return nil, fmt.Errorf("requester connection after the restart: %w", err)
		}
	}
	if int(q.Finalized()) != fin {
		return nil, fmt.Errorf("the stored finalized height went %d -> %d during the rollback", fin, q.Finalized())
	}
	if os.Getenv("VERIF_C19_OBS") != "" {
		fmt.Fprintf(os.Stderr, "C19-OBS rolled-back: %s: %s\n", resetLine(c.prm, c.facts), stateNote(q, b))
	}
	return c.rolledBack(int(q.Height()), newTip), nil
}

// checkRollbackParams: the facts the sync line carries for the model (`rb=d<k> rmhp= rmhpc=`: maxHeightPrevoted of
// the new tip header, maxHeightPrecommitted of the rolled-back BFT store) are those of the real node.
func checkRollbackParams(c *chains, q *node.Node, w []string) (string, bool) {
	via, k := parseRollback(w)
	if via != 'd' {
		return "", true
	}
	_, mhpc, _ := q.BFTHeights()
	mhp := q.Tip().Header.MaxHeightPrevoted
	a, ok1 := kvInt(w, "rmhp")
	b, ok2 := kvInt(w, "rmhpc")
	if !ok1 || !ok2 || uint32(a) != mhp || uint32(b) != mhpc || int(q.Height()) != c.prm.Q {
		return fmt.Sprintf("param-mismatch rb=d%d tip=%d rmhp=%d rmhpc=%d", k, q.Height(), mhp, mhpc), false
	}
	return "", true
}

// rollbackFacts: maxHeightPrevoted of the requester's block Q-k and the maxHeightPrecommitted a node holds whose
// chain ends there.
func rollbackFacts(prm params, k int) (mhp, mhpc uint32, err error) {
	c, err := acquire(prm)
	if err != nil {
		release(c)
		return 0, 0, err
	}
	defer release(c)
	h := prm.Q - k
	if h < 0 || h >= len(c.qBlocks) || h >= len(c.finQ) {
		return 0, 0, fmt.Errorf("c19: rollback to height %d outside the chain", h)
	}
	return c.qBlocks[h].Header.MaxHeightPrevoted, c.finQ[h], nil
}

func stateNote(q *node.Node, b behav) string {
	_, mhpc, _ := q.BFTHeights()
	s := fmt.Sprintf("own tip %d, stored finalized height %d, maxHeightPrecommitted of the BFT store %d", q.Height(), q.Finalized(), mhpc)
	if b.rbK > 0 {
		s += fmt.Sprintf(" (tip rolled back before the synchronisation: rb=%c%d, restart=%v)", b.rbVia, b.rbK, b.restart)
	}
	return s
}

// checkSyncContext: every field of the context Executer.createSyncContext builds for the synchronisers is a
// committed value of the node: the finalized block is the block at the STORED finalized height, the validators are
// those of the chain (the scenario chains never change them: the validators of the genesis block), the block and
// the peer are the received ones.
func checkSyncContext(q *node.Node, block *blockchain.Block, peer p2p.PeerID, b behav) (fails []corr.Fail) {
	real, err := q.Exec.VerifC04CreateSyncContext(context.Background(), block, peer)
	if err != nil || real == nil || real.FinalizedBlockHeader == nil {
		return []corr.Fail{fail("c19-sync-context-not-committed-finalized", "createSyncContext failed: %v; %s", err, stateNote(q, b))}
	}
	stored := q.Finalized()
	hdr, err := q.HeaderAt(stored)
	if err != nil {
		return []corr.Fail{fail("c19-setup", "header at the stored finalized height %d: %v", stored, err)}
	}
	if fh := real.FinalizedBlockHeader; fh.Height != stored || !bytes.Equal(fh.ID, hdr.ID) {
		fails = append(fails, fail("c19-sync-context-not-committed-finalized", "SyncContext.FinalizedBlockHeader is the block of height %d (%x); %s: the block at the stored finalized height is %x",
			fh.Height, []byte(fh.ID)[:4], stateNote(q, b), []byte(hdr.ID)[:4]))
	}
	want := map[string]bool{}
	for _, v := range q.Validators {
		want[string(v.Address)] = true
	}
	okVals := len(real.CurrentValidators) == len(want)
	for _, a := range real.CurrentValidators {
		okVals = okVals && want[string(a)]
	}
	if !okVals {
		fails = append(fails, fail("c19-sync-context-validators-not-committed", "SyncContext.CurrentValidators has %d entries, the chain has %d validators (or another set); %s", len(real.CurrentValidators), len(want), stateNote(q, b)))
	}
	if real.Block != block || real.PeerID != peer {
		fails = append(fails, fail("c19-sync-context-block-wrong", "SyncContext.Block / PeerID are not the received block and its sender"))
	}
	return fails
}

func hasIP(l []string, ip string) bool {
	for _, x := range l {
		if x == ip {
			return true
		}
	}
	return false
}

// namesBelowFinalized: the height of the common block the peer names when it is BELOW the stored finalized height
// fin and a block of the requester's chain (-1 otherwise): a forced name (`common=p<h>|q<h>`), or the honest answer
// to the fast synchroniser's request (the fork point, when it is among the 2n-1 offered heights).
func namesBelowFinalized(c *chains, b behav, omode string, fin int) int {
	if b.common != "" {
		if len(b.common) < 2 || (b.common[0] != 'p' && b.common[0] != 'q') {
			return -1
		}
		h, err := strconv.Atoi(b.common[1:])
		if err != nil || h >= fin || h > c.prm.Q || (b.common[0] == 'p' && h > c.prm.F) {
			return -1
		}
		return h
	}
	honest := b.honest() || b.kind() == "smallsegments"
	if honest && omode == "fast" && c.prm.F < fin && c.prm.Q-c.prm.F <= 2*c.prm.N-2 {
		return c.prm.F
	}
	return -1
}

// checkAfterFailedSync: the clauses "a peer naming a common block below the finalized height is banned and nothing
// is downloaded from it" and "after a failed (fast) synchronisation the chain is what it was".
func checkAfterFailedSync(c *chains, q *node.Node, omode string, b behav, syncErr error, before, after [][]byte, finBefore uint32, banned bool, pr *pair) (fails []corr.Fail) {
	prefix := len(after) < len(before)
	for h := 0; prefix && h < len(after); h++ {
		prefix = bytes.Equal(after[h], before[h])
	}
	if syncErr != nil && prefix {
		if omode == "fast" {
			fails = append(fails, fail("c19-chain-truncated-after-failed-sync", "fast sync (peer %s) failed with %q and left the chain cut from height %d to %d (stored finalized height %d, peer banned: %v); the removed blocks were not restored",
				b.kind(), syncErr, len(before)-1, len(after)-1, finBefore, banned))
		} else if os.Getenv("VERIF_C19_OBS") != "" {
			// (observation, outside the statement of C19: the block synchroniser never restores)
			rb := "-"
			if b.rbK > 0 {
				rb = fmt.Sprintf("%c%d", b.rbVia, b.rbK)
			}
			fmt.Fprintf(os.Stderr, "C19-OBS block-sync-left-truncated: %s peer=%s rb=%s err=%q tip %d -> %d finalized %d\n", resetLine(c.prm, c.facts), b.kind(), rb, syncErr, len(before)-1, len(after)-1, finBefore)
		}
	}
	if omode == "fast" && b.extra == "" && !b.mainFail {
		if h := namesBelowFinalized(c, b, omode, int(finBefore)); h >= 0 {
			dl := int64(-1)
			if pr != nil && pr.served != nil {
				dl = atomic.LoadInt64(pr.served)
			}
			changed := len(after) != len(before)
			for i := 0; !changed && i < len(after); i++ {
				changed = !bytes.Equal(after[i], before[i])
			}
			if dl > 0 {
				fails = append(fails, fail("c19-downloaded-from-peer-below-finalized", "the peer named the common block %d below the stored finalized height %d: %d getBlocksFromId requests were sent to it (own tip %d)", h, finBefore, dl, len(before)-1))
			}
			if b.common != "" {
				// (the honest answer is judged in runSyncOnce)
				if !banned {
					fails = append(fails, fail("c19-bad-peer-not-banned", "peer naming the common block %d below the stored finalized height %d was not banned", h, finBefore))
				}
				if changed || syncErr == nil {
					fails = append(fails, fail("c19-below-finalized-accepted", "common block %d below the stored finalized height %d was not refused (err=%v, chain changed: %v)", h, finBefore, syncErr, changed))
				}
			}
		}
	}
	return fails
}

// rollbackClass names the cell of the state family a sync scenario is in ("" without rollback).
func rollbackClass(prm params, finQ int, b behav) string {
	if b.rbK == 0 {
		return ""
	}
	tip := prm.Q - b.rbK
	if b.rbVia == 't' || b.rbVia == 'f' {
		tip = prm.Q
	}
	cl := fmt.Sprintf(":rolled-back-%c", b.rbVia)
	switch {
	case tip == finQ:
		cl += ":tip-at-finalized"
	case tip == finQ+1:
		cl += ":tip-1-above-finalized"
	default:
		cl += ":tip-above-finalized"
	}
	f := prm.F
	if b.common != "" && len(b.common) > 1 {
		if h, err := strconv.Atoi(b.common[1:]); err == nil {
			f = h
		}
	}
	// (with n validators of equal weight the BFT store of a chain of height t has precommitted height t-(n+1))
	lag := tip - (prm.N + 1)
	switch {
	case f > finQ:
		cl += ":common-above-finalized"
	case f == finQ:
		cl += ":common-at-finalized"
	case f >= lag && b.rbVia != 'f':
		cl += ":common-between-bft-store-and-finalized"
	default:
		cl += ":common-below-bft-store"
	}
	if b.restart {
		cl += ":restarted"
	}
	return cl
}

// rollbackCases: the product {k} x {position of the peer's common block relative to the rolled-back BFT store and
// the stored finalized height} x {fast via Executer.process, forced fast, forced block, lying peer}.
func rollbackCases(rng *rand.Rand, tier string, vias string) []syncCase {
	var l []syncCase
	add := func(prm params, b string) { l = append(l, syncCase{prm, strings.TrimSpace(b)}) }
	thorough := tier == "thorough"
	ns := []int{4}
	if thorough {
		ns = []int{4, 5}
	}
	for _, n := range ns {
		Q := 5*n + rng.Intn(3)
		base := params{P: Q + 2, F: Q, Q: Q, N: n, Cache: 515}
		f, err := factsOf(base)
		if err != nil || int(f.finQ) < n+2 || int(f.finQ) >= Q {
			continue
		}
		fin := int(f.finQ)
		maxK := Q - fin
		for _, via := range vias {
			var ks []int
			switch via {
			case 'd':
				ks = []int{1, maxK - 1, maxK}
				if thorough {
					ks = nil
					for k := 1; k <= maxK; k++ {
						ks = append(ks, k)
					}
				} else if rng.Intn(2) == 0 {
					ks[1] = 1 + rng.Intn(maxK)
				}
			case 'b', 'f':
				ks = []int{1 + rng.Intn(maxK)}
				if thorough {
					ks = []int{1, 2, maxK - 1, maxK}
				}
			default:
				continue
			}
			for _, k := range ks {
				if k < 1 || k > maxK {
					continue
				}
				tip := Q - k
				if via == 'f' {
					tip = Q
				}
				lag := tip - (n + 1) // precommitted height of the rolled-back BFT store
				// common block of the peer: below the BFT store, between it and the finalized height (both ends), at
				// the finalized height, above it
				cs := map[int]bool{fin - 1: true, fin: true}
				if lag < fin {
					cs[lag] = true
					if lag-1 >= 1 {
						cs[lag-1] = true
					}
					if lag+1 < fin {
						cs[lag+rng.Intn(fin-lag)] = true
					}
				}
				if tip > fin {
					cs[fin+1+rng.Intn(tip-fin)] = true
				}
				rb := fmt.Sprintf("rb=%c%d", via, k)
				for _, cb := range sortedInts(cs) {
					if cb < 1 || cb > tip {
						continue
					}
					// the peer's chain: fork after cb, tip inside the fast synchroniser's window (two rounds from the
					// common block) and above the requester's tip
					p := min(cb+2*n, tip+2)
					if p <= tip {
						continue
					}
					prm := params{P: p, F: min(cb, Q), Q: Q, N: n, Cache: 515}
					opts := []string{"", "force=fast", "force=block"}
					if !thorough {
						opts = []string{opts[rng.Intn(2)]}
						if cb == fin-1 || rng.Intn(3) == 0 {
							opts = append(opts, "force=block")
						}
					}
					if thorough || cb == fin-1 {
						opts = append(opts, "restart=1", "cap=2")
					}
					for _, o := range opts {
						add(prm, o+" "+rb)
					}
				}
				// a peer on a chain that forks AT the tip names a block of the requester below the finalized height
				lie := fin - 1
				if lag < fin && rng.Intn(2) == 0 {
					lie = lag
				}
				add(params{P: tip + 2, F: min(tip, Q), Q: Q, N: n, Cache: 515}, fmt.Sprintf("common=q%d %s", lie, rb))
			}
		}
	}
	return l
}

// genSyncRollback: the part of the family C19 runs with the model (path d).
func genSyncRollback(rng *rand.Rand, tier string) []syncCase {
	l := rollbackCases(rng, tier, "d")
	if tier != "thorough" && len(l) > 16 {
		// the cells that separate the two candidate sources of the finalized block stay, the rest is sampled
		var keep, rest []syncCase
		for _, sc := range l {
			b := parseBehav(strings.Fields(sc.b))
			f, _ := factsOf(params{P: sc.prm.Q + 2, F: sc.prm.Q, Q: sc.prm.Q, N: sc.prm.N, Cache: 515})
			if strings.Contains(rollbackClass(sc.prm, int(f.finQ), b), "between-bft-store-and-finalized") && len(keep) < 8 {
				keep = append(keep, sc)
			} else {
				rest = append(rest, sc)
			}
		}
		rng.Shuffle(len(rest), func(a, b int) { rest[a], rest[b] = rest[b], rest[a] })
		l = append(keep, rest[:min(len(rest), 16-len(keep))]...)
	}
	return l
}

// syncOpLine renders the `sync` op of a scenario with the facts the model needs.
func syncOpLine(sc syncCase) (string, bool) {
	op := "sync"
	if sc.b != "" {
		op += " " + sc.b
	}
	w := strings.Fields(sc.b)
	if bad, ok := kvInt(w, "badexec"); ok {
		fp, err := finPeakOf(sc.prm, bad)
		if err != nil {
			return "", false
		}
		op += fmt.Sprintf(" finpeak=%d", fp)
	}
	if via, k := parseRollback(w); via == 'd' {
		mhp, mhpc, err := rollbackFacts(sc.prm, k)
		if err != nil {
			return "", false
		}
		op += fmt.Sprintf(" rmhp=%d rmhpc=%d", mhp, mhpc)
	}
	return op, true
}

// ---------------------------------------------------------------------------------------------
// pseudo-property C19CTX

type c19ctx struct{}

func init() { corr.Register(c19ctx{}) }

func (c19ctx) ID() string                 { return "C19CTX" }
func (c19ctx) NoModel() bool              { return true }
func (c19ctx) CaseTimeout() time.Duration { return 5 * time.Minute }

func (c19ctx) RunImpl(c corr.Case) ([]string, []corr.Fail) { return prop{}.RunImpl(c) }

func (c19ctx) Classify(c corr.Case, out []string) string { return prop{}.Classify(c, out) }

// Generate: the rollback paths that need a first peer (interrupted block synchronisation, aborted fast
// synchronisation), the tie-break replacement on recent chains, plain deletions followed by a restart or with stale
// temp blocks - each followed by {fast, block} synchronisations from peers whose common block lies below the
// rolled-back BFT store, between it and the stored finalized height, at and above the finalized height.
func (c19ctx) Generate(rng *rand.Rand, tier string) []corr.Case {
	l := rollbackCases(rng, tier, "bf")
	thorough := tier == "thorough"
	if !thorough && len(l) > 14 {
		var keep, rest []syncCase
		for _, sc := range l {
			if strings.Contains(sc.b, "rb=b") && len(keep) < 9 {
				keep = append(keep, sc)
			} else {
				rest = append(rest, sc)
			}
		}
		rng.Shuffle(len(rest), func(a, b int) { rest[a], rest[b] = rest[b], rest[a] })
		l = append(keep, rest[:min(len(rest), 14-len(keep))]...)
	}
	// plain deletions: restarted afterwards, and with the deleted blocks left in the temp table of an earlier round
	for _, sc := range rollbackCases(rng, "quick", "d") {
		if strings.Contains(sc.b, "force=") || strings.Contains(sc.b, "restart=") {
			continue
		}
		switch rng.Intn(4) {
		case 0:
			l = append(l, syncCase{sc.prm, sc.b + " restart=1"})
		case 1:
			l = append(l, syncCase{sc.prm, sc.b + " force=fast restart=1"})
		}
	}
	// tie-break replacement of the tip (recent chains: the competitor is forged in the current slot)
	for _, n := range []int{4} {
		Q := 5*n + 1 + rng.Intn(2)
		base := params{P: Q + 2, F: Q, Q: Q, N: n, Cache: 515, Rc: true}
		f, err := factsOf(base)
		if err != nil || int(f.finQ) < n+2 {
			continue
		}
		fin := int(f.finQ)
		for _, cb := range []int{fin - 2, fin - 1, fin, Q - 1} {
			prm := params{P: min(cb+2*n, Q+2), F: cb, Q: Q, N: n, Cache: 515, Rc: true}
			if prm.P <= Q {
				continue
			}
			l = append(l, syncCase{prm, "rb=t1"})
			if thorough || cb == fin-1 {
				l = append(l, syncCase{prm, "force=fast rb=t1"}, syncCase{prm, "force=block rb=t1"})
			}
		}
	}
	var cases []corr.Case
	for _, sc := range l {
		f, err := factsOf(sc.prm)
		if err != nil {
			cases = append(cases, corr.Case{Ops: []string{resetLine(sc.prm, facts{})}, Tag: "sync-context"})
			continue
		}
		op, ok := syncOpLine(sc)
		if !ok {
			continue
		}
		if sc.prm.Rc {
			age, err := recency(sc.prm)
			if err != nil {
				continue
			}
			op += fmt.Sprintf(" age=%d", age)
		}
		cases = append(cases, corr.Case{Ops: []string{resetLine(sc.prm, f), op}, Tag: "sync-context"})
	}
	return cases
}
