package c19

// Pseudo-property C09SYNC (run as part of property C09 through `also`, no model): the REQUESTER side of
// the sync RPCs facing a MALICIOUS responder. C09: no message from a peer can hang the node or make it use
// memory that is not bounded by the input. The responses to getBlocksFromId are peer input; the download
// they feed (`Downloader.Start`, consumed by fastSyncer.downloadAndValidate - which keeps every block in
// memory while the consensus loop is blocked - and by blockSyncer.downloadAndProcess) must END, whatever
// the responder does, within a bound that depends only on the two heights the download was created with:
//
//	requests  <=  max(endHeight - startHeight, 0) + 2
//	blocks delivered to the consumer  <=  max(endHeight - startHeight, 0) + 1
//
// (every response that does not end the download has to deliver at least one block that continues the
// segment and lies below the end height - Lean: C19_download_sound, termination clause). The responder is
// a scripted libp2p host on loopback that counts the requests it gets; the requester is a real node
// (Chain, Executer, Syncer, Connection). Oracles:
//
//	c09-download-unbounded   the responder was asked more often / more blocks reached the consumer than the bound
//	c09-download-hang        the download / synchroniser did not return within the watchdog
//	c09-sync-panic           the requester panicked on the peer's answers
//
// Ops (after `reset P= F= Q= n= cache= ...`):
//
//	mdl s=<tok> sh=<h> e=<tok> eh=<h> mal=<behaviour> [seg=<k>]
//	    the real Downloader of the requester (VerifC19Download: NewDownloader + Start) from block s (claimed
//	    height sh) to block e (claimed height eh) against the malicious responder; eh may be at or below sh
//	msync H=<h> ch=<h'> mal=<behaviour> [seg=<k>]
//	    the real fastSyncer.Sync of the requester for a received block of the peer's fork at height H (<= own
//	    tip); the peer names the requester's own block of height ch as highest common block (ch = H: the
//	    downloader is created with end height == start height) and then serves getBlocksFromId maliciously
//
// Behaviours (mal=): endless (a linked chain of forged, statelessly valid blocks, seg per response, for ever),
// endless1 (one block per response), huge (500 per response), empty, error, garbage (undecodable response),
// repeat (the first segment again and again), wrongfork (a segment that does not link to the requested
// block), sameheight (blocks at the height of the requested block), skip (linked, heights jump by 2),
// serveend (only ever the requested end block), truncated (the peer's real chain but never the end block,
// then the last block again and again), honest (the peer's real chain; forged continuation above its tip).

import (
	"bytes"
	"context"
	"crypto/sha256"
	"errors"
	"fmt"
	"math/rand"
	"sort"
	"strings"
	"sync"
	"time"

	"github.com/LiskHQ/lisk-engine/pkg/blockchain"
	"github.com/LiskHQ/lisk-engine/pkg/codec"
	lsync "github.com/LiskHQ/lisk-engine/pkg/consensus/sync"
	"github.com/LiskHQ/lisk-engine/pkg/p2p"

	"verifharness/corr"
	"verifharness/node"
)

// evil is the scripted malicious responder.
type evil struct {
	mu       sync.Mutex
	c        *chains
	tmpl     *blockchain.Block
	mode     string
	seg      int
	heights  map[string]uint32 // block id -> the height the responder continues from
	top      uint32            // continuation height for ids it never saw
	endH     uint32
	endBlk   *blockchain.Block
	fixed    []*blockchain.Block
	commonID []byte
	requests int // getBlocksFromId requests of the current op
	served   int // blocks sent in answers of the current op
	limit    int // requests beyond the limit are answered with an error: the bound is already exceeded
}

func (e *evil) forge(prev []byte, height uint32) *blockchain.Block {
	b, err := node.CopyBlock(e.tmpl)
	if err != nil {
		panic(err)
	}
	b.Header.Height = height
	b.Header.PreviousBlockID = append(codec.Hex{}, prev...)
	b.Header.Timestamp = e.tmpl.Header.Timestamp + height*10
	b.Init()
	return b
}

func (e *evil) chainFrom(prev []byte, first uint32, step uint32, n int) []*blockchain.Block {
	var res []*blockchain.Block
	h := first
	for i := 0; i < n; i++ {
		b := e.forge(prev, h)
		e.heights[string(b.Header.ID)] = h
		if h > e.top {
			e.top = h
		}
		res = append(res, b)
		prev = b.Header.ID
		h += step
	}
	return res
}

// configure prepares the responder for one op.
func (e *evil) configure(mode string, seg int, startID []byte, startH uint32, endID []byte, endH uint32, limit int) {
	e.mu.Lock()
	defer e.mu.Unlock()
	e.mode, e.seg, e.endH, e.limit = mode, seg, endH, limit
	e.requests, e.served, e.fixed, e.endBlk = 0, 0, nil, nil
	e.heights = map[string]uint32{}
	for h, b := range e.c.pBlocks {
		e.heights[string(b.Header.ID)] = uint32(h)
		if bytes.Equal(b.Header.ID, endID) {
			e.endBlk = b
		}
	}
	for h, b := range e.c.qBlocks {
		e.heights[string(b.Header.ID)] = uint32(h)
		if bytes.Equal(b.Header.ID, endID) {
			e.endBlk = b
		}
	}
	e.heights[string(startID)] = startH
	e.top = startH
}

func (e *evil) counts() (int, int) {
	e.mu.Lock()
	defer e.mu.Unlock()
	return e.requests, e.served
}

func (e *evil) handleBlocks(w p2p.ResponseWriter, r *p2p.Request) {
	e.mu.Lock()
	defer e.mu.Unlock()
	e.requests++
	if e.requests > e.limit {
		w.Error(errors.New("no more"))
		return
	}
	req := &lsync.GetBlocksFromIDRequest{}
	if r.Data == nil || req.Decode(r.Data) != nil {
		w.Error(errors.New("bad request"))
		return
	}
	id := []byte(req.ID)
	h, known := e.heights[string(id)]
	if !known {
		h = e.top
	}
	var res []*blockchain.Block
	switch e.mode {
	case "endless", "endless1", "huge":
		res = e.chainFrom(id, h+1, 1, e.seg)
	case "empty":
	case "error":
		w.Error(errors.New("unknown block"))
		return
	case "garbage":
		w.Write([]byte{0x0a, 0x05, 0xff, 0xff, 0xff, 0xff, 0x0f, 0x12})
		return
	case "repeat":
		if e.fixed == nil {
			e.fixed = e.chainFrom(id, h+1, 1, e.seg)
		}
		res = e.fixed
	case "wrongfork":
		other := sha256.Sum256(append([]byte("c09sync-fork-"), id...))
		res = e.chainFrom(other[:], h+1, 1, e.seg)
	case "sameheight":
		res = e.chainFrom(id, h, 0, e.seg)
	case "skip":
		res = e.chainFrom(id, h+2, 2, e.seg)
	case "serveend":
		if e.endBlk != nil {
			res = []*blockchain.Block{e.endBlk}
		} else {
			res = e.chainFrom(id, e.endH, 0, 1)
		}
	case "truncated", "honest":
		// the peer's real chain after the requested block
		idx := -1
		for i, b := range e.c.pBlocks {
			if bytes.Equal(b.Header.ID, id) {
				idx = i
			}
		}
		if idx >= 0 {
			for _, b := range e.c.pBlocks[idx+1:] {
				if len(res) >= e.seg || (e.mode == "truncated" && b.Header.Height >= e.endH) {
					break
				}
				res = append(res, b)
			}
		}
		if len(res) == 0 {
			if e.mode == "truncated" {
				if e.fixed == nil {
					e.fixed = e.chainFrom(id, h, 0, 1)
				}
				res = e.fixed
			} else {
				res = e.chainFrom(id, h+1, 1, e.seg)
			}
		}
	}
	e.served += len(res)
	w.Write((&lsync.GetBlocksFromIDResponse{Blocks: res}).Encode())
}

func (e *evil) handleCommon(w p2p.ResponseWriter, r *p2p.Request) {
	e.mu.Lock()
	defer e.mu.Unlock()
	w.Write((&lsync.GetHighestCommonBlockResponse{ID: e.commonID}).Encode())
}

func (e *evil) handleLast(w p2p.ResponseWriter, r *p2p.Request) {
	w.Write(e.c.pBlocks[len(e.c.pBlocks)-1].Encode())
}

// evilPair is a requester node (own chain Q) connected over loopback to the malicious responder.
type evilPair struct {
	q    *node.Node
	resp *p2p.Connection
	e    *evil
	hung bool
}

func (p *evilPair) stop() {
	if p == nil || p.hung {
		return
	}
	(&pair{q: p.q, resp: p.resp}).stop()
}

func startEvilPair(c *chains) (*evilPair, []corr.Fail) {
	if len(c.pBlocks) < 2 {
		return nil, []corr.Fail{fail("c19-setup", "C09SYNC needs a responder chain with at least one block")}
	}
	q, err := c.newRequester()
	if err != nil {
		return nil, []corr.Fail{fail("c19-setup", "requester: %v", err)}
	}
	e := &evil{c: c, tmpl: c.pBlocks[1], heights: map[string]uint32{}, limit: 1 << 30}
	resp := p2p.NewConnection(node.NopLogger(), &p2p.Config{ChainID: c.p.Cfg.ChainID, Addresses: []string{"/ip4/127.0.0.1/tcp/0"}})
	for name, h := range map[string]p2p.RPCHandler{lsync.RPCEndpointGetLastBlock: e.handleLast, lsync.RPCEndpointGetHighestCommonBlock: e.handleCommon, lsync.RPCEndpointGetBlocksFromID: e.handleBlocks} {
		if err := resp.RegisterRPCHandler(name, h); err != nil {
			q.Close()
			return nil, []corr.Fail{fail("c19-setup", "responder: %v", err)}
		}
	}
	if err := resp.Start([]byte{}); err != nil {
		q.Close()
		return nil, []corr.Fail{fail("c19-setup", "responder: %v", err)}
	}
	q.Conn.VerifC19SetListen([]string{"/ip4/127.0.0.1/tcp/0"})
	if err := q.Conn.Start([]byte{}); err != nil {
		_ = resp.Stop()
		q.Close()
		return nil, []corr.Fail{fail("c19-setup", "requester connection: %v", err)}
	}
	pr := &evilPair{q: q, resp: resp, e: e}
	addrs, err := resp.MultiAddress()
	if err != nil || len(addrs) == 0 {
		pr.stop()
		return nil, []corr.Fail{fail("c19-setup", "responder address: %v", err)}
	}
	info, err := p2p.AddrInfoFromMultiAddr(addrs[0])
	if err != nil {
		pr.stop()
		return nil, []corr.Fail{fail("c19-setup", "responder address: %v", err)}
	}
	if err := q.Conn.Connect(context.Background(), *info); err != nil {
		pr.stop()
		return nil, []corr.Fail{fail("c19-setup", "connect: %v", err)}
	}
	ready := false
	for deadline := time.Now().Add(20 * time.Second); !ready && time.Now().Before(deadline); {
		for _, pid := range resp.ConnectedPeers() {
			if pid == q.Conn.ID() {
				ctx, cancel := context.WithTimeout(context.Background(), time.Second)
				_, err := lsync.VerifC19RequestLastBlockHeader(ctx, q.Conn, resp.ID())
				cancel()
				ready = err == nil
			}
		}
		if !ready {
			time.Sleep(5 * time.Millisecond)
		}
	}
	if !ready {
		pr.stop()
		return nil, []corr.Fail{fail("c19-setup", "the two hosts did not get connected")}
	}
	q.AllowSync = true
	q.PeerID = resp.ID()
	return pr, nil
}

const c09Watchdog = 25 * time.Second

func span(startH, endH int) int {
	if endH > startH {
		return endH - startH
	}
	return 0
}

func segOf(w []string, mode string) int {
	seg, ok := kvInt(w, "seg")
	if !ok || seg < 1 {
		seg = lsync.VerifC19MaxBlocksPerResponse
	}
	switch mode {
	case "endless1":
		seg = 1
	case "huge":
		seg = 500
	}
	return seg
}

// bounded is the oracle: requests received by the responder and blocks that reached the consumer against
// the bound implied by the two heights.
func bounded(what string, startH, endH, requests, blocks, served int) []corr.Fail {
	sp := span(startH, endH)
	if requests > sp+2 || blocks > sp+1 {
		consumer := fmt.Sprintf("%d blocks reached the consumer (bound %d)", blocks, sp+1)
		if blocks < 0 {
			consumer = "the synchroniser keeps every delivered block in memory until the download ends"
		}
		return []corr.Fail{fail("c09-download-unbounded",
			"%s: download created with start height %d and end height %d: the peer was asked %d times (bound %d) and sent %d blocks, %s - the peer's answers alone keep the download going (the consensus loop is blocked meanwhile); the harness stopped answering",
			what, startH, endH, requests, sp+2, served, consumer)}
	}
	return nil
}

// malDownload runs `mdl`.
func (p *evilPair) malDownload(c *chains, w []string) (string, []corr.Fail) {
	st, ok1 := kvStr(w, "s")
	sh, ok2 := kvInt(w, "sh")
	et, ok3 := kvStr(w, "e")
	eh, ok4 := kvInt(w, "eh")
	mode, ok5 := kvStr(w, "mal")
	if !ok1 || !ok2 || !ok3 || !ok4 || !ok5 || sh < 0 || eh < 0 {
		return "bad-op", nil
	}
	startID, err1 := c.resolve(st)
	endID, err2 := c.resolve(et)
	if err1 != nil || err2 != nil {
		return "bad-op", nil
	}
	sp := span(sh, eh)
	p.e.configure(mode, segOf(w, mode), startID, uint32(sh), endID, uint32(eh), sp+2+2)
	blocks := 0
	sawErr := false
	done := make(chan struct{})
	ctx, cancel := context.WithCancel(context.Background())
	defer cancel()
	var pan any
	go func() {
		defer close(done)
		defer func() { pan = recover() }()
		lsync.VerifC19Download(ctx, p.q.Exec.VerifSyncer(), p.resp.ID(), startID, uint32(sh), endID, uint32(eh),
			func(b *blockchain.Block, err error) bool {
				if err != nil {
					sawErr = true
					return false
				}
				blocks++
				return blocks <= sp+1+5000
			})
	}()
	select {
	case <-done:
	case <-time.After(c09Watchdog):
		p.hung = true
		req, served := p.e.counts()
		return "timeout", []corr.Fail{fail("c09-download-hang", "download %v against the malicious peer did not end within %s (%d requests, %d blocks served so far)", w, c09Watchdog, req, served)}
	}
	if pan != nil {
		return "panic", []corr.Fail{fail("c09-sync-panic", "download %v: %v", w, pan)}
	}
	req, served := p.e.counts()
	res := "closed"
	if sawErr {
		res = "error"
	}
	out := fmt.Sprintf("mdl %s req=%d blocks=%d", res, req, blocks)
	return out, bounded(fmt.Sprintf("Downloader, peer behaviour %s", mode), sh, eh, req, blocks, served)
}

// malFastSync runs `msync`.
func (p *evilPair) malFastSync(c *chains, w []string) (string, []corr.Fail) {
	H, ok1 := kvInt(w, "H")
	ch, ok2 := kvInt(w, "ch")
	mode, ok3 := kvStr(w, "mal")
	if !ok1 || !ok2 || !ok3 || H <= c.prm.F || H >= len(c.pBlocks) || ch < 0 || ch >= len(c.qBlocks) {
		return "bad-op", nil
	}
	q := p.q
	target, err := node.CopyBlock(c.pBlocks[H])
	if err != nil {
		return "bad-op", nil
	}
	common := c.qBlocks[ch]
	p.e.configure(mode, segOf(w, mode), common.Header.ID, uint32(ch), target.Header.ID, uint32(H), span(ch, H)+2+2)
	p.e.mu.Lock()
	p.e.commonID = append([]byte{}, common.Header.ID...)
	p.e.mu.Unlock()
	prmBFT, err := q.BFTParams(q.Height() + 1)
	if err != nil {
		return "setup-failed", []corr.Fail{fail("c19-setup", "bft params: %v", err)}
	}
	vals := []codec.Lisk32{}
	for _, v := range prmBFT.Validators() {
		vals = append(vals, v.Address())
	}
	finHeader, err := q.HeaderAt(q.Finalized())
	if err != nil {
		return "setup-failed", []corr.Fail{fail("c19-setup", "finalized header: %v", err)}
	}
	sctx := &lsync.SyncContext{Ctx: context.Background(), Block: target, FinalizedBlockHeader: finHeader, PeerID: p.resp.ID(), CurrentValidators: vals}
	tipBefore := append([]byte{}, q.Tip().Header.ID...)
	done := make(chan error, 1)
	go func() {
		defer func() {
			if r := recover(); r != nil {
				done <- fmt.Errorf("panic: %v", r)
			}
		}()
		_, err := q.Exec.VerifSyncer().VerifC19FastSync(sctx)
		done <- err
	}()
	var syncErr error
	select {
	case syncErr = <-done:
	case <-time.After(c09Watchdog):
		p.hung = true
		req, served := p.e.counts()
		return "timeout", []corr.Fail{fail("c09-download-hang", "fast synchronisation %v against the malicious peer did not return within %s (%d requests, %d blocks served so far)", w, c09Watchdog, req, served)}
	}
	var fails []corr.Fail
	if syncErr != nil && strings.HasPrefix(syncErr.Error(), "panic:") {
		fails = append(fails, fail("c09-sync-panic", "fast synchronisation %v: %v", w, syncErr))
	}
	req, served := p.e.counts()
	errFlag := 0
	if syncErr != nil {
		errFlag = 1
	}
	moved := 0
	if q.Tip() == nil || !bytes.Equal(q.Tip().Header.ID, tipBefore) {
		moved = 1
	}
	out := fmt.Sprintf("msync err=%d req=%d moved=%d", errFlag, req, moved)
	// the blocks the fast synchroniser holds are the blocks the downloader delivered: at most what was served
	fails = append(fails, bounded(fmt.Sprintf("fastSyncer.Sync (received block at height %d, peer names the own block of height %d as common block), peer behaviour %s", H, ch, mode), ch, H, req, -1, served)...)
	return out, fails
}

// ---------------------------------------------------------------------------------------------

type c09sync struct{}

func init() { corr.Register(c09sync{}) }

func (c09sync) ID() string                 { return "C09SYNC" }
func (c09sync) NoModel() bool              { return true }
func (c09sync) Parallel() int              { return 4 }
func (c09sync) CaseTimeout() time.Duration { return 5 * time.Minute }

func (c09sync) RunImpl(cs corr.Case) (outs []string, fails []corr.Fail) {
	var cur *chains
	var pr *evilPair
	defer func() {
		if pr != nil {
			pr.stop()
		}
		if cur != nil {
			release(cur)
		}
	}()
	for i, op := range cs.Ops {
		out, fs := func() (out string, fs []corr.Fail) {
			defer func() {
				if r := recover(); r != nil {
					out = "panic"
					fs = append(fs, fail("c09-sync-panic", "%s: %v", op, r))
				}
			}()
			w := strings.Fields(op)
			if len(w) == 0 {
				return "bad-op", nil
			}
			if w[0] == "reset" {
				if pr != nil {
					pr.stop()
					pr = nil
				}
				if cur != nil {
					release(cur)
					cur = nil
				}
				var prm params
				var ok [5]bool
				prm.P, ok[0] = kvInt(w, "P")
				prm.F, ok[1] = kvInt(w, "F")
				prm.Q, ok[2] = kvInt(w, "Q")
				prm.N, ok[3] = kvInt(w, "n")
				prm.Cache, ok[4] = kvInt(w, "cache")
				for _, o := range ok {
					if !o {
						return "bad-op", nil
					}
				}
				ch, err := acquire(prm)
				if err != nil {
					release(ch)
					return "setup-failed", []corr.Fail{fail("c19-setup", "%v", err)}
				}
				cur = ch
				return "ok", nil
			}
			if cur == nil {
				return "no-chains", nil
			}
			if w[0] != "mdl" && w[0] != "msync" {
				return "bad-op", nil
			}
			if pr != nil && pr.hung {
				return "timeout", nil
			}
			if pr == nil {
				pr, fs = startEvilPair(cur)
				if pr == nil {
					return "setup-failed", fs
				}
			}
			if w[0] == "mdl" {
				return pr.malDownload(cur, w[1:])
			}
			out, fs = pr.malFastSync(cur, w[1:])
			// the fast synchroniser may have banned the peer: the next op gets a new pair
			if !pr.hung {
				pr.stop()
			}
			pr = nil
			return out, fs
		}()
		for k := range fs {
			fs[k].Op = i
		}
		outs = append(outs, out)
		for _, f := range fs {
			if strings.HasPrefix(f.Sig, "c09-") || f.Sig == "c19-setup" {
				fails = append(fails, f)
			}
		}
	}
	return outs, fails
}

// geometry class of the two heights
func geoClass(sh, eh int) string {
	switch {
	case eh < sh:
		return "end<start"
	case eh == sh:
		return "end=start"
	case eh-sh <= lsync.VerifC19MaxBlocksPerResponse:
		return "end>start"
	}
	return "end>>start"
}

func (c09sync) Classify(cs corr.Case, out []string) string {
	kinds := map[string]bool{}
	for i, op := range cs.Ops {
		if i >= len(out) {
			break
		}
		w := strings.Fields(op)
		o := strings.Fields(out[i])
		if len(w) == 0 || len(o) < 2 {
			continue
		}
		mode, _ := kvStr(w, "mal")
		switch w[0] {
		case "mdl":
			sh, _ := kvInt(w, "sh")
			eh, _ := kvInt(w, "eh")
			kinds["dl:"+mode+":"+geoClass(sh, eh)+":"+o[1]] = true
		case "msync":
			H, _ := kvInt(w, "H")
			ch, _ := kvInt(w, "ch")
			kinds["fast:"+mode+":"+geoClass(ch, H)+":"+o[1]] = true
		}
	}
	l := []string{}
	for k := range kinds {
		l = append(l, k)
	}
	sort.Strings(l)
	return strings.Join(l, "+")
}

var c09Modes = []string{"endless", "endless1", "huge", "empty", "error", "garbage", "repeat", "wrongfork", "sameheight", "skip", "serveend", "truncated", "honest"}

// Generate: for two small chain pairs, every behaviour against every geometry of the two heights (end below /
// at / just above / far above the start; end block the peer's, the requester's own, unknown), in cases of a
// few ops each (one pair of hosts per case); plus the fast synchroniser with the peer controlling both
// heights.
func (c09sync) Generate(rng *rand.Rand, tier string) []corr.Case {
	thorough := tier == "thorough"
	prms := []params{{P: 14, F: 8, Q: 10, N: 4, Cache: 515}}
	if thorough {
		prms = append(prms, params{P: 12, F: 6, Q: 12, N: 5, Cache: 515}, params{P: 30, F: 12, Q: 14, N: 4, Cache: 515})
	}
	var cases []corr.Case
	for _, prm := range prms {
		f, err := factsOf(prm)
		if err != nil {
			cases = append(cases, corr.Case{Ops: []string{resetLine(prm, facts{})}, Tag: "c09sync"})
			continue
		}
		reset := resetLine(prm, f)
		var ops []string
		dl := func(sTok string, sh int, eTok string, eh int, mode string, seg int) {
			op := fmt.Sprintf("mdl s=%s sh=%d e=%s eh=%d mal=%s", sTok, sh, eTok, eh, mode)
			if seg > 0 {
				op += fmt.Sprintf(" seg=%d", seg)
			}
			ops = append(ops, op)
		}
		tok := func(chain byte, h int) string { return fmt.Sprintf("%c%d", chain, h) }
		Q, P, F := prm.Q, prm.P, prm.F
		// the end at / below the start: every behaviour that keeps answering, from the own tip and from a common block
		for _, mode := range []string{"endless", "endless1", "honest", "huge", "repeat", "truncated", "sameheight", "serveend"} {
			d := rng.Intn(3) // 0: end == start
			sh := Q - rng.Intn(2)
			eTok := tok('q', sh-d)
			if rng.Intn(3) == 0 {
				eTok = tok('p', sh-d) // (equal to the own block at or below the fork point)
			}
			dl(tok('q', sh), sh, eTok, sh-d, mode, []int{0, 3, 40}[rng.Intn(3)])
		}
		dl(tok('p', F), F, tok('p', F), F, "honest", 0)
		dl(tok('p', F), F, tok('p', F-2), F-2, "endless", 7)
		dl(tok('q', Q), Q, "u1", 0, "endless", 0)
		dl(tok('q', Q), Q, "u1", Q, "endless1", 0)
		// the end above the start: nobody gets more than the distance out of the requester
		for _, mode := range c09Modes {
			sh := F - rng.Intn(3)
			d := 1 + rng.Intn(5)
			eTok := tok('p', sh+d)
			switch rng.Intn(4) {
			case 0:
				eTok = "u2" // an end block nobody has
			case 1:
				if sh+d <= Q {
					eTok = tok('q', sh+d)
				}
			}
			seg := []int{0, 1, 2, 103}[rng.Intn(4)]
			dl(tok('p', sh), sh, eTok, sh+d, mode, seg)
		}
		// far apart: several full responses (only behaviours that send many blocks per response: requests cost 100 ms)
		dl(tok('p', 2), 2, "u3", 2+2*lsync.VerifC19MaxBlocksPerResponse+1, "endless", 0)
		dl(tok('p', 2), 2, "u3", 2+lsync.VerifC19MaxBlocksPerResponse, "huge", 0)
		nRand := 27
		if thorough {
			nRand = 250
		}
		{
			for i := 0; i < nRand; i++ {
				mode := c09Modes[rng.Intn(len(c09Modes))]
				sh := rng.Intn(P + 1)
				eh := sh - 3 + rng.Intn(10)
				if eh < 0 {
					eh = 0
				}
				chain := []byte{'p', 'q'}[rng.Intn(2)]
				eTok := tok([]byte{'p', 'q'}[rng.Intn(2)], eh)
				if rng.Intn(5) == 0 {
					eTok = "u" + fmt.Sprint(rng.Intn(4))
				}
				dl(tok(chain, sh), sh, eTok, eh, mode, []int{0, 1, 2, 5, 103, 200}[rng.Intn(6)])
			}
		}
		rng.Shuffle(len(ops), func(a, b int) { ops[a], ops[b] = ops[b], ops[a] })
		cases = append(cases, chunk("c09sync-download", ops, 9, reset)...)
		// fast synchroniser: received block of the peer's fork at a height the node already has; the peer names
		// the node's own block of the same height (or a higher / lower one) as highest common block
		fin := int(f.finQ)
		var fops []string
		for _, H := range []int{Q, Q - 1} {
			if H <= F || H > P || H < fin {
				continue
			}
			for _, mode := range []string{"endless", "honest", "endless1"} {
				fops = append(fops, fmt.Sprintf("msync H=%d ch=%d mal=%s", H, H, mode))
			}
			if H+1 <= Q {
				fops = append(fops, fmt.Sprintf("msync H=%d ch=%d mal=endless", H, H+1))
			}
			if H-1 >= fin && H-1 >= 0 {
				fops = append(fops, fmt.Sprintf("msync H=%d ch=%d mal=endless seg=5", H, H-1), fmt.Sprintf("msync H=%d ch=%d mal=repeat seg=1", H, H-1))
			}
		}
		if !thorough {
			// quick: two runs with end height == start height, two others
			var eq, other []string
			for _, o := range fops {
				w := strings.Fields(o)
				H, _ := kvInt(w, "H")
				ch, _ := kvInt(w, "ch")
				if H == ch {
					eq = append(eq, o)
				} else {
					other = append(other, o)
				}
			}
			rng.Shuffle(len(eq), func(a, b int) { eq[a], eq[b] = eq[b], eq[a] })
			rng.Shuffle(len(other), func(a, b int) { other[a], other[b] = other[b], other[a] })
			fops = append(append([]string{}, eq[:min(2, len(eq))]...), other[:min(2, len(other))]...)
		}
		cases = append(cases, chunk("c09sync-fast", fops, 2, reset)...)
	}
	return cases
}
