package c19

// Realistic scale (miss C19-13): the requests the two synchronisers of an HONEST node produce on a
// network of main-net size - up to 103 validators, i.e. up to 2*103-1 = 205 ids in the
// getHighestCommonBlock request of the fast synchroniser, own chains beyond 104 / 206 / 515 blocks -
// must be answered, not punished, by the handlers of an honest node.
//
// Ops (after a `reset P= F= Q= n= ...` that defines the two chains):
//
//	hreq fast n=<k> tip=<h>            the request the fast synchroniser of a node with k current validators
//	                                   whose chain is the requester chain cut at height h sends: ids of the
//	                                   heights the REAL getLastHeights(h, 2k) names, encoded by the REAL
//	                                   requester-side encoder, handed to the REAL handler of the responder
//	hreq block n=<k> tip=<h> fin=<f>   the first request of the block synchroniser's common block search:
//	                                   REAL getHeightWithGap(getCommonBlockStartSearchHeight(h, k), f, k, 10)
//
// both in-process (no networking), so that every validator count 1..103 and every tip height of a
// chain is swept; output `req <number of ids> <answer>`. Oracle c19-honest-request-banned: such a
// request is never answered with a ban; the answer is the highest requested block of the responder's
// chain (c19-highest-common-wrong). The same requests go through the REAL requester code
// (fastSyncer.getCommonBlock / blockSyncer.getCommonBlockHeader) over two loopback hosts in the `fs` /
// `cs` ops generated here for 52 / 53 / 101 / 103 validators on chains above 206 blocks, and complete
// synchronisations run on chains built by 52 / 53 / 101 / 103 real validators (genSyncScale).

import (
	"fmt"
	"math/rand"
	"strings"

	lsync "github.com/LiskHQ/lisk-engine/pkg/consensus/sync"

	"verifharness/corr"
)

// maxValidators is the size of the main-net validator set (101 elected + 2 stand-by).
const maxValidators = 103

// scaleValidators are the validator counts around the sizes at which the request of the fast
// synchroniser (2n-1 ids) passes 103 (the response cap / a "natural" bound) and reaches its maximum.
var scaleValidators = []int{52, 53, 101, 103}

// honestRequest runs `hreq fast|block n= tip= [fin=]`.
func (f *fixture) honestRequest(w []string) (string, []corr.Fail) {
	if len(w) < 3 {
		return "bad-op", nil
	}
	n, ok1 := kvInt(w, "n")
	tip, ok2 := kvInt(w, "tip")
	if !ok1 || !ok2 || n < 1 || n > 1<<16 || tip < 0 || tip > f.c.prm.Q {
		return "bad-op", nil
	}
	var heights []uint32
	switch w[0] {
	case "fast":
		// fastSyncer.getCommonBlock: getLastHeights(lastBlockHeader.Height, len(ctx.CurrentValidators)*2)
		heights = lsync.VerifC19LastHeights(uint32(tip), n*2)
	case "block":
		fin, ok := kvInt(w, "fin")
		if !ok || fin < 0 || fin > tip {
			return "bad-op", nil
		}
		// blockSyncer.getCommonBlockHeader, first trial
		start := lsync.VerifC19CommonBlockStartSearchHeight(uint32(tip), n)
		heights = lsync.VerifC19HeightWithGap(start, uint32(fin), n, 10)
	default:
		return "bad-op", nil
	}
	// GetBlockHeadersByHeights: the headers of the own chain at those heights (heights above the tip have none)
	ids := [][]byte{}
	for _, h := range heights {
		if int(h) <= tip {
			id, err := f.c.resolve(fmt.Sprintf("q%d", h))
			if err != nil {
				return "bad-op", nil
			}
			ids = append(ids, id)
		}
	}
	out, fails := f.highestCommon(lsync.VerifC19EncodeHighestCommonBlockRequest(ids), ids, true)
	if out == "ban" && len(ids) > 0 {
		fails = append(fails, fail("c19-honest-request-banned", "the getHighestCommonBlock request of an honest %s synchroniser (%d validators, own tip %d: %d ids of 32 bytes, heights %d..%d) was answered with a ban",
			w[0], n, tip, len(ids), heights[len(heights)-1], heights[0]))
	}
	return fmt.Sprintf("req %d %s", len(ids), out), fails
}

// scaleChain is the pair of (cheap, 4 validator) chains the request sweeps run on: both tips above
// 2*103-1 heights, the fork a few blocks below the tips.
var scaleChain = params{P: 214, F: 205, Q: 210, N: 4, Cache: 515}

// scaleLongChain: beyond the block cache (515 blocks) and five response caps.
var scaleLongChain = params{P: 531, F: 517, Q: 523, N: 4, Cache: 515}

func genScale(rng *rand.Rand, tier string) []corr.Case {
	var cases []corr.Case
	thorough := tier == "thorough"
	chainsToRun := []params{scaleChain}
	if thorough {
		chainsToRun = append(chainsToRun, scaleLongChain)
	}
	for ci, prm := range chainsToRun {
		f, err := factsOf(prm)
		if err != nil {
			cases = append(cases, corr.Case{Ops: []string{resetLine(prm, facts{})}, Tag: "scale-requests"})
			continue
		}
		// --- in-process: validator count x tip height
		ops := []string{}
		seen := map[[2]int]bool{}
		addFast := func(n, t int) {
			if t >= 0 && t <= prm.Q && n >= 1 && !seen[[2]int{n, t}] {
				seen[[2]int{n, t}] = true
				ops = append(ops, fmt.Sprintf("hreq fast n=%d tip=%d", n, t))
			}
		}
		if thorough && ci == 0 {
			for t := 0; t <= prm.Q; t++ {
				for n := 1; n <= maxValidators+1; n++ {
					addFast(n, t)
				}
			}
		} else {
			// every validator count at the tip, at the first height with 2*103-1 blocks and at a random height
			for _, t := range []int{prm.Q, 2*maxValidators - 2, rng.Intn(prm.Q + 1)} {
				for n := 1; n <= maxValidators+1; n++ {
					addFast(n, t)
				}
			}
			// every list length 1..2*104-1: one validator more than the main net, tip heights 0..2*104-2
			for t := 0; t <= 2*(maxValidators+1)-2; t++ {
				addFast(maxValidators+1, t)
			}
			// the validator counts of interest at tip heights around their 2n-1 and at random ones
			for _, n := range append([]int{102}, scaleValidators...) {
				for _, t := range []int{0, 1, 2*n - 3, 2*n - 2, 2*n - 1, prm.Q - 1, rng.Intn(prm.Q + 1), rng.Intn(prm.Q + 1), rng.Intn(2 * n)} {
					addFast(n, t)
				}
				if ci > 0 {
					for _, t := range []int{514, 515, 516} {
						addFast(n, t)
					}
				}
			}
		}
		// the block synchroniser's sampled request: at most nine ids, whatever the scale
		for n := 1; n <= maxValidators; n++ {
			if !thorough && n > 8 && n < 50 && rng.Intn(4) != 0 {
				continue
			}
			ts := []int{prm.Q, rng.Intn(prm.Q + 1), n, 2 * n, 9*n + 1}
			for _, t := range ts {
				if t > prm.Q {
					continue
				}
				for _, fin := range []int{0, t / 2, max(0, t-n), t} {
					ops = append(ops, fmt.Sprintf("hreq block n=%d tip=%d fin=%d", n, t, fin))
				}
			}
		}
		cases = append(cases, chunk("scale-requests", ops, 700, resetLine(prm, f))...)

		// --- the REAL requester code over loopback: fast synchroniser's request / common block search for
		// the validator counts of interest (every count in the thorough tier) with the own tip above 2n-1
		ns := map[int]bool{}
		for _, n := range scaleValidators {
			ns[n] = true
		}
		for i := 0; i < 4; i++ {
			ns[4+rng.Intn(maxValidators-3)] = true
		}
		if thorough {
			for n := 4; n <= maxValidators; n++ {
				ns[n] = true
			}
		}
		lops := []string{}
		for _, n := range sortedInts(ns) {
			if prm.Q-prm.F > 2*n-2 {
				continue // (outside the window of fast sync: the honest peer shares none of the offered blocks)
			}
			lops = append(lops, fmt.Sprintf("fs fin=%d n=%d", []int{0, prm.F, int(f.finQ)}[rng.Intn(3)], n))
			fin := []int{0, int(f.finQ), prm.F, rng.Intn(prm.F + 1)}[rng.Intn(4)]
			if fin <= prm.F {
				lops = append(lops, fmt.Sprintf("cs fin=%d n=%d", fin, n))
			}
		}
		cases = append(cases, chunk("scale-common", lops, 400, resetLine(prm, f))...)
	}
	return cases
}

// genSyncScale: complete synchronisations (Executer.process -> Syncer.Sync) between nodes whose chains
// were built by 52 / 53 / 101 / 103 real validators (BLS + Ed25519 keys, aggregate commits, empty
// blocks), the requester's own chain above 2n-1 blocks so that its fast synchroniser offers 2n-1 ids:
// one fast synchronisation and one block synchronisation per validator count. The quick tier runs the
// fast synchronisation with 103 validators and both with one of 52 / 53.
func genSyncScale(rng *rand.Rand, tier string) []syncCase {
	var l []syncCase
	add := func(prm params, b string) { l = append(l, syncCase{prm, b}) }
	ns := []int{maxValidators, []int{52, 53}[rng.Intn(2)]}
	if tier == "thorough" {
		ns = []int{103, 101, 53, 52}
	}
	for _, n := range ns {
		// own tip: the lowest height with 2n-1 blocks below and at the tip, plus 0..2
		q := 2*n - 2 + rng.Intn(3)
		f := q - 1 - rng.Intn(3)
		prm := params{P: q + 2 + rng.Intn(3), F: f, Q: q, N: n, Cache: 515}
		add(prm, "") // fast sync: 2n-1 ids offered
		if tier == "thorough" || n < maxValidators {
			add(prm, "force=block") // block synchroniser between the same two nodes
		}
		if tier == "thorough" {
			add(prm, fmt.Sprintf("badexec=%d", prm.P-1))
			// more than two rounds ahead: Syncer.Sync chooses the block synchroniser itself
			add(params{P: q + 2*n + 2 + rng.Intn(4), F: f, Q: q, N: n, Cache: 515}, "")
		}
	}
	// long chains (cheap 4 validator set): beyond the block cache and several response caps
	add(params{P: 523, F: 2 + rng.Intn(3), Q: 7, N: 4, Cache: 515}, "")
	if tier == "thorough" {
		add(params{P: 640, F: 519, Q: 522, N: 4, Cache: 515}, "")
		add(params{P: 527, F: 520, Q: 524, N: 4, Cache: 515}, "")
	}
	return l
}

// scaleClass names the scale of a sync scenario ("" below main-net scale).
func scaleClass(prm params) string {
	switch {
	case prm.N >= 52:
		return fmt.Sprintf(":validators=%d", prm.N)
	case prm.P > 515 || prm.Q > 515:
		return ":beyond-block-cache"
	}
	return ""
}

// hreqClass: kind x list length bucket x answer.
func hreqClass(w []string, out string) string {
	o := strings.Fields(out)
	if len(w) < 2 || len(o) < 3 || (w[1] != "fast" && w[1] != "block") {
		return "geo:scale-request:other"
	}
	k := 0
	fmt.Sscanf(o[1], "%d", &k)
	b := "1"
	switch {
	case k > 205:
		b = ">205"
	case k == 205:
		b = "205"
	case k > 103:
		b = "104-204"
	case k == 103:
		b = "103"
	case k > 9:
		b = "10-102"
	case k > 1:
		b = "2-9"
	}
	return "geo:scale-" + w[1] + ":ids=" + b + ":" + o[2]
}
