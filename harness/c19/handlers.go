package c19

import (
	"bytes"
	"crypto/ed25519"
	"fmt"
	"strconv"
	"strings"
	"time"

	"github.com/libp2p/go-libp2p/core/crypto"
	"github.com/libp2p/go-libp2p/core/peer"
	ma "github.com/multiformats/go-multiaddr"

	"github.com/LiskHQ/lisk-engine/pkg/blockchain"
	lsync "github.com/LiskHQ/lisk-engine/pkg/consensus/sync"
	"github.com/LiskHQ/lisk-engine/pkg/p2p"

	"verifharness/corr"
	"verifharness/node"
)

var requesterPeer = func() peer.ID {
	std := ed25519.NewKeyFromSeed(bytes.Repeat([]byte{0x19}, ed25519.SeedSize))
	priv, _, err := crypto.KeyPairFromStdKey(&std)
	if err != nil {
		panic(err)
	}
	id, err := peer.IDFromPrivateKey(priv)
	if err != nil {
		panic(err)
	}
	return id
}()

var requesterAddr = ma.StringCast("/ip4/10.19.0.7/tcp/4001")

// capWriter is a hand-made p2p.ResponseWriter.
type capWriter struct {
	data   []byte
	err    error
	writes int
	errs   int
}

func (w *capWriter) Write(b []byte) { w.data = b; w.writes++ }
func (w *capWriter) Error(e error)  { w.err = e; w.errs++ }

// fixture runs the REAL handlers of a Syncer over the responder node's chain. The Syncer's
// connection is the p2p package's stub node (stub libp2p host, real connection gater), so that
// `conn.BanPeer` works and is observable.
type fixture struct {
	c      *chains
	vn     *p2p.VerifNode
	syncer *lsync.Syncer
	// after the first `chain` op (chainops.go): a private responder node whose chain the case changes
	own  *node.Node
	cur  []*blockchain.Block // its current chain by height
	sib  map[string][]byte   // token s<k> -> id of the k-th block built by a `chain new` op
	sibT map[string]string   // id -> token
	ctr  int
	maxH int
}

// chain is the responder's current chain.
func (f *fixture) chain() []*blockchain.Block {
	if f.cur != nil {
		return f.cur
	}
	return f.c.pBlocks
}

func (f *fixture) tok(id []byte) string { return f.c.token(id, f.sibT) }

// resolve maps a token of the line protocol to an id (s<k>: a block built by `chain new`).
func (f *fixture) resolve(tok string) ([]byte, error) {
	if id, ok := f.sib[tok]; ok {
		return id, nil
	}
	if len(tok) >= 2 && tok[0] == 's' {
		if _, err := strconv.Atoi(tok[1:]); err == nil {
			return unknownID(tok), nil // a block that was not built (yet): on no chain
		}
	}
	return f.c.resolve(tok)
}

func newFixture(c *chains) (*fixture, error) {
	vn, err := p2p.VerifNewNode(time.Hour, time.Hour, requesterPeer)
	if err != nil {
		return nil, err
	}
	vn.StartGater()
	s := lsync.NewSyncer(c.p.Chain, c.p.BlockSlot(), vn.VerifC19Conn(), node.NopLogger(), nil, nil)
	return &fixture{c: c, vn: vn, syncer: s}, nil
}

func (f *fixture) close() {
	f.vn.Close()
	if f.own != nil {
		f.own.Close()
	}
}

// call runs one handler with a hand-made request; banned reports whether the handler banned and
// disconnected the requesting peer.
func (f *fixture) call(h p2p.RPCHandler, procedure string, data []byte) (w *capWriter, banned bool) {
	f.vn.TakeClosed()
	f.vn.AddConn(requesterPeer, requesterAddr)
	w = &capWriter{}
	done := make(chan struct{})
	go func() {
		defer close(done)
		h(w, &p2p.Request{ID: "c19", Procedure: procedure, Data: data, Timestamp: 1, PeerID: requesterPeer})
	}()
	select {
	case <-done:
	case <-time.After(20 * time.Second):
		// reported by corr.safeRun with this case as the failing input
		panic(fmt.Sprintf("c19-handler-hung: %s did not answer a %d-byte request within 20 s (its goroutines stay blocked)", procedure, len(data)))
	}
	for _, p := range f.vn.TakeClosed() {
		if p == requesterPeer {
			banned = true
		}
	}
	if !banned {
		_ = f.vn.PeerDisconnect(requesterPeer)
		f.vn.TakeClosed()
	}
	return w, banned
}

func fail(sig, format string, a ...any) corr.Fail {
	return corr.Fail{Sig: sig, Detail: fmt.Sprintf(format, a...), Op: -1}
}

func (f *fixture) lastBlock() (string, []corr.Fail) {
	w, banned := f.call(f.syncer.HandleRPCEndpointGetLastBlock(), lsync.RPCEndpointGetLastBlock, nil)
	if banned || w.err != nil {
		return "unexpected", []corr.Fail{fail("c19-last-block-wrong", "getLastBlock banned=%v err=%v", banned, w.err)}
	}
	b, err := blockchain.NewBlock(w.data)
	if err != nil {
		return "undecodable", []corr.Fail{fail("c19-last-block-wrong", "getLastBlock response does not decode: %v", err)}
	}
	var fails []corr.Fail
	tip := f.chain()[len(f.chain())-1]
	if !bytes.Equal(w.data, tip.Encode()) {
		if f.cur != nil {
			fails = append(fails, fail("c19-handler-stale-chain", "getLastBlock returned block %s (height %d) after the responder's chain changed; its tip is %s (height %d)", f.tok(b.Header.ID), b.Header.Height, f.tok(tip.Header.ID), tip.Header.Height))
		} else {
			fails = append(fails, fail("c19-last-block-wrong", "getLastBlock returned height %d, the tip is %d", b.Header.Height, tip.Header.Height))
		}
	}
	return "tip " + f.tok(b.Header.ID), fails
}

// highestCommon: ids == nil && !structured means raw data given in data.
func (f *fixture) highestCommon(data []byte, ids [][]byte, structured bool) (string, []corr.Fail) {
	w, banned := f.call(f.syncer.HandleRPCEndpointGetHighestCommonBlock(), lsync.RPCEndpointGetHighestCommonBlock, data)
	var fails []corr.Fail
	wellFormed := structured && len(ids) > 0
	for _, id := range ids {
		if len(id) != 32 {
			wellFormed = false
		}
	}
	if structured && banned == wellFormed {
		if banned {
			fails = append(fails, fail("c19-valid-request-banned", "getHighestCommonBlock banned a well-formed request of %d ids", len(ids)))
		} else {
			fails = append(fails, fail("c19-malformed-not-banned", "getHighestCommonBlock accepted a malformed request (%d ids)", len(ids)))
		}
	}
	if banned {
		if w.writes+w.errs > 0 {
			fails = append(fails, fail("c19-ban-and-response", "getHighestCommonBlock banned the peer and answered"))
		}
		return "ban", fails
	}
	if w.err != nil {
		return "err", fails
	}
	var got []byte
	if len(w.data) > 0 {
		resp := &lsync.GetHighestCommonBlockResponse{}
		if err := resp.Decode(w.data); err != nil {
			return "undecodable", append(fails, fail("c19-highest-common-wrong", "response does not decode: %v", err))
		}
		got = resp.ID
		// the requester side decodes the same bytes
		if id2, err := lsync.VerifC19DecodeHighestCommonBlockResponse(w.data); err != nil || !bytes.Equal(id2, got) {
			fails = append(fails, fail("c19-highest-common-wrong", "requester-side decoding differs: %x / %v", id2, err))
		}
	}
	if structured {
		// model-free oracle from the responder's chain: the requested id of greatest height on it
		var want []byte
		for h := len(f.chain()) - 1; h >= 0 && want == nil; h-- {
			for _, id := range ids {
				if bytes.Equal(id, f.chain()[h].Header.ID) {
					want = id
					break
				}
			}
		}
		if !bytes.Equal(want, got) {
			fails = append(fails, fail("c19-highest-common-wrong", "answered %s, the highest requested block on the responder chain is %s", f.tok(got), f.tok(want)))
		}
	}
	if len(got) == 0 {
		return "none", fails
	}
	return "id " + f.tok(got), fails
}

func (f *fixture) blocksFromID(data []byte, id []byte, structured bool) (string, []corr.Fail) {
	w, banned := f.call(f.syncer.HandleRPCEndpointGetBlocksFromID(), lsync.RPCEndpointGetBlocksFromID, data)
	var fails []corr.Fail
	if structured && banned == (len(id) == 32) {
		if banned {
			fails = append(fails, fail("c19-valid-request-banned", "getBlocksFromId banned a well-formed request"))
		} else {
			fails = append(fails, fail("c19-malformed-not-banned", "getBlocksFromId accepted an id of %d bytes", len(id)))
		}
	}
	if banned {
		if w.writes+w.errs > 0 {
			fails = append(fails, fail("c19-ban-and-response", "getBlocksFromId banned the peer and answered"))
		}
		return "ban", fails
	}
	known := -1
	if structured {
		for h, b := range f.chain() {
			if bytes.Equal(b.Header.ID, id) {
				known = h
			}
		}
	}
	if w.err != nil {
		if structured && known >= 0 {
			fails = append(fails, fail("c19-blocks-from-id-wrong", "error %v for the id of height %d", w.err, known))
		}
		return "err", fails
	}
	resp := &lsync.GetBlocksFromIDResponse{}
	if err := resp.Decode(w.data); err != nil {
		return "undecodable", append(fails, fail("c19-blocks-from-id-wrong", "response does not decode: %v", err))
	}
	raw, err := lsync.VerifC19DecodeBlocksFromIDResponse(w.data)
	if err != nil || len(raw) != len(resp.Blocks) {
		fails = append(fails, fail("c19-blocks-from-id-wrong", "requester-side decoding differs: %d blocks / %v", len(raw), err))
	}
	if len(resp.Blocks) > lsync.VerifC19MaxBlocksPerResponse {
		fails = append(fails, fail("c19-blocks-from-id-over-cap", "%d blocks in one response", len(resp.Blocks)))
	}
	if structured {
		if known < 0 {
			fails = append(fails, fail("c19-blocks-from-id-wrong", "blocks returned for an id that is not on the chain"))
		} else {
			// model-free oracle: exactly the blocks of heights known+1 .. min(known+cap, tip), in order
			to := known + lsync.VerifC19MaxBlocksPerResponse
			if to > len(f.chain())-1 {
				to = len(f.chain()) - 1
			}
			if len(resp.Blocks) != to-known {
				fails = append(fails, fail("c19-blocks-from-id-wrong", "%d blocks after height %d, want %d", len(resp.Blocks), known, to-known))
			}
			prev := id
			for i, b := range resp.Blocks {
				h := known + 1 + i
				if h >= len(f.chain()) {
					break
				}
				b.Init()
				if int(b.Header.Height) != h || !bytes.Equal(b.Header.PreviousBlockID, prev) || !bytes.Equal(b.Encode(), f.chain()[h].Encode()) {
					fails = append(fails, fail("c19-blocks-from-id-wrong", "block %d of the response is not the responder's block of height %d following the previous one", i, h))
					break
				}
				prev = b.Header.ID
			}
		}
	}
	toks := make([]string, 0, len(resp.Blocks)+2)
	toks = append(toks, "blocks", strconv.Itoa(len(resp.Blocks)))
	for _, b := range resp.Blocks {
		b.Init()
		toks = append(toks, f.tok(b.Header.ID))
	}
	return strings.Join(toks, " "), fails
}
