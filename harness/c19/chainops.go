package c19

// The responder's handlers after its OWN chain changed. The three RPC handlers are functions of the
// responder's CURRENT chain (Props/C19_More.lean: C19_blocks_from_id_exact, C19_highest_common_exact;
// getLastBlock is `getLast?`): whatever the chain went through - growth, deletion of the tip,
// replacement of the tip by another block of the same height (tie break / fork switch of equal
// length), a deeper reorganisation, a re-created Syncer object - the next answer describes the chain
// as it is now.
//
// Ops (on the handler fixture; the first one replays the responder chain on a private node):
//
//	chain del        delete the tip (refused at the finalized block)
//	chain p          apply the next block of the original responder chain (when the chain is a prefix of it)
//	chain new        build and apply a NEW block on the tip (token s<k>, k counts these ops in the case)
//	chain restart    a new Syncer object over the same chain (what Executer does on start-up)
//
// each answers `tip <tok> h=<height>`; glb / hcb / bfi then run against the changed chain.

import (
	"bytes"
	"fmt"
	"math/rand"
	"strconv"
	"strings"

	"github.com/LiskHQ/lisk-engine/pkg/blockchain"
	lsync "github.com/LiskHQ/lisk-engine/pkg/consensus/sync"

	"verifharness/corr"
	"verifharness/node"
)

// mutable replays the responder chain on a private node and points the fixture's Syncer at it.
func (f *fixture) mutable() error {
	if f.own != nil {
		return nil
	}
	n, err := node.New(f.c.nodeConfig(f.c.prm.Cache))
	if err != nil {
		return err
	}
	for _, b := range f.c.pBlocks[1:] {
		if err := n.Process(b); err != nil {
			n.Close()
			return err
		}
	}
	f.own = n
	f.cur = append([]*blockchain.Block{}, f.c.pBlocks...)
	f.sib, f.sibT = map[string][]byte{}, map[string]string{}
	f.maxH = len(f.cur) - 1
	f.syncer = lsync.NewSyncer(n.Chain, n.BlockSlot(), f.vn.VerifC19Conn(), node.NopLogger(), nil, nil)
	return nil
}

func (f *fixture) chainOp(w []string) (string, []corr.Fail) {
	if len(w) != 1 {
		return "bad-op", nil
	}
	if err := f.mutable(); err != nil {
		return "setup-failed", []corr.Fail{fail("c19-setup", "private responder node: %v", err)}
	}
	n := f.own
	switch w[0] {
	case "del":
		if len(f.cur) <= 1 {
			return "refused", nil
		}
		if err := n.DeleteTip(false); err != nil {
			return "refused", nil
		}
		f.cur = f.cur[:len(f.cur)-1]
	case "p":
		h := len(f.cur)
		if h >= len(f.c.pBlocks) || !bytes.Equal(f.cur[h-1].Header.ID, f.c.pBlocks[h-1].Header.ID) {
			return "refused", nil
		}
		if err := n.Process(f.c.pBlocks[h]); err != nil {
			return "refused", []corr.Fail{fail("c19-setup", "re-applying block %d of the responder chain: %v", h, err)}
		}
		f.cur = append(f.cur, f.c.pBlocks[h])
	case "new":
		b, err := n.BuildBlock(node.BlockOpts{BeforeEvents: []*blockchain.Event{{Module: "fork", Name: "s", Data: []byte{byte(f.ctr), byte(f.ctr >> 8)}}}})
		if err != nil {
			return "setup-failed", []corr.Fail{fail("c19-setup", "building a block on height %d: %v", n.Height(), err)}
		}
		if r := n.ProcessResult(b); r.Err != nil || !r.Applied {
			return "setup-failed", []corr.Fail{fail("c19-setup", "applying the new block of height %d: %v", b.Header.Height, r.Err)}
		}
		tok := "s" + strconv.Itoa(f.ctr)
		f.ctr++
		f.sib[tok] = b.Header.ID
		f.sibT[string(b.Header.ID)] = tok
		f.cur = append(f.cur, b)
	case "restart":
		f.syncer = lsync.NewSyncer(n.Chain, n.BlockSlot(), f.vn.VerifC19Conn(), node.NopLogger(), nil, nil)
	default:
		return "bad-op", nil
	}
	if len(f.cur)-1 > f.maxH {
		f.maxH = len(f.cur) - 1
	}
	tip := n.Tip().Header
	var fails []corr.Fail
	if int(tip.Height) != len(f.cur)-1 || !bytes.Equal(tip.ID, f.cur[len(f.cur)-1].Header.ID) {
		fails = append(fails, fail("c19-setup", "the private responder node is at height %d, the harness expects %d", tip.Height, len(f.cur)-1))
	}
	return fmt.Sprintf("tip %s h=%d", f.tok(tip.ID), tip.Height), fails
}

// genChainOps: every kind of change of the responder's chain, the three handlers queried before and
// after each step.
func genChainOps(rng *rand.Rand, tier string) []corr.Case {
	var cases []corr.Case
	thorough := tier == "thorough"
	prms := []params{{P: 12, F: 6, Q: 8, N: 4, Cache: 515}, {P: 11, F: 9, Q: 10, N: 4, Cache: 3}}
	nRandom := 3
	if thorough {
		prms = append(prms, params{P: 20, F: 3, Q: 5, N: 5, Cache: 515}, params{P: 9, F: 9, Q: 9, N: 4, Cache: 2}, params{P: 120, F: 100, Q: 104, N: 4, Cache: 8})
		nRandom = 25
	}
	for _, prm := range prms {
		f, err := factsOf(prm)
		if err != nil {
			cases = append(cases, corr.Case{Ops: []string{resetLine(prm, facts{})}, Tag: "chainops"})
			continue
		}
		reset := resetLine(prm, f)
		// queries: the tip, the common block for ids around the tip, the segments after blocks around the tip
		// (tokens p<h> / s<k> of blocks that are, were or never were on the chain)
		query := func(sibs int) []string {
			q := []string{"glb"}
			ids := []string{}
			for h := prm.P; h >= max(0, prm.P-4); h-- {
				ids = append(ids, "p"+strconv.Itoa(h))
			}
			for k := 0; k < sibs; k++ {
				ids = append(ids, "s"+strconv.Itoa(k))
			}
			q = append(q, "hcb "+joinToks(ids))
			for _, t := range ids {
				if rng.Intn(2) == 0 {
					q = append(q, "bfi "+t)
				}
			}
			q = append(q, "bfi p"+strconv.Itoa(max(0, prm.P-6)))
			return q
		}
		// a script is a list of steps; the handlers are queried before the first and after every step; a
		// step is one change or several changes joined by '+' (no request reaches the responder in between:
		// a tie break is `del+new` for every observer)
		scripts := [][]string{
			{"del", "p"},                       // delete the tip, re-apply it
			{"del+new"},                        // same-height replacement (tie break)
			{"del", "new"},                     // the same, observed in between
			{"new", "del+new"},                 // grow, then replace the new tip by a sibling
			{"del+del+del+new+new+new"},        // deeper reorganisation of equal length
			{"del+del+new+new+new", "del+new"}, // reorganisation to a longer chain, then a tie break
			{"del+new", "restart"},             // replacement, then a new Syncer object
			{"restart", "del+new", "del+p"},    // replacement and back to the original block
			{"del+del+new", "new"},             // reorganisation to a shorter chain, growth
		}
		for i := 0; i < nRandom; i++ {
			// random walks that stay within three blocks below the greatest height reached (the finalized
			// block of these chains is five or more below it)
			s := []string{}
			h, maxH, onP := prm.P, prm.P, true
			for k := 0; k < 4+rng.Intn(6); k++ {
				switch r := rng.Intn(7); {
				case r <= 2 && h > maxH-3 && h > 1:
					s = append(s, "del")
					h--
					onP = onP && h <= prm.P
				case r == 3 && onP && h < prm.P:
					s = append(s, "p")
					h++
				case r == 4:
					s = append(s, "restart")
				default:
					s = append(s, "new")
					h++
					onP = false
					if h > maxH {
						maxH = h
					}
				}
			}
			// group the changes: a request reaches the responder only after some of them
			g := []string{}
			for _, st := range s {
				if len(g) > 0 && rng.Intn(2) == 0 {
					g[len(g)-1] += "+" + st
				} else {
					g = append(g, st)
				}
			}
			scripts = append(scripts, g)
		}
		for _, sc := range scripts {
			ops := query(0)
			sibs := 0
			for _, step := range sc {
				for _, ch := range strings.Split(step, "+") {
					if ch == "new" {
						sibs++
					}
					ops = append(ops, "chain "+ch)
				}
				ops = append(ops, query(sibs)...)
			}
			cases = append(cases, corr.Case{Ops: append([]string{reset}, ops...), Tag: "chainops"})
		}
	}
	return cases
}

func joinToks(l []string) string {
	s := ""
	for i, t := range l {
		if i > 0 {
			s += " "
		}
		s += t
	}
	return s
}
