package c19

// Geometry of the synchronisation against an HONEST peer: where the own tip, the finalized height,
// the fork point, the peer's tip and the download end block lie relative to each other and to the
// round length (gap of the common block search) and the response cap (103 blocks).
//
// Ops (after a `reset P= F= Q= n= ...` that defines the two chains):
//
//	dl <startTok> <startH> <endTok> <endH>    the REAL Downloader of the requester node downloads from the
//	                                          REAL handlers of the responder node (two loopback hosts)
//	cs fin=<h> n=<k>                          the REAL blockSyncer.getCommonBlockHeader of the requester
//	                                          (own chain tip Q) against the responder, with the block of
//	                                          height fin as finalized block and round length k
//
// Both run on one pair of connected hosts per case (`pair`), so that a case sweeps many geometries
// in the time of one synchronisation scenario.

import (
	"bytes"
	"context"
	"fmt"
	"math/rand"
	"sort"
	"strconv"
	"strings"
	"sync/atomic"
	"time"

	"github.com/LiskHQ/lisk-engine/pkg/blockchain"
	"github.com/LiskHQ/lisk-engine/pkg/codec"
	lsync "github.com/LiskHQ/lisk-engine/pkg/consensus/sync"
	"github.com/LiskHQ/lisk-engine/pkg/p2p"

	"verifharness/corr"
	"verifharness/node"
)

// pair is a requester node (own chain Q) connected over loopback to a responder (chain P, behaviour b).
type pair struct {
	q    *node.Node
	resp *p2p.Connection
	hung bool
	dead bool // the responder banned the requester: the next op needs a new pair
	// more connected peers (multipeer.go); their faulty behaviour starts when armed is set
	extras []extraPeer
	armed  *atomic.Bool
	quit   chan struct{}
	view   *chains // rollback.go: the chains as they are after the requester's tip was rolled back (nil: no rollback)
	served *int64  // rollback.go: number of getBlocksFromId requests the responder received
}

// startPair replays the requester chain on a fresh node, starts the responder and connects the two
// libp2p hosts; it returns when a request gets through. On failure the pair is nil and out/fails
// say why.
func startPair(c *chains, b behav, served []*blockchain.Block) (pr *pair, out string, fails []corr.Fail) {
	q, err := c.newRequester()
	if err != nil {
		return nil, "setup-failed", []corr.Fail{fail("c19-setup", "requester: %v", err)}
	}
	if b.restart {
		// C04SYNC: the usual situation of a node that synchronises: it was just started and has applied nothing yet
		if err := q.Restart(); err != nil {
			q.Close()
			return nil, "setup-failed", []corr.Fail{fail("c19-setup", "requester restart: %v", err)}
		}
	}
	armed, quit := &atomic.Bool{}, make(chan struct{})
	b.dlCount = new(int64)
	resp, err := newResponder(c, b, served, armed, quit)
	if err != nil {
		q.Close()
		return nil, "setup-failed", []corr.Fail{fail("c19-setup", "responder: %v", err)}
	}
	q.Conn.VerifC19SetListen([]string{"/ip4/127.0.0.1/tcp/0"})
	if err := q.Conn.Start([]byte{}); err != nil {
		_ = resp.Stop()
		q.Close()
		return nil, "setup-failed", []corr.Fail{fail("c19-setup", "requester connection: %v", err)}
	}
	pr = &pair{q: q, resp: resp, armed: armed, quit: quit, served: b.dlCount}
	ok := false
	defer func() {
		if !ok {
			pr.stop()
			pr = nil
		}
	}()
	if b.rbK > 0 {
		// rollback.go: the requester's tip is rolled back through a real path before it meets the peer
		view, err := rollBack(c, q, b)
		if err != nil {
			return pr, "setup-failed", []corr.Fail{fail("c19-setup", "rollback %c%d: %v", b.rbVia, b.rbK, err)}
		}
		pr.view = view
	}
	addrs, err := resp.MultiAddress()
	if err != nil || len(addrs) == 0 {
		return pr, "setup-failed", []corr.Fail{fail("c19-setup", "responder address: %v", err)}
	}
	info, err := p2p.AddrInfoFromMultiAddr(addrs[0])
	if err != nil {
		return pr, "setup-failed", []corr.Fail{fail("c19-setup", "responder address: %v", err)}
	}
	if err := q.Conn.Connect(context.Background(), *info); err != nil {
		return pr, "setup-failed", []corr.Fail{fail("c19-setup", "connect: %v", err)}
	}
	// wait until both sides see the connection and a request gets through (connection set-up is not
	// part of the property)
	ready := false
	for deadline := time.Now().Add(20 * time.Second); !ready && time.Now().Before(deadline); {
		for _, pid := range resp.ConnectedPeers() {
			if pid == q.Conn.ID() {
				ctx, cancel := context.WithTimeout(context.Background(), time.Second)
				_, err := lsync.VerifC19RequestLastBlockHeader(ctx, q.Conn, resp.ID())
				cancel()
				ready = err == nil
			}
		}
		if !ready {
			time.Sleep(5 * time.Millisecond)
		}
	}
	if !ready {
		return pr, "setup-failed", []corr.Fail{fail("c19-setup", "the two hosts did not get connected")}
	}
	if b.extra != "" {
		announced := served[len(served)-1]
		if b.target >= 0 && b.target < len(served) {
			announced = served[b.target]
		}
		if fs := pr.connectExtras(c, b, announced); fs != nil {
			return pr, "setup-failed", fs
		}
	}
	armed.Store(true)
	ok = true
	return pr, "", nil
}

// stop shuts both hosts down. Stopping a libp2p host waits for its stream handlers; a handler of
// the request/response layer can block forever (C17: onResponse sends on an unbuffered channel under
// resMu), so the clean-up is abandoned after a while instead of blocking the run.
func (p *pair) stop() {
	if p == nil || p.hung {
		return
	}
	if p.quit != nil {
		close(p.quit)
		p.quit = nil
	}
	fin := make(chan struct{})
	go func() {
		defer close(fin)
		_ = p.q.Conn.Stop()
		_ = p.resp.Stop()
		for _, e := range p.extras {
			_ = e.conn.Stop()
		}
		p.q.Close()
	}()
	select {
	case <-fin:
	case <-time.After(15 * time.Second):
	}
}

// await polls ready until it reports true; when the responder has banned the requester (it does not
// answer such a request at all) the request is cancelled instead of waiting for its time-out. false:
// nothing happened within geoWatchdog, the pair is marked hung.
func (p *pair) await(ready func() bool, cancel context.CancelFunc) bool {
	deadline := time.Now().Add(geoWatchdog)
	for !ready() {
		if time.Now().After(deadline) {
			p.hung = true
			return false
		}
		if len(p.resp.VerifC19BannedIPs()) > 0 {
			cancel()
		}
		time.Sleep(200 * time.Microsecond)
	}
	return true
}

// ---------------------------------------------------------------------------------------------
// reference: the common block search as specified

// roundStart is the first height of the round before the one the tip is in (0 for the first round).
func roundStart(tip, n int) int {
	if tip <= 0 || n <= 0 {
		return 0
	}
	return ((tip+n-1)/n - 1) * n
}

// refCommonHeight is the height the common block search has to return for a requester with tip
// `tip` and finalized height `fin` against an honest peer whose chain shares exactly the heights
// 0..fork with the requester's, for round length n; -1 when the search has to give up.
//
// Specification: a request samples the first blocks of consecutive rounds, nine per request, going
// down from the start of the round before the tip and never below the finalized block; once the
// sampling has passed the finalized height the next request samples the finalized block itself;
// three requests at most. The peer names the highest sampled block it has.
func refCommonHeight(tip, fin, n, fork int) int {
	h := roundStart(tip, n)
	for req := 0; req < 3; req++ {
		if h <= fin {
			if fin <= fork {
				return fin
			}
			return -1
		}
		for k := 0; k < 9 && h >= fin; k++ {
			if h <= fork {
				return h
			}
			h -= n
		}
	}
	return -1
}

// ---------------------------------------------------------------------------------------------
// ops

const geoWatchdog = 20 * time.Second

// sweepRequestTimeout bounds the requests of the `cs` / `fs` ops (loopback: milliseconds); a request the
// responder never answers because it banned the requester ends after this time.
const sweepRequestTimeout = 3 * time.Second

// maxPairsPerCase: a case whose ops lost the connection (ban) that many times skips its remaining sweep
// ops - on the unchanged repository at most two ops per case do that.
const maxPairsPerCase = 5

// download runs `dl <startTok> <startH> <endTok> <endH>`.
func (p *pair) download(c *chains, w []string) (string, []corr.Fail) {
	if len(w) != 4 {
		return "bad-op", nil
	}
	startID, err1 := c.resolve(w[0])
	startH, err2 := strconv.Atoi(w[1])
	endID, err3 := c.resolve(w[2])
	endH, err4 := strconv.Atoi(w[3])
	if err1 != nil || err2 != nil || err3 != nil || err4 != nil || startH < 0 || endH < 0 {
		return "bad-op", nil
	}
	type item struct {
		b   *blockchain.Block
		err error
	}
	var items []item
	done := make(chan struct{})
	ctx, cancel := context.WithCancel(context.Background())
	defer cancel()
	go func() {
		defer close(done)
		lsync.VerifC19Download(ctx, p.q.Exec.VerifSyncer(), p.resp.ID(), startID, uint32(startH), endID, uint32(endH),
			func(b *blockchain.Block, err error) bool {
				items = append(items, item{b, err})
				return err == nil
			})
	}()
	select {
	case <-done:
	case <-time.After(geoWatchdog):
		p.hung = true
		return "timeout", []corr.Fail{fail("c19-download-hang", "download %v did not end within %s", w, geoWatchdog)}
	}
	var blocks []*blockchain.Block
	closed := 1
	for _, it := range items {
		if it.err != nil {
			closed = 0
			break
		}
		blocks = append(blocks, it.b)
	}
	first, last := "-", "-"
	if len(blocks) > 0 {
		first, last = c.token(blocks[0].Header.ID, nil), c.token(blocks[len(blocks)-1].Header.ID, nil)
	}
	out := fmt.Sprintf("dl n=%d first=%s last=%s done=%d", len(blocks), first, last, closed)

	// ---- model-free oracle ----
	var fails []corr.Fail
	// soundness: what was delivered is linked to the start block; completion means the end block came last
	prevID, prevH := startID, startH
	for i, b := range blocks {
		if int(b.Header.Height) != prevH+1 || !bytes.Equal(b.Header.PreviousBlockID, prevID) {
			fails = append(fails, fail("c19-download-unsound", "delivered block %d (height %d) does not follow the block delivered before it (height %d)", i, b.Header.Height, prevH))
			break
		}
		if i < len(blocks)-1 && bytes.Equal(b.Header.ID, endID) {
			fails = append(fails, fail("c19-download-unsound", "blocks were delivered after the end block (height %d)", b.Header.Height))
			break
		}
		prevID, prevH = b.Header.ID, int(b.Header.Height)
	}
	if closed == 1 && (len(blocks) == 0 || !bytes.Equal(blocks[len(blocks)-1].Header.ID, endID)) {
		fails = append(fails, fail("c19-download-unsound", "download %v completed without delivering the end block", w))
	}
	// convergence: start and end block on the honest peer's chain, end above start: exactly the peer's
	// blocks between them are delivered - wherever the peer's tip is
	P := len(c.pBlocks) - 1
	if startH < endH && endH <= P && bytes.Equal(startID, c.pBlocks[startH].Header.ID) && bytes.Equal(endID, c.pBlocks[endH].Header.ID) {
		good := closed == 1 && len(blocks) == endH-startH
		for i := 0; good && i < len(blocks); i++ {
			good = bytes.Equal(blocks[i].Encode(), c.pBlocks[startH+1+i].Encode())
		}
		if !good {
			fails = append(fails, fail("c19-not-converged", "download from an honest peer (tip %d) of its blocks %d..%d: %d blocks delivered (last %s), completed=%d",
				P, startH+1, endH, len(blocks), last, closed))
		}
	}
	return out, fails
}

// commonSearch runs `cs fin=<h> n=<k>`.
func (p *pair) commonSearch(c *chains, w []string) (string, []corr.Fail) {
	fin, ok1 := kvInt(w, "fin")
	n, ok2 := kvInt(w, "n")
	if !ok1 || !ok2 || n < 1 || fin < 0 || fin > c.prm.Q {
		return "bad-op", nil
	}
	finHeader, err := p.q.HeaderAt(uint32(fin))
	if err != nil {
		return "setup-failed", []corr.Fail{fail("c19-setup", "header of height %d: %v", fin, err)}
	}
	vals := make([]codec.Lisk32, n)
	for i := range vals {
		vals[i] = codec.Lisk32(bytes.Repeat([]byte{byte(i + 1)}, 20))
	}
	rctx, cancel := context.WithTimeout(context.Background(), sweepRequestTimeout)
	defer cancel()
	sctx := &lsync.SyncContext{Ctx: rctx, FinalizedBlockHeader: finHeader, PeerID: p.resp.ID(), CurrentValidators: vals}
	type res struct {
		h   *blockchain.BlockHeader
		err error
	}
	done := make(chan res, 1)
	go func() {
		defer func() {
			if r := recover(); r != nil {
				done <- res{nil, fmt.Errorf("panic: %v", r)}
			}
		}()
		h, err := p.q.Exec.VerifSyncer().VerifC19CommonBlockHeader(sctx, p.resp.ID())
		done <- res{h, err}
	}()
	var r res
	if !p.await(func() bool {
		select {
		case r = <-done:
			return true
		default:
			return false
		}
	}, cancel) {
		return "timeout", []corr.Fail{fail("c19-common-search-hang", "common block search %v did not end within %s", w, geoWatchdog)}
	}
	var fails []corr.Fail
	if r.err != nil && strings.HasPrefix(r.err.Error(), "panic:") {
		return "panic", []corr.Fail{fail("c19-sync-panic", "common block search %v: %v", w, r.err)}
	}
	// A search that fails below the finalized block of a young chain (finalized height < round length)
	// continues at `finalized - round length` in uint32, finds no block at those heights and sends a
	// request without ids, for which the honest responder bans the requester (see the final report of
	// this extension; outside the convergence clause: the fork point is below the finalized block).
	if len(p.resp.VerifC19BannedIPs()) > 0 {
		p.dead = true
	}
	F, Q := c.prm.F, c.prm.Q
	want := refCommonHeight(Q, fin, n, F)
	if p.dead && !(F < fin && searchWraps(Q, fin, n)) {
		fails = append(fails, fail("c19-honest-request-banned", "common block search of an honest requester (tip %d, finalized %d, round length %d, fork after %d): the honest peer's handler banned the requester", Q, fin, n, F))
	}
	if r.err != nil || r.h == nil {
		// ---- model-free oracle ----
		if want >= 0 {
			fails = append(fails, fail("c19-not-converged", "common block search of a requester (tip %d, finalized %d, round length %d) against an honest peer whose chain forks off after height %d found nothing (%v); block %d is common",
				Q, fin, n, F, r.err, want))
		}
		return "err", fails
	}
	h := int(r.h.Height)
	if h > F || h >= len(c.pBlocks) || !bytes.Equal(r.h.ID, c.pBlocks[h].Header.ID) {
		fails = append(fails, fail("c19-common-block-wrong", "common block search (tip %d, finalized %d, round length %d, fork after %d) returned block %s of height %d which is not on the peer's chain", Q, fin, n, F, c.token(r.h.ID, nil), h))
	} else if h < fin {
		fails = append(fails, fail("c19-common-block-wrong", "common block search (tip %d, finalized %d, round length %d, fork after %d) returned height %d below the finalized height", Q, fin, n, F, h))
	} else if h != want {
		fails = append(fails, fail("c19-common-block-wrong", "common block search (tip %d, finalized %d, round length %d, fork after %d) returned height %d, specified: %d", Q, fin, n, F, h, want))
	}
	return "common " + c.token(r.h.ID, nil), fails
}

// ---------------------------------------------------------------------------------------------
// generators

// searchClass names the way the specified search finds (or misses) the common block.
func searchClass(tip, fin, n, fork int) string {
	if fork < fin {
		return "below-finalized"
	}
	h := roundStart(tip, n)
	for req := 1; req <= 3; req++ {
		if h <= fin {
			return fmt.Sprintf("request%d-finalized-block", req)
		}
		for k := 0; k < 9 && h >= fin; k++ {
			if h <= fork {
				return fmt.Sprintf("request%d-round-start", req)
			}
			h -= n
		}
	}
	return "out-of-reach"
}

// searchWraps: a search that finds nothing computes `lowest sampled height - n` below zero.
func searchWraps(tip, fin, n int) bool {
	h := roundStart(tip, n)
	for req := 0; req < 3; req++ {
		if h < 0 {
			return true
		}
		if h <= fin {
			h = fin - n
			continue
		}
		lowest := h
		for k := 0; k < 9 && h >= fin; k++ {
			lowest = h
			h -= n
		}
		h = lowest - n
	}
	return false
}

func sortedKeys(m map[string][]string) []string {
	r := make([]string, 0, len(m))
	for k := range m {
		r = append(r, k)
	}
	sort.Strings(r)
	return r
}

func genGeometry(rng *rand.Rand, tier string) []corr.Case {
	var cases []corr.Case
	thorough := tier == "thorough"

	// --- common block search: finalized height x round length, on chains forking at various depths;
	// a stratified sample: the same number of geometries for every way the specified search ends
	// (searchClass: found on a round start / on the finalized block in request 1, 2 or 3, out of reach,
	// fork below the finalized block)
	type chainSel struct{ q, f, d int }
	sels := []chainSel{{q: 23, f: 8, d: 9}, {q: 44, f: 30, d: 5}}
	nSel, perClass, wrapBudget := 2, 25, 0
	if thorough {
		nSel, perClass, wrapBudget = 14, 80, 6
		sels = append(sels, chainSel{q: 64, f: 0, d: 3}, chainSel{q: 64, f: 64, d: 2}, chainSel{q: 120, f: 3, d: 4})
	}
	for i := 0; i < nSel; i++ {
		q := 12 + rng.Intn(60)
		sels = append(sels, chainSel{q: q, f: rng.Intn(q + 1), d: 1 + rng.Intn(12)})
	}
	rounds := []int{1, 2, 3, 4, 5, 6, 7, 9, 10, 11, 16, 31, 103}
	for _, sel := range sels {
		prm := params{P: sel.q + sel.d, F: sel.f, Q: sel.q, N: 4, Cache: 515}
		f, err := factsOf(prm)
		if err != nil {
			cases = append(cases, corr.Case{Ops: []string{resetLine(prm, facts{})}, Tag: "geo-search"})
			continue
		}
		byClass := map[string][]string{}
		wrapsHere := 0
		for _, n := range rounds {
			for fin := 0; fin <= prm.Q; fin++ {
				if prm.F < fin && searchWraps(prm.Q, fin, n) {
					// the requester ends up banned by the honest responder (see commonSearch): each of these
					// costs seconds and a new pair of hosts
					if wrapBudget == 0 || wrapsHere >= 2 || rng.Intn(40) != 0 {
						continue
					}
					wrapBudget--
					wrapsHere++
				}
				cl := searchClass(prm.Q, fin, n, prm.F)
				byClass[cl] = append(byClass[cl], fmt.Sprintf("cs fin=%d n=%d", fin, n))
			}
		}
		ops := []string{}
		for _, cl := range sortedKeys(byClass) {
			l := byClass[cl]
			rng.Shuffle(len(l), func(a, b int) { l[a], l[b] = l[b], l[a] })
			ops = append(ops, l[:min(perClass, len(l))]...)
		}
		cases = append(cases, chunk("geo-search", ops, 400, resetLine(prm, f))...)
	}

	// --- downloader: start / end / peer tip around the response cap
	type dlSel struct{ p, s, e int }
	var dls []dlSel
	P := 230 // (the chain pair of the handler cases)
	addDl := func(s, e int) {
		if s >= 0 && e <= P {
			dls = append(dls, dlSel{P, s, e})
		}
	}
	// one response: the peer's tip exactly at / one above / two above / a full response above the end block
	for _, above := range []int{0, 1, 2, 50, 101, 102, 103, 104, 200} {
		for _, length := range []int{1, 2, 7} {
			e := P - above
			if rng.Intn(2) == 0 || length == 2 {
				addDl(e-length, e)
			}
		}
	}
	for i := 0; i < 8; i++ {
		s := rng.Intn(P)
		addDl(s, s+1+rng.Intn(min(103, P-s)))
	}
	// several responses (each costs 100 ms: the downloader is rate limited)
	multi := [][2]int{{103, 0}, {104, 0}, {104, 1}, {103, 1}, {206, 3}, {207, 0}, {110, 103}, {120, 104}}
	nMulti := 4
	if thorough {
		nMulti = len(multi)
	}
	rng.Shuffle(len(multi), func(a, b int) { multi[a], multi[b] = multi[b], multi[a] })
	for _, m := range multi[:nMulti] {
		addDl(P-m[1]-m[0], P-m[1])
	}
	prm := params{P: P, F: 120, Q: 131, N: 4, Cache: 8}
	if f, err := factsOf(prm); err != nil {
		cases = append(cases, corr.Case{Ops: []string{resetLine(prm, facts{})}, Tag: "geo-download"})
	} else {
		ops := []string{}
		for _, d := range dls {
			ops = append(ops, fmt.Sprintf("dl p%d %d p%d %d", d.s, d.s, d.e, d.e))
		}
		// not the honest geometry: end at / below the start, end beyond the peer's tip, end block of
		// another chain, start block the peer does not have, wrong heights
		ops = append(ops,
			"dl p40 40 p40 40", "dl p40 40 p30 30", fmt.Sprintf("dl p%d %d p%d %d", P-3, P-3, P+2, P+2),
			"dl p125 125 q131 131", "dl p118 118 q125 125", "dl q125 125 p140 140", "dl u1 5 p9 9",
			"dl p40 41 p50 50", "dl p40 40 p50 49", "dl p40 40 p50 51", fmt.Sprintf("dl p%d %d u2 %d", P-1, P-1, P))
		cases = append(cases, chunk("geo-download", ops, 400, resetLine(prm, f))...)
	}
	return cases
}

// genSyncGeometry: complete synchronisations (Executer.process -> Syncer.Sync) against an honest
// peer, the fork point anywhere between the finalized block and the own tip, the announced block at
// / below the peer's tip.
func genSyncGeometry(rng *rand.Rand, tier string) []syncCase {
	var l []syncCase
	add := func(prm params, b string) { l = append(l, syncCase{prm, b}) }
	thorough := tier == "thorough"
	finOf := func(n, q, st int) (int, bool) {
		f, err := factsOf(params{P: q + 1, F: q, Q: q, N: n, Cache: 515, St: st})
		return int(f.finQ), err == nil
	}
	pick := func(lo, hi int) int { // a height of [lo, hi), lo when the range is empty
		if hi <= lo {
			return lo
		}
		return lo + rng.Intn(hi-lo)
	}
	// the announced block below the peer's tip (the peer kept growing)
	add(params{P: 14, F: 8, Q: 10, N: 4, Cache: 515}, "target=12")    // fast
	add(params{P: 13, F: 8, Q: 10, N: 4, Cache: 515}, "target=12")    // fast, tip one above
	add(params{P: 30, F: 12, Q: 14, N: 4, Cache: 515}, "target=27")   // block
	add(params{P: 240, F: 20, Q: 22, N: 4, Cache: 515}, "target=130") // block, two responses, tip > 103 above
	// block sync: the fork point between the finalized block and the own tip. With finality working the
	// finalized block is between one and two rounds below the tip, so the search samples one or two
	// round starts and then the finalized block.
	type shape struct{ n, q int }
	shapes := []shape{{4, 14}, {[]int{3, 4, 5, 7}[rng.Intn(4)], 10 + rng.Intn(30)}}
	if thorough {
		shapes = append(shapes, shape{5, 23}, shape{7, 45}, shape{4, 16}, shape{5, 21}, shape{3, 10})
	}
	for _, sh := range shapes {
		fin, ok := finOf(sh.n, sh.q, 0)
		if !ok {
			continue
		}
		lowest := roundStart(sh.q, sh.n) // lowest sampled round start
		for lowest-sh.n >= fin {
			lowest -= sh.n
		}
		forks := map[int]bool{fin: true, pick(fin, lowest): true, pick(lowest, sh.q+1): true}
		if thorough {
			for f := fin; f <= sh.q; f++ {
				forks[f] = true
			}
		}
		for _, f := range sortedInts(forks) {
			prm := params{P: sh.q + 2*sh.n + 4 + rng.Intn(6), F: f, Q: sh.q, N: sh.n, Cache: 515}
			b := ""
			if rng.Intn(3) == 0 {
				b = fmt.Sprintf("target=%d", prm.P-1-rng.Intn(3))
			}
			add(prm, b)
		}
	}
	// stalled finality: the own tip many rounds above the finalized block, deep forks: the common block
	// is found in the second / third request, on a round start or on the finalized block, or is out of reach
	type stall struct{ n, q int }
	stalls := []stall{{4, 60}}
	if thorough {
		stalls = append(stalls, stall{4, 131}, stall{5, 90}, stall{3, 70}, stall{4, 100})
	}
	for _, s := range stalls {
		// a stall height for which the finalized height is not a round start
		st, fin := 0, 0
		for cand := 2*s.n + 2; cand < 4*s.n+2 && st == 0; cand++ {
			if f, ok := finOf(s.n, s.q, cand); ok && f%s.n != 0 {
				st, fin = cand, f
			}
		}
		if st == 0 {
			continue
		}
		byClass := map[string][]int{}
		classes := []string{}
		for f := fin; f <= s.q; f++ {
			cl := searchClass(s.q, fin, s.n, f)
			if len(byClass[cl]) == 0 {
				classes = append(classes, cl)
			}
			byClass[cl] = append(byClass[cl], f)
		}
		per := 1
		if thorough {
			per = 4
		}
		chosen := map[int]bool{}
		for _, cl := range classes {
			if cl == "request1-round-start" && !thorough {
				continue
			}
			for i := 0; i < per; i++ {
				chosen[byClass[cl][rng.Intn(len(byClass[cl]))]] = true
			}
		}
		for _, f := range sortedInts(chosen) {
			add(params{P: s.q + 2*s.n + 2, F: f, Q: s.q, N: s.n, Cache: 515, St: st}, "")
		}
	}
	// fast sync: the announced block below the peer's tip, fork point through the window
	nFast := 2
	if thorough {
		nFast = 12
	}
	for i := 0; i < nFast; i++ {
		n := 4 + rng.Intn(2)
		q := 2*n + rng.Intn(12)
		fin, ok := finOf(n, q, 0)
		if !ok {
			continue
		}
		lo := max(fin, q-(2*n-2))
		f := lo + rng.Intn(q-lo+1)
		t := q + 1 + rng.Intn(f+2*n-q) // above the own tip, inside the two-round window above the fork point
		if f == q && t == q+1 {
			t++ // (the next block of the own chain is not a different chain)
		}
		add(params{P: t + []int{1, 1, 2, 5, 104}[rng.Intn(5)], F: f, Q: q, N: n, Cache: 515}, fmt.Sprintf("target=%d", t))
	}
	return l
}
