package c19

// Failure geometry (miss C19-14): synchronisations that FAIL, over the product
//
//	{requester only behind (its tip is the common block: nothing goes to the temp table)
//	 / own fork of 1 .. 2n-2 blocks above the common block}
//	x {the failure hits the first / a middle / the last downloaded block (or the request that fetches it)}
//	x {block passes Validate but cannot be applied (badexec) / fails Validate (badstatic) / the peer answers
//	   with an error (fail=) / never answers (mute=: request time-out) / never serves the block (stop=)}
//	x {fast synchroniser / block synchroniser}
//
// on two loopback hosts with the restore oracle of runSyncOnce (fast sync: chain and database dump equal
// the original, bad peer banned, temp block table empty) and the Lean model (`sync` op).
//
// Pseudo-property C19TEMP (model-free, `also` of C19): the same failures - and successes - when the temp
// block table of the requester is NOT empty before the synchronisation starts (`pretemp=k`: stale copies
// of its top k blocks, what a block synchronisation that failed earlier leaves behind: blockSyncer.Sync
// moves the own blocks to the temp table and never clears it when the download fails; blocks that arrive
// by gossip afterwards are applied without touching the table).

import (
	"fmt"
	"math/rand"
	"strings"
	"time"

	"github.com/LiskHQ/lisk-engine/pkg/blockchain"

	"verifharness/corr"
	"verifharness/node"
)

// staleTempBlocks: the top k blocks of the node's chain are moved to the temp table (deleteBlock with
// saveTemp, as the block synchroniser does) and arrive again by gossip (Executer.process: applied
// without removing the temp entry). Afterwards the chain is the same and the table holds k stale blocks.
func staleTempBlocks(q *node.Node, k int) error {
	var top []*blockchain.Block
	for i := 0; i < k; i++ {
		if q.Height() == 0 || q.Height() <= q.Finalized()+1 {
			break // (blocks at or below the finalized height cannot be deleted)
		}
		b, err := node.CopyBlock(q.Tip())
		if err != nil {
			return err
		}
		if err := q.DeleteTip(true); err != nil {
			return err
		}
		top = append([]*blockchain.Block{b}, top...)
	}
	for _, b := range top {
		if err := q.Process(b); err != nil {
			return err
		}
	}
	return nil
}

type failShape struct {
	name string
	prm  params
}

// failShapes: chains for a requester that is only behind / has an own fork of `fork` blocks; five
// downloaded blocks (inside the fast sync window of 2n blocks for n >= 3, and few enough not to finalize
// anything above the common block before the last one is applied, so that a restore is possible).
func failShapes(rng *rand.Rand, n int, forks []int) []failShape {
	var res []failShape
	for _, fork := range forks {
		f := 2*n + rng.Intn(6)
		name := "behind"
		if fork > 0 {
			name = fmt.Sprintf("fork%d", fork)
		}
		// (the peer's chain must be the longer one)
		res = append(res, failShape{name, params{P: f + max(5, fork+1), F: f, Q: f + fork, N: n, Cache: 515}})
	}
	return res
}

func genSyncFailGeo(rng *rand.Rand, tier string) []syncCase {
	var l []syncCase
	add := func(prm params, b string) { l = append(l, syncCase{prm, b}) }
	thorough := tier == "thorough"
	forks := []int{0, 1, 3}
	if thorough {
		forks = []int{0, 1, 2, 3, 4, 5}
	}
	ns := []int{4}
	if thorough {
		ns = []int{4, 5}
	}
	for _, n := range ns {
		for _, sh := range failShapes(rng, n, forks) {
			prm := sh.prm
			if prm.Q-prm.F > 2*n-2 {
				continue
			}
			first, mid, last := prm.F+1, prm.F+2+rng.Intn(3), prm.P
			// (1) the processor refuses a downloaded block: restore
			for _, bad := range []int{first, mid, last} {
				add(prm, fmt.Sprintf("badexec=%d", bad))
			}
			// (2) the other failure kinds: the position is the request that fetches the block (responses of two
			// blocks: three requests starting at the common block, +2, +4)
			var others []string
			for pos, bad := range []int{first, mid, last} {
				start := prm.F + 2*pos // start block of the first / second / third request
				others = append(others,
					fmt.Sprintf("badstatic=%d", bad),
					fmt.Sprintf("cap=2 fail=%d", start),
					fmt.Sprintf("cap=2 stop=%d", bad-1),
					fmt.Sprintf("cap=2 badexec=%d", bad))
				if pos != 1 && n == 4 {
					others = append(others, fmt.Sprintf("cap=2 mute=%d", start)) // (each costs the requester's time-outs)
				}
			}
			if !thorough {
				rng.Shuffle(len(others), func(a, b int) { others[a], others[b] = others[b], others[a] })
				others = others[:2]
			}
			for _, o := range others {
				add(prm, o)
			}
			// (3) the block synchroniser on the same chains
			blk := []string{fmt.Sprintf("force=block badexec=%d", first), fmt.Sprintf("force=block badexec=%d", mid), fmt.Sprintf("force=block badexec=%d", last),
				fmt.Sprintf("force=block badstatic=%d", mid), fmt.Sprintf("force=block cap=2 fail=%d", prm.F+2), fmt.Sprintf("force=block stop=%d", mid),
				fmt.Sprintf("force=block cap=2 mute=%d", prm.F+2)}
			if !thorough {
				blk = []string{blk[rng.Intn(3)], blk[3+rng.Intn(3)]}
			}
			for _, o := range blk {
				add(prm, o)
			}
		}
	}
	return l
}

// failGeoClass names the cell of the product a failing sync scenario is in ("" for the others).
func failGeoClass(prm params, b behav) string {
	at := -1
	switch {
	case b.badStatic >= 0:
		at = b.badStatic
	case b.badExec >= 0:
		at = b.badExec
	case b.failAt >= 0:
		at = b.failAt + 1
	case b.muteAt >= 0:
		at = b.muteAt + 1
	case b.stop >= 0:
		at = b.stop + 1
	default:
		return ""
	}
	cl := ":behind"
	if prm.Q > prm.F {
		cl = ":own-fork"
	}
	switch {
	case at <= prm.F+1:
		cl += ":first-block"
	case at >= prm.P:
		cl += ":last-block"
	default:
		cl += ":middle-block"
	}
	if b.preTemp > 0 {
		cl += ":stale-temp"
	}
	return cl
}

// ---------------------------------------------------------------------------------------------
// pseudo-property C19TEMP

type c19temp struct{}

func init() { corr.Register(c19temp{}) }

func (c19temp) ID() string                 { return "C19TEMP" }
func (c19temp) NoModel() bool              { return true }
func (c19temp) CaseTimeout() time.Duration { return 5 * time.Minute }

func (c19temp) RunImpl(c corr.Case) ([]string, []corr.Fail) { return prop{}.RunImpl(c) }

func (c19temp) Classify(c corr.Case, out []string) string { return prop{}.Classify(c, out) }

// Generate: fast synchronisations (successful, failing in the processor, failing during the download)
// and block synchronisations of a requester whose temp table holds 1 .. fork+2 stale blocks.
func (c19temp) Generate(rng *rand.Rand, tier string) []corr.Case {
	var l []syncCase
	add := func(prm params, b string) { l = append(l, syncCase{prm, b}) }
	thorough := tier == "thorough"
	forks := []int{0, 2}
	if thorough {
		forks = []int{0, 1, 2, 3, 5}
	}
	for _, sh := range failShapes(rng, 4, forks) {
		prm := sh.prm
		fork := prm.Q - prm.F
		ks := []int{1, fork + 1}
		if thorough {
			ks = []int{1, 2, fork, fork + 1, fork + 2}
		}
		for _, k := range ks {
			if k < 1 {
				continue
			}
			opts := []string{"", fmt.Sprintf("badexec=%d", prm.F+1), fmt.Sprintf("badexec=%d", prm.F+3), fmt.Sprintf("badexec=%d", prm.P),
				fmt.Sprintf("badstatic=%d", prm.F+3), fmt.Sprintf("stop=%d", prm.F+2), "force=block", fmt.Sprintf("force=block badexec=%d", prm.F+3)}
			if !thorough {
				opts = []string{"", fmt.Sprintf("badexec=%d", prm.F+1+rng.Intn(5)), opts[4+rng.Intn(4)]}
			}
			for _, o := range opts {
				add(prm, strings.TrimSpace(o+fmt.Sprintf(" pretemp=%d", k)))
			}
		}
	}
	var cases []corr.Case
	for _, sc := range l {
		f, err := factsOf(sc.prm)
		if err != nil {
			cases = append(cases, corr.Case{Ops: []string{resetLine(sc.prm, facts{})}, Tag: "stale-temp"})
			continue
		}
		op := "sync " + sc.b
		if bad, ok := kvInt(strings.Fields(sc.b), "badexec"); ok {
			fp, err := finPeakOf(sc.prm, bad)
			if err != nil {
				continue
			}
			op += fmt.Sprintf(" finpeak=%d", fp)
		}
		cases = append(cases, corr.Case{Ops: []string{resetLine(sc.prm, f), op}, Tag: "stale-temp"})
	}
	return cases
}
