// Package c19: correspondence and model-free oracle for block synchronisation (pkg/consensus/sync):
// peer selection, the three RPC handlers, the height helpers and the two synchronisers.
//
// Op vocabulary (one case = reset + ops):
//
//	reset none                                     no chains (best / helper ops only)
//	reset P= F= Q= n= cache= finQ= mhpQ= mhpP=     responder chain tip P, requester chain tip Q, common up to F
//	best <mhp.height.id>...                        set of peers getBestNodeInfo answers over many evaluations
//	gap s m g n | lasth s n | cbs h r              getHeightWithGap / getLastHeights / getCommonBlockStartSearchHeight
//	glb                                            HandleRPCEndpointGetLastBlock
//	hcb <tok>... | hcbnil | hcbraw <hex>           HandleRPCEndpointGetHighestCommonBlock
//	bfi <tok> | bfinil | bfiraw <hex>              HandleRPCEndpointGetBlocksFromID
//	sync [cap=k] [stop=h] [badstatic=h] [badexec=h] [common=tok|none] [force=fast|block] [target=h tmhp=m]
//	                                               requester node synchronises with such a peer over loopback
//	                                               (target: the peer announced its block of that height, its tip is above)
//	dl <tok> <h> <tok> <h> | cs fin=h n=k          downloader / common block search against the honest peer (geometry.go)
//	reset ... st=h                                 chains with finality stalled above height h (scenario.go)
//	sfs h= n= gen= | ss d= n= | fs fin= n=         shouldFastSync / shouldSync / fast sync common block request (method.go)
//	chain del|p|new|restart                        the responder's own chain changes, then glb / hcb / bfi (chainops.go)
//	sync ... extra=<kinds> main=e                  more connected peers, failing in various ways (multipeer.go)
//	reset ... sq=1 rc=1                            requester's own blocks without prevotes / recent timestamps (scenario.go)
//	hreq fast n=k tip=h | hreq block n=k tip=h fin=f
//	                                               the request an honest synchroniser with k validators and own tip h
//	                                               builds, handed to the responder's handler in-process (scale.go)
//	sync ... fail=h | mute=h [pretemp=k]           peer answers getBlocksFromId from height h on with an error / not at
//	                                               all; stale temp blocks before the synchronisation (failgeo.go)
//	     [restart=1] [sy=1]                        (pseudo-property C04SYNC only, c04sync.go: requester restarted right
//	                                               before; forced synchroniser run with the Executer's syncying flag set)
//	sync ... rb=d<k> rmhp=<m> rmhpc=<c>            the requester's tip is rolled back by k blocks (deleteBlock) before the
//	                                               synchronisation: finality was reached and the blocks that carried it are
//	                                               gone (rollback.go; rb=b<k> / t1 / f<k>: pseudo-property C19CTX only)
//
// Tokens: p<h> responder block, q<h> requester block, a<h> tampered/relinked block, u<k> unknown id,
// x<hex> literal id bytes.
package c19

import (
	"fmt"
	"math/rand"
	"sort"
	"strconv"
	"strings"
	"time"

	lsync "github.com/LiskHQ/lisk-engine/pkg/consensus/sync"

	"verifharness/corr"
)

type prop struct{}

func init() { corr.Register(prop{}) }

func (prop) ID() string                 { return "C19" }
func (prop) CaseTimeout() time.Duration { return 5 * time.Minute }

// ---------------------------------------------------------------------------------------------
// runner

func (prop) RunImpl(c corr.Case) (outs []string, fails []corr.Fail) {
	var cur *chains
	var fx *fixture
	var pr *pair
	pairs, sweepOff := 0, false
	defer func() {
		if fx != nil {
			fx.close()
		}
		pr.stop()
		if cur != nil {
			release(cur)
		}
	}()
	for i, op := range c.Ops {
		out, fs := func() (out string, fs []corr.Fail) {
			defer func() {
				if r := recover(); r != nil {
					out = "panic"
					fs = append(fs, corr.Fail{Sig: "c19-panic", Detail: fmt.Sprintf("%s: %v", op, r)})
				}
			}()
			w := strings.Fields(op)
			if len(w) == 0 {
				return "bad-op", nil
			}
			switch w[0] {
			case "reset":
				if fx != nil {
					fx.close()
					fx = nil
				}
				pr.stop()
				pr = nil
				pairs, sweepOff = 0, false
				if cur != nil {
					release(cur)
					cur = nil
				}
				if len(w) == 2 && w[1] == "none" {
					return "ok", nil
				}
				var prm params
				var ok [5]bool
				prm.P, ok[0] = kvInt(w, "P")
				prm.F, ok[1] = kvInt(w, "F")
				prm.Q, ok[2] = kvInt(w, "Q")
				prm.N, ok[3] = kvInt(w, "n")
				prm.Cache, ok[4] = kvInt(w, "cache")
				prm.St, _ = kvInt(w, "st")
				if v, _ := kvInt(w, "sq"); v == 1 {
					prm.Sq = true
				}
				if v, _ := kvInt(w, "rc"); v == 1 {
					prm.Rc = true
				}
				for _, o := range ok {
					if !o {
						return "bad-op", nil
					}
				}
				ch, err := acquire(prm)
				if err != nil {
					release(ch)
					return "setup-failed", []corr.Fail{fail("c19-setup", "%v", err)}
				}
				cur = ch
				finQ, _ := kvInt(w, "finQ")
				mhpQ, _ := kvInt(w, "mhpQ")
				mhpP, _ := kvInt(w, "mhpP")
				if uint32(finQ) != ch.facts.finQ || uint32(mhpQ) != ch.facts.mhpQ || uint32(mhpP) != ch.facts.mhpP {
					return fmt.Sprintf("param-mismatch finQ=%d mhpQ=%d mhpP=%d", ch.facts.finQ, ch.facts.mhpQ, ch.facts.mhpP), nil
				}
				return "ok", nil
			case "best":
				return runBest(w[1:])
			case "gap":
				return runGap(w[1:])
			case "lasth":
				return runLastHeights(w[1:])
			case "cbs":
				return runStartSearch(w[1:])
			}
			if cur == nil {
				return "no-chains", nil
			}
			if w[0] == "sync" {
				return runSync(cur, w[1:])
			}
			if w[0] == "dl" || w[0] == "cs" || w[0] == "fs" {
				if pr != nil && pr.hung {
					return "timeout", nil
				}
				if pr != nil && pr.dead {
					go pr.stop() // (can take seconds after a ban: not waited for)
					pr = nil
					if pairs++; pairs >= maxPairsPerCase {
						sweepOff = true
					}
				}
				if sweepOff {
					return "skipped-connection-lost", nil
				}
				if pr == nil {
					var out string
					var fs []corr.Fail
					hb := parseBehav(nil)
					hb.sweep = true
					pr, out, fs = startPair(cur, hb, cur.pBlocks)
					if pr == nil {
						return out, fs
					}
				}
				if w[0] == "dl" {
					return pr.download(cur, w[1:])
				}
				if w[0] == "fs" {
					return pr.fastCommon(cur, w[1:])
				}
				return pr.commonSearch(cur, w[1:])
			}
			if fx == nil {
				var err error
				fx, err = newFixture(cur)
				if err != nil {
					return "setup-failed", []corr.Fail{fail("c19-setup", "%v", err)}
				}
			}
			switch w[0] {
			case "chain":
				return fx.chainOp(w[1:])
			case "sfs":
				return fx.shouldFast(w[1:])
			case "ss":
				return fx.shouldBlock(w[1:])
			case "glb":
				return fx.lastBlock()
			case "hcb":
				ids := [][]byte{}
				for _, t := range w[1:] {
					id, err := fx.resolve(t)
					if err != nil {
						return "bad-op", nil
					}
					ids = append(ids, id)
				}
				return fx.highestCommon(lsync.VerifC19EncodeHighestCommonBlockRequest(ids), ids, true)
			case "hreq":
				return fx.honestRequest(w[1:])
			case "hcbnil":
				return fx.highestCommon(nil, nil, true)
			case "hcbraw":
				if len(w) != 2 {
					return "bad-op", nil
				}
				data, err := unhex(w[1])
				if err != nil {
					return "bad-op", nil
				}
				return fx.highestCommon(data, nil, false)
			case "bfi":
				if len(w) != 2 {
					return "bad-op", nil
				}
				id, err := fx.resolve(w[1])
				if err != nil {
					return "bad-op", nil
				}
				return fx.blocksFromID(lsync.VerifC19EncodeBlocksFromIDRequest(id), id, true)
			case "bfinil":
				return fx.blocksFromID(nil, nil, true)
			case "bfiraw":
				if len(w) != 2 {
					return "bad-op", nil
				}
				data, err := unhex(w[1])
				if err != nil {
					return "bad-op", nil
				}
				return fx.blocksFromID(data, nil, false)
			}
			return "bad-op", nil
		}()
		for k := range fs {
			fs[k].Op = i
		}
		outs = append(outs, out)
		fails = append(fails, fs...)
	}
	return outs, fails
}

func (prop) Classify(c corr.Case, out []string) string {
	kinds := map[string]bool{}
	var prm params
	finQ, w0reset := 0, ""
	chainSteps := []string{}
	for i, op := range c.Ops {
		if i >= len(out) {
			break
		}
		w := strings.Fields(op)
		if len(w) == 0 {
			continue
		}
		o := strings.Fields(out[i])
		first := ""
		if len(o) > 0 {
			first = o[0]
		}
		switch w[0] {
		case "reset":
			w0reset = op
			prm.P, _ = kvInt(w, "P")
			prm.F, _ = kvInt(w, "F")
			prm.Q, _ = kvInt(w, "Q")
			prm.N, _ = kvInt(w, "n")
			finQ, _ = kvInt(w, "finQ")
		case "dl":
			if len(w) != 5 {
				continue
			}
			// geometry class: responses needed x position of the peer's tip relative to the end block
			sh, _ := strconv.Atoi(w[2])
			eh, _ := strconv.Atoi(w[4])
			cl := "other"
			if w[1] == "p"+w[2] && w[3] == "p"+w[4] && sh < eh && eh <= prm.P {
				cl = "1response"
				if eh-sh > lsync.VerifC19MaxBlocksPerResponse {
					cl = "responses"
				}
				switch d := prm.P - eh; {
				case d == 0:
					cl += ":tip-at-end"
				case d == 1:
					cl += ":tip-1-above"
				case d < lsync.VerifC19MaxBlocksPerResponse:
					cl += ":tip-above"
				default:
					cl += ":tip-far-above"
				}
			}
			kinds["geo:download:"+cl+":"+first] = true
		case "cs":
			fin, _ := kvInt(w, "fin")
			n, _ := kvInt(w, "n")
			kinds["geo:search:"+searchClass(prm.Q, fin, n, prm.F)+":"+first] = true
		case "fs":
			fin, _ := kvInt(w, "fin")
			n, _ := kvInt(w, "n")
			kinds["geo:fastcommon:"+fastClass(prm.Q, fin, n, prm.F)+":"+first] = true
		case "sfs":
			h, _ := kvInt(w, "h")
			n, _ := kvInt(w, "n")
			g, _ := kvInt(w, "gen")
			cl := "at-tip"
			switch d := h - prm.P; {
			case d < -2*n:
				cl = "far-below"
			case d < 0:
				cl = "below-within-2-rounds"
			case d > 2*n:
				cl = "far-above"
			case d > 0:
				cl = "above-within-2-rounds"
			}
			kinds[fmt.Sprintf("geo:method:fast:%s:gen%d:%s", cl, g, first)] = true
		case "ss":
			kinds["geo:method:block:"+first] = true
		case "best":
			if strings.Contains(out[i], ",") {
				kinds["best:several-answers"] = true
			} else {
				kinds["best:one-answer"] = true
			}
		case "gap", "lasth", "cbs":
			kinds["heights"] = true
		case "hreq":
			kinds[hreqClass(w, out[i])] = true
		case "chain":
			if len(w) == 2 {
				chainSteps = append(chainSteps, w[1])
			}
		case "glb":
			kinds["handler:last"] = true
		case "hcb", "hcbnil", "hcbraw":
			kinds["handler:common-"+first] = true
		case "bfi", "bfinil", "bfiraw":
			if first == "blocks" && len(o) > 1 {
				n, _ := strconv.Atoi(o[1])
				switch {
				case n == 0:
					first = "blocks-none"
				case n >= lsync.VerifC19MaxBlocksPerResponse:
					first = "blocks-capped"
				}
			}
			kinds["handler:segment-"+first] = true
		case "sync":
			b := parseBehav(w[1:])
			mode, res := "", "ok"
			for _, t := range o {
				if strings.HasPrefix(t, "mode=") {
					mode = t[5:]
				}
				if t == "err=1" {
					res = "refused"
				}
				if t == "ban=1" {
					res += "+ban"
				}
			}
			cl := "sync:" + mode + ":" + b.kind() + ":" + res
			if mode == "block" && b.honest() {
				cl += ":" + searchClass(prm.Q, finQ, prm.N, prm.F)
			}
			if b.target >= 0 && b.target < prm.P {
				cl += ":tip-above-announced"
			}
			// the announced block relative to the own tip, the fork point relative to the finalized block
			ann := prm.P
			if b.target >= 0 {
				ann = b.target
			}
			switch {
			case ann < prm.Q:
				cl += ":announced-below-own-tip"
			case ann == prm.Q:
				cl += ":announced-at-own-tip"
			}
			if mode == "fast" && prm.F == finQ {
				cl += ":fork-at-finalized"
			}
			if strings.Contains(w0reset, " rc=1") {
				cl += ":recent"
			}
			if b.extra != "" || b.mainFail {
				cl += ":peers=" + b.extra
				if b.mainFail {
					cl += "+main-fails"
				}
			}
			cl += scaleClass(prm) + failGeoClass(prm, b) + rollbackClass(prm, finQ, b)
			return cl
		}
	}
	if len(chainSteps) > 0 {
		// the kinds of change the responder's chain went through (bounded: at most the first six steps)
		if len(chainSteps) > 6 {
			chainSteps = chainSteps[:6]
		}
		return "handlers-after:" + strings.Join(chainSteps, ">")
	}
	geo := []string{}
	for k := range kinds {
		if strings.HasPrefix(k, "geo:") {
			geo = append(geo, k)
		}
	}
	if len(geo) > 0 {
		// one class per case: the rarest-looking combination is what matters, name them all (bounded vocabulary)
		sort.Strings(geo)
		if len(geo) > 6 {
			pref := map[string]bool{}
			for _, k := range geo {
				pref[strings.Join(strings.Split(k, ":")[:3], ":")] = true
			}
			geo = geo[:0]
			for k := range pref {
				geo = append(geo, k)
			}
			sort.Strings(geo)
		}
		return strings.Join(geo, "+")
	}
	if len(kinds) == 0 {
		return ""
	}
	l := []string{}
	for k := range kinds {
		l = append(l, k)
	}
	sort.Strings(l)
	if len(l) > 4 {
		pref := map[string]bool{}
		for _, k := range l {
			pref[strings.SplitN(k, "-", 2)[0]] = true
		}
		l = l[:0]
		for k := range pref {
			l = append(l, k)
		}
		sort.Strings(l)
	}
	return strings.Join(l, "+")
}

// ---------------------------------------------------------------------------------------------
// generators

func chunk(tag string, ops []string, size int, first string) []corr.Case {
	var cases []corr.Case
	for len(ops) > 0 {
		n := size
		if n > len(ops) {
			n = len(ops)
		}
		cases = append(cases, corr.Case{Ops: append([]string{first}, ops[:n]...), Tag: tag})
		ops = ops[n:]
	}
	return cases
}

// gridPoints: 3 maxHeightPrevoted x 3 heights x 2 ids
func gridPoints() []string {
	pts := []string{}
	for _, m := range []int{1, 2, 3} {
		for _, h := range []int{4, 5, 6} {
			for _, id := range []string{"a", "b"} {
				pts = append(pts, fmt.Sprintf("%d.%d.%s", m, h, id))
			}
		}
	}
	return pts
}

// multisets of size k over n points, as non-decreasing index sequences
func multisets(n, k int, f func([]int)) {
	idx := make([]int, k)
	var rec func(pos, from int)
	rec = func(pos, from int) {
		if pos == k {
			f(idx)
			return
		}
		for i := from; i < n; i++ {
			idx[pos] = i
			rec(pos+1, i)
		}
	}
	rec(0, 0)
}

func genBest(rng *rand.Rand, tier string) []corr.Case {
	pts := gridPoints()
	ops := []string{"best -"}
	exhaustive := 3
	if tier == "thorough" {
		exhaustive = 5
	}
	for k := 1; k <= exhaustive; k++ {
		multisets(len(pts), k, func(idx []int) {
			t := make([]string, len(idx))
			for i, j := range idx {
				t[i] = pts[j]
			}
			// the order of the peers is irrelevant for the set of ids but not for the loops: shuffle some
			if rng.Intn(3) == 0 {
				rng.Shuffle(len(t), func(a, b int) { t[a], t[b] = t[b], t[a] })
			}
			ops = append(ops, "best "+strings.Join(t, " "))
		})
	}
	if tier != "thorough" {
		// sample of the larger multisets
		for i := 0; i < 700; i++ {
			k := 4 + rng.Intn(2)
			t := make([]string, k)
			for j := range t {
				t[j] = pts[rng.Intn(len(pts))]
			}
			ops = append(ops, "best "+strings.Join(t, " "))
		}
	}
	cases := chunk("best-grid", ops, 300, "reset none")
	// random: more ids, large values, duplicates
	nRandom := 300
	if tier == "thorough" {
		nRandom = 3000
	}
	rops := []string{}
	vals := []uint32{0, 1, 2, 100, 1 << 31, 1<<32 - 2, 1<<32 - 1}
	for i := 0; i < nRandom; i++ {
		k := 1 + rng.Intn(8)
		nid := 1 + rng.Intn(5)
		nval := 1 + rng.Intn(3)
		t := make([]string, k)
		for j := range t {
			var m, h uint32
			if rng.Intn(4) == 0 {
				m, h = vals[rng.Intn(len(vals))], vals[rng.Intn(len(vals))]
			} else {
				m, h = uint32(rng.Intn(nval)), uint32(rng.Intn(nval))
			}
			t[j] = fmt.Sprintf("%d.%d.%c", m, h, 'a'+rng.Intn(nid))
		}
		rops = append(rops, "best "+strings.Join(t, " "))
	}
	return append(cases, chunk("best-random", rops, 100, "reset none")...)
}

func genHelpers(rng *rand.Rand, tier string) []corr.Case {
	ops := []string{}
	u32max := uint64(1<<32 - 1)
	pick := func(l []uint64) uint64 { return l[rng.Intn(len(l))] }
	n := 1500
	if tier == "thorough" {
		n = 40000
	}
	// the calls of the repository's own tests
	ops = append(ops, "gap 0 0 10 9", "gap 103 0 103 9", "gap 206 0 103 9", "lasth 200 10", "cbs 0 103", "cbs 373 103", "cbs 411 103", "cbs 412 103", "cbs 413 103")
	for i := 0; i < n; i++ {
		switch rng.Intn(3) {
		case 0:
			gap := pick([]uint64{0, 1, 2, 3, 4, 7, 101, 103, 1 << 16, 1 << 31})
			num := pick([]uint64{0, 1, 2, 3, 9, 10, 11, 30})
			minimum := pick([]uint64{0, 1, 5, 100, 1000, u32max - 1000, u32max - 1, u32max})
			if rng.Intn(3) == 0 {
				minimum = uint64(rng.Intn(500))
			}
			var start uint64
			switch rng.Intn(6) {
			case 0:
				start = minimum
			case 1:
				start = minimum + 1
			case 2:
				if minimum > 0 {
					start = minimum - 1
				}
			case 3:
				start = minimum + uint64(rng.Intn(12))*gap + uint64(rng.Intn(3)) - 1
			case 4:
				start = u32max - uint64(rng.Intn(3))
			default:
				start = minimum + uint64(rng.Intn(2000))
			}
			if start > u32max {
				start = u32max
			}
			ops = append(ops, fmt.Sprintf("gap %d %d %d %d", start, minimum, gap, num))
		case 1:
			start := pick([]uint64{0, 1, 2, 5, 8, 9, 200, 205, 206, u32max})
			if rng.Intn(2) == 0 {
				start = uint64(rng.Intn(300))
			}
			num := pick([]uint64{0, 1, 2, 8, 10, 14, 202, 206})
			ops = append(ops, fmt.Sprintf("lasth %d %d", start, num))
		default:
			r := pick([]uint64{1, 2, 3, 4, 7, 101, 103, 1 << 20, 1<<31 - 1})
			var h uint64
			switch rng.Intn(5) {
			case 0:
				h = uint64(rng.Intn(6)) * r
			case 1:
				h = uint64(rng.Intn(6))*r + 1
			case 2:
				h = uint64(1+rng.Intn(6))*r - 1
			case 3:
				h = u32max - uint64(rng.Intn(4))
			default:
				h = uint64(rng.Int63n(int64(u32max)))
			}
			if h > u32max {
				h = u32max
			}
			ops = append(ops, fmt.Sprintf("cbs %d %d", h, r))
		}
	}
	return chunk("heights", ops, 400, "reset none")
}

func randBytes(rng *rand.Rand, n int) []byte {
	b := make([]byte, n)
	for i := range b {
		b[i] = byte(rng.Intn(256))
	}
	return b
}

// rawRequests: encodings around the request schema (field 1, repeated bytes): valid ones with
// unknown ids, wrong lengths, truncations, wrong field numbers / wire types, garbage.
func rawRequests(rng *rand.Rand, n int) []string {
	res := []string{"-", "0a", "0a00", "0a20", "0a01ff", "1201ff", "08", "0801", "0a8000", "0aff", "0a2000"}
	field := func(id []byte) []byte { return append([]byte{0x0a, byte(len(id))}, id...) }
	for i := 0; i < n; i++ {
		var b []byte
		k := 1 + rng.Intn(3)
		for j := 0; j < k; j++ {
			l := 32
			if rng.Intn(4) == 0 {
				l = []int{0, 1, 31, 33, 64}[rng.Intn(5)]
			}
			b = append(b, field(randBytes(rng, l))...)
		}
		switch rng.Intn(6) {
		case 0:
			b = b[:rng.Intn(len(b)+1)]
		case 1:
			b[rng.Intn(len(b))] ^= byte(1 << rng.Intn(8))
		case 2:
			b = append(b, randBytes(rng, 1+rng.Intn(4))...)
		case 3:
			b = append([]byte{0x12, 0x01, 0x00}, b...)
		}
		res = append(res, hexs(b))
	}
	return res
}

func handlerOps(rng *rand.Rand, prm params, rich bool) []string {
	ops := []string{"glb", "hcbnil", "bfinil"}
	ptok := func(h int) string { return "p" + strconv.Itoa(h) }
	qtok := func(h int) string { return "q" + strconv.Itoa(h) }
	// the requests the two synchronisers would send: the requester's last heights / heights with a gap
	for _, num := range []int{2 * prm.N, 3, 2} {
		t := []string{}
		for i := 0; i < num-1 && i <= prm.Q; i++ {
			t = append(t, qtok(prm.Q-i))
		}
		if len(t) > 0 {
			ops = append(ops, "hcb "+strings.Join(t, " "))
			rng.Shuffle(len(t), func(a, b int) { t[a], t[b] = t[b], t[a] })
			ops = append(ops, "hcb "+strings.Join(t, " "))
		}
	}
	{
		t := []string{}
		for h := prm.Q; h >= 0; h -= prm.N {
			t = append(t, qtok(h))
		}
		ops = append(ops, "hcb "+strings.Join(t, " "))
	}
	// a request naming MANY blocks the responder knows (the fast synchroniser sends 2*validators-1 ids: 205 on a
	// 103-validator chain), newest first and shuffled
	{
		t := []string{}
		for h := prm.P; h >= 0 && len(t) < 72; h-- {
			t = append(t, ptok(h))
		}
		if len(t) > 16 {
			ops = append(ops, "hcb "+strings.Join(t, " "))
			rng.Shuffle(len(t), func(a, b int) { t[a], t[b] = t[b], t[a] })
			ops = append(ops, "hcb "+strings.Join(t[:17+rng.Intn(len(t)-16)], " "))
		}
	}
	// single ids across the fork point, the cache boundary and the tips
	hs := map[int]bool{0: true, 1: true, prm.F: true, prm.F + 1: true, prm.F - 1: true, prm.P: true, prm.P + 1: true, prm.Q: true,
		prm.P - prm.Cache: true, prm.P - prm.Cache + 1: true, prm.P - prm.Cache - 1: true,
		prm.P - 103: true, prm.P - 104: true, prm.P - 102: true}
	for h := range hs {
		if h < 0 {
			delete(hs, h)
		}
	}
	for _, h := range sortedInts(hs) {
		ops = append(ops, "hcb "+ptok(h), "hcb "+qtok(h), "bfi "+ptok(h), "bfi "+qtok(h))
	}
	ops = append(ops, "hcb u1", "hcb u1 u2 u3", "bfi u1", "hcb x-", "hcb x00", "bfi x-", "bfi x"+strings.Repeat("ab", 31), "bfi x"+strings.Repeat("ab", 33),
		"hcb "+ptok(prm.F)+" x"+strings.Repeat("cd", 31), "hcb "+ptok(1)+" "+ptok(1), "hcb u7 "+ptok(0))
	nRand := 12
	if rich {
		nRand = 60
	}
	for i := 0; i < nRand; i++ {
		k := 1 + rng.Intn(12)
		t := make([]string, k)
		for j := range t {
			switch rng.Intn(8) {
			case 0:
				t[j] = "u" + strconv.Itoa(rng.Intn(5))
			case 1, 2, 3:
				t[j] = ptok(rng.Intn(prm.P + 2))
			default:
				t[j] = qtok(rng.Intn(prm.Q + 2))
			}
		}
		if rng.Intn(10) == 0 {
			t[rng.Intn(k)] = "x" + hexs(randBytes(rng, []int{1, 31, 33}[rng.Intn(3)]))
		}
		ops = append(ops, "hcb "+strings.Join(t, " "))
		ops = append(ops, "bfi "+ptok(rng.Intn(prm.P+1)))
	}
	nRaw := 10
	if rich {
		nRaw = 60
	}
	for _, r := range rawRequests(rng, nRaw) {
		ops = append(ops, "hcbraw "+r, "bfiraw "+r)
	}
	return ops
}

func genHandlers(rng *rand.Rand, tier string) []corr.Case {
	var prms []params
	// every common-prefix length of two short chains; block cache of 4 blocks
	for f := 0; f <= 9; f++ {
		prms = append(prms, params{P: 11, F: f, Q: 9, N: 4, Cache: 4})
	}
	prms = append(prms,
		params{P: 9, F: 9, Q: 12, N: 4, Cache: 4},      // responder behind the requester
		params{P: 12, F: 12, Q: 12, N: 4, Cache: 515},  // identical chains, everything cached
		params{P: 0, F: 0, Q: 0, N: 4, Cache: 4},       // genesis only
		params{P: 230, F: 120, Q: 131, N: 4, Cache: 8}, // longer than the response cap, far beyond the cache
	)
	if tier == "thorough" {
		for f := 0; f <= 14; f += 2 {
			prms = append(prms, params{P: 14 + f%3, F: f, Q: 14, N: 5, Cache: 3})
		}
		prms = append(prms, params{P: 330, F: 300, Q: 310, N: 7, Cache: 16}, params{P: 104, F: 1, Q: 3, N: 4, Cache: 2}, params{P: 103, F: 0, Q: 0, N: 4, Cache: 600})
	}
	var cases []corr.Case
	for _, prm := range prms {
		f, err := factsOf(prm)
		if err != nil {
			cases = append(cases, corr.Case{Ops: []string{resetLine(prm, facts{})}, Tag: "handlers"})
			continue
		}
		ops := handlerOps(rng, prm, tier == "thorough")
		cases = append(cases, chunk("handlers", ops, 80, resetLine(prm, f))...)
	}
	return cases
}

type syncCase struct {
	prm params
	b   string
}

func genSync(rng *rand.Rand, tier string) []corr.Case {
	var l []syncCase
	add := func(prm params, b string) { l = append(l, syncCase{prm, b}) }
	n4 := func(p, f, q int) params { return params{P: p, F: f, Q: q, N: 4, Cache: 515} }
	// --- quick core ---
	add(n4(12, 6, 6), "")               // fast, requester is a prefix
	add(n4(14, 8, 10), "")              // fast, fork
	add(n4(16, 9, 12), "cap=2")         // fast, small segments
	add(n4(30, 12, 14), "")             // block sync, fork
	add(n4(130, 20, 22), "")            // block sync, more than one segment of 103 blocks
	add(n4(14, 8, 10), "stop=11")       // truncated: fast sync
	add(n4(30, 12, 14), "stop=20")      // truncated: block sync
	add(n4(14, 8, 10), "badstatic=11")  // statically invalid block
	add(n4(14, 8, 10), "badexec=9")     // first downloaded block cannot be applied
	add(n4(14, 8, 10), "badexec=12")    // a block in the middle cannot be applied: restore
	add(n4(30, 12, 14), "badexec=20")   // block sync, block in the middle cannot be applied
	add(n4(30, 12, 14), "badstatic=18") // block sync, statically invalid
	add(n4(14, 8, 10), "common=none")   // peer claims to share nothing
	add(n4(22, 14, 20), "")             // fast: common block below the finalized height
	add(n4(22, 14, 20), "common=p2")    // fast: peer names a block far below the finalized height
	add(n4(14, 8, 10), "common=u1")     // peer names an unknown block
	add(n4(14, 8, 10), "force=block")   // block synchroniser on a short distance
	add(n4(40, 10, 12), "force=fast")   // fast synchroniser beyond its window
	if tier == "thorough" {
		for _, n := range []int{4, 5} {
			for q := 2; q <= 16; q += 3 {
				for f := 0; f <= q; f += 2 {
					for _, d := range []int{1, 3, 2*n - 1, 2 * n, 2*n + 1, 3 * n} {
						if f == q && d == 1 {
							continue // the next block of the own chain: no synchronisation
						}
						prm := params{P: q + d, F: f, Q: q, N: n, Cache: 515}
						add(prm, "")
						switch rng.Intn(7) {
						case 0:
							add(prm, fmt.Sprintf("cap=%d", 2+rng.Intn(3)))
						case 1:
							if prm.P > f+1 {
								add(prm, fmt.Sprintf("stop=%d", f+1+rng.Intn(prm.P-f-1)))
							}
						case 2:
							add(prm, fmt.Sprintf("badexec=%d", f+1+rng.Intn(prm.P-f)))
						case 3:
							add(prm, fmt.Sprintf("badstatic=%d", f+1+rng.Intn(prm.P-f)))
						case 4:
							add(prm, "common="+[]string{"none", "p0", "u3", "p" + strconv.Itoa(rng.Intn(f+1)), "q" + strconv.Itoa(q)}[rng.Intn(5)])
						}
					}
				}
			}
		}
		add(params{P: 250, F: 100, Q: 104, N: 4, Cache: 515}, "")
		add(params{P: 250, F: 100, Q: 104, N: 4, Cache: 515}, "badexec=215")
		add(params{P: 60, F: 40, Q: 45, N: 7, Cache: 515}, "")
		add(params{P: 60, F: 40, Q: 45, N: 7, Cache: 515}, "badexec=50")
	}
	l = append(l, genSyncGeometry(rng, tier)...)
	l = append(l, genSyncMethod(rng, tier)...)
	l = append(l, genSyncMulti(rng, tier)...)
	l = append(l, genSyncScale(rng, tier)...)
	l = append(l, genSyncFailGeo(rng, tier)...)
	l = append(l, genSyncRollback(rng, tier)...) // rollback.go
	var cases []corr.Case
	for _, sc := range l {
		f, err := factsOf(sc.prm)
		if err != nil {
			cases = append(cases, corr.Case{Ops: []string{resetLine(sc.prm, facts{})}, Tag: "sync"})
			continue
		}
		op := "sync"
		if sc.b != "" {
			op += " " + sc.b
		}
		if bad, ok := kvInt(strings.Fields(sc.b), "badexec"); ok {
			fp, err := finPeakOf(sc.prm, bad)
			if err != nil {
				continue
			}
			op += fmt.Sprintf(" finpeak=%d", fp)
		}
		if sc.prm.Rc {
			age, err := recency(sc.prm)
			if err != nil {
				continue
			}
			op += fmt.Sprintf(" age=%d", age)
		}
		if t, ok := kvInt(strings.Fields(sc.b), "target"); ok {
			m, err := mhpAt(sc.prm, t)
			if err != nil {
				continue
			}
			op += fmt.Sprintf(" tmhp=%d", m)
		}
		if via, k := parseRollback(strings.Fields(sc.b)); via == 'd' {
			// rollback.go: the facts of the rolled-back node the model needs
			mhp, mhpc, err := rollbackFacts(sc.prm, k)
			if err != nil {
				continue
			}
			op += fmt.Sprintf(" rmhp=%d rmhpc=%d", mhp, mhpc)
		}
		cases = append(cases, corr.Case{Ops: []string{resetLine(sc.prm, f), op}, Tag: "sync"})
	}
	return cases
}

func (prop) Generate(rng *rand.Rand, tier string) []corr.Case {
	var cases []corr.Case
	cases = append(cases, genSync(rng, tier)...)
	cases = append(cases, genGeometry(rng, tier)...)
	cases = append(cases, genMethod(rng, tier)...)
	cases = append(cases, genChainOps(rng, tier)...)
	cases = append(cases, genHandlers(rng, tier)...)
	cases = append(cases, genScale(rng, tier)...)
	cases = append(cases, genHelpers(rng, tier)...)
	cases = append(cases, genBest(rng, tier)...)
	return cases
}
