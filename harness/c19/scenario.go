package c19

import (
	"crypto/sha256"
	"fmt"
	"sort"
	"strconv"
	"strings"
	"sync"
	"time"

	"github.com/LiskHQ/lisk-engine/pkg/blockchain"

	"verifharness/node"
)

// params describes a pair of chains built by twin nodes (same genesis, same validator keys):
// the responder chain has tip height P, the requester chain tip height Q, both share the blocks
// of heights 0..F (F <= min(P,Q)) and differ above F.
//
// St > 0 stalls finality on both chains: above height St only the validators with the lowest
// indices, one fewer than the prevote / precommit threshold, produce blocks (the slots of the others
// stay empty), so the prevoted and the finalized height stay where they were while both chains keep
// growing. This gives the geometries with `own tip - finalized` of many rounds that the default
// chains (finality lags the tip by less than two rounds) never reach.
type params struct {
	P, F, Q int
	N       int // validators
	Cache   int // MaxBlockCache of the responder node
	St      int // > 0: finality stalls above that height
	// Sq: only the REQUESTER's own blocks (above F) are produced by threshold-1 validators: its prevoted
	// height stays near the fork point while the responder's grows, so a responder chain that is SHORTER
	// than the requester's can still be the better one (higher maxHeightPrevoted).
	Sq bool
	// Rc: recent chains: the slot length is recentBlockTime and the genesis timestamp is chosen such that
	// the later of the two tips lies in the slot before the current one, so that the finalized block is
	// NOT older than three rounds of slots (Syncer.shouldSync false) - with the default fixed genesis
	// timestamp of 2023 every finalized block is ancient and block sync is always available.
	Rc bool
}

func (p params) key() string {
	return fmt.Sprintf("%d/%d/%d/%d/%d/%d/%v/%v", p.P, p.F, p.Q, p.N, p.Cache, p.St, p.Sq, p.Rc)
}

// recentBlockTime is the slot length of the Rc chains: long enough (28 h) for the wall clock not to
// leave the slot, or the three-round window, during a run.
const recentBlockTime = 100_000

// facts are the values of a scenario the model needs in the reset line.
type facts struct{ finQ, mhpQ, mhpP uint32 }

const genesisTimestamp = 1_700_000_000

type chains struct {
	prm     params
	once    sync.Once
	err     error
	p       *node.Node          // responder node, read-only after construction
	pBlocks []*blockchain.Block // by height, [0] = genesis
	qBlocks []*blockchain.Block
	facts   facts
	finP    []uint32          // finalized height of the responder chain cut at each height
	finQ    []uint32          // C04SYNC: finalized height of the requester chain cut at each height
	gts, bt uint32            // genesis timestamp and slot length of both nodes (bt 0: the default 10 s)
	tok     map[string]string // real id -> token
	refs    int
}

var (
	cacheMu    sync.Mutex
	cache      = map[string]*chains{}
	factsCache = map[string]facts{}
)

const maxCached = 12

// acquire returns the (built) chains for prm; release must be called when done.
func acquire(prm params) (*chains, error) {
	cacheMu.Lock()
	c, ok := cache[prm.key()]
	if !ok {
		if len(cache) >= maxCached {
			for k, old := range cache {
				// (chains built by a main-net sized validator set take seconds to build: kept)
				if old.refs == 0 && old.prm.N < 52 {
					if old.p != nil {
						old.p.Close()
					}
					delete(cache, k)
				}
			}
		}
		c = &chains{prm: prm}
		cache[prm.key()] = c
	}
	c.refs++
	cacheMu.Unlock()
	c.once.Do(c.build)
	if c.err == nil {
		cacheMu.Lock()
		factsCache[prm.key()] = c.facts
		cacheMu.Unlock()
	}
	return c, c.err
}

func release(c *chains) {
	cacheMu.Lock()
	c.refs--
	cacheMu.Unlock()
}

// factsOf builds the scenario if necessary and returns its facts.
func factsOf(prm params) (facts, error) {
	cacheMu.Lock()
	f, ok := factsCache[prm.key()]
	cacheMu.Unlock()
	if ok {
		return f, nil
	}
	c, err := acquire(prm)
	if err != nil {
		return facts{}, err
	}
	defer release(c)
	return c.facts, nil
}

// finPeakOf is the finalized height of the responder chain cut just below height bad.
func finPeakOf(prm params, bad int) (uint32, error) {
	c, err := acquire(prm)
	if err != nil {
		release(c)
		return 0, err
	}
	defer release(c)
	if bad-1 < 0 || bad-1 >= len(c.finP) {
		return 0, fmt.Errorf("c19: height %d outside the chain", bad)
	}
	return c.finP[bad-1], nil
}

// mhpAt is the maxHeightPrevoted of the responder's block of height h.
func mhpAt(prm params, h int) (uint32, error) {
	c, err := acquire(prm)
	if err != nil {
		release(c)
		return 0, err
	}
	defer release(c)
	if h < 0 || h >= len(c.pBlocks) {
		return 0, fmt.Errorf("c19: height %d outside the chain", h)
	}
	return c.pBlocks[h].Header.MaxHeightPrevoted, nil
}

func (c *chains) nodeConfig(cacheSize int) node.Config {
	return node.Config{NumValidators: c.prm.N, Seed: 19, GenesisTimestamp: c.gts, BlockTime: c.bt, MaxBlockCache: cacheSize}
}

// stallMod is the block option modifier of a chain with stalled finality (params.St, params.Sq):
// above height `from` (> 0) the slots of the validators with index >= threshold-1 stay empty.
func stallMod(n *node.Node, prm params, from int) func(i int, o *node.BlockOpts) {
	return func(_ int, o *node.BlockOpts) {
		if from > 0 && int(n.Height()) >= from {
			active := int(node.DefaultThreshold(uint64(prm.N))) - 1
			for d := 1; d <= prm.N; d++ {
				if g, err := n.GeneratorAt(d); err == nil && g.Index < active {
					o.SlotsAhead = d
					return
				}
			}
		}
	}
}

func (c *chains) build() {
	c.gts, c.bt = genesisTimestamp, 0
	if !c.prm.Rc {
		c.buildOnce()
		return
	}
	// recent chains: a first construction measures how many slots the chains take (empty slots of a
	// stalled chain included), the second one starts that many slots before the current slot
	c.bt = recentBlockTime
	c.gts = genesisTimestamp - genesisTimestamp%recentBlockTime
	c.buildOnce()
	if c.err != nil {
		return
	}
	last := c.pBlocks[len(c.pBlocks)-1].Header.Timestamp
	if t := c.qBlocks[len(c.qBlocks)-1].Header.Timestamp; t > last {
		last = t
	}
	slots := (last - c.gts) / c.bt
	c.p.Close()
	c.p = nil
	now := uint32(time.Now().Unix())
	c.gts = now - now%c.bt - (slots+1)*c.bt
	c.buildOnce()
}

func (c *chains) buildOnce() {
	prm := c.prm
	if prm.F > prm.P || prm.F > prm.Q || prm.F < 0 || prm.N < 1 || ((prm.St > 0 || prm.Sq) && prm.N < 2) {
		c.err = fmt.Errorf("c19: bad params %+v", prm)
		return
	}
	qFrom := prm.St
	if prm.Sq {
		qFrom = 1
	}
	p, err := node.New(c.nodeConfig(prm.Cache))
	if err != nil {
		c.err = err
		return
	}
	finP := []uint32{p.Finalized()}
	var common []*blockchain.Block
	for i := 0; i < prm.F; i++ {
		bs, err := p.Extend(1, stallMod(p, prm, prm.St))
		if err != nil {
			c.err = fmt.Errorf("extend common: %w", err)
			return
		}
		common = append(common, bs...)
		finP = append(finP, p.Finalized())
	}
	// the requester chain is built by a twin node; its first own block carries an extra event so
	// that it differs from the responder's block of that height
	q, err := node.New(c.nodeConfig(0))
	if err != nil {
		c.err = err
		return
	}
	defer q.Close()
	for _, b := range common {
		if err := q.Process(b); err != nil {
			c.err = fmt.Errorf("twin common: %w", err)
			return
		}
	}
	var pOwn []*blockchain.Block
	for i := 0; i < prm.P-prm.F; i++ {
		bs, err := p.Extend(1, stallMod(p, prm, prm.St))
		if err != nil {
			c.err = fmt.Errorf("extend responder: %w", err)
			return
		}
		pOwn = append(pOwn, bs...)
		finP = append(finP, p.Finalized())
	}
	c.finP = finP
	// C04SYNC: the requester's own blocks are built one by one to record the finalized height after each
	finQ := append([]uint32{}, finP[:prm.F+1]...)
	var qOwn []*blockchain.Block
	for i := 0; i < prm.Q-prm.F; i++ {
		first := i == 0
		qStall := stallMod(q, prm, qFrom)
		bs, err := q.Extend(1, func(k int, o *node.BlockOpts) {
			qStall(k, o)
			if first {
				o.BeforeEvents = []*blockchain.Event{{Module: "fork", Name: "q", Data: []byte{0x71}}}
			}
		})
		if err != nil {
			c.err = fmt.Errorf("extend requester: %w", err)
			return
		}
		qOwn = append(qOwn, bs...)
		finQ = append(finQ, q.Finalized())
	}
	c.finQ = finQ
	c.p = p
	c.pBlocks = append(append([]*blockchain.Block{p.Genesis}, common...), pOwn...)
	c.qBlocks = append(append([]*blockchain.Block{p.Genesis}, common...), qOwn...)
	c.facts = facts{finQ: q.Finalized(), mhpQ: q.Tip().Header.MaxHeightPrevoted, mhpP: p.Tip().Header.MaxHeightPrevoted}
	c.tok = map[string]string{}
	for h, b := range c.pBlocks {
		c.tok[string(b.Header.ID)] = "p" + strconv.Itoa(h)
	}
	for h, b := range c.qBlocks {
		if h > prm.F {
			if _, dup := c.tok[string(b.Header.ID)]; dup {
				c.err = fmt.Errorf("c19: requester block %d equals a responder block", h)
				return
			}
			c.tok[string(b.Header.ID)] = "q" + strconv.Itoa(h)
		}
	}
}

// newRequester replays the requester chain on a fresh node (default block cache).
func (c *chains) newRequester() (*node.Node, error) {
	q, err := node.New(c.nodeConfig(0))
	if err != nil {
		return nil, err
	}
	for _, b := range c.qBlocks[1:] {
		if err := q.Process(b); err != nil {
			q.Close()
			return nil, err
		}
	}
	return q, nil
}

func unknownID(label string) []byte {
	h := sha256.Sum256([]byte("c19-unknown-" + label))
	return h[:]
}

// resolve maps a token to the real id bytes.
func (c *chains) resolve(tok string) ([]byte, error) {
	if len(tok) < 2 {
		return nil, fmt.Errorf("bad token %q", tok)
	}
	switch tok[0] {
	case 'x':
		return unhex(tok[1:])
	case 'u':
		return unknownID(tok), nil
	case 'p', 'q':
		h, err := strconv.Atoi(tok[1:])
		if err != nil || h < 0 {
			return nil, fmt.Errorf("bad token %q", tok)
		}
		if tok[0] == 'p' || h <= c.prm.F {
			if h < len(c.pBlocks) {
				return c.pBlocks[h].Header.ID, nil
			}
			return unknownID(tok), nil
		}
		if h < len(c.qBlocks) {
			return c.qBlocks[h].Header.ID, nil
		}
		return unknownID(tok), nil
	}
	return nil, fmt.Errorf("bad token %q", tok)
}

func (c *chains) token(id []byte, extra map[string]string) string {
	if t, ok := c.tok[string(id)]; ok {
		return t
	}
	if t, ok := extra[string(id)]; ok {
		return t
	}
	return "x" + hexs(id)
}

func hexs(b []byte) string {
	if len(b) == 0 {
		return "-"
	}
	return fmt.Sprintf("%x", b)
}

func unhex(s string) ([]byte, error) {
	if s == "-" || s == "" {
		return []byte{}, nil
	}
	if len(s)%2 != 0 {
		return nil, fmt.Errorf("odd hex %q", s)
	}
	b := make([]byte, len(s)/2)
	for i := range b {
		v, err := strconv.ParseUint(s[2*i:2*i+2], 16, 8)
		if err != nil {
			return nil, err
		}
		b[i] = byte(v)
	}
	return b, nil
}

// resetLine renders the reset op of a scenario.
func resetLine(prm params, f facts) string {
	s := fmt.Sprintf("reset P=%d F=%d Q=%d n=%d cache=%d finQ=%d mhpQ=%d mhpP=%d", prm.P, prm.F, prm.Q, prm.N, prm.Cache, f.finQ, f.mhpQ, f.mhpP)
	if prm.St > 0 {
		s += fmt.Sprintf(" st=%d", prm.St)
	}
	if prm.Sq {
		s += " sq=1"
	}
	if prm.Rc {
		s += " rc=1"
	}
	return s
}

func kvInt(w []string, key string) (int, bool) {
	for _, t := range w {
		if strings.HasPrefix(t, key+"=") {
			v, err := strconv.Atoi(t[len(key)+1:])
			if err != nil {
				return 0, false
			}
			return v, true
		}
	}
	return 0, false
}

func kvStr(w []string, key string) (string, bool) {
	for _, t := range w {
		if strings.HasPrefix(t, key+"=") {
			return t[len(key)+1:], true
		}
	}
	return "", false
}

func sortedInts(m map[int]bool) []int {
	r := make([]int, 0, len(m))
	for k := range m {
		r = append(r, k)
	}
	sort.Ints(r)
	return r
}

func joinInts(l []int) string {
	if len(l) == 0 {
		return "-"
	}
	s := make([]string, len(l))
	for i, v := range l {
		s[i] = strconv.Itoa(v)
	}
	return strings.Join(s, ",")
}

func joinU32(l []uint32) string {
	if len(l) == 0 {
		return "-"
	}
	s := make([]string, len(l))
	for i, v := range l {
		s[i] = strconv.FormatUint(uint64(v), 10)
	}
	return strings.Join(s, ",")
}
