package c19

import (
	"bytes"
	"fmt"
	"math/rand"
	"strings"
	"time"

	"verifharness/corr"
	"verifharness/node"
)

// Pseudo-property C04SYNC (run as part of property C04 through `also`): the clauses of C04 on the REAL
// synchronisation path. A requester node synchronises with a peer over two loopback libp2p hosts
// (Executer.process -> createSyncContext -> syncer.Sync -> fast / block synchroniser -> processValidated /
// deleteBlock, the syncying flag set by process); the harness collects the requester's event stream and
// checks, without any model:
//
//   - c04-sync-finalize-event-mismatch: exactly one EventBlockFinalize per raise of the stored finalized
//     height - published with the block that causes the raise (directly before its EventBlockNew),
//     Original = the height stored before, Next = the height stored after, Trigger = that block's
//     header; no event without a raise; the chain of events starts at the height stored before the
//     synchronisation and ends at the height stored after it;
//   - c04-sync-finalized-block-changed: no block at or below the (current) finalized height is deleted or
//     applied again during the synchronisation, and the ids of all heights up to the finalized height are
//     the same before and after, and served;
//   - c04-sync-fin-decreased;
//   - c04-sync-context-finalized-wrong: the finalized block handed to the synchronisers is the block at
//     the stored finalized height - also when the node was restarted right before (restart=1).
//
// The height the store must hold after a block is known from reference nodes that applied the same chain
// prefix block by block through Executer.process (no synchroniser involved): chains.finP / chains.finQ.

// checkSyncFinality is the oracle; it runs for every `sync` op (C19 and C04SYNC).
func checkSyncFinality(c *chains, q *node.Node, evs []node.Event, before, after [][]byte, finBefore uint32, mode string, b behav) (fails []corr.Fail) {
	ctxt := fmt.Sprintf("mode=%s peer=%s restart=%v", mode, b.kind(), b.restart)
	// reference: finalized height of a node that applied the chain up to this block
	ref := func(id []byte) (uint32, bool) {
		for h, blk := range c.pBlocks {
			if bytes.Equal(blk.Header.ID, id) && h < len(c.finP) {
				return c.finP[h], true
			}
		}
		for h, blk := range c.qBlocks {
			if bytes.Equal(blk.Header.ID, id) && h < len(c.finQ) {
				return c.finQ[h], true
			}
		}
		return 0, false
	}
	evFail, blkFail := 0, 0
	addEv := func(format string, a ...any) {
		if evFail++; evFail <= 3 {
			fails = append(fails, fail("c04-sync-finalize-event-mismatch", ctxt+": "+format, a...))
		}
	}
	addBlk := func(format string, a ...any) {
		if blkFail++; blkFail <= 3 {
			fails = append(fails, fail("c04-sync-finalized-block-changed", ctxt+": "+format, a...))
		}
	}
	cur := finBefore
	var pending *node.Event
	raises, applied := 0, 0
	for i := range evs {
		e := evs[i]
		switch e.Kind {
		case node.EvFinalize:
			if pending != nil {
				addEv("two finalize events (%d->%d, %d->%d) without a block between them", pending.Original, pending.Next, e.Original, e.Next)
			}
			if e.Original != cur || e.Next <= e.Original {
				addEv("finalize event %d->%d (trigger height %d) while the finalized height was %d", e.Original, e.Next, e.Height, cur)
			}
			pending = &evs[i]
		case node.EvNew:
			applied++
			if e.Height <= cur {
				addBlk("block %s applied at height %d while the finalized height is %d", c.token(e.BlockID, nil), e.Height, cur)
			}
			exp, known := ref(e.BlockID)
			want := cur
			if known && exp > want {
				want = exp
			}
			switch {
			case pending != nil:
				if !bytes.Equal(pending.BlockID, e.BlockID) || pending.Height != e.Height {
					addEv("finalize event %d->%d names block %x (height %d) as trigger but was published with block %s (height %d)", pending.Original, pending.Next, pending.BlockID, pending.Height, c.token(e.BlockID, nil), e.Height)
				}
				if known && pending.Next != want {
					addEv("finalize event %d->%d with block %s: a node that applied the chain up to this block stores finalized height %d", pending.Original, pending.Next, c.token(e.BlockID, nil), want)
				}
				if pending.Next > cur {
					cur = pending.Next
				}
				raises++
				pending = nil
			case want > cur:
				addEv("block %s (height %d) raises the stored finalized height %d -> %d but no finalize event was published with it", c.token(e.BlockID, nil), e.Height, cur, want)
				cur = want
				raises++
			}
		case node.EvDelete:
			if pending != nil {
				addEv("finalize event %d->%d is not followed by the block that caused it", pending.Original, pending.Next)
				pending = nil
			}
			if e.Height <= cur {
				addBlk("block %s at height %d deleted while the finalized height is %d", c.token(e.BlockID, nil), e.Height, cur)
			}
		}
	}
	if pending != nil {
		addEv("finalize event %d->%d is not followed by the block that caused it", pending.Original, pending.Next)
	}
	stored := q.Finalized()
	if stored < finBefore {
		fails = append(fails, fail("c04-sync-fin-decreased", ctxt+": stored finalized height %d -> %d", finBefore, stored))
	}
	if cur != stored {
		addEv("the stored finalized height went %d -> %d during the synchronisation (%d blocks applied) but the finalize events end at %d", finBefore, stored, applied, cur)
	}
	for h := 0; h <= int(stored); h++ {
		if h >= len(after) || after[h] == nil {
			addBlk("height %d is not served although the finalized height is %d", h, stored)
			break
		}
		if h <= int(finBefore) && h < len(before) && !bytes.Equal(before[h], after[h]) {
			addBlk("block at height %d (finalized height before %d) was %s, is now %s", h, finBefore, c.token(before[h], nil), c.token(after[h], nil))
			break
		}
	}
	return fails
}

type c04sync struct{}

func init() { corr.Register(c04sync{}) }

func (c04sync) ID() string                 { return "C04SYNC" }
func (c04sync) NoModel() bool              { return true }
func (c04sync) CaseTimeout() time.Duration { return 5 * time.Minute }

// c04Sigs: what belongs to C04 among the failures a sync op can report.
func c04Sig(sig string) bool {
	return strings.HasPrefix(sig, "c04-") || sig == "c19-finalized-reverted" || sig == "c19-below-finalized-accepted" ||
		sig == "c19-sync-panic" || sig == "c19-panic"
}

func (c04sync) RunImpl(c corr.Case) ([]string, []corr.Fail) {
	out, fails := prop{}.RunImpl(c)
	var mine []corr.Fail
	for _, f := range fails {
		if c04Sig(f.Sig) {
			mine = append(mine, f)
		}
	}
	return out, mine
}

func (c04sync) Classify(c corr.Case, out []string) string {
	cl := prop{}.Classify(c, out)
	for _, op := range c.Ops {
		if strings.HasPrefix(op, "sync") {
			if strings.Contains(op, "restart=1") {
				cl += ":restarted"
			}
			if strings.Contains(op, "sy=1") {
				cl += ":flag"
			}
		}
	}
	return cl
}

// Generate: synchronisations in which the requester's finalized height is raised by downloaded blocks
// (fast sync, block sync over one and several segments, forced synchronisers with the syncying flag set,
// failing peers after a raise, restore), each also with the requester restarted right before; and
// synchronisations whose fork point is AT and just BELOW the requester's finalized height after a restart.
func (c04sync) Generate(rng *rand.Rand, tier string) []corr.Case {
	var l []syncCase
	add := func(prm params, b string) { l = append(l, syncCase{prm, b}) }
	n4 := func(p, f, q int) params { return params{P: p, F: f, Q: q, N: 4, Cache: 515} }
	both := func(prm params, b string) {
		add(prm, b)
		add(prm, strings.TrimSpace(b+" restart=1"))
	}
	both(n4(12, 6, 6), "")                  // fast sync, requester is a prefix
	both(n4(14, 8, 10), "")                 // fast sync, fork
	both(n4(30, 12, 14), "")                // block sync
	add(n4(130, 20, 22), "")                // block sync, two segments
	add(n4(16, 9, 12), "cap=2")             // small segments
	both(n4(14, 8, 10), "force=block sy=1") // forced block synchroniser with the flag set
	both(n4(38, 30, 32), "force=fast sy=1") // forced fast synchroniser with the flag set
	add(n4(14, 8, 10), "force=fast")        // ... and without
	both(n4(30, 12, 14), "badexec=26")      // block sync fails after raises
	both(n4(20, 12, 14), "badexec=19")      // fast sync fails after raises: restore
	add(n4(30, 12, 14), "stop=24")          // truncated
	// fork points around the requester's finalized height (finQ is read from the built chains)
	for _, q := range []int{16, 20} {
		f, err := factsOf(n4(q+2, q, q))
		if err != nil || f.finQ < 3 {
			continue
		}
		fin := int(f.finQ)
		for _, d := range []int{0, 1, 2} {
			both(n4(q+2, fin-d, q), "")
		}
		both(n4(q+2, fin-1, q), "force=block sy=1")
		both(n4(q+2, fin-1, q), fmt.Sprintf("common=p%d", fin-2))
	}
	if tier == "thorough" {
		for _, n := range []int{4, 5, 7} {
			for q := 2; q <= 26; q += 3 {
				for f := 0; f <= q; f += 1 + rng.Intn(3) {
					for _, d := range []int{1, 3, 2*n - 1, 2*n + 1, 4 * n} {
						if f == q && d == 1 {
							continue
						}
						prm := params{P: q + d, F: f, Q: q, N: n, Cache: 515}
						opt := []string{"", "restart=1", "force=fast sy=1", "force=block sy=1", "force=block sy=1 restart=1", "cap=3 restart=1"}[rng.Intn(6)]
						add(prm, opt)
						if rng.Intn(4) == 0 && prm.P > f+2 {
							add(prm, fmt.Sprintf("badexec=%d restart=%d", f+2+rng.Intn(prm.P-f-1), rng.Intn(2)))
						}
					}
				}
			}
		}
	}
	var cases []corr.Case
	for _, sc := range l {
		f, err := factsOf(sc.prm)
		if err != nil {
			cases = append(cases, corr.Case{Ops: []string{resetLine(sc.prm, facts{})}, Tag: "c04sync"})
			continue
		}
		op := "sync"
		if sc.b != "" {
			op += " " + sc.b
		}
		if bad, ok := kvInt(strings.Fields(sc.b), "badexec"); ok {
			fp, err := finPeakOf(sc.prm, bad)
			if err != nil {
				continue
			}
			op += fmt.Sprintf(" finpeak=%d", fp)
		}
		cases = append(cases, corr.Case{Ops: []string{resetLine(sc.prm, f), op}, Tag: "c04sync"})
	}
	return cases
}
