package c19

// Block synchronisation with SEVERAL connected peers (blockSyncer.Sync asks every connected peer for
// its last block, selects the best answer and synchronises with that peer). `sync ... extra=<kinds>`
// connects one more loopback host per letter, each on its own loopback address (127.0.0.2, ...: bans
// are per IP), `main=e` makes the announcing peer itself fail the getLastBlock request:
//
//	e  getLastBlock answered with an error            t  never answered (3 s time-out of the request)
//	j  answered with bytes that do not decode         l  an honest peer on a WORSE chain (the common prefix)
//	h  a second honest peer on the announced chain    v  a decodable block of top priority whose header fails Validate
//	c  announces the real (higher) tip of the responder chain - better than the announced block
//	   (`target=`) -, then fails getHighestCommonBlock
//	b  the same, fails getBlocksFromId instead
//
// All handlers are the honest ones until the pair is armed (the connection set-up probes them).

import (
	"context"
	"errors"
	"fmt"
	"math/rand"
	"sync/atomic"
	"time"

	"github.com/LiskHQ/lisk-engine/pkg/blockchain"
	lsync "github.com/LiskHQ/lisk-engine/pkg/consensus/sync"
	"github.com/LiskHQ/lisk-engine/pkg/p2p"

	"verifharness/corr"
	"verifharness/node"
)

type extraPeer struct {
	kind byte
	conn *p2p.Connection
	ip   string
}

// invalidTopBlock: a copy of blk that decodes, outranks every honest tip (maxHeightPrevoted) and
// fails Validate (signature of the wrong length).
func invalidTopBlock(blk *blockchain.Block) (*blockchain.Block, error) {
	b, err := node.CopyBlock(blk)
	if err != nil {
		return nil, err
	}
	b.Header.MaxHeightPrevoted += 1000
	b.Header.Signature = b.Header.Signature[:len(b.Header.Signature)-1]
	b.Init()
	return b, nil
}

func newExtraPeer(c *chains, kind byte, ip string, announced *blockchain.Block, armed *atomic.Bool, quit chan struct{}) (*p2p.Connection, error) {
	conn := p2p.NewConnection(node.NopLogger(), &p2p.Config{ChainID: c.p.Cfg.ChainID, Addresses: []string{"/ip4/" + ip + "/tcp/0"}})
	syncer := lsync.NewSyncer(c.p.Chain, c.p.BlockSlot(), conn, node.NopLogger(), nil, nil)
	honestLast := func(w p2p.ResponseWriter, r *p2p.Request) { w.Write(announced.Encode()) }
	last := honestLast
	common := syncer.HandleRPCEndpointGetHighestCommonBlock()
	blocks := syncer.HandleRPCEndpointGetBlocksFromID()
	whenArmed := func(bad, good p2p.RPCHandler) p2p.RPCHandler {
		return func(w p2p.ResponseWriter, r *p2p.Request) {
			if armed.Load() {
				bad(w, r)
			} else {
				good(w, r)
			}
		}
	}
	fails := func(w p2p.ResponseWriter, r *p2p.Request) { w.Error(errors.New("not available")) }
	switch kind {
	case 'e':
		last = whenArmed(fails, honestLast)
	case 't':
		last = whenArmed(func(w p2p.ResponseWriter, r *p2p.Request) { <-quit }, honestLast)
	case 'j':
		last = whenArmed(func(w p2p.ResponseWriter, r *p2p.Request) { w.Write([]byte{0xff, 0xff, 0xff, 0x01}) }, honestLast)
	case 'l':
		low := c.pBlocks[c.prm.F]
		last = func(w p2p.ResponseWriter, r *p2p.Request) { w.Write(low.Encode()) }
	case 'h':
	case 'v':
		bad, err := invalidTopBlock(announced)
		if err != nil {
			return nil, err
		}
		last = whenArmed(func(w p2p.ResponseWriter, r *p2p.Request) { w.Write(bad.Encode()) }, honestLast)
	case 'c':
		last = syncer.HandleRPCEndpointGetLastBlock()
		common = whenArmed(fails, common)
	case 'b':
		last = syncer.HandleRPCEndpointGetLastBlock()
		blocks = whenArmed(fails, blocks)
	default:
		return nil, fmt.Errorf("c19: unknown peer kind %q", string(kind))
	}
	if err := conn.RegisterRPCHandler(lsync.RPCEndpointGetLastBlock, last); err != nil {
		return nil, err
	}
	if err := conn.RegisterRPCHandler(lsync.RPCEndpointGetHighestCommonBlock, common); err != nil {
		return nil, err
	}
	if err := conn.RegisterRPCHandler(lsync.RPCEndpointGetBlocksFromID, blocks); err != nil {
		return nil, err
	}
	if err := conn.Start([]byte{}); err != nil {
		return nil, err
	}
	return conn, nil
}

// connectExtras starts and connects the extra peers of b.extra; the pair is armed afterwards.
func (p *pair) connectExtras(c *chains, b behav, announced *blockchain.Block) []corr.Fail {
	for i := 0; i < len(b.extra); i++ {
		ip := fmt.Sprintf("127.0.0.%d", 2+i)
		conn, err := newExtraPeer(c, b.extra[i], ip, announced, p.armed, p.quit)
		if err != nil {
			return []corr.Fail{fail("c19-setup", "extra peer %c: %v", b.extra[i], err)}
		}
		p.extras = append(p.extras, extraPeer{kind: b.extra[i], conn: conn, ip: ip})
		addrs, err := conn.MultiAddress()
		if err != nil || len(addrs) == 0 {
			return []corr.Fail{fail("c19-setup", "extra peer address: %v", err)}
		}
		info, err := p2p.AddrInfoFromMultiAddr(addrs[0])
		if err != nil {
			return []corr.Fail{fail("c19-setup", "extra peer address: %v", err)}
		}
		if err := p.q.Conn.Connect(context.Background(), *info); err != nil {
			return []corr.Fail{fail("c19-setup", "connect extra peer: %v", err)}
		}
		ready := false
		for deadline := time.Now().Add(20 * time.Second); !ready && time.Now().Before(deadline); {
			for _, pid := range conn.ConnectedPeers() {
				if pid == p.q.Conn.ID() {
					ctx, cancel := context.WithTimeout(context.Background(), time.Second)
					_, err := lsync.VerifC19RequestLastBlockHeader(ctx, p.q.Conn, conn.ID())
					cancel()
					ready = err == nil
				}
			}
			if !ready {
				time.Sleep(5 * time.Millisecond)
			}
		}
		if !ready {
			return []corr.Fail{fail("c19-setup", "extra peer %c did not get connected", b.extra[i])}
		}
	}
	return nil
}

// multiPeerExpect is the specified outcome of a block synchronisation with the extra peers of b:
// "converge" (the best valid answer comes from an honest peer on the announced chain), "refused" (the
// best answer comes from a peer that then fails: an error, the own chain - at least its finalized
// part - stays), "nopeer" (nobody answered); bannedKind is the only kind of peer that may be banned
// (0: nobody).
func multiPeerExpect(b behav) (outcome string, bannedKind byte) {
	has := func(k byte) bool {
		for i := 0; i < len(b.extra); i++ {
			if b.extra[i] == k {
				return true
			}
		}
		return false
	}
	switch {
	case has('v'):
		return "refused", 'v'
	case has('c') || has('b'):
		return "refused", 0
	case b.mainFail && !has('h'):
		if has('l') {
			return "refused", 0 // (only a worse chain is on offer: no sync condition)
		}
		return "nopeer", 0
	}
	return "converge", 0
}

// genSyncMulti: block synchronisations with two to five connected peers.
func genSyncMulti(rng *rand.Rand, tier string) []syncCase {
	var l []syncCase
	thorough := tier == "thorough"
	base := params{P: 30, F: 12, Q: 14, N: 4, Cache: 515}
	fixed := []string{
		"extra=e", "extra=j", "extra=l", "extra=eh", "extra=v", "extra=hjel",
		"main=e extra=h", "main=e", "main=e extra=je", "main=e extra=l",
		"target=27 extra=c", "target=27 extra=b", "target=26 extra=ec",
	}
	if thorough {
		fixed = append(fixed, "extra=t", "main=e extra=t", "extra=h", "extra=ee", "extra=lv", "target=27 extra=hb", "extra=hhhh", "force=block extra=ej", "force=block main=e extra=e")
	}
	for _, f := range fixed {
		l = append(l, syncCase{base, f})
	}
	nRandom := 2
	bases := []params{base}
	if thorough {
		nRandom = 30
		bases = append(bases, params{P: 45, F: 17, Q: 23, N: 5, Cache: 515}, params{P: 130, F: 20, Q: 22, N: 4, Cache: 515})
	}
	for i := 0; i < nRandom; i++ {
		prm := bases[rng.Intn(len(bases))]
		s := ""
		for k := 1 + rng.Intn(3); k > 0; k-- {
			s += string("ejlh"[rng.Intn(4)])
		}
		b := ""
		switch rng.Intn(5) {
		case 0:
			s += "v"
		case 1:
			s += string("cb"[rng.Intn(2)])
			b = fmt.Sprintf("target=%d ", prm.P-1-rng.Intn(3))
		case 2:
			b = "main=e "
		}
		l = append(l, syncCase{prm, b + "extra=" + s})
	}
	return l
}
