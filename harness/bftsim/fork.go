package bftsim

// Fork switches, discarded candidate blocks and restarts of the module object.
//
// Ops added to the line protocol (Node.Track must be set):
//
//	revert                      delete the tip block the way consensus.Executer.deleteBlock does: the state
//	                            diffs committed since (and including) the last processed block — the BFT vote
//	                            update of that block and the parameters / generator keys set while it was
//	                            executed — are decoded and reverted newest first (diffdb.RevertDiff).
//	                            Output "ok <dump>", or "err" when no block is left to delete.
//	restart                     the module object is replaced by a new one over the same database (node restart).
//	                            Output "ok <dump>".
//	tryblock h g mhg mhp c      a candidate block is processed on a staged store which is then dropped (block
//	                            rejected by a later stage of processValidated). Output "ok <dump of the staged
//	                            store>" or "err"; the committed state does not change.
//
// The property (C02): the BFT state is a function of the header chain alone, so none of these ops may
// leave a trace: after them the node must behave exactly like a node that only ever saw the chain
// which is left.

import (
	"fmt"
	"math/rand"
	"strconv"
	"strings"

	"github.com/LiskHQ/lisk-engine/pkg/consensus/liskbft"
	"github.com/LiskHQ/lisk-engine/pkg/db/diffdb"

	"verifharness/corr"
)

func (n *Node) stepFork(w []string) string {
	switch w[0] {
	case "revert":
		if !n.Track || len(n.marks) == 0 {
			return "err"
		}
		mark := n.marks[len(n.marks)-1]
		n.marks = n.marks[:len(n.marks)-1]
		for i := len(n.diffs) - 1; i >= mark; i-- {
			// consensus stores the encoded diff under the block height and decodes it on deletion
			diff := &diffdb.Diff{}
			if err := diff.Decode(n.diffs[i].Encode()); err != nil {
				return "err-diff-codec"
			}
			st := n.Store()
			batch := n.DB.NewBatch()
			st.RevertDiff(batch, diff)
			n.DB.Write(batch)
		}
		n.diffs = n.diffs[:mark]
		return "ok " + n.Dump()
	case "restart":
		m := liskbft.NewModule()
		if err := m.Init(n.batch); err != nil {
			return "err"
		}
		n.Mod = m
		return "ok " + n.Dump()
	case "tryblock":
		st := n.Store()
		if err := n.Mod.BeforeTransactionsExecute(mkHeader(w[1], w[2], w[3], w[4], w[5]).Readonly(), st); err != nil {
			return "err"
		}
		s, err := liskbft.VerifDump(st)
		if err != nil {
			return "dump-err " + err.Error()
		}
		return "ok " + s
	}
	return "bad-op"
}

// ---- generator of fork-switch / restart histories ----

// forkSim is the generator state: the honest bookkeeping of GenChain plus a stack with one saved
// copy per block on the chain, so that the bookkeeping follows `revert`.
type forkSim struct {
	rng     *rand.Rand
	batch   int
	ops     []string
	shadow  *Node
	pool    []*Val
	active  []int // indices into pool
	height  uint32
	saves   []forkSave
	nBlocks int // blocks processed so far on the current chain (for round robin)
}

type forkSave struct {
	pool    []Val
	active  []int
	height  uint32
	nBlocks int
}

func (f *forkSim) run(op string) string {
	f.ops = append(f.ops, op)
	return f.shadow.Step(op)
}

func (f *forkSim) save() forkSave {
	s := forkSave{active: append([]int{}, f.active...), height: f.height, nBlocks: f.nBlocks}
	for _, v := range f.pool {
		s.pool = append(s.pool, *v)
	}
	return s
}

func (f *forkSim) restore(s forkSave) {
	for i := range f.pool {
		*f.pool[i] = s.pool[i]
	}
	f.active = append([]int{}, s.active...)
	f.height = s.height
	f.nBlocks = s.nBlocks
}

func (f *forkSim) activeVals() []*Val {
	vs := []*Val{}
	for _, i := range f.active {
		vs = append(vs, f.pool[i])
	}
	return vs
}

// setParams issues setparams + setkeys for the current active set; style selects the thresholds:
// 0 random valid, 1 standard 2/3, 2 the lowest accepted, 3 the full weight.
func (f *forkSim) setParams(style int) {
	rng := f.rng
	var total uint64
	vs := f.activeVals()
	for _, v := range vs {
		total += v.Weight
	}
	pick := func() uint64 {
		switch style {
		case 1:
			t := total*2/3 + 1
			if t > total {
				t = total
			}
			return t
		case 2:
			return total/3 + 1
		case 3:
			return total
		}
		return total/3 + 1 + uint64(rng.Intn(int(total-total/3)))
	}
	pc, cert := pick(), pick()
	if rng.Intn(20) == 0 {
		pc = uint64(rng.Intn(int(total) + 3)) // possibly invalid
	}
	rng.Shuffle(len(vs), func(i, j int) { vs[i], vs[j] = vs[j], vs[i] })
	f.run(fmt.Sprintf("setparams %d %d %s", pc, cert, valsArg(vs)))
	f.run("setkeys " + keysArg(vs))
}

// changeParams mutates the validator set / weights / thresholds and issues the ops.
func (f *forkSim) changeParams() {
	rng := f.rng
	switch rng.Intn(5) {
	case 0: // join
		if len(f.active) < f.batch {
			for i := range f.pool {
				found := false
				for _, a := range f.active {
					found = found || a == i
				}
				if !found {
					f.active = append(f.active, i)
					break
				}
			}
		}
	case 1: // leave
		if len(f.active) > 1 {
			k := rng.Intn(len(f.active))
			f.active = append(f.active[:k:k], f.active[k+1:]...)
		}
	case 2: // one weight
		f.pool[f.active[rng.Intn(len(f.active))]].Weight = uint64(1 + rng.Intn(9))
	case 3: // one validator becomes dominant (or stops being dominant)
		v := f.pool[f.active[rng.Intn(len(f.active))]]
		if v.Weight > 9 {
			v.Weight = 1
		} else {
			v.Weight = uint64(10 + rng.Intn(30))
		}
	}
	f.setParams(rng.Intn(4))
}

// block appends one block (mostly honest generator, round robin) and returns whether it was accepted.
func (f *forkSim) block(honest bool) bool {
	rng := f.rng
	h := f.height + 1
	mhp, _, mhc := f.shadow.Heights()
	act := f.activeVals()
	g := act[f.nBlocks%len(act)]
	if !honest {
		switch rng.Intn(8) {
		case 0:
			g = f.pool[rng.Intn(len(f.pool))] // possibly a non-validator
		case 1, 2:
			g = act[rng.Intn(len(act))]
		}
	}
	mhg := g.MaxGen
	hmhp := mhp
	commit := "-"
	if !honest {
		switch rng.Intn(14) {
		case 0:
			mhg = uint32(rng.Intn(int(h) + 2)) // lie
		case 1:
			mhg = h // implies no votes
		}
		if rng.Intn(30) == 0 {
			hmhp = uint32(rng.Intn(int(h) + 1))
		}
	}
	if rng.Intn(8) == 0 {
		commit = strconv.Itoa(int(mhc) + rng.Intn(3))
	}
	if rng.Intn(6) == 0 {
		f.run(fmt.Sprintf("contra %d %s %d %d", h, corr.Hex(g.Addr), mhg, hmhp))
	}
	if rng.Intn(10) == 0 {
		// a candidate for this height which is dropped (possibly by another generator)
		c := act[rng.Intn(len(act))]
		f.run(fmt.Sprintf("tryblock %d %s %d %d -", h, corr.Hex(c.Addr), c.MaxGen, mhp))
	}
	sv := f.save()
	res := f.run(fmt.Sprintf("block %d %s %d %d %s", h, corr.Hex(g.Addr), mhg, hmhp, commit))
	if !strings.HasPrefix(res, "ok") {
		return false
	}
	f.saves = append(f.saves, sv)
	f.height = h
	f.nBlocks++
	if h > g.MaxGen {
		g.MaxGen = h
	}
	if rng.Intn(6) == 0 {
		f.run(fmt.Sprintf("implies %d %s %d", h, corr.Hex(g.Addr), mhg))
	}
	return true
}

func (f *forkSim) revert() bool {
	res := f.run("revert")
	if !strings.HasPrefix(res, "ok") || len(f.saves) == 0 {
		return false
	}
	f.restore(f.saves[len(f.saves)-1])
	f.saves = f.saves[:len(f.saves)-1]
	return true
}

// blocks appends n blocks; pChange is the chance (in 1/1000) of a parameter change after a block.
func (f *forkSim) blocks(n int, pChange int, honest bool) {
	for i := 0; i < n; i++ {
		if !f.block(honest) && !f.block(true) {
			continue
		}
		if f.rng.Intn(1000) < pChange {
			f.changeParams()
		}
		if f.rng.Intn(12) == 0 {
			f.run(fmt.Sprintf("getparams %d", f.rng.Intn(int(f.height)+3)))
			f.run(fmt.Sprintf("nextparams %d", f.rng.Intn(int(f.height)+3)))
		}
		if f.rng.Intn(25) == 0 {
			f.run("restart")
		}
	}
}

// GenFork produces one op sequence with fork switches: a prefix, then episodes in which some blocks
// are processed (with parameter changes taking effect at those heights), deleted again and replaced
// by a different continuation with different (or no) parameter changes at the same heights;
// restarts of the module object and discarded candidate blocks are interleaved. kind selects the
// family: 0 fork switches, 1 restarts only (linear chain), 2 mixed with lying generators.
func GenFork(rng *rand.Rand, maxBlocks int, kind int) []string {
	batch := 2 + rng.Intn(5)
	if rng.Intn(6) == 0 {
		batch = 1 + rng.Intn(10)
	}
	genesis := uint32(rng.Intn(3))
	if rng.Intn(8) == 0 {
		genesis = uint32(100 + rng.Intn(1000))
	}
	f := &forkSim{rng: rng, batch: batch, height: genesis}
	f.ops = []string{fmt.Sprintf("reset %d %d", batch, genesis)}
	f.shadow = NewNode(batch, genesis)
	f.shadow.Track = true
	defer f.shadow.Close()
	for i := 0; i < batch+2; i++ {
		w := uint64(1)
		if rng.Intn(3) == 0 {
			w = uint64(1 + rng.Intn(5))
		}
		f.pool = append(f.pool, &Val{Addr: addr(i), Weight: w})
	}
	nVals := 1 + rng.Intn(batch)
	if rng.Intn(2) == 0 {
		nVals = batch
	}
	for i := 0; i < nVals; i++ {
		f.active = append(f.active, i)
	}
	f.setParams(rng.Intn(2))
	honest := kind != 2
	if kind == 1 {
		// linear chain, module object replaced between blocks
		n := 1 + rng.Intn(maxBlocks)
		for i := 0; i < n; i++ {
			f.blocks(1, 150, honest)
			if rng.Intn(3) == 0 {
				f.run("restart")
			}
		}
		return f.ops
	}
	f.blocks(rng.Intn(maxBlocks/2+1), 100, honest)
	episodes := 1 + rng.Intn(3)
	for e := 0; e < episodes; e++ {
		// the branch which is going to be abandoned
		depth := 1 + rng.Intn(2*batch+1)
		if rng.Intn(3) == 0 {
			depth = 2 + rng.Intn(3)
		}
		start := len(f.saves)
		pLose, pWin := 0, 0
		switch rng.Intn(4) {
		case 0: // parameters change on the abandoned branch only
			pLose = 500
		case 1: // on the winning branch only
			pWin = 500
		default: // on both (differently)
			pLose, pWin = 400, 400
		}
		f.blocks(depth, pLose, honest)
		if rng.Intn(5) == 0 {
			f.run("restart")
		}
		// delete the branch (sometimes only a part of it, sometimes below its root)
		del := len(f.saves) - start
		switch rng.Intn(8) {
		case 0:
			if del > 1 {
				del = 1 + rng.Intn(del)
			}
		case 1:
			del += rng.Intn(3)
		}
		for i := 0; i < del; i++ {
			if !f.revert() {
				break
			}
		}
		if rng.Intn(8) == 0 {
			f.revert() // one more, possibly nothing left to delete
		}
		if rng.Intn(6) == 0 {
			f.run("restart")
		}
		// the continuation which wins: longer than what was deleted, so that the votes for the
		// replaced heights are cast and counted
		f.blocks(del+1+rng.Intn(2*batch+2), pWin, honest)
	}
	if rng.Intn(2) == 0 {
		f.blocks(rng.Intn(maxBlocks/2+1), 80, honest)
	}
	return f.ops
}
