package bftsim

// maxHeightCertified is a function of the header chain - family "nonvoting" and model-free oracle.
//
// liskbft updates maxHeightCertified from the aggregate commit of EVERY header it processes, also of
// headers that imply no votes: headers of generators without BFT weight (standby generators: in the
// generator list, not in the BFT parameters; validators removed from the BFT parameters that keep
// generating) and headers declaring maxHeightGenerated >= height.  The pruning of the parameter and
// generator-key stores follows the new value in the same step.
//
// GenNonVoting produces chains in which such headers carry aggregate commits (above the certified height,
// empty, replayed = the certified height again, lower, equal to the block's own height); CheckCertified is
// the oracle: the certified height read from the chain contents alone - the height of the newest non-empty
// aggregate commit among the accepted headers that are still on the chain, the genesis height when there is
// none - must be the maxHeightCertified of every dump.  It runs on all C02 families.

import (
	"fmt"
	"math/rand"
	"sort"
	"strconv"
	"strings"

	"verifharness/corr"
)

// SigCertified: maxHeightCertified of the vote store is not the certified height the chain carries.
const SigCertified = "c02-certified-height-not-of-chain"

// dumpMhc returns the third number of a dump line "ok mhp mhpc mhc | ..".
func dumpMhc(out string) (string, bool) {
	f := strings.Fields(out)
	if len(f) < 4 || f[0] != "ok" {
		return "", false
	}
	return f[3], true
}

// headerKind says, from the state before the header, whether the header implies votes:
// "voting", "mhg>=height", "no-weight" (generator not among the active BFT validators).
func headerKind(w []string, pre *dState) string {
	h, _ := strconv.ParseInt(w[1], 10, 64)
	m, _ := strconv.ParseInt(w[3], 10, 64)
	if m >= h {
		return "mhg>=height"
	}
	if pre == nil || pre.activeOf(w[2]) == nil {
		return "no-weight"
	}
	return "voting"
}

// CheckCertified runs the oracle over one executed case (ops and the output lines of the real module).
func CheckCertified(ops, out []string) []corr.Fail {
	cert := ""
	var stack []string // certified height before each block still on the chain
	var cur *dState
	var fails []corr.Fail
	bad := func(i int, want, got, what string) {
		if len(fails) == 0 {
			fails = append(fails, corr.Fail{Sig: SigCertified, Op: i,
				Detail: fmt.Sprintf("%s: maxHeightCertified %s, but %s: the chain has certified height %s", ops[i], got, what, want)})
		}
	}
	for i, op := range ops {
		if i >= len(out) {
			break
		}
		w := strings.Fields(op)
		if len(w) == 0 {
			continue
		}
		if w[0] == "reset" {
			cert, stack, cur = "", nil, &dState{}
			if len(w) > 2 {
				cert = w[2]
			}
			continue
		}
		got, ok := dumpMhc(out[i])
		if !ok || cert == "" {
			continue
		}
		switch w[0] {
		case "block", "tryblock":
			if len(w) < 6 {
				continue
			}
			want, what := cert, "the header carries the empty aggregate commit"
			if w[5] != "-" {
				want, what = w[5], "the header carries a non-empty aggregate commit for height "+w[5]
			}
			what = fmt.Sprintf("%s (a %s header)", what, headerKind(w, cur))
			if got != want {
				bad(i, want, got, what)
			}
			if w[0] == "block" {
				stack = append(stack, cert)
				cert = want
			}
		case "revert":
			if len(stack) > 0 {
				cert = stack[len(stack)-1]
				stack = stack[:len(stack)-1]
			}
			if got != cert {
				bad(i, cert, got, "the tip block was deleted")
			}
		case "setparams", "setkeys", "restart":
			if got != cert {
				bad(i, cert, got, "no header was processed")
			}
		}
		if w[0] != "tryblock" {
			if s, ok := parseDump(out[i][3:]); ok {
				cur = s
			}
		}
	}
	return fails
}

// ClassifyNonVoting names what the accepted commit-carrying headers of a case were: the kinds of the
// carrying headers and how the commit height relates to the certified height before the header.
func ClassifyNonVoting(ops, out []string) string {
	set := map[string]bool{}
	cert := int64(-1)
	var cur *dState
	for i, op := range ops {
		if i >= len(out) {
			break
		}
		w := strings.Fields(op)
		if len(w) == 0 {
			continue
		}
		if w[0] == "reset" {
			cur = &dState{}
			if len(w) > 2 {
				cert, _ = strconv.ParseInt(w[2], 10, 64)
			}
			continue
		}
		if !strings.HasPrefix(out[i], "ok ") {
			continue
		}
		if w[0] == "block" && len(w) == 6 && w[5] != "-" {
			c, _ := strconv.ParseInt(w[5], 10, 64)
			rel := "above"
			switch {
			case c == cert:
				rel = "replay"
			case c < cert:
				rel = "lower"
			}
			set[headerKind(w, cur)+"/"+rel] = true
		}
		if w[0] != "tryblock" {
			if got, ok := dumpMhc(out[i]); ok {
				cert, _ = strconv.ParseInt(got, 10, 64)
			}
			if s, ok := parseDump(out[i][3:]); ok {
				cur = s
			}
		}
	}
	keys := make([]string, 0, len(set))
	for k := range set {
		keys = append(keys, k)
	}
	sort.Strings(keys)
	return strings.Join(keys, "+")
}

// GenNonVoting produces one op sequence: BFT validators with weight, standby generators (in the generator
// list only), validators that are removed from the BFT parameters but keep generating, validators that
// join (their first block), headers declaring maxHeightGenerated >= height - all in one round robin, with
// aggregate commits carried preferably by the headers that imply no votes.
func GenNonVoting(rng *rand.Rand, maxBlocks int) []string {
	batch := 3 + rng.Intn(5)
	genesis := uint32(rng.Intn(3))
	if rng.Intn(8) == 0 {
		genesis = uint32(100 + rng.Intn(1000))
	}
	ops := []string{fmt.Sprintf("reset %d %d", batch, genesis)}
	shadow := NewNode(batch, genesis)
	shadow.Track = true
	defer shadow.Close()
	run := func(op string) string {
		ops = append(ops, op)
		return shadow.Step(op)
	}
	nVals := 2 + rng.Intn(batch-1)
	if nVals > batch {
		nVals = batch
	}
	nStandby := 1 + rng.Intn(2)
	var pool []*Val
	for i := 0; i < batch+3; i++ {
		w := uint64(1)
		if rng.Intn(4) == 0 {
			w = uint64(1 + rng.Intn(4))
		}
		pool = append(pool, &Val{Addr: addr(i), Weight: w})
	}
	active := append([]*Val{}, pool[:nVals]...)                // BFT validators
	standby := append([]*Val{}, pool[nVals:nVals+nStandby]...) // generators without weight
	setParams := func() {
		var total uint64
		for _, v := range active {
			total += v.Weight
		}
		pc := total*2/3 + 1
		if pc > total {
			pc = total
		}
		if rng.Intn(3) == 0 {
			pc = total/3 + 1 + uint64(rng.Intn(int(total-total/3)))
		}
		cert := total/3 + 1 + uint64(rng.Intn(int(total-total/3)))
		vs := append([]*Val{}, active...)
		rng.Shuffle(len(vs), func(i, j int) { vs[i], vs[j] = vs[j], vs[i] })
		run(fmt.Sprintf("setparams %d %d %s", pc, cert, valsArg(vs)))
		gens := append(append([]*Val{}, active...), standby...)
		rng.Shuffle(len(gens), func(i, j int) { gens[i], gens[j] = gens[j], gens[i] })
		run("setkeys " + keysArg(gens))
	}
	setParams()
	isActive := func(g *Val) bool {
		for _, a := range active {
			if a == g {
				return true
			}
		}
		return false
	}
	height := genesis
	nBlocks := 6 + rng.Intn(maxBlocks)
	lastCommit := "" // the newest non-empty commit put into a block
	for i := 0; i < nBlocks; i++ {
		height++
		mhp, mhpc, mhc := shadow.Heights()
		gens := append(append([]*Val{}, active...), standby...)
		g := gens[i%len(gens)]
		if rng.Intn(6) == 0 {
			g = gens[rng.Intn(len(gens))]
		}
		mhg := g.MaxGen
		voting := isActive(g)
		if voting && rng.Intn(5) == 0 { // the header declares that it implies no votes
			voting = false
			mhg = height
			if rng.Intn(4) == 0 {
				mhg = height + uint32(1+rng.Intn(3))
			}
		}
		// the aggregate commit: preferably in the headers that imply no votes
		commit := "-"
		p := 8
		if !voting {
			p = 2
		}
		if rng.Intn(p) == 0 {
			switch k := rng.Intn(10); {
			case k < 5: // above the certified height, at most the precommitted height when there is room
				c := mhc + 1
				if mhpc > mhc {
					c = mhc + 1 + uint32(rng.Intn(int(mhpc-mhc)))
				}
				commit = u32s(c)
			case k == 5 && lastCommit != "": // replay of the newest commit
				commit = lastCommit
			case k == 6: // the certified height again
				commit = u32s(mhc)
			case k == 7 && mhc > genesis: // a lower height
				commit = u32s(genesis + uint32(rng.Intn(int(mhc-genesis))))
			case k == 8: // the height of the carrying block itself
				commit = u32s(height)
			default:
				commit = u32s(mhc + uint32(rng.Intn(3)))
			}
		}
		hdr := fmt.Sprintf("%d %s %d %d %s", height, corr.Hex(g.Addr), mhg, mhp, commit)
		if rng.Intn(6) == 0 {
			run("tryblock " + hdr)
		}
		savedMaxGen := g.MaxGen
		res := run("block " + hdr)
		if !strings.HasPrefix(res, "ok") {
			height--
			continue
		}
		if commit != "-" {
			lastCommit = commit
		}
		if height > g.MaxGen {
			g.MaxGen = height
		}
		if commit != "-" && rng.Intn(5) == 0 {
			// the block is deleted again and replaced by a block of the other kind carrying the same commit
			if strings.HasPrefix(run("revert"), "ok") {
				g.MaxGen = savedMaxGen
				g2 := active[rng.Intn(len(active))]
				if voting {
					g2 = standby[rng.Intn(len(standby))]
				}
				if strings.HasPrefix(run(fmt.Sprintf("block %d %s %d %d %s", height, corr.Hex(g2.Addr), g2.MaxGen, mhp, commit)), "ok") {
					if height > g2.MaxGen {
						g2.MaxGen = height
					}
				} else {
					height--
				}
			}
		}
		if rng.Intn(5) == 0 {
			run(fmt.Sprintf("getparams %d", rng.Intn(int(height)+3)))
			run(fmt.Sprintf("nextparams %d", rng.Intn(int(height)+3)))
		}
		if rng.Intn(9) == 0 {
			// validator-set change: a validator leaves the BFT set and keeps generating, a standby generator or
			// a new holder joins with weight, a weight changes
			switch rng.Intn(4) {
			case 0:
				if len(active) > 1 {
					k := rng.Intn(len(active))
					standby = append(standby, active[k])
					active = append(active[:k:k], active[k+1:]...)
				}
			case 1:
				if len(active) < batch && len(standby) > 1 {
					k := rng.Intn(len(standby))
					active = append(active, standby[k])
					standby = append(standby[:k:k], standby[k+1:]...)
				}
			case 2:
				if len(active) < batch {
					for _, q := range pool {
						used := false
						for _, a := range append(append([]*Val{}, active...), standby...) {
							used = used || a == q
						}
						if !used {
							active = append(active, q)
							break
						}
					}
				}
			default:
				active[rng.Intn(len(active))].Weight = uint64(1 + rng.Intn(5))
			}
			setParams()
		}
		if rng.Intn(25) == 0 {
			run("restart")
		}
	}
	return ops
}
