// Package bftsim drives the real liskbft.Module over diffdb + in-memory pebble with the line protocol
// shared by the C01/C02 harnesses, and contains the chain generators (honest and Byzantine
// validator simulator).
package bftsim

import (
	"fmt"
	"math/big"
	"math/rand"
	"strconv"
	"strings"

	"github.com/LiskHQ/lisk-engine/pkg/blockchain"
	"github.com/LiskHQ/lisk-engine/pkg/consensus/liskbft"
	"github.com/LiskHQ/lisk-engine/pkg/db"
	"github.com/LiskHQ/lisk-engine/pkg/db/diffdb"

	"verifharness/corr"
)

// Node is one chain view: a real liskbft module with its own database.
type Node struct {
	DB     *db.DB
	Mod    *liskbft.Module
	Prefix []byte
	// Track makes the node keep the state diff of every committed op, so that the ops `revert`
	// (delete the tip block the way consensus does: RevertDiff) and `restart` work (fork.go).
	Track bool
	batch int
	diffs []*diffdb.Diff // one per committed op since genesis (Track only)
	marks []int          // len(diffs) before each successfully processed block still on the chain
}

func NewNode(batchSize int, genesisHeight uint32) *Node {
	d, err := db.NewInMemoryDB()
	if err != nil {
		panic(err)
	}
	m := liskbft.NewModule()
	if err := m.Init(batchSize); err != nil {
		panic(err)
	}
	n := &Node{DB: d, Mod: m, Prefix: blockchain.DBPrefixToBytes(blockchain.DBPrefixState), batch: batchSize}
	st := n.Store()
	if err := m.InitGenesisState((&blockchain.BlockHeader{Height: genesisHeight}).Readonly(), st); err != nil {
		panic(err)
	}
	n.Commit(st)
	return n
}

func (n *Node) Close() { n.DB.Close() }

func (n *Node) Store() *diffdb.Database { return diffdb.New(n.DB, n.Prefix) }

func (n *Node) Commit(st *diffdb.Database) {
	batch := n.DB.NewBatch()
	diff := st.Commit(batch)
	n.DB.Write(batch)
	if n.Track {
		n.diffs = append(n.diffs, diff)
	}
}

func (n *Node) Dump() string {
	s, err := liskbft.VerifDump(n.Store())
	if err != nil {
		return "dump-err " + err.Error()
	}
	return s
}

func (n *Node) Heights() (uint32, uint32, uint32) {
	a, b, c, err := n.Mod.API().GetBFTHeights(n.Store())
	if err != nil {
		panic(err)
	}
	return a, b, c
}

func pu(s string) uint32 {
	v, err := strconv.ParseUint(s, 10, 32)
	if err != nil {
		panic(err)
	}
	return uint32(v)
}

func pu64(s string) uint64 {
	v, err := strconv.ParseUint(s, 10, 64)
	if err != nil {
		panic(err)
	}
	return v
}

func mkHeader(h, g, mhg, mhp, c string) *blockchain.BlockHeader {
	hd := &blockchain.BlockHeader{Version: 2, Height: pu(h), GeneratorAddress: corr.UnHex(g), MaxHeightGenerated: pu(mhg), MaxHeightPrevoted: pu(mhp),
		AggregateCommit: &blockchain.AggregateCommit{Height: 0, AggregationBits: []byte{}, CertificateSignature: []byte{}}}
	if c != "-" {
		hd.AggregateCommit = &blockchain.AggregateCommit{Height: pu(c), AggregationBits: []byte{1}, CertificateSignature: []byte{1}}
	}
	return hd
}

// Step executes one op line on the node; every op is atomic (staged store committed on success only).
func (n *Node) Step(op string) (out string) {
	defer func() {
		if r := recover(); r != nil {
			out = fmt.Sprintf("panic %v", r)
		}
	}()
	w := strings.Fields(op)
	api := n.Mod.API()
	switch w[0] {
	case "setparams":
		var vals liskbft.BFTValidators
		if w[3] != "-" {
			for _, item := range strings.Split(w[3], ",") {
				p := strings.Split(item, ":")
				vals = append(vals, liskbft.NewValidator(corr.UnHex(p[0]), pu64(p[1]), []byte{}))
			}
		}
		st := n.Store()
		if err := api.SetBFTParameters(st, pu64(w[1]), pu64(w[2]), vals); err != nil {
			return "err"
		}
		n.Commit(st)
		return "ok " + n.Dump()
	case "setkeys":
		var gens liskbft.Generators
		if w[1] != "-" {
			for _, a := range strings.Split(w[1], ",") {
				gens = append(gens, liskbft.NewGenerator(corr.UnHex(a), []byte{}))
			}
		}
		st := n.Store()
		if err := api.SetGeneratorKeys(st, gens); err != nil {
			return "err"
		}
		n.Commit(st)
		return "ok " + n.Dump()
	case "block":
		st := n.Store()
		if err := n.Mod.BeforeTransactionsExecute(mkHeader(w[1], w[2], w[3], w[4], w[5]).Readonly(), st); err != nil {
			return "err"
		}
		mark := len(n.diffs)
		n.Commit(st)
		if n.Track {
			n.marks = append(n.marks, mark)
		}
		return "ok " + n.Dump()
	case "revert", "restart", "tryblock":
		return n.stepFork(w)
	case "contra":
		r, err := api.IsHeaderContradictingChain(n.Store(), mkHeader(w[1], w[2], w[3], w[4], "-").Readonly())
		if err != nil {
			return "err"
		}
		return strconv.FormatBool(r)
	case "implies":
		r, err := api.ImpliesMaximalPrevotes(n.Store(), mkHeader(w[1], w[2], w[3], "0", "-").Readonly())
		if err != nil {
			return "err"
		}
		return strconv.FormatBool(r)
	case "getparams":
		p, err := api.GetBFTParameters(n.Store(), pu(w[1]))
		if err != nil {
			return "none"
		}
		parts := []string{}
		for _, v := range p.Validators() {
			parts = append(parts, fmt.Sprintf("%s:%d", corr.Hex(v.Address()), v.BFTWeight()))
		}
		return fmt.Sprintf("%d/%d/%d[%s]", p.PrevoteThreshold(), p.PrecommitThreshold(), p.CertificateThreshold(), strings.Join(parts, ","))
	case "nextparams":
		h, err := api.NextHeightBFTParameters(n.Store(), pu(w[1]))
		if err != nil {
			return "none"
		}
		return strconv.Itoa(int(h))
	}
	return "bad-op"
}

// ---- chain generator ----

type Val struct {
	Addr   []byte
	Weight uint64
	MaxGen uint32 // largest height generated so far (honest bookkeeping)
}

func addr(i int) []byte { return []byte{byte(0x10 + i)} }

func valsArg(vs []*Val) string {
	parts := []string{}
	for _, v := range vs {
		parts = append(parts, fmt.Sprintf("%s:%d", corr.Hex(v.Addr), v.Weight))
	}
	if len(parts) == 0 {
		return "-"
	}
	return strings.Join(parts, ",")
}

func keysArg(vs []*Val) string {
	parts := []string{}
	for _, v := range vs {
		parts = append(parts, corr.Hex(v.Addr))
	}
	if len(parts) == 0 {
		return "-"
	}
	return strings.Join(parts, ",")
}

// GenChain produces one op sequence: genesis, parameters, then a chain of blocks by validators
// that are mostly honest (truthful maxHeightGenerated, correct maxHeightPrevoted) with occasional
// lies, parameter changes (join / leave / weight / threshold changes) and aggregate commits.
// The generator runs a shadow real node to know the maxHeightPrevoted each header must carry.
func GenChain(rng *rand.Rand, maxBlocks int) []string {
	batch := 2 + rng.Intn(6)
	if rng.Intn(5) == 0 {
		batch = 1 + rng.Intn(12)
	}
	genesis := uint32(rng.Intn(3))
	if rng.Intn(6) == 0 {
		genesis = uint32(100 + rng.Intn(1000))
	}
	ops := []string{fmt.Sprintf("reset %d %d", batch, genesis)}
	shadow := NewNode(batch, genesis)
	defer shadow.Close()
	run := func(op string) string {
		ops = append(ops, op)
		return shadow.Step(op)
	}
	nVals := 1 + rng.Intn(batch)
	pool := []*Val{}
	for i := 0; i < batch+2; i++ {
		w := uint64(1)
		if rng.Intn(3) == 0 {
			w = uint64(1 + rng.Intn(5))
		}
		pool = append(pool, &Val{Addr: addr(i), Weight: w})
	}
	active := append([]*Val{}, pool[:nVals]...)
	setParams := func() {
		var total uint64
		for _, v := range active {
			total += v.Weight
		}
		pc := total/3 + 1 + uint64(rng.Intn(int(total-total/3)))
		if rng.Intn(2) == 0 {
			pc = total*2/3 + 1
			if pc > total {
				pc = total
			}
		}
		cert := total/3 + 1 + uint64(rng.Intn(int(total-total/3)))
		if rng.Intn(12) == 0 {
			pc = uint64(rng.Intn(int(total) + 3)) // possibly invalid
		}
		vs := append([]*Val{}, active...)
		rng.Shuffle(len(vs), func(i, j int) { vs[i], vs[j] = vs[j], vs[i] })
		run(fmt.Sprintf("setparams %d %d %s", pc, cert, valsArg(vs)))
		run("setkeys " + keysArg(vs))
	}
	setParams()
	height := genesis
	nBlocks := 1 + rng.Intn(maxBlocks)
	for i := 0; i < nBlocks; i++ {
		height++
		mhp, _, mhc := shadow.Heights()
		var g *Val
		if rng.Intn(10) == 0 {
			g = pool[rng.Intn(len(pool))] // possibly a non-validator
		} else {
			g = active[rng.Intn(len(active))]
			if rng.Intn(3) > 0 {
				g = active[i%len(active)] // round robin
			}
		}
		mhg := g.MaxGen
		switch rng.Intn(12) {
		case 0:
			mhg = uint32(rng.Intn(int(height) + 2)) // lie
		case 1:
			mhg = height // implies no votes
		}
		hmhp := mhp
		if rng.Intn(25) == 0 {
			hmhp = uint32(rng.Intn(int(height) + 1))
		}
		commit := "-"
		if rng.Intn(6) == 0 {
			commit = strconv.Itoa(int(mhc) + rng.Intn(3))
		}
		if rng.Intn(4) == 0 {
			run(fmt.Sprintf("contra %d %s %d %d", height, corr.Hex(g.Addr), mhg, hmhp))
		}
		res := run(fmt.Sprintf("block %d %s %d %d %s", height, corr.Hex(g.Addr), mhg, hmhp, commit))
		if strings.HasPrefix(res, "ok") {
			if height > g.MaxGen {
				g.MaxGen = height
			}
			if rng.Intn(4) == 0 {
				run(fmt.Sprintf("implies %d %s %d", height, corr.Hex(g.Addr), mhg))
			}
		} else {
			height--
		}
		if rng.Intn(7) == 0 {
			// validator-set / threshold change
			switch rng.Intn(4) {
			case 0:
				if len(active) < batch {
					for _, p := range pool {
						found := false
						for _, a := range active {
							if a == p {
								found = true
							}
						}
						if !found {
							active = append(active, p)
							break
						}
					}
				}
			case 1:
				if len(active) > 1 {
					k := rng.Intn(len(active))
					active = append(active[:k:k], active[k+1:]...)
				}
			case 2:
				active[rng.Intn(len(active))].Weight = uint64(1 + rng.Intn(6))
			}
			setParams()
		}
		if rng.Intn(9) == 0 {
			run(fmt.Sprintf("getparams %d", rng.Intn(int(height)+3)))
			run(fmt.Sprintf("nextparams %d", rng.Intn(int(height)+3)))
		}
	}
	return ops
}

// ---- weight vectors near the uint64 limits ----

// HeavyVals describes the validator set of a GenHeavy case for the model-free oracle.
type HeavyVals struct {
	Weights []uint64
}

// Total returns the exact (unbounded) aggregate weight.
func (h HeavyVals) Total() *big.Int {
	t := new(big.Int)
	for _, w := range h.Weights {
		t.Add(t, new(big.Int).SetUint64(w))
	}
	return t
}

// heavyWeights picks n weights whose aggregate is near 2^63 or near / beyond 2^64.
func heavyWeights(rng *rand.Rand, n int) []uint64 {
	const top = uint64(1) << 63
	max := ^uint64(0)
	small := func() uint64 { return uint64(rng.Intn(7)) }
	ws := make([]uint64, n)
	var target *big.Int // aggregate weight aimed at
	switch rng.Intn(7) {
	case 0: // just below / at / above 2^63
		target = new(big.Int).SetUint64(top - 3 + small())
	case 1: // just below 2^64
		target = new(big.Int).SetUint64(max - small())
	case 2: // at or just above 2^64: the uint64 sum wraps to a small number
		target = new(big.Int).Add(new(big.Int).Lsh(big.NewInt(1), 64), big.NewInt(int64(small())))
	case 3: // between 2^63 and 2^64
		target = new(big.Int).SetUint64(top + rng.Uint64()%top)
	case 4: // far beyond 2^64 (every validator heavy)
		for i := range ws {
			ws[i] = max - small()
		}
		return ws
	case 5: // one validator carries 2^63 or more, the others are light
		ws[0] = top + uint64(rng.Intn(3))*(top/2-1)
		for i := 1; i < n; i++ {
			ws[i] = 1 + small()
		}
		rng.Shuffle(n, func(i, j int) { ws[i], ws[j] = ws[j], ws[i] })
		return ws
	default: // random 64-bit weights
		for i := range ws {
			ws[i] = rng.Uint64()
			if ws[i] == 0 {
				ws[i] = 1
			}
		}
		return ws
	}
	// split target into n positive parts, each a uint64
	rest := new(big.Int).Set(target)
	limit := new(big.Int).SetUint64(max)
	for i := 0; i < n; i++ {
		left := int64(n - 1 - i)
		var part *big.Int
		if left == 0 {
			part = new(big.Int).Set(rest)
		} else {
			part = new(big.Int).Div(rest, big.NewInt(left+1))
			if rng.Intn(2) == 0 { // uneven split
				part.Add(part, new(big.Int).Div(part, big.NewInt(int64(2+rng.Intn(5)))))
			}
			part.Add(part, big.NewInt(int64(rng.Intn(5))-2))
		}
		if part.Cmp(limit) > 0 {
			part.Set(limit)
		}
		if part.Sign() <= 0 {
			part.SetInt64(1)
		}
		ws[i] = part.Uint64()
		rest.Sub(rest, part)
		if rest.Sign() < 0 {
			rest.SetInt64(0)
		}
	}
	return ws
}

// GenHeavy produces one op sequence whose parameter sets carry BFT weights near the uint64 limits
// (aggregate near 2^63, near 2^64, beyond 2^64), with thresholds that are valid for the exact
// aggregate or for the aggregate reduced modulo 2^64, followed by an honest round-robin chain
// (truthful maxHeightGenerated, correct maxHeightPrevoted), so that every vote weight stays within
// the aggregate weight. It also returns the weight vector of every `setparams` op (by op index).
func GenHeavy(rng *rand.Rand, maxBlocks int) ([]string, map[int]HeavyVals) {
	batch := 1 + rng.Intn(5)
	genesis := uint32(rng.Intn(3))
	ops := []string{fmt.Sprintf("reset %d %d", batch, genesis)}
	vecs := map[int]HeavyVals{}
	shadow := NewNode(batch, genesis)
	defer shadow.Close()
	run := func(op string) string {
		ops = append(ops, op)
		return shadow.Step(op)
	}
	two64 := new(big.Int).Lsh(big.NewInt(1), 64)
	var active []*Val
	setParams := func() bool {
		n := 1 + rng.Intn(batch)
		ws := heavyWeights(rng, n)
		if rng.Intn(10) == 0 {
			ws[rng.Intn(n)] = 0 // zero weight, possibly after the sum has overflowed
		}
		hv := HeavyVals{Weights: ws}
		total := hv.Total()
		base := new(big.Int).Set(total) // thresholds relative to the exact aggregate …
		if rng.Intn(2) == 0 {
			base.Mod(base, two64) // … or to the aggregate as a wrapped uint64
		}
		pick := func() uint64 {
			third := new(big.Int).Div(base, big.NewInt(3))
			var v *big.Int
			switch rng.Intn(6) {
			case 0:
				v = new(big.Int).Add(third, big.NewInt(1))
			case 1:
				v = new(big.Int).Add(new(big.Int).Div(new(big.Int).Mul(base, big.NewInt(2)), big.NewInt(3)), big.NewInt(1))
			case 2:
				v = new(big.Int).Set(base)
			case 3:
				v = new(big.Int).Set(third) // one too low
			case 4:
				v = new(big.Int).Add(base, big.NewInt(1)) // one too high
			default:
				span := new(big.Int).Sub(base, third)
				if span.Sign() <= 0 {
					span.SetInt64(1)
				}
				v = new(big.Int).Add(third, big.NewInt(1))
				v.Add(v, new(big.Int).Mod(new(big.Int).SetUint64(rng.Uint64()), span))
			}
			return new(big.Int).Mod(v, two64).Uint64()
		}
		vs := make([]*Val, n)
		for i := range vs {
			vs[i] = &Val{Addr: addr(i), Weight: ws[i]}
		}
		vecs[len(ops)] = hv
		res := run(fmt.Sprintf("setparams %d %d %s", pick(), pick(), valsArg(vs)))
		if !strings.HasPrefix(res, "ok") {
			return false
		}
		run("setkeys " + keysArg(vs))
		// validators that stay keep their bookkeeping
		for _, v := range vs {
			for _, a := range active {
				if string(a.Addr) == string(v.Addr) {
					v.MaxGen = a.MaxGen
				}
			}
		}
		active = vs
		return true
	}
	for tries := 0; tries < 4 && !setParams(); tries++ {
	}
	if len(active) == 0 {
		return ops, vecs
	}
	height := genesis
	nBlocks := 1 + rng.Intn(maxBlocks)
	for i := 0; i < nBlocks; i++ {
		height++
		mhp, _, _ := shadow.Heights()
		g := active[i%len(active)]
		res := run(fmt.Sprintf("block %d %s %d %d -", height, corr.Hex(g.Addr), g.MaxGen, mhp))
		if strings.HasPrefix(res, "ok") {
			g.MaxGen = height
		} else {
			height--
		}
		if rng.Intn(9) == 0 {
			setParams()
		}
		if rng.Intn(9) == 0 {
			run(fmt.Sprintf("getparams %d", rng.Intn(int(height)+3)))
		}
	}
	return ops, vecs
}
