// Package bftsim drives the real liskbft.Module over diffdb + in-memory pebble with the line protocol
// shared by the C01/C02 harnesses, and contains the chain generators (honest and Byzantine
// validator simulator).
package bftsim

import (
	"fmt"
	"math/rand"
	"strconv"
	"strings"

	"github.com/LiskHQ/lisk-engine/pkg/blockchain"
	"github.com/LiskHQ/lisk-engine/pkg/db"
	"github.com/LiskHQ/lisk-engine/pkg/db/diffdb"
	"github.com/LiskHQ/lisk-engine/pkg/consensus/liskbft"

	"verifharness/corr"
)

// Node is one chain view: a real liskbft module with its own database.
type Node struct {
	DB     *db.DB
	Mod    *liskbft.Module
	Prefix []byte
}

func NewNode(batchSize int, genesisHeight uint32) *Node {
	d, err := db.NewInMemoryDB()
	if err != nil {
		panic(err)
	}
	m := liskbft.NewModule()
	if err := m.Init(batchSize); err != nil {
		panic(err)
	}
	n := &Node{DB: d, Mod: m, Prefix: blockchain.DBPrefixToBytes(blockchain.DBPrefixState)}
	st := n.Store()
	if err := m.InitGenesisState((&blockchain.BlockHeader{Height: genesisHeight}).Readonly(), st); err != nil {
		panic(err)
	}
	n.Commit(st)
	return n
}

func (n *Node) Close() { n.DB.Close() }

func (n *Node) Store() *diffdb.Database { return diffdb.New(n.DB, n.Prefix) }

func (n *Node) Commit(st *diffdb.Database) {
	batch := n.DB.NewBatch()
	st.Commit(batch)
	n.DB.Write(batch)
}

func (n *Node) Dump() string {
	s, err := liskbft.VerifDump(n.Store())
	if err != nil {
		return "dump-err " + err.Error()
	}
	return s
}

func (n *Node) Heights() (uint32, uint32, uint32) {
	a, b, c, err := n.Mod.API().GetBFTHeights(n.Store())
	if err != nil {
		panic(err)
	}
	return a, b, c
}

func pu(s string) uint32 {
	v, err := strconv.ParseUint(s, 10, 32)
	if err != nil {
		panic(err)
	}
	return uint32(v)
}

func pu64(s string) uint64 {
	v, err := strconv.ParseUint(s, 10, 64)
	if err != nil {
		panic(err)
	}
	return v
}

func mkHeader(h, g, mhg, mhp, c string) *blockchain.BlockHeader {
	hd := &blockchain.BlockHeader{Version: 2, Height: pu(h), GeneratorAddress: corr.UnHex(g), MaxHeightGenerated: pu(mhg), MaxHeightPrevoted: pu(mhp),
		AggregateCommit: &blockchain.AggregateCommit{Height: 0, AggregationBits: []byte{}, CertificateSignature: []byte{}}}
	if c != "-" {
		hd.AggregateCommit = &blockchain.AggregateCommit{Height: pu(c), AggregationBits: []byte{1}, CertificateSignature: []byte{1}}
	}
	return hd
}

// Step executes one op line on the node; every op is atomic (staged store committed on success only).
func (n *Node) Step(op string) (out string) {
	defer func() {
		if r := recover(); r != nil {
			out = fmt.Sprintf("panic %v", r)
		}
	}()
	w := strings.Fields(op)
	api := n.Mod.API()
	switch w[0] {
	case "setparams":
		var vals liskbft.BFTValidators
		if w[3] != "-" {
			for _, item := range strings.Split(w[3], ",") {
				p := strings.Split(item, ":")
				vals = append(vals, liskbft.NewValidator(corr.UnHex(p[0]), pu64(p[1]), []byte{}))
			}
		}
		st := n.Store()
		if err := api.SetBFTParameters(st, pu64(w[1]), pu64(w[2]), vals); err != nil {
			return "err"
		}
		n.Commit(st)
		return "ok " + n.Dump()
	case "setkeys":
		var gens liskbft.Generators
		if w[1] != "-" {
			for _, a := range strings.Split(w[1], ",") {
				gens = append(gens, liskbft.NewGenerator(corr.UnHex(a), []byte{}))
			}
		}
		st := n.Store()
		if err := api.SetGeneratorKeys(st, gens); err != nil {
			return "err"
		}
		n.Commit(st)
		return "ok " + n.Dump()
	case "block":
		st := n.Store()
		if err := n.Mod.BeforeTransactionsExecute(mkHeader(w[1], w[2], w[3], w[4], w[5]).Readonly(), st); err != nil {
			return "err"
		}
		n.Commit(st)
		return "ok " + n.Dump()
	case "contra":
		r, err := api.IsHeaderContradictingChain(n.Store(), mkHeader(w[1], w[2], w[3], w[4], "-").Readonly())
		if err != nil {
			return "err"
		}
		return strconv.FormatBool(r)
	case "implies":
		r, err := api.ImpliesMaximalPrevotes(n.Store(), mkHeader(w[1], w[2], w[3], "0", "-").Readonly())
		if err != nil {
			return "err"
		}
		return strconv.FormatBool(r)
	case "getparams":
		p, err := api.GetBFTParameters(n.Store(), pu(w[1]))
		if err != nil {
			return "none"
		}
		parts := []string{}
		for _, v := range p.Validators() {
			parts = append(parts, fmt.Sprintf("%s:%d", corr.Hex(v.Address()), v.BFTWeight()))
		}
		return fmt.Sprintf("%d/%d/%d[%s]", p.PrevoteThreshold(), p.PrecommitThreshold(), p.CertificateThreshold(), strings.Join(parts, ","))
	case "nextparams":
		h, err := api.NextHeightBFTParameters(n.Store(), pu(w[1]))
		if err != nil {
			return "none"
		}
		return strconv.Itoa(int(h))
	}
	return "bad-op"
}

// ---- chain generator ----

type Val struct {
	Addr   []byte
	Weight uint64
	MaxGen uint32 // largest height generated so far (honest bookkeeping)
}

func addr(i int) []byte { return []byte{byte(0x10 + i)} }

func valsArg(vs []*Val) string {
	parts := []string{}
	for _, v := range vs {
		parts = append(parts, fmt.Sprintf("%s:%d", corr.Hex(v.Addr), v.Weight))
	}
	if len(parts) == 0 {
		return "-"
	}
	return strings.Join(parts, ",")
}

func keysArg(vs []*Val) string {
	parts := []string{}
	for _, v := range vs {
		parts = append(parts, corr.Hex(v.Addr))
	}
	if len(parts) == 0 {
		return "-"
	}
	return strings.Join(parts, ",")
}

// GenChain produces one op sequence: genesis, parameters, then a chain of blocks by validators
// that are mostly honest (truthful maxHeightGenerated, correct maxHeightPrevoted) with occasional
// lies, parameter changes (join / leave / weight / threshold changes) and aggregate commits.
// The generator runs a shadow real node to know the maxHeightPrevoted each header must carry.
func GenChain(rng *rand.Rand, maxBlocks int) []string {
	batch := 2 + rng.Intn(6)
	if rng.Intn(5) == 0 {
		batch = 1 + rng.Intn(12)
	}
	genesis := uint32(rng.Intn(3))
	if rng.Intn(6) == 0 {
		genesis = uint32(100 + rng.Intn(1000))
	}
	ops := []string{fmt.Sprintf("reset %d %d", batch, genesis)}
	shadow := NewNode(batch, genesis)
	defer shadow.Close()
	run := func(op string) string {
		ops = append(ops, op)
		return shadow.Step(op)
	}
	nVals := 1 + rng.Intn(batch)
	pool := []*Val{}
	for i := 0; i < batch+2; i++ {
		w := uint64(1)
		if rng.Intn(3) == 0 {
			w = uint64(1 + rng.Intn(5))
		}
		pool = append(pool, &Val{Addr: addr(i), Weight: w})
	}
	active := append([]*Val{}, pool[:nVals]...)
	setParams := func() {
		var total uint64
		for _, v := range active {
			total += v.Weight
		}
		pc := total/3 + 1 + uint64(rng.Intn(int(total-total/3)))
		if rng.Intn(2) == 0 {
			pc = total*2/3 + 1
			if pc > total {
				pc = total
			}
		}
		cert := total/3 + 1 + uint64(rng.Intn(int(total-total/3)))
		if rng.Intn(12) == 0 {
			pc = uint64(rng.Intn(int(total) + 3)) // possibly invalid
		}
		vs := append([]*Val{}, active...)
		rng.Shuffle(len(vs), func(i, j int) { vs[i], vs[j] = vs[j], vs[i] })
		run(fmt.Sprintf("setparams %d %d %s", pc, cert, valsArg(vs)))
		run("setkeys " + keysArg(vs))
	}
	setParams()
	height := genesis
	nBlocks := 1 + rng.Intn(maxBlocks)
	for i := 0; i < nBlocks; i++ {
		height++
		mhp, _, mhc := shadow.Heights()
		var g *Val
		if rng.Intn(10) == 0 {
			g = pool[rng.Intn(len(pool))] // possibly a non-validator
		} else {
			g = active[rng.Intn(len(active))]
			if rng.Intn(3) > 0 {
				g = active[i%len(active)] // round robin
			}
		}
		mhg := g.MaxGen
		switch rng.Intn(12) {
		case 0:
			mhg = uint32(rng.Intn(int(height) + 2)) // lie
		case 1:
			mhg = height // implies no votes
		}
		hmhp := mhp
		if rng.Intn(25) == 0 {
			hmhp = uint32(rng.Intn(int(height) + 1))
		}
		commit := "-"
		if rng.Intn(6) == 0 {
			commit = strconv.Itoa(int(mhc) + rng.Intn(3))
		}
		if rng.Intn(4) == 0 {
			run(fmt.Sprintf("contra %d %s %d %d", height, corr.Hex(g.Addr), mhg, hmhp))
		}
		res := run(fmt.Sprintf("block %d %s %d %d %s", height, corr.Hex(g.Addr), mhg, hmhp, commit))
		if strings.HasPrefix(res, "ok") {
			if height > g.MaxGen {
				g.MaxGen = height
			}
			if rng.Intn(4) == 0 {
				run(fmt.Sprintf("implies %d %s %d", height, corr.Hex(g.Addr), mhg))
			}
		} else {
			height--
		}
		if rng.Intn(7) == 0 {
			// validator-set / threshold change
			switch rng.Intn(4) {
			case 0:
				if len(active) < batch {
					for _, p := range pool {
						found := false
						for _, a := range active {
							if a == p {
								found = true
							}
						}
						if !found {
							active = append(active, p)
							break
						}
					}
				}
			case 1:
				if len(active) > 1 {
					k := rng.Intn(len(active))
					active = append(active[:k:k], active[k+1:]...)
				}
			case 2:
				active[rng.Intn(len(active))].Weight = uint64(1 + rng.Intn(6))
			}
			setParams()
		}
		if rng.Intn(9) == 0 {
			run(fmt.Sprintf("getparams %d", rng.Intn(int(height)+3)))
			run(fmt.Sprintf("nextparams %d", rng.Intn(int(height)+3)))
		}
	}
	return ops
}
