package bftsim

import (
	"strings"
	"testing"
)

// The vote-rule oracle is silent on a real run and fires on doctored dumps (it is not vacuous).
func TestCheckVotesSelfTest(t *testing.T) {
	ops := []string{"reset 2 0", "setparams 2 2 0a:1,0b:1", "setkeys 0a,0b",
		"block 1 0a 0 0 -", "block 2 0b 0 0 -", "block 3 0a 1 1 -", "block 4 0b 4294967295 2 -", "block 5 0a 3 2 -"}
	n := NewNode(2, 0)
	defer n.Close()
	out := []string{"ok"}
	for _, op := range ops[1:] {
		out = append(out, n.Step(op))
	}
	if f := CheckVotes(ops, out); len(f) != 0 {
		t.Fatalf("oracle fires on the real module: %+v", f)
	}
	if !strings.Contains(out[6], " 4:0b:4294967295:2:0:0 ") {
		t.Fatalf("the header claiming 2^32-1 should add nothing: %s", out[6])
	}
	tamper := func(i int, from, to, sig string) {
		t.Helper()
		if !strings.Contains(out[i], from) {
			t.Fatalf("%q not in %s", from, out[i])
		}
		o := append([]string{}, out...)
		o[i] = strings.Replace(o[i], from, to, 1)
		for _, f := range CheckVotes(ops, o) {
			if f.Sig == "bft-vote-rule:"+sig && f.Op == i {
				return
			}
		}
		t.Fatalf("doctored dump %q -> %q not reported as %s: %+v", from, to, sig, CheckVotes(ops, o))
	}
	// the header with maxHeightGenerated = 2^32-1 prevotes its own block / an older block
	tamper(6, " 4:0b:4294967295:2:0:0 ", " 4:0b:4294967295:2:1:0 ", "votes-from-header-implying-none")
	tamper(6, " 3:0a:1:1:1:0 ", " 3:0a:1:1:2:0 ", "votes-from-header-implying-none")
	// block 5 (0a, maxHeightGenerated 3) prevotes height 3
	tamper(7, " 3:0a:1:1:1:0 ", " 3:0a:1:1:2:0 ", "prevote-at-or-below-maxHeightGenerated")
	// more than the generator's weight
	tamper(7, " 5:0a:3:2:1:0 ", " 5:0a:3:2:2:0 ", "weight-exceeds-generator-weight")
	// a prevote which the rule requires is missing
	tamper(7, " 5:0a:3:2:1:0 ", " 5:0a:3:2:0:0 ", "prevote-weight-differs")
}
