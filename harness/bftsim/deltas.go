package bftsim

// Exported view of the per-header vote rule of votes.go, for harnesses that watch a real NODE
// (harness/c01node): which heights does ONE accepted header vote for,
//
//   - as observed: the heights of the vote window whose prevote / precommit weight the header raised
//     (difference of two liskbft.VerifDump renderings of the store, before and after the header);
//   - as implied by the rule (header fields only): prevotes for max(maxHeightGenerated+1,
//     minActiveHeight) .. height iff maxHeightGenerated < height (the rule `checkHeader` enforces).

// VoteDelta compares the vote store before and after one header (two VerifDump strings; post's newest
// window entry is the header). It returns the header's generator (hex), and the heights whose
// prevote / precommit weight grew, ascending. ok is false when the dumps do not parse or the window
// was not just shifted by one entry.
func VoteDelta(pre, post string) (gen string, pv, pc []uint32, ok bool) {
	a, okA := parseDump(pre)
	b, okB := parseDump(post)
	if !okA || !okB || len(b.infos) == 0 {
		return "", nil, nil, false
	}
	gen = b.infos[0].gen
	for i := len(b.infos) - 1; i >= 0; i-- {
		nb := b.infos[i]
		var old dInfo
		if i > 0 {
			if i-1 >= len(a.infos) {
				return gen, nil, nil, false
			}
			old = a.infos[i-1]
			if old.height != nb.height || old.gen != nb.gen {
				return gen, nil, nil, false
			}
		}
		if nb.pv > old.pv {
			pv = append(pv, uint32(nb.height))
		}
		if nb.pc > old.pc {
			pc = append(pc, uint32(nb.height))
		}
	}
	return gen, pv, pc, true
}

// ImpliedPrevotes is the prevote clause of the rule: the header (height, maxHeightGenerated) of a
// validator active from minActive prevotes the heights lo..hi (inclusive); votes is false when it
// implies none. int64 arithmetic (no uint32 wrap-around), as in checkHeader.
func ImpliedPrevotes(height, maxHeightGenerated uint32, minActive int64) (lo, hi int64, votes bool) {
	h, m := int64(height), int64(maxHeightGenerated)
	if m >= h {
		return 0, 0, false
	}
	lo = m + 1
	if minActive > lo {
		lo = minActive
	}
	if lo > h {
		return 0, 0, false
	}
	return lo, h, true
}
