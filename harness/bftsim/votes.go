package bftsim

// Model-free oracle for the vote-counting clause of LIP-0058 / LIP-0014 ("which votes does ONE block
// header imply"), checked on the vote-store dump of the real module before and after every header:
//
//	a header (height h, generator g, maxHeightGenerated m) adds, to the block at height x of the window,
//	  prevote weight   w_g(x)  iff  m < h, g is an active validator and max(m+1, minActiveHeight(g)) <= x <= h
//	  precommit weight w_g(x)  iff  m < h, g is active, the block already carries a prevote quorum and
//	                                max(minActiveHeight(g), heightNotPrevoted+1, largestHeightPrecommit(g)+1) <= x <= h
//	  and nothing else: at most the generator's own BFT weight per height, nothing at or below m,
//	  nothing at all when m >= h
//
// All arithmetic is done in int64 on the decimal numbers of the dump (no uint32 wrap-around: m+1 for
// m = 2^32-1 is 2^32, above every height), so the oracle states the rule and not the code.
// The oracle does not use the Lean model; the dump format is that of liskbft.VerifDump.

import (
	"fmt"
	"sort"
	"strconv"
	"strings"

	"verifharness/corr"
)

type dInfo struct {
	height, mhg, mhp int64
	gen              string
	pv, pc           uint64
}

type dActive struct {
	addr     string
	min, lhp int64
}

type dParams struct {
	key              int64
	prevote, precomm uint64
	w                map[string]uint64
}

type dState struct {
	infos  []dInfo
	active []dActive
	params []dParams // ascending keys
}

func (s *dState) paramsAt(h int64) *dParams {
	var best *dParams
	for i := range s.params {
		if s.params[i].key <= h {
			best = &s.params[i]
		}
	}
	return best
}

func (s *dState) activeOf(g string) *dActive {
	for i := range s.active {
		if s.active[i].addr == g {
			return &s.active[i]
		}
	}
	return nil
}

// parseDump parses "mhp mhpc mhc | infos | active | params | keys" (the text after "ok ").
func parseDump(d string) (*dState, bool) {
	sec := strings.Split(d, " |")
	if len(sec) < 5 {
		return nil, false
	}
	s := &dState{}
	i64 := func(x string) int64 { v, _ := strconv.ParseInt(x, 10, 64); return v }
	u64 := func(x string) uint64 { v, _ := strconv.ParseUint(x, 10, 64); return v }
	for _, e := range strings.Fields(sec[1]) {
		p := strings.Split(e, ":")
		if len(p) != 6 {
			return nil, false
		}
		s.infos = append(s.infos, dInfo{height: i64(p[0]), gen: p[1], mhg: i64(p[2]), mhp: i64(p[3]), pv: u64(p[4]), pc: u64(p[5])})
	}
	for _, e := range strings.Fields(sec[2]) {
		p := strings.Split(e, ":")
		if len(p) != 3 {
			return nil, false
		}
		s.active = append(s.active, dActive{addr: p[0], min: i64(p[1]), lhp: i64(p[2])})
	}
	for _, e := range strings.Fields(sec[3]) {
		k := strings.Index(e, "=")
		j := strings.Index(e, "[")
		if k < 0 || j < k || !strings.HasSuffix(e, "]") {
			return nil, false
		}
		th := strings.Split(e[k+1:j], "/")
		if len(th) != 3 {
			return nil, false
		}
		dp := dParams{key: i64(e[:k]), prevote: u64(th[0]), precomm: u64(th[1]), w: map[string]uint64{}}
		if body := e[j+1 : len(e)-1]; body != "" {
			for _, item := range strings.Split(body, ",") {
				q := strings.Split(item, ":")
				if len(q) != 2 {
					return nil, false
				}
				dp.w[q[0]] = u64(q[1])
			}
		}
		s.params = append(s.params, dp)
	}
	sort.Slice(s.params, func(a, b int) bool { return s.params[a].key < s.params[b].key })
	return s, true
}

// heightNotPrevotedRef: LIP-0014 — follow the generator's own previous blocks on this chain (each
// found at the height its successor reports as maxHeightGenerated) while they form an unbroken,
// strictly descending line inside the window; the height at which the line breaks is the largest
// height the generator may have prevoted for on another chain. post[0] is the new block.
func heightNotPrevotedRef(post []dInfo) int64 {
	byHeight := map[int64]*dInfo{}
	for i := range post {
		if _, dup := byHeight[post[i].height]; !dup {
			byHeight[post[i].height] = &post[i]
		}
	}
	nb := post[0]
	oldest := post[len(post)-1].height
	prev := nb.mhg
	for steps := 0; steps <= len(post); steps++ {
		if prev < oldest {
			return oldest - 1
		}
		b := byHeight[prev]
		if b == nil || b.gen != nb.gen || b.mhg >= prev {
			return prev
		}
		prev = b.mhg
	}
	return prev
}

// checkHeader compares the vote weights added by one header with the rule. pre = state before the
// header, post = state after it (post.infos[0] is the header's own entry).
func checkHeader(op string, batch int, pre, post *dState, at int) []corr.Fail {
	var fails []corr.Fail
	fail := func(kind, format string, a ...any) {
		fails = append(fails, corr.Fail{Sig: "bft-vote-rule:" + kind, Op: at,
			Detail: op + ": " + fmt.Sprintf(format, a...)})
	}
	if len(post.infos) == 0 {
		return nil
	}
	nb := post.infos[0]
	// window: the new entry followed by the previous window, cut to 3 * batch size
	want := len(pre.infos) + 1
	if batch > 0 && want > 3*batch {
		want = 3 * batch
	}
	if len(post.infos) != want {
		fail("window-rewritten", "window has %d entries, expected %d", len(post.infos), want)
		return fails
	}
	act := pre.activeOf(nb.gen)
	votes := nb.mhg < nb.height && act != nil
	var hnp int64
	if votes {
		hnp = heightNotPrevotedRef(post.infos)
	}
	maxPrecommitted := int64(-1)
	for i := range post.infos {
		b := post.infos[i]
		var old dInfo
		if i == 0 {
			old = dInfo{height: nb.height, gen: nb.gen, mhg: nb.mhg, mhp: nb.mhp}
		} else {
			old = pre.infos[i-1]
		}
		if b.height != old.height || b.gen != old.gen || b.mhg != old.mhg || b.mhp != old.mhp || b.pv < old.pv || b.pc < old.pc {
			fail("window-rewritten", "entry %d of the window was %d:%s:%d:%d:%d:%d and is %d:%s:%d:%d:%d:%d", i,
				old.height, old.gen, old.mhg, old.mhp, old.pv, old.pc, b.height, b.gen, b.mhg, b.mhp, b.pv, b.pc)
			return fails
		}
		dpv, dpc := b.pv-old.pv, b.pc-old.pc
		var w uint64
		if p := pre.paramsAt(b.height); p != nil {
			w = p.w[nb.gen]
		}
		if nb.mhg >= nb.height && (dpv != 0 || dpc != 0) {
			fail("votes-from-header-implying-none",
				"the header (height %d, maxHeightGenerated %d) implies no votes, but the block at height %d gained prevote weight %d and precommit weight %d",
				nb.height, nb.mhg, b.height, dpv, dpc)
			continue
		}
		if dpv != 0 && b.height <= nb.mhg {
			fail("prevote-at-or-below-maxHeightGenerated",
				"the header (height %d, maxHeightGenerated %d) added prevote weight %d to the block at height %d", nb.height, nb.mhg, dpv, b.height)
			continue
		}
		if dpv > w || dpc > w {
			fail("weight-exceeds-generator-weight",
				"the header of %s (BFT weight %d at height %d) added prevote weight %d and precommit weight %d to the block at height %d",
				nb.gen, w, b.height, dpv, dpc, b.height)
			continue
		}
		// exact rule for prevotes
		wantPv := uint64(0)
		if votes {
			lo := nb.mhg + 1
			if act.min > lo {
				lo = act.min
			}
			if lo <= b.height && b.height <= nb.height {
				wantPv = w
			}
		}
		if dpv != wantPv {
			fail("prevote-weight-differs", "the header (height %d, maxHeightGenerated %d, generator %s active from %v) added prevote weight %d to the block at height %d, the rule gives %d",
				nb.height, nb.mhg, nb.gen, activeMin(act), dpv, b.height, wantPv)
			continue
		}
		// precommits
		if dpc != 0 {
			q := pre.paramsAt(b.height)
			if q == nil || old.pv < q.prevote {
				fail("precommit-without-prevote-quorum", "the header of %s at height %d precommitted the block at height %d whose prevote weight was %d", nb.gen, nb.height, b.height, old.pv)
				continue
			}
			if act != nil && b.height <= act.lhp {
				fail("precommit-repeated", "the header of %s at height %d precommitted the block at height %d again (largest height precommitted before: %d)", nb.gen, nb.height, b.height, act.lhp)
				continue
			}
		}
		wantPc := uint64(0)
		if votes {
			lo := act.min
			if hnp+1 > lo {
				lo = hnp + 1
			}
			if act.lhp+1 > lo {
				lo = act.lhp + 1
			}
			if q := pre.paramsAt(b.height); q != nil && lo <= b.height && b.height <= nb.height && old.pv >= q.prevote {
				wantPc = w
			}
		}
		if dpc != wantPc {
			fail("precommit-weight-differs", "the header (height %d, maxHeightGenerated %d, generator %s, height not prevoted %d) added precommit weight %d to the block at height %d, the rule gives %d",
				nb.height, nb.mhg, nb.gen, hnp, dpc, b.height, wantPc)
			continue
		}
		if dpc != 0 && b.height > maxPrecommitted {
			maxPrecommitted = b.height
		}
	}
	// bookkeeping of the generator: largest height precommitted; nobody else changes
	for _, a := range post.active {
		o := pre.activeOf(a.addr)
		if o == nil {
			fail("active-set-changed-by-header", "validator %s appeared", a.addr)
			continue
		}
		wantLhp := o.lhp
		if a.addr == nb.gen && maxPrecommitted >= 0 {
			wantLhp = maxPrecommitted
		}
		if a.min != o.min || a.lhp != wantLhp {
			fail("largest-height-precommit", "validator %s: minActiveHeight/largestHeightPrecommit %d/%d before, %d/%d after, expected %d/%d", a.addr, o.min, o.lhp, a.min, a.lhp, o.min, wantLhp)
		}
	}
	return fails
}

func activeMin(a *dActive) any {
	if a == nil {
		return "never"
	}
	return a.min
}

// CheckVotes runs the vote-rule oracle over one executed case: ops and the output lines of the real
// module (`Node.Step`). The state before a header is the last dump of the committed state (`block`,
// `setparams`, `setkeys`, `revert`, `restart`); `tryblock` is checked against it without replacing it.
// One failure per signature and case is returned.
func CheckVotes(ops, out []string) []corr.Fail {
	var fails []corr.Fail
	var cur *dState
	batch := 0
	for i, op := range ops {
		if i >= len(out) {
			break
		}
		w := strings.Fields(op)
		if len(w) == 0 {
			continue
		}
		if w[0] == "reset" {
			cur = &dState{}
			batch = 0
			if len(w) > 1 {
				batch, _ = strconv.Atoi(w[1])
			}
			continue
		}
		if !strings.HasPrefix(out[i], "ok ") || cur == nil {
			continue
		}
		switch w[0] {
		case "setparams", "setkeys", "revert", "restart":
			if s, ok := parseDump(out[i][3:]); ok {
				cur = s
			}
		case "block", "tryblock":
			s, ok := parseDump(out[i][3:])
			if !ok {
				continue
			}
			if len(fails) < 3 {
				fails = append(fails, checkHeader(op, batch, cur, s, i)...)
			}
			if w[0] == "block" {
				cur = s
			}
		}
	}
	// one failure per signature and case
	seen := map[string]bool{}
	uniq := fails[:0]
	for _, f := range fails {
		if !seen[f.Sig] {
			seen[f.Sig] = true
			uniq = append(uniq, f)
		}
	}
	return uniq
}
