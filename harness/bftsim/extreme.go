package bftsim

// Header fields and heights at the integer extremes.
//
// The uint32 fields of a block header which the BFT module computes with (height,
// maxHeightGenerated, maxHeightPrevoted, the height of the aggregate commit) and the heights given to
// the query API take the values 0, h-1, h, h+1, the edges of the vote window, 2^31-1, 2^31, 2^31+1,
// 2^32-2 and 2^32-1; chains start at genesis heights 2^32-k (so that h+1, maxHeightGenerated+1,
// oldest-1, largestHeightPrecommit+1 … are computed next to the wrap-around), at 2^31-k (sign bit of a
// 32-bit int) and at 0 (oldest.height-1 wraps); batch sizes are 1, 2 and longer than the chain.
// Honest generators never claim such values; lying (Byzantine) ones may claim anything.
//
// Guard (see lean/LiskVerif/Props/C02_Arith.lean): the genesis height is at most 2^32-2. The block at
// height 2^32-1 can never be processed (the loop `for height := from; height <= to; height++` of
// bftParamsCache.cache cannot end by its condition when to = MaxUint32; the counter wraps to 0,
// where no parameters exist, and the block is rejected) — the generators try it, both sides answer
// `err`.

import (
	"fmt"
	"math"
	"math/rand"
	"strconv"
	"strings"

	"verifharness/corr"
)

const top = math.MaxUint32

// ExtremeValues returns the extreme values of a uint32 header field relative to the height h and
// the window length win (deduplicated, any order).
func ExtremeValues(h uint32, win int) []uint32 {
	vals := []uint32{0, 1, h, 1<<31 - 1, 1 << 31, 1<<31 + 1, top - 1, top}
	if h > 0 {
		vals = append(vals, h-1)
	}
	if h < top {
		vals = append(vals, h+1)
	}
	if h > 1 {
		vals = append(vals, h-2)
	}
	for d := -1; d <= 1; d++ {
		x := int64(h) - int64(win) + int64(d)
		if x >= 0 && x <= top {
			vals = append(vals, uint32(x))
		}
	}
	seen := map[uint32]bool{}
	out := vals[:0]
	for _, v := range vals {
		if !seen[v] {
			seen[v] = true
			out = append(out, v)
		}
	}
	return out
}

// PickExtreme draws one extreme value; the top of the range (2^32-1, 2^32-2) is drawn more often
// than the others: these are the only values for which v+1 or h-v wraps.
func PickExtreme(rng *rand.Rand, h uint32, win int) uint32 {
	switch rng.Intn(8) {
	case 0, 1:
		return top
	case 2:
		return top - 1
	}
	vals := ExtremeValues(h, win)
	return vals[rng.Intn(len(vals))]
}

// ExtremeGenesis draws a genesis height for a chain of about n blocks with the given batch size.
func ExtremeGenesis(rng *rand.Rand, n, batch int) uint32 {
	switch rng.Intn(7) {
	case 0:
		return 0
	case 1: // the chain reaches 2^32-2 and then tries the block at 2^32-1
		return top - 1 - uint32(n/2+rng.Intn(n/2+2))
	case 2: // the chain ends a little below the top
		return top - 1 - uint32(n) - uint32(rng.Intn(3*batch+3))
	case 3: // the chain crosses 2^31
		return 1<<31 - 1 - uint32(rng.Intn(n+2))
	case 4: // genesis at 2^32-2: no block can follow
		return top - 1
	case 5: // the window reaches back to the genesis block at height 0 / 1
		return uint32(rng.Intn(2))
	}
	return uint32(rng.Intn(2000))
}

func u32s(v uint32) string { return strconv.FormatUint(uint64(v), 10) }

// GenExtreme produces one chain for the C02 correspondence and the vote-rule oracle: a mostly honest
// round-robin chain (so that prevote and precommit quorums form next to the extreme heights) in which
// lying generators claim extreme maxHeightGenerated / maxHeightPrevoted / aggregate-commit heights,
// with contradiction / reward / parameter queries at extreme heights.
func GenExtreme(rng *rand.Rand, maxBlocks int) []string {
	var batch int
	switch rng.Intn(6) {
	case 0:
		batch = 1
	case 1:
		batch = 2
	case 2:
		batch = 20 + rng.Intn(84) // window longer than the chain (103 = the usual round length)
	default:
		batch = 3 + rng.Intn(6)
	}
	nBlocks := 2 + rng.Intn(maxBlocks)
	genesis := ExtremeGenesis(rng, nBlocks, batch)
	win := 3 * batch
	ops := []string{fmt.Sprintf("reset %d %d", batch, genesis)}
	shadow := NewNode(batch, genesis)
	defer shadow.Close()
	run := func(op string) string {
		ops = append(ops, op)
		return shadow.Step(op)
	}
	nVals := 1 + rng.Intn(batch)
	if nVals > 5 {
		nVals = 1 + rng.Intn(5)
	}
	poolN := nVals + 2
	pool := make([]*Val, poolN)
	for i := range pool {
		w := uint64(1)
		if rng.Intn(4) == 0 {
			w = uint64(1 + rng.Intn(4))
		}
		pool[i] = &Val{Addr: addr(i), Weight: w}
	}
	active := append([]*Val{}, pool[:nVals]...)
	setParams := func() {
		var total uint64
		for _, v := range active {
			total += v.Weight
		}
		pc := total*2/3 + 1
		if pc > total {
			pc = total
		}
		if rng.Intn(4) == 0 {
			pc = total/3 + 1 + uint64(rng.Intn(int(total-total/3)))
		}
		cert := total/3 + 1 + uint64(rng.Intn(int(total-total/3)))
		vs := append([]*Val{}, active...)
		rng.Shuffle(len(vs), func(i, j int) { vs[i], vs[j] = vs[j], vs[i] })
		run(fmt.Sprintf("setparams %d %d %s", pc, cert, valsArg(vs)))
		run("setkeys " + keysArg(vs))
	}
	setParams()
	queryHeight := func(h uint32) uint32 {
		if rng.Intn(2) == 0 {
			return PickExtreme(rng, h, win)
		}
		return uint32((uint64(h) + uint64(rng.Intn(5))) & top)
	}
	height := genesis
	stuck := 0
	for i := 0; i < nBlocks && stuck < 2; i++ {
		if height == top {
			break
		}
		height++
		mhp, _, mhc := shadow.Heights()
		g := active[i%len(active)]
		if rng.Intn(8) == 0 {
			g = pool[rng.Intn(len(pool))] // possibly a non-validator
		}
		mhg := g.MaxGen
		lie := rng.Intn(4) == 0
		if lie {
			mhg = PickExtreme(rng, height, win)
		}
		hmhp := mhp
		if rng.Intn(8) == 0 {
			hmhp = PickExtreme(rng, height, win)
		}
		commit := "-"
		switch rng.Intn(12) {
		case 0, 1:
			commit = u32s(uint32((uint64(mhc) + uint64(rng.Intn(3))) & top))
		case 2:
			commit = u32s(PickExtreme(rng, height, win))
		}
		if rng.Intn(3) == 0 {
			run(fmt.Sprintf("contra %d %s %d %d", height, corr.Hex(g.Addr), mhg, hmhp))
		}
		if rng.Intn(6) == 0 {
			// another header of the same generator with an extreme claim
			run(fmt.Sprintf("contra %d %s %d %d", PickExtreme(rng, height, win), corr.Hex(g.Addr), PickExtreme(rng, height, win), PickExtreme(rng, height, win)))
		}
		res := run(fmt.Sprintf("block %d %s %d %d %s", height, corr.Hex(g.Addr), mhg, hmhp, commit))
		if strings.HasPrefix(res, "ok") {
			if height > g.MaxGen {
				g.MaxGen = height
			}
			if rng.Intn(3) == 0 {
				run(fmt.Sprintf("implies %d %s %d", height, corr.Hex(g.Addr), mhg))
			}
			if rng.Intn(4) == 0 {
				run(fmt.Sprintf("implies %d %s %d", height, corr.Hex(pool[rng.Intn(len(pool))].Addr), PickExtreme(rng, height, win)))
			}
			if rng.Intn(12) == 0 {
				run(fmt.Sprintf("implies %d %s %d", PickExtreme(rng, height, win), corr.Hex(g.Addr), mhg)) // not the current height
			}
		} else {
			height--
			if height == top-1 {
				stuck++
			}
		}
		if rng.Intn(9) == 0 {
			switch rng.Intn(3) {
			case 0:
				if len(active) < batch && len(active) < len(pool) {
					active = append(active, pool[len(active)])
				}
			case 1:
				if len(active) > 1 {
					active = active[:len(active)-1]
				}
			case 2:
				active[rng.Intn(len(active))].Weight = uint64(1 + rng.Intn(5))
			}
			setParams()
		}
		if rng.Intn(5) == 0 {
			run(fmt.Sprintf("getparams %d", queryHeight(height)))
			run(fmt.Sprintf("nextparams %d", queryHeight(height)))
		}
	}
	return ops
}
