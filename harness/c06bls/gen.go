package c06bls

import (
	"fmt"
	"math/big"
	"math/rand"

	"verifharness/blsref"
	"verifharness/corr"
)

const maxU64 = ^uint64(0)

// weight profiles: every one is meant to separate "the weight of the FLAGGED positions" from any other
// sum (a prefix, all positions, the number of signers).
var profiles = []string{"equal", "heavy", "zeros", "big", "mixed", "steps"}

func weightsOf(rng *rand.Rand, profile string, n int) []uint64 {
	w := make([]uint64, n)
	switch profile {
	case "equal":
		for i := range w {
			w[i] = 1
		}
	case "heavy": // one heavy validator, many light ones
		for i := range w {
			w[i] = 1
		}
		if n > 0 {
			w[rng.Intn(n)] = uint64(10 * n)
		}
	case "zeros": // weights 0 next to small ones
		for i := range w {
			if rng.Intn(2) == 0 {
				w[i] = uint64(1 + rng.Intn(3))
			}
		}
	case "big": // near 2^63: sums of two of them wrap a uint64
		for i := range w {
			switch rng.Intn(4) {
			case 0:
				w[i] = 1 << 63
			case 1:
				w[i] = 1<<63 - 1
			case 2:
				w[i] = 1<<63 + uint64(rng.Intn(7))
			default:
				w[i] = uint64(rng.Intn(5))
			}
		}
	case "steps": // strictly increasing powers: every subset has its own weight
		for i := range w {
			w[i] = 1 << uint(i%60)
		}
		rng.Shuffle(n, func(a, b int) { w[a], w[b] = w[b], w[a] })
	default:
		for i := range w {
			w[i] = uint64(1 + rng.Intn(20))
		}
	}
	return w
}

// thresholds around the TRUE weight of the flagged positions: exactly at, one above, one below; when the
// true weight does not fit a uint64, thresholds around the wrapped sum and the extremes.
func thresholdsFor(weights []uint64, positions []int) []uint64 {
	tw := blsref.WeightOf(weights, positions)
	if tw.IsUint64() {
		t := tw.Uint64()
		res := []uint64{t}
		if t < maxU64 {
			res = append(res, t+1)
		}
		if t > 0 {
			res = append(res, t-1)
		}
		return res
	}
	wrapped := new(big.Int).Mod(tw, new(big.Int).Lsh(big.NewInt(1), 64)).Uint64()
	res := []uint64{wrapped, wrapped + 1, 1, maxU64}
	if wrapped > 0 {
		res = append(res, wrapped-1)
	}
	return res
}

type gen struct {
	rng  *rand.Rand
	seed int64
	ops  []string
}

func (g *gen) reset() { g.ops = []string{fmt.Sprintf("reset seed=%d", g.seed)} }

func (g *gen) wv(keys []int, bits []byte, weights []uint64, thr uint64, sig string, msg int) {
	g.ops = append(g.ops, fmt.Sprintf("wv %s %s %s %d %s %d", ints(keys), corr.Hex(bits), u64s(weights), thr, sig, msg))
}

func (g *gen) av(keys []int, bits []byte, sig string, msg int) {
	g.ops = append(g.ops, fmt.Sprintf("av %s %s %s %d", ints(keys), corr.Hex(bits), sig, msg))
}

func (g *gen) take() []string {
	ops := g.ops
	g.ops = nil
	return ops
}

// pick returns n distinct holder numbers below pool.
func (g *gen) pick(n, pool int) []int {
	return g.rng.Perm(pool)[:n]
}

func positionsOf(mask uint64, n int) []int {
	var res []int
	for i := 0; i < n; i++ {
		if mask>>uint(i)&1 == 1 {
			res = append(res, i)
		}
	}
	return res
}

func at(keys []int, positions []int) []int {
	res := make([]int, len(positions))
	for i, p := range positions {
		res[i] = keys[p]
	}
	return res
}

// subsetsCase: ALL non-empty signer subsets of an n-key list under one weight profile; the bitmap flags
// exactly the signers and the signature is theirs, so the verdict is decided by the weight clause alone.
func (g *gen) subsetsCase(n int, profile string, sortKeys, allThresholds bool) corr.Case {
	g.reset()
	keys := g.pick(n, 12)
	if sortKeys {
		keys = sortedByKey(g.seed, keys)
	}
	weights := weightsOf(g.rng, profile, n)
	msg := g.rng.Intn(4)
	for mask := uint64(1); mask < 1<<uint(n); mask++ {
		pos := positionsOf(mask, n)
		bits := blsref.BitmapOf(n, pos)
		thrs := thresholdsFor(weights, pos)
		if !allThresholds && len(thrs) > 2 {
			// at the weight, and alternately one above / one below
			thrs = []uint64{thrs[0], thrs[1+int(mask%2)]}
		}
		for _, t := range thrs {
			g.wv(keys, bits, weights, t, sigSpec(at(keys, pos), msg), msg)
		}
	}
	return corr.Case{Ops: g.take(), Tag: fmt.Sprintf("subsets-n%d-%s", n, profile)}
}

// largeCase: sampled subsets of a long key list (sparse, dense, half, all, prefixes, suffixes).
func (g *gen) largeCase(n int, profile string, samples int) corr.Case {
	g.reset()
	keys := g.pick(n, 128)
	if g.rng.Intn(2) == 0 {
		keys = sortedByKey(g.seed, keys)
	}
	weights := weightsOf(g.rng, profile, n)
	msg := g.rng.Intn(4)
	for s := 0; s < samples; s++ {
		var pos []int
		switch s % 6 {
		case 0: // sparse
			pos = sortedInts(g.rng.Perm(n)[:1+g.rng.Intn(min(3, n))])
		case 1: // dense
			pos = sortedInts(g.rng.Perm(n)[:n-g.rng.Intn(min(3, n))])
		case 2: // about half
			for i := 0; i < n; i++ {
				if g.rng.Intn(2) == 0 {
					pos = append(pos, i)
				}
			}
		case 3: // a suffix
			k := 1 + g.rng.Intn(n)
			for i := n - k; i < n; i++ {
				pos = append(pos, i)
			}
		case 4: // a prefix
			k := 1 + g.rng.Intn(n)
			for i := 0; i < k; i++ {
				pos = append(pos, i)
			}
		default: // all
			for i := 0; i < n; i++ {
				pos = append(pos, i)
			}
		}
		if len(pos) == 0 {
			pos = []int{g.rng.Intn(n)}
		}
		bits := blsref.BitmapOf(n, pos)
		thrs := thresholdsFor(weights, pos)
		t := thrs[g.rng.Intn(len(thrs))]
		g.wv(keys, bits, weights, thrs[0], sigSpec(at(keys, pos), msg), msg)
		if t != thrs[0] {
			g.wv(keys, bits, weights, t, sigSpec(at(keys, pos), msg), msg)
		}
		if s%4 == 0 {
			g.av(keys, bits, sigSpec(at(keys, pos), msg), msg)
		}
	}
	return corr.Case{Ops: g.take(), Tag: fmt.Sprintf("large-n%d-%s", n, profile)}
}

func sortedInts(l []int) []int {
	res := append([]int{}, l...)
	for i := 1; i < len(res); i++ {
		for j := i; j > 0 && res[j] < res[j-1]; j-- {
			res[j], res[j-1] = res[j-1], res[j]
		}
	}
	return res
}

// malformedCase: bitmap and signers disagree, wrong message, garbage, padding bits, wrong lengths,
// duplicated keys, the empty key list.
func (g *gen) malformedCase(n int) corr.Case {
	g.reset()
	r := g.rng
	keys := g.pick(n, 40)
	weights := weightsOf(r, profiles[r.Intn(len(profiles))], n)
	msg := r.Intn(4)
	all := make([]int, n)
	for i := range all {
		all[i] = i
	}
	sub := func() []int {
		var p []int
		for i := 0; i < n; i++ {
			if r.Intn(2) == 0 {
				p = append(p, i)
			}
		}
		if len(p) == 0 {
			p = []int{r.Intn(n)}
		}
		return p
	}
	for k := 0; k < 6; k++ {
		pos := sub()
		bits := blsref.BitmapOf(n, pos)
		good := sigSpec(at(keys, pos), msg)
		thr := thresholdsFor(weights, pos)[0]
		// bitmap flags other positions than the signers
		other := sub()
		g.wv(keys, blsref.BitmapOf(n, other), weights, 0, good, msg)
		g.av(keys, blsref.BitmapOf(n, other), good, msg)
		// one signer missing from / added to the bitmap
		flip := append([]byte{}, bits...)
		f := r.Intn(n)
		flip[f/8] ^= 1 << uint(f%8)
		g.wv(keys, flip, weights, 0, good, msg)
		// wrong message, garbage, a signer counted twice
		g.wv(keys, bits, weights, thr, sigSpec(at(keys, pos), msg+1), msg)
		g.wv(keys, bits, weights, thr, good, msg+1)
		g.wv(keys, bits, weights, thr, "G", msg)
		g.av(keys, bits, "G", msg)
		g.wv(keys, bits, weights, thr, sigSpec(append(at(keys, pos), keys[pos[0]]), msg), msg)
		// padding bits beyond n set (never read by the code: the verdict must not depend on them)
		if n%8 != 0 {
			pad := append([]byte{}, bits...)
			for i := n; i < 8*len(pad); i++ {
				if r.Intn(2) == 0 || i == n {
					pad[i/8] |= 1 << uint(i%8)
				}
			}
			g.wv(keys, pad, weights, thr, good, msg)
			g.wv(keys, pad, weights, thr+1, good, msg)
			g.av(keys, pad, good, msg)
		}
		// wrong lengths: bitmap one byte longer / shorter, weights one more / one less
		g.wv(keys, append(append([]byte{}, bits...), 0), weights, thr, good, msg)
		g.wv(keys, append(append([]byte{}, bits...), 0xff), weights, 0, good, msg)
		g.wv(keys, bits[:len(bits)-1], weights, 0, good, msg)
		g.av(keys, append(append([]byte{}, bits...), 0), good, msg)
		g.av(keys, bits[:len(bits)-1], good, msg)
		g.wv(keys, bits, append(append([]uint64{}, weights...), 5), thr, good, msg)
		g.wv(keys, bits, weights[:n-1], 0, good, msg)
		g.wv(keys, bits, nil, 0, good, msg)
		// threshold 0 / maximal
		g.wv(keys, bits, weights, 0, good, msg)
		g.wv(keys, bits, weights, maxU64, good, msg)
	}
	// nothing flagged: threshold 0 passes the weight clause, the empty key set verifies nothing
	g.wv(keys, blsref.BitmapOf(n, nil), weights, 0, sigSpec(at(keys, all), msg), msg)
	g.wv(keys, blsref.BitmapOf(n, nil), weights, 1, sigSpec(at(keys, all), msg), msg)
	g.av(keys, blsref.BitmapOf(n, nil), sigSpec(at(keys, all), msg), msg)
	// the empty key list
	g.wv(nil, nil, nil, 0, sigSpec(keys[:1], msg), msg)
	g.wv(nil, []byte{0}, nil, 0, sigSpec(keys[:1], msg), msg)
	g.wv(nil, nil, []uint64{1}, 0, "G", msg)
	g.av(nil, nil, sigSpec(keys[:1], msg), msg)
	// a key listed twice: both positions flagged and signed twice / one position flagged
	if n >= 2 {
		dup := append([]int{}, keys...)
		dup[n-1] = dup[0]
		w2 := append([]uint64{}, weights...)
		both := blsref.BitmapOf(n, []int{0, n - 1})
		g.wv(dup, both, w2, 0, sigSpec([]int{dup[0], dup[0]}, msg), msg)
		g.wv(dup, both, w2, 0, sigSpec([]int{dup[0]}, msg), msg)
		g.wv(dup, blsref.BitmapOf(n, []int{n - 1}), w2, w2[n-1], sigSpec([]int{dup[0]}, msg), msg)
		g.wv(dup, blsref.BitmapOf(n, []int{n - 1}), w2, w2[n-1]+1, sigSpec([]int{dup[0]}, msg), msg)
	}
	return corr.Case{Ops: g.take(), Tag: fmt.Sprintf("malformed-n%d", n)}
}

// bitsCase: the bitmap accessors and the length rule.
func (g *gen) bitsCase() corr.Case {
	g.reset()
	r := g.rng
	for l := 0; l <= 3; l++ {
		b := make([]byte, l)
		for i := range b {
			b[i] = byte(r.Intn(256))
		}
		for i := -2; i <= 8*l+9; i++ {
			g.ops = append(g.ops, fmt.Sprintf("rd %s %d", corr.Hex(b), i))
			if i < 0 || i >= 8*l || r.Intn(3) == 0 {
				g.ops = append(g.ops, fmt.Sprintf("wr %s %d %d", corr.Hex(b), i, r.Intn(2)))
			}
		}
	}
	for k := 0; k < 12; k++ {
		l := 1 + r.Intn(16)
		b := make([]byte, l)
		for i := range b {
			b[i] = byte(r.Intn(256))
		}
		i := r.Intn(8 * l)
		g.ops = append(g.ops, fmt.Sprintf("rd %s %d", corr.Hex(b), i), fmt.Sprintf("wr %s %d 1", corr.Hex(b), i), fmt.Sprintf("wr %s %d 0", corr.Hex(b), i))
	}
	for _, nk := range []int{0, 1, 7, 8, 9, 15, 16, 17, 63, 64, 65, 103, 120, 128, 129, 1000} {
		for _, d := range []int{-1, 0, 1} {
			if nb := (nk+7)/8 + d; nb >= 0 {
				g.ops = append(g.ops, fmt.Sprintf("len %d %d", nk, nb))
			}
		}
		g.ops = append(g.ops, fmt.Sprintf("len %d %d", nk, nk/8))
	}
	return corr.Case{Ops: g.take(), Tag: "bits"}
}

// createCase: BLSCreateAggSig with honest pair lists (any order), pairs of keys outside the list,
// repeated pairs, a signature of somebody else, different messages.
func (g *gen) createCase(n int) corr.Case {
	g.reset()
	r := g.rng
	keys := g.pick(n, 40)
	if r.Intn(2) == 0 {
		keys = sortedByKey(g.seed, keys)
	}
	msg := r.Intn(4)
	pair := func(h, s, m int) string { return fmt.Sprintf("%d:%d:%d", h, s, m) }
	emit := func(ps []string) {
		if len(ps) > 0 {
			g.ops = append(g.ops, fmt.Sprintf("cr %s %s", ints(keys), joinS(ps)))
		}
	}
	for k := 0; k < 8; k++ {
		var ps []string
		for _, i := range r.Perm(n) {
			if r.Intn(2) == 0 {
				ps = append(ps, pair(keys[i], keys[i], msg))
			}
		}
		if len(ps) == 0 {
			ps = []string{pair(keys[0], keys[0], msg)}
		}
		emit(ps)
		switch k % 4 {
		case 0: // a signer whose key is not in the list
			emit(append(append([]string{}, ps...), pair(100+r.Intn(20), 100+r.Intn(20), msg)))
		case 1: // the same pair twice
			emit(append(append([]string{}, ps...), ps[0]))
		case 2: // a pair carrying another holder's signature
			emit(append(append([]string{}, ps...), pair(keys[r.Intn(n)], keys[r.Intn(n)], msg)))
		case 3: // one signature over another message
			emit(append(append([]string{}, ps...), pair(keys[r.Intn(n)], keys[r.Intn(n)], msg+1)))
		}
	}
	// everybody signs, in list order and reversed
	var allp, rev []string
	for i := 0; i < n; i++ {
		allp = append(allp, pair(keys[i], keys[i], msg))
		rev = append([]string{pair(keys[i], keys[i], msg)}, rev...)
	}
	emit(allp)
	emit(rev)
	return corr.Case{Ops: g.take(), Tag: fmt.Sprintf("create-n%d", n)}
}

func joinS(l []string) string {
	s := ""
	for i, x := range l {
		if i > 0 {
			s += ","
		}
		s += x
	}
	return s
}

func (prop) Generate(rng *rand.Rand, tier string) []corr.Case {
	g := &gen{rng: rng, seed: 1 + rng.Int63n(1<<30)}
	var cases []corr.Case
	maxN, reps := 6, 1
	if tier == "thorough" {
		maxN, reps = 8, 3
	}
	for rep := 0; rep < reps; rep++ {
		for n := 1; n <= maxN; n++ {
			for pi, pr := range profiles {
				if n > 6 && pi%2 == 1 {
					continue
				}
				cases = append(cases, g.subsetsCase(n, pr, (n+pi)%2 == 0, n <= 4 || tier == "thorough"))
			}
		}
	}
	sizes := []int{7, 8, 9, 16, 17, 33, 64, 120}
	samples := 12
	if tier == "thorough" {
		sizes = []int{7, 8, 9, 15, 16, 17, 31, 32, 33, 63, 64, 65, 100, 119, 120}
		samples = 40
	}
	for i, n := range sizes {
		cases = append(cases, g.largeCase(n, profiles[1+(i+int(g.seed))%(len(profiles)-1)], samples))
		if tier == "thorough" {
			cases = append(cases, g.largeCase(n, profiles[rng.Intn(len(profiles))], samples))
		}
	}
	for _, n := range []int{1, 3, 8, 9, 13} {
		cases = append(cases, g.malformedCase(n))
	}
	cases = append(cases, g.bitsCase())
	for _, n := range []int{1, 4, 8, 9, 17} {
		cases = append(cases, g.createCase(n))
	}
	return cases
}
