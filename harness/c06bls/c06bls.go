// Package c06bls is the pseudo-property C06BLS: the NON-cryptographic logic inside pkg/crypto/bls.go
// that the acceptance rules of blocks (C03), certificates (C06) and forged blocks (C15) rely on —
// which keys the aggregation bits select, which weights are summed, the threshold comparison, the
// length checks, the bitmap accessors and the bitmap built by BLSCreateAggSig. The models of C03 and
// C06 take "the aggregate certificate signature is valid" as an ideal functionality; here the REAL
// functions are the correspondence target, blst's FastAggregateVerify being the only trusted call.
//
// Op vocabulary (keys are holder numbers of deterministic key pairs made by harness/blsref straight
// from blst; messages are message numbers; `-` is the empty list / byte string):
//
//	reset seed=<s>                                         -> ok
//	len <nKeys> <nBytes>                                   validAggregationBitsLength          -> true|false
//	rd <bits> <i>                                          Bits.read(i)                        -> 0|1|panic
//	wr <bits> <i> <0|1>                                    Bits.write(i, val) on a copy        -> <bits>|panic
//	wv <keys> <bits> <weights> <thr> <sig> <msg>           BLSVerifyWeightedAggSig             -> true|false|panic
//	av <keys> <bits> <sig> <msg>                           BLSVerifyAggSig                     -> true|false|panic
//	cr <keys> <holder:signer:msg,...>                      BLSCreateAggSig (pair = public key of holder,
//	                                                       signature of signer over msg)      -> <bits> <sig verifies for the signers>
//
// <sig> is `G` (96 bytes that are no signature) or `S:<holders>:<msg>` (aggregate of the holders'
// single signatures over the message, repeated holders allowed).
//
// Model side: Driver/BLSAgg.lean over Model/BLSAgg.lean (byte-level transcription, uint64 weight sum)
// with the ideal aggregate-signature functionality of Model/Cert.lean for blst. Model-free oracle:
// harness/blsref — own bitmap reading, the TRUE weight of the flagged positions in math/big, blst
// called directly on exactly the flagged keys.
package c06bls

import (
	"bytes"
	"crypto/sha256"
	"encoding/binary"
	"fmt"
	"math/big"
	"sort"
	"strconv"
	"strings"
	"sync"

	"github.com/LiskHQ/lisk-engine/pkg/crypto"

	"verifharness/blsref"
	"verifharness/corr"
)

type prop struct{}

func init() { corr.Register(prop{}) }

func (prop) ID() string    { return "C06BLS" }
func (prop) Parallel() int { return 4 }

// ---- key holders, messages, signatures (cached: the same material serves every case of a run) ----

var (
	mu       sync.Mutex
	holderOf = map[[2]int64]*blsref.Holder{}
	sigOf    = map[[3]int64][]byte{}
)

func holder(seed int64, i int) *blsref.Holder {
	mu.Lock()
	defer mu.Unlock()
	k := [2]int64{seed, int64(i)}
	if h, ok := holderOf[k]; ok {
		return h
	}
	h := blsref.NewHolder(seed, i)
	holderOf[k] = h
	return h
}

func msgBytes(id int) []byte {
	var b [8]byte
	binary.BigEndian.PutUint64(b[:], uint64(id))
	h := sha256.Sum256(append([]byte("c06bls-message"), b[:]...))
	return h[:]
}

func single(seed int64, h, msg int) []byte {
	hd := holder(seed, h)
	mu.Lock()
	k := [3]int64{seed, int64(h), int64(msg)}
	s, ok := sigOf[k]
	mu.Unlock()
	if ok {
		return s
	}
	s = hd.Sign(msgBytes(msg))
	mu.Lock()
	sigOf[k] = s
	mu.Unlock()
	return s
}

func garbageSig(seed int64) []byte {
	out := make([]byte, 0, 96)
	for i := 0; len(out) < 96; i++ {
		h := sha256.Sum256([]byte(fmt.Sprintf("c06bls-garbage-%d-%d", seed, i)))
		out = append(out, h[:]...)
	}
	return out[:96]
}

// ---- line protocol helpers ----

func ints(l []int) string {
	if len(l) == 0 {
		return "-"
	}
	s := make([]string, len(l))
	for i, x := range l {
		s[i] = strconv.Itoa(x)
	}
	return strings.Join(s, ",")
}

func u64s(l []uint64) string {
	if len(l) == 0 {
		return "-"
	}
	s := make([]string, len(l))
	for i, x := range l {
		s[i] = strconv.FormatUint(x, 10)
	}
	return strings.Join(s, ",")
}

func parseInts(s string) ([]int, bool) {
	if s == "-" {
		return nil, true
	}
	var res []int
	for _, p := range strings.Split(s, ",") {
		x, err := strconv.Atoi(p)
		if err != nil || x < 0 {
			return nil, false
		}
		res = append(res, x)
	}
	return res, true
}

func parseU64s(s string) ([]uint64, bool) {
	if s == "-" {
		return []uint64{}, true
	}
	var res []uint64
	for _, p := range strings.Split(s, ",") {
		x, err := strconv.ParseUint(p, 10, 64)
		if err != nil {
			return nil, false
		}
		res = append(res, x)
	}
	return res, true
}

func parseHex(s string) (b []byte, ok bool) {
	defer func() {
		if recover() != nil {
			ok = false
		}
	}()
	if s != "-" && (len(s)%2 != 0 || strings.Trim(s, "0123456789abcdef") != "") {
		return nil, false
	}
	return corr.UnHex(s), true
}

func sigSpec(signers []int, msg int) string { return fmt.Sprintf("S:%s:%d", ints(signers), msg) }

// sigBytes renders a signature spec; signers = the holders whose single signatures were summed.
func sigBytes(seed int64, spec string) (sig []byte, ok bool) {
	if spec == "G" {
		return garbageSig(seed), true
	}
	p := strings.Split(spec, ":")
	if len(p) != 3 || p[0] != "S" {
		return nil, false
	}
	hs, ok1 := parseInts(p[1])
	m, err := strconv.Atoi(p[2])
	if !ok1 || err != nil || len(hs) == 0 {
		return nil, false
	}
	sigs := make([][]byte, len(hs))
	for i, h := range hs {
		sigs[i] = single(seed, h, m)
	}
	return blsref.Aggregate(sigs), true
}

func keyBytes(seed int64, hs []int) [][]byte {
	res := make([][]byte, len(hs))
	for i, h := range hs {
		res[i] = holder(seed, h).Pub
	}
	return res
}

// ---- runner ----

type runner struct {
	seed  int64
	fails []corr.Fail
}

func (r *runner) fail(op int, sig, format string, a ...interface{}) {
	r.fails = append(r.fails, corr.Fail{Sig: sig, Detail: fmt.Sprintf(format, a...), Op: op})
}

// call runs f under recover.
func call(f func() string) (out string, panicked bool) {
	defer func() {
		if p := recover(); p != nil {
			out, panicked = "panic", true
		}
	}()
	return f(), false
}

func b2s(b bool) string {
	if b {
		return "true"
	}
	return "false"
}

func two64() *big.Int { return new(big.Int).Lsh(big.NewInt(1), 64) }

func (r *runner) exec(i int, w []string) string {
	switch {
	case len(w) >= 1 && w[0] == "reset":
		r.seed = 0
		for _, a := range w[1:] {
			if strings.HasPrefix(a, "seed=") {
				r.seed, _ = strconv.ParseInt(a[5:], 10, 64)
			}
		}
		return "ok"
	case len(w) == 3 && w[0] == "len":
		nk, e1 := strconv.Atoi(w[1])
		nb, e2 := strconv.Atoi(w[2])
		if e1 != nil || e2 != nil || nk < 0 || nb < 0 || nk > 1<<16 || nb > 1<<16 {
			return "bad-op"
		}
		out, _ := call(func() string {
			return b2s(crypto.VerifValidAggregationBitsLength(make([][]byte, nk), make([]byte, nb)))
		})
		if want := b2s(blsref.LengthOK(nk, nb)); out != want {
			r.fail(i, "c06bls-bits-length", "validAggregationBitsLength(%d keys, %d bytes) = %s, one bit per key rounded up to bytes gives %s", nk, nb, out, want)
		}
		return out
	case len(w) == 3 && w[0] == "rd":
		bits, ok := parseHex(w[1])
		idx, err := strconv.Atoi(w[2])
		if !ok || err != nil {
			return "bad-op"
		}
		out, _ := call(func() string {
			if crypto.VerifBitsRead(bits, idx) {
				return "1"
			}
			return "0"
		})
		want := "panic"
		if idx >= 0 && idx/8 < len(bits) {
			want = "0"
			if blsref.BitSet(bits, idx) {
				want = "1"
			}
		}
		if out != want {
			r.fail(i, "c06bls-bits-read", "Bits(%x).read(%d) = %s, expected %s", bits, idx, out, want)
		}
		return out
	case len(w) == 4 && w[0] == "wr":
		bits, ok := parseHex(w[1])
		idx, err := strconv.Atoi(w[2])
		if !ok || err != nil || (w[3] != "0" && w[3] != "1") {
			return "bad-op"
		}
		val := w[3] == "1"
		before := append([]byte{}, bits...)
		out, _ := call(func() string { return corr.Hex(crypto.VerifBitsWrite(bits, idx, val)) })
		want := "panic"
		if idx >= 0 && idx/8 < len(bits) {
			ref := append([]byte{}, before...)
			if val {
				ref[idx/8] |= 1 << uint(idx%8)
			} else {
				ref[idx/8] &^= 1 << uint(idx%8)
			}
			want = corr.Hex(ref)
		}
		if out != want {
			r.fail(i, "c06bls-bits-write", "Bits(%x).write(%d, %v) = %s, expected %s (only bit %d changes)", before, idx, val, out, want, idx)
		}
		return out
	case len(w) == 7 && w[0] == "wv":
		hs, ok1 := parseInts(w[1])
		bits, ok2 := parseHex(w[2])
		weights, ok3 := parseU64s(w[3])
		thr, err := strconv.ParseUint(w[4], 10, 64)
		sig, ok4 := sigBytes(r.seed, w[5])
		m, err2 := strconv.Atoi(w[6])
		if !ok1 || !ok2 || !ok3 || !ok4 || err != nil || err2 != nil || sig == nil {
			return "bad-op"
		}
		keys, msg := keyBytes(r.seed, hs), msgBytes(m)
		keysBefore, bitsBefore, weightsBefore := copy2(keys), append([]byte{}, bits...), append([]uint64{}, weights...)
		out, panicked := call(func() string { return b2s(crypto.BLSVerifyWeightedAggSig(keys, bits, sig, weights, thr, msg)) })
		if panicked {
			r.fail(i, "c06bls-panic", "BLSVerifyWeightedAggSig panics: %s", strings.Join(w, " "))
			return out
		}
		if !equal2(keys, keysBefore) || !bytes.Equal(bits, bitsBefore) || !equalU(weights, weightsBefore) {
			r.fail(i, "c06bls-arguments-modified", "BLSVerifyWeightedAggSig changed its arguments: %s", strings.Join(w, " "))
		}
		ref := blsref.Weighted(keys, bits, sig, weights, thr, msg)
		describe := func() string {
			agg := "not evaluated (a clause before it fails)"
			if ref.LengthOK && ref.WeightsOK && ref.ThresholdOK {
				agg = fmt.Sprint(ref.AggregateOK)
			}
			return fmt.Sprintf("keys(holders)=%s bits=%x weights=%s threshold=%d sig=%s msg=%d: flagged positions %v, TRUE weight of the flagged signers %s, bitmap length ok=%v, one weight per key=%v, aggregate valid for exactly the flagged keys: %s",
				w[1], bits, w[3], thr, w[5], m, ref.Flagged, ref.Weight, ref.LengthOK, ref.WeightsOK, agg)
		}
		switch {
		case out == "true" && ref.LengthOK && ref.WeightsOK && !ref.ThresholdOK:
			r.fail(i, "c06bls-weighted-accepts-below-threshold", "accepted although the flagged signers do not reach the threshold: %s", describe())
		case out == "true" && !ref.Accept:
			r.fail(i, "c06bls-weighted-accepts-invalid", "accepted: %s", describe())
		case out == "false" && ref.Accept && !ref.Wraps:
			r.fail(i, "c06bls-weighted-rejects-valid", "rejected although every clause holds: %s", describe())
		case out == "false" && ref.Accept && ref.Wraps:
			// uint64 weight sum: the flagged weights add up to >= 2^64 and wrap; the code must then decide by the wrapped sum
			wrapped := new(big.Int).Mod(ref.Weight, two64())
			if wrapped.Cmp(new(big.Int).SetUint64(thr)) >= 0 {
				r.fail(i, "c06bls-weighted-rejects-valid", "rejected although even the wrapped uint64 sum %s reaches the threshold: %s", wrapped, describe())
			}
		}
		return out
	case len(w) == 5 && w[0] == "av":
		hs, ok1 := parseInts(w[1])
		bits, ok2 := parseHex(w[2])
		sig, ok4 := sigBytes(r.seed, w[3])
		m, err2 := strconv.Atoi(w[4])
		if !ok1 || !ok2 || !ok4 || err2 != nil || sig == nil {
			return "bad-op"
		}
		keys, msg := keyBytes(r.seed, hs), msgBytes(m)
		out, panicked := call(func() string { return b2s(crypto.BLSVerifyAggSig(keys, bits, sig, msg)) })
		if panicked {
			r.fail(i, "c06bls-panic", "BLSVerifyAggSig panics: %s", strings.Join(w, " "))
			return out
		}
		ref := blsref.Plain(keys, bits, sig, msg)
		if out != b2s(ref.Accept) {
			r.fail(i, "c06bls-agg-verdict", "BLSVerifyAggSig = %s; keys(holders)=%s bits=%x sig=%s msg=%d: flagged positions %v, bitmap length ok=%v, aggregate valid for exactly the flagged keys=%v",
				out, w[1], bits, w[3], m, ref.Flagged, ref.LengthOK, ref.AggregateOK)
		}
		return out
	case len(w) == 3 && w[0] == "cr":
		hs, ok1 := parseInts(w[1])
		if !ok1 || w[2] == "-" {
			return "bad-op"
		}
		keys := keyBytes(r.seed, hs)
		var pairs []*crypto.BLSPublicKeySignaturePair
		var signerKeys, sigs [][]byte
		var positions []int
		msg0, sameMsg, honest, distinct := -1, true, true, true
		seen := map[int]bool{}
		for _, ps := range strings.Split(w[2], ",") {
			p := strings.Split(ps, ":")
			if len(p) != 3 {
				return "bad-op"
			}
			h, e1 := strconv.Atoi(p[0])
			sg, e2 := strconv.Atoi(p[1])
			m, e3 := strconv.Atoi(p[2])
			if e1 != nil || e2 != nil || e3 != nil || h < 0 || sg < 0 {
				return "bad-op"
			}
			if msg0 < 0 {
				msg0 = m
			}
			sameMsg = sameMsg && m == msg0
			honest = honest && h == sg
			distinct = distinct && !seen[h]
			seen[h] = true
			s := single(r.seed, sg, m)
			pairs = append(pairs, &crypto.BLSPublicKeySignaturePair{PublicKey: holder(r.seed, h).Pub, Signature: s})
			signerKeys = append(signerKeys, holder(r.seed, sg).Pub)
			sigs = append(sigs, s)
			// reference bitmap: first position of the pair's public key in the key list
			found := -1
			for j, k := range hs {
				if k == h {
					found = j
					break
				}
			}
			if found >= 0 {
				positions = append(positions, found)
			} else {
				honest = false // signature aggregated but the signer is not flagged
			}
		}
		var gotBits, gotSig []byte
		out, panicked := call(func() string {
			gotBits, gotSig = crypto.BLSCreateAggSig(keys, pairs)
			return ""
		})
		if panicked {
			r.fail(i, "c06bls-panic", "BLSCreateAggSig panics: %s", strings.Join(w, " "))
			return out
		}
		wantBits := blsref.BitmapOf(len(hs), positions)
		if !bytes.Equal(gotBits, wantBits) {
			r.fail(i, "c06bls-create-bits", "BLSCreateAggSig(keys(holders)=%s, pairs=%s) bitmap %x, expected %x (ceil(n/8) bytes, bit = first position of each supplied public key)", w[1], w[2], gotBits, wantBits)
		}
		sigOK := blsref.FastAggregateVerify(signerKeys, gotSig, msgBytes(msg0))
		if sameMsg && !sigOK {
			r.fail(i, "c06bls-create-signature", "BLSCreateAggSig(keys(holders)=%s, pairs=%s): the result is not the aggregate of the supplied signatures", w[1], w[2])
		}
		// round trip: what an honest assembler produces is accepted by the verifier
		if sameMsg && honest && distinct {
			if !crypto.BLSVerifyAggSig(keys, gotBits, gotSig, msgBytes(msg0)) {
				r.fail(i, "c06bls-create-roundtrip", "BLSVerifyAggSig rejects the output of BLSCreateAggSig(keys(holders)=%s, pairs=%s): bits %x", w[1], w[2], gotBits)
			}
		}
		return corr.Hex(gotBits) + " " + b2s(sigOK)
	}
	return "bad-op"
}

func copy2(l [][]byte) [][]byte {
	res := make([][]byte, len(l))
	for i, x := range l {
		res[i] = append([]byte{}, x...)
	}
	return res
}

func equal2(a, b [][]byte) bool {
	if len(a) != len(b) {
		return false
	}
	for i := range a {
		if !bytes.Equal(a[i], b[i]) {
			return false
		}
	}
	return true
}

func equalU(a, b []uint64) bool {
	if len(a) != len(b) {
		return false
	}
	for i := range a {
		if a[i] != b[i] {
			return false
		}
	}
	return true
}

func (prop) RunImpl(c corr.Case) ([]string, []corr.Fail) {
	r := &runner{}
	out := make([]string, 0, len(c.Ops))
	for i, op := range c.Ops {
		w := strings.Fields(op)
		line := func() (res string) {
			defer func() {
				if p := recover(); p != nil {
					res = "panic"
					r.fail(i, "c06bls-harness-panic", "%v", p)
				}
			}()
			return r.exec(i, w)
		}()
		out = append(out, line)
	}
	return out, r.fails
}

func (prop) Classify(c corr.Case, out []string) string {
	acc, rej, pan := 0, 0, 0
	for i, o := range out {
		if strings.HasPrefix(c.Ops[i], "reset") {
			continue
		}
		switch {
		case o == "true" || strings.HasSuffix(o, " true") || o == "1":
			acc++
		case o == "panic":
			pan++
		default:
			rej++
		}
	}
	if acc+rej+pan == 0 {
		return ""
	}
	cl := c.Tag + ":"
	if acc > 0 {
		cl += "a"
	}
	if rej > 0 {
		cl += "r"
	}
	if pan > 0 {
		cl += "p"
	}
	return cl
}

// sortedByKey orders holders by their real public key bytes (the order the engine uses).
func sortedByKey(seed int64, hs []int) []int {
	res := append([]int{}, hs...)
	sort.Slice(res, func(i, j int) bool { return bytes.Compare(holder(seed, res[i]).Pub, holder(seed, res[j]).Pub) < 0 })
	return res
}
