package c07

// The slot calculator (validator.BlockSlot: NewBlockSlot, GetSlotNumber, GetSlotTime) and the fork-choice
// predicates over explicit unix times.
//
// Ops (Go runner here, Lean side in lean/Driver/Fns.lean, both over the definitions regenerated from
// block_slot.go / fork_choice.go):
//
//	slot  <genesis> <blockTime> <t>   NewBlockSlot(genesis, blockTime); n = GetSlotNumber(t); prints "n GetSlotTime(n)"
//	slott <genesis> <blockTime> <k>   GetSlotTime(k) for any int k
//	fct   <genesis> <blockTime> <tip: height mhp id prev gen timestamp> <incoming: …> <recvTip|nil> <recvIncoming>
//	      the five forkChoice predicates and the class, header timestamps and receive times given in unix seconds
//
// The model-free oracle never asks BlockSlot what a slot is: LIP-0014 counts slots of blockTime seconds from the
// genesis timestamp, slot(t) = floor((t - genesis) / blockTime), computed here in uint64 arithmetic. Generated
// genesis timestamps take EVERY residue modulo the block time (small block times exhaustively), and header
// timestamps / receive times lie just before, at and just after slot boundaries.

import (
	"fmt"
	"math/rand"
	"runtime"
	"strconv"
	"time"

	"github.com/LiskHQ/lisk-engine/pkg/blockchain"
	"github.com/LiskHQ/lisk-engine/pkg/consensus/forkchoice"
	"github.com/LiskHQ/lisk-engine/pkg/consensus/validator"

	"verifharness/corr"
)

// refSlot: the LIP-0014 slot of t (defined for blockTime > 0 and t >= genesis)
func refSlot(g, bt, t uint32) (uint64, bool) {
	if bt == 0 || t < g {
		return 0, false
	}
	return (uint64(t) - uint64(g)) / uint64(bt), true
}

// zeroBlockTimeOK: int(float64 +Inf / NaN) is implementation-dependent; the regenerated definition states the
// amd64 value, so block time 0 is only generated there
var zeroBlockTimeOK = runtime.GOARCH == "amd64"

func slotCases(rng *rand.Rand, tier string) []corr.Case {
	var cases []corr.Case
	ops := []string{"reset"}
	flush := func(tag string) {
		if len(ops) > 1 {
			cases = append(cases, corr.Case{Ops: ops, Tag: tag})
		}
		ops = []string{"reset"}
	}
	// --- every residue of the genesis timestamp modulo small block times; times around the first boundaries
	maxBT := uint32(6)
	if tier == "thorough" {
		maxBT = 12
	}
	for bt := uint32(1); bt <= maxBT; bt++ {
		for _, base := range []uint32{0, 1_700_000_000 - 1_700_000_000%bt, 1_000_000 - 1_000_000%bt} {
			for r := uint32(0); r < bt; r++ {
				g := base + r
				for k := uint32(0); k <= 3; k++ {
					for _, d := range []uint32{^uint32(0), 0, 1, bt - 1} { // -1, 0, +1, last second of the slot
						ops = append(ops, fmt.Sprintf("slot %d %d %d", g, bt, g+k*bt+d))
					}
					ops = append(ops, fmt.Sprintf("slott %d %d %d", g, bt, k))
				}
			}
			flush("slot-all-residues")
		}
	}
	// --- random block times and genesis timestamps
	n := 40
	if tier == "thorough" {
		n = 2000
	}
	pickBT := func() uint32 {
		switch rng.Intn(12) {
		case 0:
			return 1
		case 1:
			return uint32(2 + rng.Intn(14))
		case 2:
			return 60
		case 3:
			return 99991
		case 4:
			return 100000
		case 5:
			return 1 << 31
		case 6:
			return ^uint32(0) - uint32(rng.Intn(2))
		case 7:
			return rng.Uint32() | 1
		case 8:
			if zeroBlockTimeOK {
				return 0
			}
			return 10
		default:
			return 10
		}
	}
	pickG := func(bt uint32) uint32 {
		var g uint32
		switch rng.Intn(6) {
		case 0:
			g = uint32(rng.Intn(50))
		case 1:
			g = ^uint32(0) - uint32(rng.Intn(1000))
		case 2:
			g = rng.Uint32()
		default:
			g = 1_500_000_000 + uint32(rng.Intn(300_000_000))
		}
		if bt > 0 && rng.Intn(5) == 0 {
			g -= g % bt // an aligned one now and then
		}
		return g
	}
	for i := 0; i < n; i++ {
		for j := 0; j < 40; j++ {
			bt := pickBT()
			g := pickG(bt)
			var k uint32
			switch rng.Intn(5) {
			case 0:
				k = 0
			case 1:
				k = uint32(rng.Intn(4))
			case 2:
				if bt > 0 {
					k = (^uint32(0) - g) / bt // last slot that starts inside the uint32 range
				}
			default:
				k = uint32(rng.Intn(1_000_000))
			}
			d := []uint32{^uint32(0), 0, 1, bt / 2, bt - 1, bt}[rng.Intn(6)]
			t := g + k*bt + d
			switch rng.Intn(8) {
			case 0:
				t = g - 1 - uint32(rng.Intn(100)) // before the genesis timestamp (uint32 wrap of `elapsed`)
			case 1:
				t = rng.Uint32()
			}
			if rng.Intn(4) == 0 {
				var kk int64
				switch rng.Intn(6) {
				case 0:
					kk = -int64(rng.Intn(5))
				case 1:
					kk = int64(rng.Uint32())
				case 2:
					kk = rng.Int63() - rng.Int63()
				case 3:
					kk = 1<<63 - 1 - int64(rng.Intn(3))
				default:
					kk = int64(k)
				}
				ops = append(ops, fmt.Sprintf("slott %d %d %d", g, bt, kk))
			} else {
				ops = append(ops, fmt.Sprintf("slot %d %d %d", g, bt, t))
			}
		}
		flush("slot-random")
	}
	// --- fork choice over explicit times: duplicates at the same height (tie-break territory), genesis timestamps
	// with every residue, timestamps and receive times on both sides of the slot boundaries
	m := 30
	if tier == "thorough" {
		m = 1500
	}
	fcBTs := []uint32{1, 2, 3, 5, 7, 10, 10, 10, 15, 60, 99991}
	for i := 0; i < m; i++ {
		bt := fcBTs[i%len(fcBTs)]
		var base uint32 = 1_000_000
		if rng.Intn(2) == 0 {
			base = 1_500_000_000 + uint32(rng.Intn(300_000_000))
		}
		base -= base % bt
		for j := 0; j < 40; j++ {
			g := base + uint32(j)%bt // residues 0 .. bt-1 in turn
			if bt > 40 {
				g = base + []uint32{0, 1, bt / 2, bt - 1, uint32(rng.Intn(int(bt)))}[rng.Intn(5)]
			}
			// a time of slot s: first second, last second, or somewhere inside
			inSlot := func(s uint32) uint32 {
				switch rng.Intn(3) {
				case 0:
					return g + s*bt
				case 1:
					return g + s*bt + bt - 1
				}
				return g + s*bt + uint32(rng.Intn(int(bt)))
			}
			// a time around slot s that is NOT in it (when possible), close to its boundaries
			offSlot := func(s uint32) uint32 {
				switch rng.Intn(3) {
				case 0:
					if s > 0 {
						return g + s*bt - 1
					}
					return g + (s+1)*bt
				case 1:
					return g + (s+1)*bt
				}
				return g + (s+1)*bt + uint32(rng.Intn(int(2*bt)))
			}
			sl := uint32(rng.Intn(6))
			sc := sl + uint32(rng.Intn(3))
			if rng.Intn(6) == 0 && sl > 0 {
				sc = sl - 1
			}
			id := func() string { return fmt.Sprintf("%02d", 1+rng.Intn(3)) }
			lh := uint32(1 + rng.Intn(4))
			ch, lp := lh, rng.Intn(3)
			cp := lp
			prevL, prevC := "09", "09"
			lid, cid := "01", "02"
			lgen, cgen := id(), id()
			if rng.Intn(4) == 0 { // leave the duplicate-block shape
				ch = lh + uint32(rng.Intn(3)) - 1
				cp = rng.Intn(3)
				prevL, prevC, lid, cid = id(), id(), id(), id()
			}
			recvLast := "nil"
			switch rng.Intn(5) {
			case 0:
			case 1, 2:
				recvLast = strconv.FormatUint(uint64(offSlot(sl)), 10)
			default:
				recvLast = strconv.FormatUint(uint64(inSlot(sl)), 10)
			}
			recvCur := inSlot(sc)
			if rng.Intn(3) == 0 {
				recvCur = offSlot(sc)
			}
			ops = append(ops, fmt.Sprintf("fct %d %d %d %d %s %s %s %d %d %d %s %s %s %d %s %d",
				g, bt, lh, lp, lid, prevL, lgen, inSlot(sl), ch, cp, cid, prevC, cgen, inSlot(sc), recvLast, recvCur))
		}
		flush("fc-timed")
	}
	return cases
}

func pi64(s string) int64 {
	n, err := strconv.ParseInt(s, 10, 64)
	if err != nil {
		panic(err)
	}
	return n
}

// runSlotOp executes one slot / slott / fct op on the real code (under recover) and judges it.
func runSlotOp(w []string, op string, i int) (out string, fails []corr.Fail) {
	defer func() {
		if r := recover(); r != nil {
			out = "panic"
			fails = append(fails, corr.Fail{Sig: "slot-calculator-panic", Detail: fmt.Sprintf("%s: %v", op, r), Op: i})
		}
	}()
	fail := func(sig, detail string) {
		fails = append(fails, corr.Fail{Sig: sig, Detail: op + ": " + detail, Op: i})
	}
	g, bt := pu(w[1]), pu(w[2])
	bs := validator.NewBlockSlot(g, bt)
	switch w[0] {
	case "slot":
		t := pu(w[3])
		n := bs.GetSlotNumber(t)
		st := bs.GetSlotTime(n)
		if want, ok := refSlot(g, bt, t); ok {
			if n < 0 || uint64(n) != want {
				fail("slot-number-differs-from-LIP14-grid", fmt.Sprintf("GetSlotNumber(%d) = %d with genesis %d (residue %d) and block time %d; floor((t-genesis)/blockTime) = %d", t, n, g, g%bt, bt, want))
			} else if first := uint64(g) + want*uint64(bt); uint64(st) != first {
				fail("slot-time-differs-from-genesis-plus-k-blocktimes", fmt.Sprintf("GetSlotTime(%d) = %d, genesis + k*blockTime = %d", n, st, first))
			}
		}
		return fmt.Sprintf("%d %d", n, st), fails
	case "slott":
		k := pi64(w[3])
		st := bs.GetSlotTime(int(k))
		if k >= 0 && uint64(k) < 1<<32 {
			if first := uint64(g) + uint64(k)*uint64(bt); first < 1<<32 {
				if uint64(st) != first {
					fail("slot-time-differs-from-genesis-plus-k-blocktimes", fmt.Sprintf("GetSlotTime(%d) = %d, genesis + k*blockTime = %d", k, st, first))
				} else if bt > 0 {
					if n := bs.GetSlotNumber(st); int64(n) != k {
						fail("slot-number-differs-from-LIP14-grid", fmt.Sprintf("GetSlotNumber(GetSlotTime(%d)) = %d (genesis %d, residue %d, block time %d)", k, n, g, g%bt, bt))
					}
				}
			}
		}
		return strconv.FormatUint(uint64(st), 10), fails
	case "fct":
		mk := func(f []string) *blockchain.BlockHeader {
			return &blockchain.BlockHeader{Version: 2, Height: pu(f[0]), MaxHeightPrevoted: pu(f[1]), ID: corr.UnHex(f[2]),
				PreviousBlockID: corr.UnHex(f[3]), GeneratorAddress: corr.UnHex(f[4]), Timestamp: pu(f[5])}
		}
		last, cur := mk(w[3:9]), mk(w[9:15])
		var recvLast *time.Time
		if w[15] != "nil" {
			t := time.Unix(int64(pu(w[15])), 0)
			recvLast = &t
		}
		recvCur := pu(w[16])
		fc, err := forkchoice.VerifNewForkChoiceAt(last, cur, bs, recvLast, time.Unix(int64(recvCur), 0))
		if err != nil {
			return "err", fails
		}
		class := "discard"
		switch {
		case fc.IsIdenticalBlock():
			class = "identical"
		case fc.IsValidBlock():
			class = "extendsTip"
		case fc.IsDoubleForging():
			class = "doubleForging"
		case fc.IsTieBreak():
			class = "tieBreak"
		case fc.IsDifferentChain():
			class = "betterChain"
		}
		// receive times carry nanoseconds in the node (time.Now()); the protocol counts whole seconds: the same
		// second with any sub-second fraction must give the same classification (truncation, not rounding)
		for _, ns := range []int64{1e6, 499e6, 500e6, 999e6} {
			var rl *time.Time
			if recvLast != nil {
				t := time.Unix(recvLast.Unix(), ns)
				rl = &t
			}
			for _, which := range []string{"incoming", "tip", "both"} {
				rc := time.Unix(int64(recvCur), 0)
				rl2 := recvLast
				if which != "tip" {
					rc = time.Unix(int64(recvCur), ns)
				}
				if which != "incoming" {
					rl2 = rl
				}
				fc2, err2 := forkchoice.VerifNewForkChoiceAt(last, cur, bs, rl2, rc)
				if err2 != nil {
					continue
				}
				got := fmt.Sprintf("%v %v %v %v %v", fc2.IsIdenticalBlock(), fc2.IsValidBlock(), fc2.IsDoubleForging(), fc2.IsTieBreak(), fc2.IsDifferentChain())
				base := fmt.Sprintf("%v %v %v %v %v", fc.IsIdenticalBlock(), fc.IsValidBlock(), fc.IsDoubleForging(), fc.IsTieBreak(), fc.IsDifferentChain())
				if got != base {
					fail("fork-choice-depends-on-subsecond-receive-time", fmt.Sprintf("receive time of the %s block(s) + %d ms within the same second: predicates %s, with whole seconds %s (class %s)", which, ns/1e6, got, base, class))
				}
			}
		}
		// LIP-0014 on the op's own fields and the harness's own slot arithmetic
		lslot, ok1 := refSlot(g, bt, last.Timestamp)
		cslot, ok2 := refSlot(g, bt, cur.Timestamp)
		nslot, ok3 := refSlot(g, bt, recvCur)
		lastInSlot, ok4 := true, true
		if recvLast != nil {
			var s uint64
			s, ok4 = refSlot(g, bt, pu(w[15]))
			lastInSlot = s == lslot
		}
		if ok1 && ok2 && ok3 && ok4 {
			dup := w[3] == w[9] && w[4] == w[10] && w[6] == w[12]
			want := "discard"
			switch {
			case w[5] == w[11]:
				want = "identical"
			case last.Height+1 == cur.Height && w[5] == w[12]:
				want = "extendsTip"
			case dup && w[7] == w[13]:
				want = "doubleForging"
			case dup && lslot < cslot && !lastInSlot && nslot == cslot:
				want = "tieBreak"
			case lexLess(last.MaxHeightPrevoted, last.Height, cur.MaxHeightPrevoted, cur.Height):
				want = "betterChain"
			}
			if class != want {
				fail("fork-choice-slot-classification-differs-from-LIP14", fmt.Sprintf("got %s want %s (genesis %d, residue %d mod block time %d; LIP-0014 slots: tip %d, incoming %d, received in %d, tip received in its slot: %v)",
					class, want, g, g%bt, bt, lslot, cslot, nslot, lastInSlot))
			}
		}
		return fmt.Sprintf("%v %v %v %v %v %s", fc.IsIdenticalBlock(), fc.IsValidBlock(), fc.IsDoubleForging(), fc.IsTieBreak(), fc.IsDifferentChain(), class), fails
	}
	return "bad-op", fails
}
