// Package c07: correspondence between the real contradiction / fork-choice functions and the Lean
// definitions regenerated from their source (validates the fngen translator), plus oracles for
// symmetry and the LIP-0014 order that need no model.
package c07

import (
	"bytes"
	"fmt"
	"math/rand"
	"strconv"
	"strings"
	"time"

	"github.com/LiskHQ/lisk-engine/pkg/blockchain"
	"github.com/LiskHQ/lisk-engine/pkg/consensus/contradiction"
	"github.com/LiskHQ/lisk-engine/pkg/consensus/forkchoice"
	"github.com/LiskHQ/lisk-engine/pkg/consensus/liskbft"
	"github.com/LiskHQ/lisk-engine/pkg/consensus/validator"

	"verifharness/corr"
)

type prop struct{}

func init() { corr.Register(prop{}) }

func (prop) ID() string    { return "C07" }
func (prop) Parallel() int { return 8 }

const blockTime = 100000
const nowSlot = 50

func u32(rng *rand.Rand) uint32 {
	switch rng.Intn(6) {
	case 0:
		return uint32(rng.Intn(5))
	case 1:
		return ^uint32(0) - uint32(rng.Intn(3))
	case 2:
		return rng.Uint32()
	default:
		return uint32(rng.Intn(12))
	}
}

func (prop) Generate(rng *rand.Rand, tier string) []corr.Case {
	var cases []corr.Case
	// exhaustive: all header pairs with fields in {0..R}
	R := 3
	if tier == "thorough" {
		R = 4
	}
	ops := []string{"reset"}
	flush := func(tag string) {
		if len(ops) > 1 {
			cases = append(cases, corr.Case{Ops: ops, Tag: tag})
		}
		ops = []string{"reset"}
	}
	for h1 := 0; h1 <= R; h1++ {
		for g1 := 0; g1 <= R; g1++ {
			for p1 := 0; p1 <= R; p1++ {
				for h2 := 0; h2 <= R; h2++ {
					for g2 := 0; g2 <= R; g2++ {
						for p2 := 0; p2 <= R; p2++ {
							for ga := 0; ga < 2; ga++ {
								ops = append(ops, fmt.Sprintf("contra %d 01 %d %d %d %02d %d %d", h1, g1, p1, h2, 1+ga, g2, p2))
							}
						}
					}
				}
				flush("exhaustive-pairs")
			}
		}
	}
	n := 300
	if tier == "thorough" {
		n = 20000
	}
	for i := 0; i < n; i++ {
		for j := 0; j < 40; j++ {
			switch rng.Intn(4) {
			case 0:
				ops = append(ops, fmt.Sprintf("contra %d %02d %d %d %d %02d %d %d", u32(rng), 1+rng.Intn(2), u32(rng), u32(rng), u32(rng), 1+rng.Intn(2), u32(rng), u32(rng)))
			case 1:
				ops = append(ops, fmt.Sprintf("diffchain %d %d %d %d", u32(rng), u32(rng), u32(rng), u32(rng)))
			case 2:
				ops = append(ops, fmt.Sprintf("prio %d %d %d %d %d", rng.Intn(3), u32(rng), u32(rng), u32(rng), u32(rng)))
			default:
				// fork choice: tip and incoming header drawn from a tiny space so that every class occurs
				id := func() string { return fmt.Sprintf("%02d", 1+rng.Intn(3)) }
				lh := uint32(rng.Intn(4))
				if rng.Intn(8) == 0 {
					lh = ^uint32(0)
				}
				ch := lh + uint32(rng.Intn(3)) - 1
				if rng.Intn(4) == 0 {
					ch = u32(rng)
				}
				recvLast := strconv.Itoa(rng.Intn(3) + nowSlot - 2)
				if rng.Intn(4) == 0 {
					recvLast = "nil"
				}
				ops = append(ops, fmt.Sprintf("fc %d %d %s %s %s %d %d %d %s %s %s %d %s",
					lh, rng.Intn(3), id(), id(), id(), nowSlot-2+rng.Intn(3),
					ch, rng.Intn(3), id(), id(), id(), nowSlot-2+rng.Intn(3), recvLast))
			}
		}
		flush("random")
	}
	// the slot calculator and fork choice over explicit times (slot.go)
	cases = append(cases, slotCases(rng, tier)...)
	return cases
}

type hdr struct {
	h, g, p uint32
	gen    []byte
}

func (x hdr) Height() uint32             { return x.h }
func (x hdr) GeneratorAddress() []byte   { return x.gen }
func (x hdr) MaxHeightGenerated() uint32 { return x.g }
func (x hdr) MaxHeightPrevoted() uint32  { return x.p }

func pu(s string) uint32 {
	n, err := strconv.ParseUint(s, 10, 32)
	if err != nil {
		panic(err)
	}
	return uint32(n)
}

func lexLess(p1, h1, p2, h2 uint32) bool { return p1 < p2 || (p1 == p2 && h1 < h2) }

func (prop) RunImpl(c corr.Case) ([]string, []corr.Fail) {
	out := make([]string, 0, len(c.Ops))
	var fails []corr.Fail
	api := liskbft.NewModule().API()
	for i, op := range c.Ops {
		w := strings.Fields(op)
		switch w[0] {
		case "reset":
			out = append(out, "ok")
		case "contra":
			a := hdr{h: pu(w[1]), gen: corr.UnHex(w[2]), g: pu(w[3]), p: pu(w[4])}
			b := hdr{h: pu(w[5]), gen: corr.UnHex(w[6]), g: pu(w[7]), p: pu(w[8])}
			r := contradiction.AreDistinctHeadersContradicting(a, b)
			r2 := contradiction.AreDistinctHeadersContradicting(b, a)
			if r != r2 {
				fails = append(fails, corr.Fail{Sig: "contradiction-not-symmetric", Detail: op, Op: i})
			}
			if string(a.gen) != string(b.gen) && r {
				fails = append(fails, corr.Fail{Sig: "different-generators-contradict", Detail: op, Op: i})
			}
			if string(a.gen) == string(b.gen) {
				legit := func(e, l hdr) bool {
					return e.h <= l.g && e.g <= l.g && e.p <= l.p && (e.p != l.p || e.h < l.h)
				}
				if r == (legit(a, b) || legit(b, a)) {
					fails = append(fails, corr.Fail{Sig: "contradiction-differs-from-LIP14", Detail: op + fmt.Sprintf(" got %v", r), Op: i})
				}
			}
			// the pairwise API entry point (liskbft.API.AreHeadersContradicting): two SEALED headers with
			// different ids must get the verdict of the pairwise rule (also when all four BFT fields agree -
			// the canonical double-forging pair), one and the same header (equal id) never contradicts itself
			sealed := func(x hdr, id byte) blockchain.SealedBlockHeader {
				return (&blockchain.BlockHeader{ID: bytes.Repeat([]byte{id}, 32), Version: 2, Height: x.h, GeneratorAddress: x.gen,
					MaxHeightGenerated: x.g, MaxHeightPrevoted: x.p}).Readonly()
			}
			if ra, err := api.AreHeadersContradicting(sealed(a, 1), sealed(b, 2)); err != nil || ra != r {
				fails = append(fails, corr.Fail{Sig: "api-pairwise-contradiction-differs-from-rule", Detail: fmt.Sprintf("%s: API.AreHeadersContradicting on distinct ids = %v (err %v), pairwise rule = %v", op, ra, err, r), Op: i})
			}
			if rb, err := api.AreHeadersContradicting(sealed(b, 2), sealed(a, 1)); err != nil || rb != r {
				fails = append(fails, corr.Fail{Sig: "api-pairwise-contradiction-differs-from-rule", Detail: fmt.Sprintf("%s (swapped): API.AreHeadersContradicting = %v (err %v), pairwise rule = %v", op, rb, err, r), Op: i})
			}
			if rs, err := api.AreHeadersContradicting(sealed(a, 7), sealed(a, 7)); err != nil || rs {
				fails = append(fails, corr.Fail{Sig: "api-header-contradicts-itself", Detail: fmt.Sprintf("%s: the same sealed header = %v (err %v)", op, rs, err), Op: i})
			}
			out = append(out, strconv.FormatBool(r))
		case "diffchain":
			r := forkchoice.IsDifferentChain(pu(w[1]), pu(w[2]), pu(w[3]), pu(w[4]))
			if r != lexLess(pu(w[1]), pu(w[3]), pu(w[2]), pu(w[4])) {
				fails = append(fails, corr.Fail{Sig: "different-chain-not-lex-order", Detail: op, Op: i})
			}
			out = append(out, strconv.FormatBool(r))
		case "prio":
			h := &blockchain.BlockHeader{Version: pu(w[1]), Height: pu(w[2]), MaxHeightPrevoted: pu(w[3])}
			r, err := api.HeaderHasPriority(nil, h.Readonly(), pu(w[4]), pu(w[5]), 0)
			if err != nil {
				out = append(out, "err")
				break
			}
			if h.Version != 0 && r != lexLess(pu(w[5]), pu(w[4]), h.MaxHeightPrevoted, h.Height) {
				fails = append(fails, corr.Fail{Sig: "header-priority-not-lex-order", Detail: op, Op: i})
			}
			out = append(out, strconv.FormatBool(r))
		case "fc":
			now := uint32(time.Now().Unix())
			genesis := now - blockTime/2 - nowSlot*blockTime
			ts := func(slot string) uint32 { return genesis + pu(slot)*blockTime + blockTime/2 }
			mk := func(f []string) *blockchain.BlockHeader {
				return &blockchain.BlockHeader{Version: 2, Height: pu(f[0]), MaxHeightPrevoted: pu(f[1]), ID: corr.UnHex(f[2]),
					PreviousBlockID: corr.UnHex(f[3]), GeneratorAddress: corr.UnHex(f[4]), Timestamp: ts(f[5])}
			}
			last, cur := mk(w[1:7]), mk(w[7:13])
			var recvLast *time.Time
			if w[13] != "nil" {
				t := time.Unix(int64(ts(w[13])), 0)
				recvLast = &t
			}
			fc, err := forkchoice.NewForkChoice(last, cur, validator.NewBlockSlot(genesis, blockTime), recvLast)
			if err != nil {
				out = append(out, "err")
				break
			}
			class := "discard"
			switch {
			case fc.IsIdenticalBlock():
				class = "identical"
			case fc.IsValidBlock():
				class = "extendsTip"
			case fc.IsDoubleForging():
				class = "doubleForging"
			case fc.IsTieBreak():
				class = "tieBreak"
			case fc.IsDifferentChain():
				class = "betterChain"
			}
			// independent LIP-0014 reference on the op's own fields (slots are given in the op; the wall clock is in
			// slot nowSlot by construction of genesis)
			{
				lslot, cslot := int(pu(w[6])), int(pu(w[12]))
				dup := w[1] == w[7] && w[2] == w[8] && w[4] == w[10]
				lastInSlot := w[13] == "nil" || int(pu(w[13])) == lslot
				want := "discard"
				switch {
				case w[3] == w[9]:
					want = "identical"
				case pu(w[1])+1 == pu(w[7]) && w[3] == w[10]:
					want = "extendsTip"
				case dup && w[5] == w[11]:
					want = "doubleForging"
				case dup && lslot < cslot && !lastInSlot && cslot == nowSlot:
					want = "tieBreak"
				case lexLess(pu(w[2]), pu(w[1]), pu(w[8]), pu(w[7])):
					want = "betterChain"
				}
				if class != want {
					fails = append(fails, corr.Fail{Sig: "fork-choice-class-differs-from-LIP14", Detail: fmt.Sprintf("%s: got %s want %s", op, class, want), Op: i})
				}
			}
			if class == "betterChain" && !lexLess(last.MaxHeightPrevoted, last.Height, cur.MaxHeightPrevoted, cur.Height) {
				fails = append(fails, corr.Fail{Sig: "better-chain-not-lex-larger", Detail: op, Op: i})
			}
			out = append(out, fmt.Sprintf("%v %v %v %v %v %s", fc.IsIdenticalBlock(), fc.IsValidBlock(), fc.IsDoubleForging(), fc.IsTieBreak(), fc.IsDifferentChain(), class))
		case "slot", "slott", "fct":
			o, fs := runSlotOp(w, op, i)
			out = append(out, o)
			fails = append(fails, fs...)
		default:
			out = append(out, "bad-op")
		}
	}
	return out, fails
}

func (prop) Classify(c corr.Case, out []string) string {
	kinds := map[string]bool{}
	for i, o := range out {
		if i == 0 {
			continue
		}
		f := strings.Fields(o)
		kinds[strings.Fields(c.Ops[i])[0]+":"+f[len(f)-1]] = true
	}
	if len(kinds) < 2 {
		return ""
	}
	return fmt.Sprintf("%d-kinds", len(kinds))
}
