// Package c20: model-free concurrency oracles for the shared chain data (block cache, bulk lookups of
// blockchain.DataAccess, certificate pool, event emitter, staged store views). The same scenarios
// are run by `vh C20` (progress watchdog, exactly-once and tip-consistency oracles) and by the
// `c20race` test package under the Go race detector.
package c20

import (
	"bytes"
	"errors"
	"fmt"
	"math/rand"
	"sort"
	"sync"
	"sync/atomic"
	"time"

	"github.com/LiskHQ/lisk-engine/pkg/blockchain"
	"github.com/LiskHQ/lisk-engine/pkg/codec"
	"github.com/LiskHQ/lisk-engine/pkg/consensus/certificate"
	"github.com/LiskHQ/lisk-engine/pkg/crypto"
	"github.com/LiskHQ/lisk-engine/pkg/db"
	"github.com/LiskHQ/lisk-engine/pkg/db/diffdb"
	"github.com/LiskHQ/lisk-engine/pkg/event"

	"verifharness/corr"
)

// Stall is the time without any progress after which a scenario is declared hung.
var Stall = 3 * time.Second

func rbytes(rng *rand.Rand, n int) []byte {
	b := make([]byte, n)
	for i := range b {
		b[i] = byte(rng.Intn(256))
	}
	return b
}

// MkBlock builds an initialised block of the given height with ntx transactions.
func MkBlock(rng *rand.Rand, h uint32, ntx int) *blockchain.Block {
	b := &blockchain.Block{Header: &blockchain.BlockHeader{Version: 2, Height: h, Timestamp: h * 10, PreviousBlockID: rbytes(rng, 32),
		GeneratorAddress: rbytes(rng, 20), TransactionRoot: rbytes(rng, 32), EventRoot: rbytes(rng, 32),
		AssetRoot: rbytes(rng, 32), StateRoot: rbytes(rng, 32), ValidatorsHash: rbytes(rng, 32),
		AggregateCommit: &blockchain.AggregateCommit{Height: 0, AggregationBits: []byte{}, CertificateSignature: []byte{}},
		Signature:       rbytes(rng, 64)}, Assets: blockchain.BlockAssets{}, Transactions: []*blockchain.Transaction{}}
	for i := 0; i < ntx; i++ {
		b.Transactions = append(b.Transactions, &blockchain.Transaction{Module: "token", Command: "transfer", Nonce: uint64(rng.Intn(1000)), Fee: uint64(rng.Intn(1000)),
			SenderPublicKey: rbytes(rng, 32), Params: rbytes(rng, 1+rng.Intn(20)), Signatures: []codec.Hex{rbytes(rng, 64)}})
	}
	b.Init()
	return b
}

// World is a chain over an in-memory database with `stable` blocks that are never removed.
type World struct {
	DB     *db.DB
	Chain  *blockchain.Chain
	Blocks []*blockchain.Block // Blocks[h] is the stable block of height h (0 = genesis)
	Cache  int
}

// NewWorld builds a chain with heights 0..n (n >= 0), every block added through Chain.AddBlock.
func NewWorld(rng *rand.Rand, n int, cache int, maxTx int) (*World, error) {
	database, err := db.NewInMemoryDB()
	if err != nil {
		return nil, err
	}
	chain := blockchain.NewChain(&blockchain.ChainConfig{ChainID: []byte{0, 0, 0, 0}, MaxTransactionsLength: 15 * 1024, MaxBlockCache: cache})
	w := &World{DB: database, Chain: chain, Cache: cache}
	gen := MkBlock(rng, 0, 0)
	chain.Init(gen, database)
	for h := 0; h <= n; h++ {
		b := gen
		if h > 0 {
			ntx := 0
			if maxTx > 0 {
				ntx = rng.Intn(maxTx + 1)
			}
			b = MkBlock(rng, uint32(h), ntx)
		}
		if err := chain.AddBlock(database.NewBatch(), b, []*blockchain.Event{}, 0, false); err != nil {
			return nil, err
		}
		w.Blocks = append(w.Blocks, b)
	}
	return w, nil
}

func (w *World) Close() { _ = w.DB.Close() }

// watchdog runs fn on its own goroutine and waits until it returns or `progress` stops moving.
// It returns false when the scenario hung (its goroutines are then leaked on purpose).
func watchdog(progress *int64, fn func()) bool {
	done := make(chan struct{})
	go func() {
		defer close(done)
		fn()
	}()
	last := atomic.LoadInt64(progress)
	lastMove := time.Now()
	tick := time.NewTicker(20 * time.Millisecond)
	defer tick.Stop()
	for {
		select {
		case <-done:
			return true
		case <-tick.C:
			p := atomic.LoadInt64(progress)
			if p != last {
				last, lastMove = p, time.Now()
			} else if time.Since(lastMove) > Stall {
				return false
			}
		}
	}
}

type failSet struct {
	mu    sync.Mutex
	fails []corr.Fail
	seen  map[string]int
}

func (f *failSet) add(sig, detail string) {
	f.mu.Lock()
	defer f.mu.Unlock()
	if f.seen == nil {
		f.seen = map[string]int{}
	}
	f.seen[sig]++
	if f.seen[sig] <= 2 {
		f.fails = append(f.fails, corr.Fail{Sig: sig, Detail: detail, Op: -1})
	}
}

// note records an observation that is not a violation of the property (counted, never reported as a failure)
func (f *failSet) note(sig, detail string) {
	f.mu.Lock()
	defer f.mu.Unlock()
	if f.seen == nil {
		f.seen = map[string]int{}
	}
	f.seen["note:"+sig]++
	_ = detail
}

func sortedHex(ids [][]byte) []string {
	r := make([]string, len(ids))
	for i, id := range ids {
		r[i] = fmt.Sprintf("%x", id)
	}
	sort.Strings(r)
	return r
}

func sameMultiset(a, b [][]byte) bool {
	x, y := sortedHex(a), sortedHex(b)
	if len(x) != len(y) {
		return false
	}
	for i := range x {
		if x[i] != y[i] {
			return false
		}
	}
	return true
}

// BulkSpec describes one bulk-lookup request: indices into the stable blocks (may repeat) plus a
// number of identifiers that do not exist.
type BulkSpec struct {
	Heights []int
	Missing int
}

// CheckBulk performs the four bulk lookups once and checks that every existing requested item comes
// back exactly once per request (model-free: the expectation is computed from the blocks themselves).
func CheckBulk(w *World, rng *rand.Rand, spec BulkSpec, fs *failSet) {
	da := w.Chain.DataAccess()
	var ids, wantIDs, txIDs, wantTx [][]byte
	var heights []uint32
	for _, h := range spec.Heights {
		b := w.Blocks[h]
		ids = append(ids, b.Header.ID)
		wantIDs = append(wantIDs, b.Header.ID)
		heights = append(heights, uint32(h))
		for _, tx := range b.Transactions {
			txIDs = append(txIDs, tx.ID)
			wantTx = append(wantTx, tx.ID)
		}
	}
	for i := 0; i < spec.Missing; i++ {
		pos := 0
		if len(ids) > 0 {
			pos = rng.Intn(len(ids) + 1)
		}
		ids = append(ids[:pos], append([][]byte{rbytes(rng, 32)}, ids[pos:]...)...)
		heights = append(heights, uint32(1000000+rng.Intn(1000)))
		txIDs = append(txIDs, rbytes(rng, 32))
	}
	hs, err := da.GetBlockHeaders(ids)
	if err != nil {
		fs.add("c20-bulk-error", "GetBlockHeaders: "+err.Error())
	} else {
		got := [][]byte{}
		for _, h := range hs {
			got = append(got, h.ID)
		}
		if !sameMultiset(got, wantIDs) {
			fs.add("c20-bulk-headers-by-id-not-exactly-once", fmt.Sprintf("requested %d ids (%d existing): got %d headers", len(ids), len(wantIDs), len(got)))
		}
	}
	hs, err = da.GetBlockHeadersByHeights(heights)
	if err != nil {
		fs.add("c20-bulk-error", "GetBlockHeadersByHeights: "+err.Error())
	} else {
		got := [][]byte{}
		for _, h := range hs {
			got = append(got, h.ID)
		}
		if !sameMultiset(got, wantIDs) {
			fs.add("c20-bulk-headers-by-height-not-exactly-once", fmt.Sprintf("requested %d heights (%d existing): got %d headers", len(heights), len(wantIDs), len(got)))
		}
	}
	txs, err := da.GetTransactions(txIDs)
	if err != nil {
		fs.add("c20-bulk-error", "GetTransactions: "+err.Error())
	} else {
		got := [][]byte{}
		for _, tx := range txs {
			got = append(got, tx.ID)
		}
		if !sameMultiset(got, wantTx) {
			fs.add("c20-bulk-transactions-not-exactly-once", fmt.Sprintf("requested %d ids (%d existing): got %d transactions", len(txIDs), len(wantTx), len(got)))
		}
	}
}

// CheckRange checks GetBlocksBetweenHeight on a stable range: every height exactly once, ascending.
func CheckRange(w *World, from, to int, fs *failSet) {
	blocks, err := w.Chain.DataAccess().GetBlocksBetweenHeight(uint32(from), uint32(to))
	if err != nil {
		fs.add("c20-bulk-error", "GetBlocksBetweenHeight: "+err.Error())
		return
	}
	if len(blocks) != to-from+1 {
		fs.add("c20-bulk-range-not-exactly-once", fmt.Sprintf("range %d..%d returned %d blocks", from, to, len(blocks)))
		return
	}
	for i, b := range blocks {
		if b == nil || b.Header == nil || int(b.Header.Height) != from+i || !bytes.Equal(b.Header.ID, w.Blocks[from+i].Header.ID) {
			fs.add("c20-bulk-range-not-exactly-once", fmt.Sprintf("range %d..%d: position %d does not hold the block of height %d", from, to, i, from+i))
			return
		}
	}
}

// ScenarioBulk: `callers` goroutines repeat the bulk lookups `reps` times on a quiescent chain.
func ScenarioBulk(rng *rand.Rand, nblocks, cache, maxTx, callers, reps int, specs []BulkSpec) []corr.Fail {
	fs := &failSet{}
	w, err := NewWorld(rng, nblocks, cache, maxTx)
	if err != nil {
		return []corr.Fail{{Sig: "harness-error", Detail: err.Error(), Op: -1}}
	}
	var progress int64
	seeds := make([]int64, callers)
	for i := range seeds {
		seeds[i] = rng.Int63()
	}
	ok := watchdog(&progress, func() {
		var wg sync.WaitGroup
		for c := 0; c < callers; c++ {
			wg.Add(1)
			go func(c int) {
				defer wg.Done()
				r := rand.New(rand.NewSource(seeds[c]))
				for i := 0; i < reps; i++ {
					spec := specs[(i+c)%len(specs)]
					CheckBulk(w, r, spec, fs)
					if len(spec.Heights) > 0 {
						lo, hi := spec.Heights[0], spec.Heights[0]
						for _, h := range spec.Heights {
							if h < lo {
								lo = h
							}
							if h > hi {
								hi = h
							}
						}
						CheckRange(w, lo, hi, fs)
					}
					atomic.AddInt64(&progress, 1)
				}
			}(c)
		}
		wg.Wait()
	})
	if !ok {
		fs.add("c20-hang-bulk-lookup", "bulk lookups made no progress")
		return fs.fails
	}
	w.Close()
	return fs.fails
}

// checkTip: the block returned as tip must be complete and self-consistent and must be one of the
// blocks the writer ever committed at that height.
func checkTip(b *blockchain.Block, known map[uint32]map[string]bool, lo, hi uint32, fs *failSet, what string) {
	if b == nil || b.Header == nil {
		fs.add("c20-tip-nil", what+" returned no block")
		return
	}
	h := b.Header.Height
	if h < lo || h > hi {
		fs.add("c20-tip-height-out-of-range", fmt.Sprintf("%s: height %d outside %d..%d", what, h, lo, hi))
		return
	}
	if !bytes.Equal(crypto.Hash(b.Header.Encode()), b.Header.ID) {
		fs.add("c20-tip-id-mismatch", fmt.Sprintf("%s: ID is not the hash of the header at height %d", what, h))
		return
	}
	if !known[h][string(b.Header.ID)] {
		fs.add("c20-tip-not-committed", fmt.Sprintf("%s: block at height %d was never committed", what, h))
	}
}

// ScenarioTip: `readers` goroutines read the tip / headers / ranges while one writer adds and removes
// blocks through Chain.AddBlock / Chain.RemoveBlock on top of the stable prefix.
func ScenarioTip(rng *rand.Rand, stable, cache, readers, writes, churn int, withBulk bool) []corr.Fail {
	fs := &failSet{}
	w, err := NewWorld(rng, stable, cache, 2)
	if err != nil {
		return []corr.Fail{{Sig: "harness-error", Detail: err.Error(), Op: -1}}
	}
	if churn >= cache {
		churn = cache - 1
	}
	if churn < 1 {
		churn = 1
	}
	// candidate blocks of the churn region: two variants per height (forks)
	known := map[uint32]map[string]bool{}
	variants := map[uint32][]*blockchain.Block{}
	for h := 0; h <= stable; h++ {
		known[uint32(h)] = map[string]bool{string(w.Blocks[h].Header.ID): true}
	}
	for h := stable + 1; h <= stable+churn; h++ {
		known[uint32(h)] = map[string]bool{}
		for v := 0; v < 2; v++ {
			b := MkBlock(rng, uint32(h), rng.Intn(3))
			variants[uint32(h)] = append(variants[uint32(h)], b)
			known[uint32(h)][string(b.Header.ID)] = true
		}
	}
	plan := make([]int, writes) // 0 = add, 1 = remove, 2.. variant choice
	for i := range plan {
		plan[i] = rng.Intn(4)
	}
	seeds := make([]int64, readers)
	for i := range seeds {
		seeds[i] = rng.Int63()
	}
	var progress int64
	var stop int32
	ok := watchdog(&progress, func() {
		var wg sync.WaitGroup
		for r := 0; r < readers; r++ {
			wg.Add(1)
			go func(r int) {
				defer wg.Done()
				rr := rand.New(rand.NewSource(seeds[r]))
				da := w.Chain.DataAccess()
				for i := 0; atomic.LoadInt32(&stop) == 0; i++ {
					switch (r + i) % 6 {
					case 0, 1:
						checkTip(w.Chain.LastBlock(), known, uint32(stable), uint32(stable+churn), fs, "Chain.LastBlock")
					case 2:
						b, err := da.GetLastBlock()
						if err != nil {
							fs.add("c20-tip-nil", "DataAccess.GetLastBlock: "+err.Error())
						} else {
							checkTip(b, known, uint32(stable), uint32(stable+churn), fs, "DataAccess.GetLastBlock")
						}
					case 3:
						if withBulk && stable > 0 {
							n := 1 + rr.Intn(8)
							spec := BulkSpec{Missing: rr.Intn(2)}
							for k := 0; k < n; k++ {
								spec.Heights = append(spec.Heights, rr.Intn(stable+1))
							}
							CheckBulk(w, rr, spec, fs)
						}
					case 4:
						if withBulk && stable > 0 {
							lo := rr.Intn(stable + 1)
							hi := lo + rr.Intn(stable+1-lo)
							CheckRange(w, lo, hi, fs)
						}
					case 5:
						// headers of the churn region: present or absent, but never a wrong block
						h := uint32(stable + 1 + rr.Intn(churn))
						hd, err := da.GetBlockHeaderByHeight(h)
						if err == nil {
							if hd.Height != h || !known[h][string(hd.ID)] {
								fs.add("c20-header-by-height-wrong", fmt.Sprintf("height %d returned a header of height %d", h, hd.Height))
							}
						} else if !errors.Is(err, db.ErrDataNotFound) {
							fs.add("c20-bulk-error", "GetBlockHeaderByHeight: "+err.Error())
						}
					}
					atomic.AddInt64(&progress, 1)
				}
			}(r)
		}
		// the single writer (consensus goroutine)
		top := stable
		for _, p := range plan {
			if (p == 1 && top > stable) || top == stable+churn {
				if err := w.Chain.RemoveBlock(w.DB.NewBatch(), false); err != nil {
					fs.add("c20-writer-error", "RemoveBlock: "+err.Error())
				}
				top--
			} else {
				b := variants[uint32(top+1)][p%2]
				if err := w.Chain.AddBlock(w.DB.NewBatch(), b, []*blockchain.Event{}, 0, false); err != nil {
					fs.add("c20-writer-error", "AddBlock: "+err.Error())
				}
				top++
			}
			atomic.AddInt64(&progress, 1)
			if p == 3 {
				time.Sleep(50 * time.Microsecond)
			}
		}
		atomic.StoreInt32(&stop, 1)
		wg.Wait()
	})
	if !ok {
		fs.add("c20-hang-block-cache", "readers of the tip and the writer adding/removing blocks stopped making progress (blockCache lock)")
		return fs.fails
	}
	w.Close()
	return fs.fails
}

// ScenarioDrain: the writer removes `removals` blocks in a row (possibly more than the block cache
// holds) and adds them back, while readers keep asking for the tip: they must always obtain a complete
// committed block, and the writer must not fail.
func ScenarioDrain(rng *rand.Rand, nblocks, cache, removals, readers int) []corr.Fail {
	fs := &failSet{}
	w, err := NewWorld(rng, nblocks, cache, 1)
	if err != nil {
		return []corr.Fail{{Sig: "harness-error", Detail: err.Error(), Op: -1}}
	}
	if removals > nblocks {
		removals = nblocks
	}
	known := map[uint32]map[string]bool{}
	for h := 0; h <= nblocks; h++ {
		known[uint32(h)] = map[string]bool{string(w.Blocks[h].Header.ID): true}
	}
	var progress int64
	var stop int32
	ok := watchdog(&progress, func() {
		var wg sync.WaitGroup
		for r := 0; r < readers; r++ {
			wg.Add(1)
			go func() {
				defer wg.Done()
				defer func() {
					if p := recover(); p != nil {
						fs.add("c20-reader-panic", fmt.Sprint(p))
					}
				}()
				for atomic.LoadInt32(&stop) == 0 {
					if b := w.Chain.LastBlock(); b == nil {
						fs.add("c20-tip-nil-after-cache-drain", fmt.Sprintf("Chain.LastBlock returned nil while the chain holds blocks (cache size %d)", cache))
					} else {
						checkTip(b, known, uint32(nblocks-removals), uint32(nblocks), fs, "Chain.LastBlock")
					}
					if _, err := w.Chain.DataAccess().GetLastBlock(); err != nil {
						fs.add("c20-tip-nil-after-cache-drain", "DataAccess.GetLastBlock: "+err.Error())
					}
					atomic.AddInt64(&progress, 1)
				}
			}()
		}
		func() {
			defer func() {
				if p := recover(); p != nil {
					fs.add("c20-tip-nil-after-cache-drain", fmt.Sprintf("writer panicked after removing blocks in a row (cache size %d): %v", cache, p))
				}
			}()
			top := nblocks
			for i := 0; i < removals; i++ {
				if err := w.Chain.RemoveBlock(w.DB.NewBatch(), false); err != nil {
					fs.add("c20-writer-error", "RemoveBlock: "+err.Error())
				}
				top--
				b := w.Chain.LastBlock()
				if b == nil {
					fs.add("c20-tip-nil-after-cache-drain", fmt.Sprintf("after %d removals in a row Chain.LastBlock returned nil (cache size %d, tip height %d)", i+1, cache, top))
				} else if int(b.Header.Height) != top || !bytes.Equal(b.Header.ID, w.Blocks[top].Header.ID) {
					fs.add("c20-tip-wrong-after-removal", fmt.Sprintf("after %d removals the tip has height %d, expected %d", i+1, b.Header.Height, top))
				}
				atomic.AddInt64(&progress, 1)
			}
			for top < nblocks {
				top++
				if err := w.Chain.AddBlock(w.DB.NewBatch(), w.Blocks[top], []*blockchain.Event{}, 0, false); err != nil {
					fs.add("c20-writer-error", "AddBlock: "+err.Error())
				}
				if b := w.Chain.LastBlock(); b == nil || int(b.Header.Height) != top {
					fs.add("c20-tip-wrong-after-add", fmt.Sprintf("after re-adding height %d the tip is different", top))
				}
				atomic.AddInt64(&progress, 1)
			}
		}()
		atomic.StoreInt32(&stop, 1)
		wg.Wait()
	})
	if !ok {
		fs.add("c20-hang-block-cache", "tip readers and the writer stopped making progress (blockCache lock)")
		return fs.fails
	}
	w.Close()
	return fs.fails
}

// ---- certificate pool ---------------------------------------------------------------------

var commitOnce sync.Once
var commitStock []*certificate.SingleCommit

// stock of signed single commits (BLS signing is slow: built once)
func commits() []*certificate.SingleCommit {
	commitOnce.Do(func() {
		rng := rand.New(rand.NewSource(20))
		kp := crypto.BLSRandomKeyGen()
		for i := 0; i < 48; i++ {
			h := MkBlock(rng, uint32(1+i%12), 0).Header
			commitStock = append(commitStock, certificate.NewSingleCommit(h, rbytes(rng, 20), []byte{0, 0, 0, 0}, kp.PrivateKey))
		}
	})
	return commitStock
}

// ScenarioPool: concurrent Add / Has / Size / Get / Select / Upgrade / Cleanup on one pool.
func ScenarioPool(rng *rand.Rand, workers, iters int) []corr.Fail {
	fs := &failSet{}
	stock := commits()
	pool := certificate.NewPool()
	seeds := make([]int64, workers)
	for i := range seeds {
		seeds[i] = rng.Int63()
	}
	var progress int64
	var added sync.Map // commits added so far (pointer -> true)
	ok := watchdog(&progress, func() {
		var wg sync.WaitGroup
		for wk := 0; wk < workers; wk++ {
			wg.Add(1)
			go func(wk int) {
				defer wg.Done()
				r := rand.New(rand.NewSource(seeds[wk]))
				for i := 0; i < iters; i++ {
					c := stock[r.Intn(len(stock))]
					switch r.Intn(7) {
					case 0, 1:
						if !pool.Has(c) {
							added.Store(c, true)
							pool.Add(c)
						}
					case 2:
						_ = pool.Size()
					case 3:
						for _, sc := range pool.Get(c.Height()) {
							if sc.Height() != c.Height() {
								fs.add("c20-pool-get-wrong-height", fmt.Sprintf("Get(%d) returned a commit of height %d", c.Height(), sc.Height()))
							}
						}
					case 4:
						limit := 1 + r.Intn(6)
						sel := pool.Select(uint32(r.Intn(20)), limit)
						if len(sel) > limit {
							fs.add("c20-pool-select-over-limit", fmt.Sprintf("Select limit %d returned %d", limit, len(sel)))
						}
						for _, sc := range sel {
							if _, ok := added.Load(sc); !ok {
								fs.add("c20-pool-select-unknown", "Select returned a commit that was never added")
							}
						}
						if r.Intn(2) == 0 {
							pool.Upgrade(sel)
						}
					case 5:
						min := uint32(r.Intn(6))
						pool.Cleanup(func(h uint32) bool { return h >= min })
					case 6:
						_ = pool.Has(c)
					}
					atomic.AddInt64(&progress, 1)
				}
			}(wk)
		}
		wg.Wait()
	})
	if !ok {
		fs.add("c20-hang-certificate-pool", "certificate pool operations stopped making progress")
	}
	return fs.fails
}

// ---- event emitter ------------------------------------------------------------------------

// ScenarioEmitterLive: subscribers that keep receiving until their channel is closed, concurrent
// publishers, late subscribers, and a final Close. Synchronous delivery: a subscriber registered before
// the publishers start receives every message of its topic exactly once.
func ScenarioEmitterLive(rng *rand.Rand, subs, pubs, msgs int, late int, unsub bool) []corr.Fail {
	fs := &failSet{}
	ee := event.New()
	topics := []string{"a", "b"}
	type sub struct {
		topic string
		ch    chan interface{}
		count int64
		done  chan struct{}
	}
	var progress int64
	var all []*sub
	start := func(topic string) *sub {
		s := &sub{topic: topic, ch: ee.Subscribe(topic), done: make(chan struct{})}
		go func() {
			defer close(s.done)
			for range s.ch {
				atomic.AddInt64(&s.count, 1)
				atomic.AddInt64(&progress, 1)
			}
		}()
		return s
	}
	for i := 0; i < subs; i++ {
		all = append(all, start(topics[i%2]))
	}
	pubTopic := make([]string, pubs)
	for i := range pubTopic {
		pubTopic[i] = topics[rng.Intn(2)]
	}
	want := map[string]int64{}
	for _, t := range pubTopic {
		want[t] += int64(msgs)
	}
	var lateSubs []*sub
	var lateMu sync.Mutex
	var victim *sub
	ok := watchdog(&progress, func() {
		var wg sync.WaitGroup
		for p := 0; p < pubs; p++ {
			wg.Add(1)
			go func(p int) {
				defer wg.Done()
				for i := 0; i < msgs; i++ {
					ee.Publish(pubTopic[p], i)
					atomic.AddInt64(&progress, 1)
				}
			}(p)
		}
		for l := 0; l < late; l++ {
			wg.Add(1)
			go func(l int) {
				defer wg.Done()
				s := start(topics[l%2])
				lateMu.Lock()
				lateSubs = append(lateSubs, s)
				lateMu.Unlock()
				atomic.AddInt64(&progress, 1)
			}(l)
		}
		if unsub && late > 0 {
			// a live subscriber is unsubscribed by a third party while publishing goes on
			victim = start(topics[0])
			wg.Add(1)
			go func() {
				defer wg.Done()
				if err := ee.Unsubscribe(victim.topic, victim.ch); err != nil {
					fs.add("c20-emitter-unsubscribe-error", err.Error())
				}
				<-victim.done
				atomic.AddInt64(&progress, 1)
			}()
		}
		wg.Wait()
		_ = ee.Close()
		for _, s := range all {
			<-s.done
		}
		for _, s := range lateSubs {
			<-s.done
		}
	})
	if !ok {
		fs.add("c20-hang-emitter-live", "publish / subscribe / close with live subscribers stopped making progress")
		return fs.fails
	}
	for _, s := range all {
		if got := atomic.LoadInt64(&s.count); got != want[s.topic] {
			fs.add("c20-emitter-delivery-not-exactly-once", fmt.Sprintf("subscriber of %q received %d of %d messages", s.topic, got, want[s.topic]))
		}
	}
	for _, s := range lateSubs {
		if got := atomic.LoadInt64(&s.count); got > want[s.topic] {
			fs.add("c20-emitter-delivery-not-exactly-once", fmt.Sprintf("late subscriber of %q received %d > %d messages", s.topic, got, want[s.topic]))
		}
	}
	return fs.fails
}

// ScenarioEmitterStalled: a subscriber stops receiving while a Publish is in flight; Publish keeps the
// emitter lock across its blocking send, so every other emitter operation (here Unsubscribe / Close by
// the party that wants to shut the subscriber down) blocks for ever. Known finding.
func ScenarioEmitterStalled(useClose bool) []corr.Fail {
	ee := event.New()
	ch := ee.Subscribe("x")
	go func() {
		ee.Publish("x", 1)
		ee.Publish("x", 2) // nobody receives any more: blocked in the send, holding the lock
	}()
	<-ch // the publisher is running; from now on the subscriber stops receiving
	time.Sleep(30 * time.Millisecond)
	done := make(chan struct{})
	go func() {
		if useClose {
			_ = ee.Close()
		} else {
			_ = ee.Unsubscribe("x", ch)
		}
		close(done)
	}()
	select {
	case <-done:
		return nil
	case <-time.After(Stall / 3):
		// unblock the leaked goroutines
		go func() {
			for range ch {
			}
		}()
		<-done
		return []corr.Fail{{Sig: "c20-emitter-send-under-lock", Detail: "Publish holds the emitter lock across a blocking send: with a subscriber that stopped receiving, Unsubscribe/Close never return", Op: -1}}
	}
}

// ---- staged store views -------------------------------------------------------------------

// ScenarioViews: goroutines work on their own prefix view of one shared diffdb (Get / Set / Del /
// Range / Iterate / Has), views are created concurrently with snapshots being taken and restored on
// the root; afterwards every view must contain exactly what its owner wrote last.
func ScenarioViews(rng *rand.Rand, workers, iters int, snapshots bool, readOnly bool) []corr.Fail {
	fs := &failSet{}
	database, err := db.NewInMemoryDB()
	if err != nil {
		return []corr.Fail{{Sig: "harness-error", Detail: err.Error(), Op: -1}}
	}
	defer database.Close()
	batch := database.NewBatch()
	for i := 0; i < 8; i++ {
		batch.Set([]byte{0xaa, byte(i % 4), byte(i)}, []byte{byte(i)})
	}
	database.Write(batch)
	root := diffdb.New(database, []byte{0xaa})
	seeds := make([]int64, workers)
	for i := range seeds {
		seeds[i] = rng.Int63()
	}
	finals := make([]map[string][]byte, workers)
	var progress int64
	var stop int32
	ok := watchdog(&progress, func() {
		var wg, sg sync.WaitGroup
		if snapshots {
			// snapshots of the root are taken and dropped while views are created
			sg.Add(1)
			go func() {
				defer sg.Done()
				for atomic.LoadInt32(&stop) == 0 {
					id := root.Snapshot()
					if readOnly {
						// nothing is written in this mode: restoring does not change any content
						if err := root.RestoreSnapshot(id); err != nil {
							fs.add("c20-view-restore-error", err.Error())
						}
					} else {
						root.DeleteSnapshot(id)
					}
					atomic.AddInt64(&progress, 1)
				}
			}()
		}
		for wk := 0; wk < workers; wk++ {
			wg.Add(1)
			go func(wk int) {
				defer wg.Done()
				r := rand.New(rand.NewSource(seeds[wk]))
				prefix := []byte{byte(wk)}
				mine := map[string][]byte{}
				for i := 0; i < 8; i++ {
					if i%4 == wk%4 && wk < 4 {
						mine[string([]byte{byte(i)})] = []byte{byte(i)}
					}
				}
				for i := 0; i < iters; i++ {
					view := root.WithPrefix(prefix)
					k := []byte{byte(r.Intn(12))}
					op := r.Intn(6)
					if readOnly && op < 3 {
						op += 3
					}
					switch op {
					case 0, 1:
						v := rbytes(r, 1+r.Intn(3))
						view.Set(k, v)
						mine[string(k)] = v
					case 2:
						view.Del(k)
						delete(mine, string(k))
					case 3:
						v, ok := view.Get(k)
						want, wok := mine[string(k)]
						if ok != wok || (ok && !bytes.Equal(v, want)) {
							fs.add("c20-view-get-wrong", fmt.Sprintf("view %x key %x: got %x/%v want %x/%v", prefix, k, v, ok, want, wok))
						}
						if view.Has(k) != wok {
							fs.add("c20-view-get-wrong", fmt.Sprintf("view %x key %x: Has disagrees", prefix, k))
						}
					case 4:
						kvs := view.Iterate([]byte{}, -1, false)
						if len(kvs) != len(mine) {
							fs.add("c20-view-iterate-wrong", fmt.Sprintf("view %x: Iterate returned %d entries, owner wrote %d", prefix, len(kvs), len(mine)))
						}
					case 5:
						kvs := view.Range([]byte{0}, []byte{0xff}, -1, r.Intn(2) == 0)
						if len(kvs) != len(mine) {
							fs.add("c20-view-range-wrong", fmt.Sprintf("view %x: Range returned %d entries, owner wrote %d", prefix, len(kvs), len(mine)))
						}
					}
					atomic.AddInt64(&progress, 1)
				}
				finals[wk] = mine
			}(wk)
		}
		wg.Wait()
		atomic.StoreInt32(&stop, 1)
		sg.Wait()
	})
	if !ok {
		fs.add("c20-hang-diffdb-views", "staged store views stopped making progress")
		return fs.fails
	}
	for wk := 0; wk < workers; wk++ {
		view := root.WithPrefix([]byte{byte(wk)})
		kvs := view.Iterate([]byte{}, -1, false)
		if len(kvs) != len(finals[wk]) {
			fs.add("c20-view-final-wrong", fmt.Sprintf("view %02x holds %d entries, owner wrote %d", wk, len(kvs), len(finals[wk])))
			continue
		}
		for _, kv := range kvs {
			if want, ok := finals[wk][string(kv.Key())]; !ok || !bytes.Equal(want, kv.Value()) {
				fs.add("c20-view-final-wrong", fmt.Sprintf("view %02x key %x: %x, owner wrote %x", wk, kv.Key(), kv.Value(), want))
			}
		}
	}
	return fs.fails
}
