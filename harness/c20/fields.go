package c20

// Pseudo-property C20FIELDS (model free, run as part of C20 through `also`, and by verifharness/c20race under the
// Go race detector): EVERY accessor of the shared chain data that RPC / P2P / generator goroutines call, concurrently
// with the consensus goroutine adding and removing blocks - not only the block cache and the bulk lookups of
// scenarios.go.
//
// The lockset obligation of Props/C20.lean covers an anchored list of fields; Props/C20_Fields.lean derives the list
// from the source. Here is the running counterpart: a value that is kept in a plain struct field of DataAccess /
// Chain / Executer (a memo of the finalized height, a cached header ...) and read by one of these accessors while
// the writer updates it is (a) a data race - found by the race detector as soon as SOME reader calls THAT accessor,
// hence all of them are called -, and (b) breaks "readers obtain committed data": the value can be visible before
// the batch is written, and a reader that loaded it lazily can put the OLD value back over the new one.
//
// Scenarios (ops; every case starts with `reset <seed>`):
//   accessors <stable> <cache> <readers> <writes> <lag> <churn>
//       readers call every exported method of *blockchain.DataAccess and *blockchain.Chain that is not one of the
//       writer's (enumerated by REFLECTION, arguments synthesised from the parameter types: a method added to
//       these types is exercised without touching this file) while the writer adds blocks with a rising finalized
//       height and removes up to <churn> of them again.
//   finheight <stable> <cache> <readers> <writes> <lag> <churn>
//       readers call GetFinalizedHeight in a loop, with the oracle below.
//   restart <stable> <cache> <readers> <rounds> <lag>
//       every round re-creates the Chain over the SAME database (a restart: nothing in memory yet), runs
//       PrepareCache and releases the readers' first requests together with the AddBlock that raises the finalized
//       height; afterwards, with no writer running, the accessor must return the committed value.
//   rpc <vals> <pre> <readers> <blocks>
//       node harness (real Executer / liskbft / application): readers call the RPC endpoints system_getNodeInfo,
//       chain_getLastBlock, chain_getBlockByHeight, generator_getStatus, generator_estimateSafeStatus while the
//       writer processes blocks through Executer.process (valid blocks raise the finalized height).
//
// Oracle for the finalized height (model free; the writer publishes two counters: `pending` before it calls
// AddBlock with finalized height f, `committed` after AddBlock returned; both only grow):
//   c20-finalized-height-stale          a call returned less than the value committed BEFORE the call started
//   c20-finalized-height-never-committed a call returned more than any value whose write had begun when it returned
//   c20-finalized-height-decreased      a reader got a lower value than its previous call returned
//   c20-finalized-height-before-write   a call returned v while the DATABASE (read afterwards, key 27) still holds
//                                       less than v: the value was visible before the block's batch was written
//   c20-finalized-height-error          the accessor failed although a finalized height is stored
// plus c20-accessor-panic (an accessor panicked), c20-hang-accessors (watchdog), c20-rpc-* for the endpoints
// (node info height / finalized height decreased, finalized above height).

import (
	"context"
	"encoding/binary"
	"encoding/json"
	"fmt"
	"math/rand"
	"reflect"
	"sort"
	"strings"
	"sync"
	"sync/atomic"
	"time"

	"github.com/LiskHQ/lisk-engine/pkg/blockchain"
	"github.com/LiskHQ/lisk-engine/pkg/db"
	"github.com/LiskHQ/lisk-engine/pkg/engine/config"
	"github.com/LiskHQ/lisk-engine/pkg/engine/endpoint"
	"github.com/LiskHQ/lisk-engine/pkg/generator"
	"github.com/LiskHQ/lisk-engine/pkg/router"
	"github.com/LiskHQ/lisk-engine/pkg/rpc"

	"verifharness/corr"
	"verifharness/node"
)

type fieldsProp struct{}

func init() { corr.Register(fieldsProp{}) }

func (fieldsProp) ID() string                 { return "C20FIELDS" }
func (fieldsProp) NoModel() bool              { return true }
func (fieldsProp) Parallel() int              { return 2 }
func (fieldsProp) CaseTimeout() time.Duration { return 3 * time.Minute }

func (fieldsProp) Generate(rng *rand.Rand, tier string) []corr.Case {
	n, scale := 6, 1
	if tier == "thorough" {
		n, scale = 40, 4
	}
	var cases []corr.Case
	add := func(tag string, ops ...string) {
		cases = append(cases, corr.Case{Ops: append([]string{fmt.Sprintf("reset %d", rng.Int63())}, ops...), Tag: tag})
	}
	// always present: the first-read-after-restart window and the plain reader loop
	add("restart", fmt.Sprintf("restart 3 8 6 %d 1", 1500*scale))
	add("finheight", fmt.Sprintf("finheight 4 5 6 %d 2 2", 1500*scale))
	add("accessors", fmt.Sprintf("accessors 12 5 6 %d 3 2", 400*scale))
	add("rpc", fmt.Sprintf("rpc 1 5 4 %d", 25*scale))
	for i := 0; i < n; i++ {
		cache := []int{2, 3, 5, 8, 64}[rng.Intn(5)]
		lag := rng.Intn(4)
		switch i % 4 {
		case 0:
			add("restart", fmt.Sprintf("restart %d %d %d %d %d", rng.Intn(6), cache, 2+rng.Intn(7), (600+rng.Intn(900))*scale, lag))
		case 1:
			add("finheight", fmt.Sprintf("finheight %d %d %d %d %d %d", rng.Intn(10), cache, 2+rng.Intn(8), (500+rng.Intn(1000))*scale, lag, rng.Intn(cache)))
		case 2:
			add("accessors", fmt.Sprintf("accessors %d %d %d %d %d %d", 1+rng.Intn(20), cache, 2+rng.Intn(8), (200+rng.Intn(300))*scale, lag, rng.Intn(cache)))
		case 3:
			add("rpc", fmt.Sprintf("rpc %d %d %d %d", []int{1, 1, 2, 4}[rng.Intn(4)], 3+rng.Intn(8), 2+rng.Intn(5), (15+rng.Intn(20))*scale))
		}
	}
	return cases
}

func (fieldsProp) RunImpl(c corr.Case) ([]string, []corr.Fail) {
	out := make([]string, len(c.Ops))
	var fails []corr.Fail
	rng := rand.New(rand.NewSource(1))
	for i, op := range c.Ops {
		w := strings.Fields(op)
		if len(w) == 0 {
			out[i] = "bad-op"
			continue
		}
		if w[0] == "reset" {
			seed := int64(1)
			if len(w) > 1 {
				fmt.Sscan(w[1], &seed)
			}
			rng = rand.New(rand.NewSource(seed))
			out[i] = "ok"
			continue
		}
		fs, line := runFieldsOp(rng, w)
		for _, f := range fs {
			f.Op = i
			fails = append(fails, f)
		}
		switch {
		case len(fs) > 0:
			out[i] = "fail " + fs[0].Sig
		default:
			out[i] = line
		}
	}
	return out, fails
}

func runFieldsOp(rng *rand.Rand, w []string) (fails []corr.Fail, line string) {
	defer func() {
		if r := recover(); r != nil {
			fails = append(fails, corr.Fail{Sig: "c20-fields-panic", Detail: fmt.Sprint(r), Op: -1})
			line = "panic"
		}
	}()
	a := func(i int) int {
		if i < len(w) {
			return atoi(w[i])
		}
		return 0
	}
	switch {
	case w[0] == "accessors" && len(w) == 7:
		fs, calls := ScenarioAccessors(rng, a(1), a(2), a(3), a(4), a(5), a(6), false)
		return fs, fmt.Sprintf("ok methods=%d", calls)
	case w[0] == "finheight" && len(w) == 7:
		fs, _ := ScenarioAccessors(rng, a(1), a(2), a(3), a(4), a(5), a(6), true)
		return fs, "ok"
	case w[0] == "restart" && len(w) == 6:
		return ScenarioRestartWindow(rng, a(1), a(2), a(3), a(4), a(5)), "ok"
	case w[0] == "rpc" && len(w) == 5:
		return ScenarioRPCReaders(rng, a(1), a(2), a(3), a(4)), "ok"
	}
	return nil, "bad-op"
}

func (fieldsProp) Classify(c corr.Case, out []string) string {
	if len(c.Ops) < 2 || len(out) < 2 {
		return ""
	}
	w := strings.Fields(c.Ops[1])
	res := "ok"
	if !strings.HasPrefix(out[1], "ok") {
		res = "fail"
	}
	return w[0] + ":" + res
}

// ---------------------------------------------------------------------------------------------
// the writer's counters and the finalized-height oracle

var finalizedKey = []byte{27} // blockchain.dbPrefixFinalizedHeight (checked against the accessor before use)

type finOracle struct {
	pending   uint32 // highest finalized height whose AddBlock has been started
	committed uint32 // highest finalized height whose AddBlock has returned
	fs        *failSet
}

func dbFinalized(d *db.DB) (uint32, bool) {
	raw, ok := d.Get(finalizedKey)
	if !ok || len(raw) != 4 {
		return 0, false
	}
	return binary.BigEndian.Uint32(raw), true
}

// read performs one judged call of GetFinalizedHeight; last is the value the reader's previous call returned
func (o *finOracle) read(da *blockchain.DataAccess, d *db.DB, last uint32, who string) uint32 {
	c0 := atomic.LoadUint32(&o.committed)
	v, err := da.GetFinalizedHeight()
	p1 := atomic.LoadUint32(&o.pending)
	if err != nil {
		o.fs.add("c20-finalized-height-error", fmt.Sprintf("%s: GetFinalizedHeight failed (%v) although finalized height %d is committed", who, err, c0))
		return last
	}
	dbv, ok := dbFinalized(d)
	switch {
	case v < c0:
		o.fs.add("c20-finalized-height-stale", fmt.Sprintf("%s: GetFinalizedHeight returned %d, but finalized height %d had been committed (AddBlock returned) before the call started", who, v, c0))
	case v > p1:
		o.fs.add("c20-finalized-height-never-committed", fmt.Sprintf("%s: GetFinalizedHeight returned %d, the highest finalized height any started AddBlock carries is %d", who, v, p1))
	case v < last:
		o.fs.add("c20-finalized-height-decreased", fmt.Sprintf("%s: GetFinalizedHeight returned %d after an earlier call of the same reader returned %d", who, v, last))
	case ok && dbv < v:
		o.fs.add("c20-finalized-height-before-write", fmt.Sprintf("%s: GetFinalizedHeight returned %d while the database, read after the call returned, still holds %d: the value was visible before the block's batch was written", who, v, dbv))
	}
	if v > last {
		return v
	}
	return last
}

func finFor(h uint32, lag int, prev uint32) uint32 {
	f := uint32(0)
	if int(h) > lag {
		f = h - uint32(lag)
	}
	if f < prev {
		f = prev
	}
	return f
}

// ---------------------------------------------------------------------------------------------
// reflection: every exported accessor

// methods only the consensus goroutine calls (and verification hooks)
var writerMethods = map[string]bool{"Init": true, "AddBlock": true, "RemoveBlock": true, "PrepareCache": true, "Cache": true, "RemoveCache": true, "ClearTempBlocks": true}

type accessor struct {
	name string
	fn   reflect.Value
	args []reflect.Type
}

var (
	tU32    = reflect.TypeOf(uint32(0))
	tInt    = reflect.TypeOf(int(0))
	tBytes  = reflect.TypeOf([]byte(nil))
	tBytes2 = reflect.TypeOf([][]byte(nil))
	tU32s   = reflect.TypeOf([]uint32(nil))
	tBlock  = reflect.TypeOf((*blockchain.Block)(nil))
)

// accessorsOf lists the exported non-writer methods of v whose parameters can be synthesised; the others are named
// in skipped.
func accessorsOf(v interface{}, prefix string) (acc []accessor, skipped []string) {
	rv := reflect.ValueOf(v)
	rt := rv.Type()
	for i := 0; i < rt.NumMethod(); i++ {
		m := rt.Method(i)
		if writerMethods[m.Name] || strings.HasPrefix(m.Name, "Verif") {
			continue
		}
		ft := m.Func.Type()
		ok := true
		var args []reflect.Type
		for k := 1; k < ft.NumIn(); k++ {
			switch ft.In(k) {
			case tU32, tInt, tBytes, tBytes2, tU32s, tBlock:
				args = append(args, ft.In(k))
			default:
				ok = false
			}
		}
		if !ok || ft.IsVariadic() {
			skipped = append(skipped, prefix+m.Name)
			continue
		}
		acc = append(acc, accessor{name: prefix + m.Name, fn: rv.Method(i), args: args})
	}
	return
}

func (w *World) synth(rng *rand.Rand, t reflect.Type, tip uint32) reflect.Value {
	height := func() uint32 {
		switch rng.Intn(6) {
		case 0:
			return tip + uint32(rng.Intn(3))
		case 1:
			return tip
		}
		return uint32(rng.Intn(int(tip) + 1))
	}
	id := func() []byte {
		b := w.Blocks[rng.Intn(len(w.Blocks))]
		switch rng.Intn(4) {
		case 0:
			if len(b.Transactions) > 0 {
				return b.Transactions[rng.Intn(len(b.Transactions))].ID
			}
		case 1:
			return rbytes(rng, 32)
		}
		return b.Header.ID
	}
	switch t {
	case tU32:
		return reflect.ValueOf(height())
	case tInt:
		return reflect.ValueOf(1 + rng.Intn(6))
	case tBytes:
		return reflect.ValueOf(id())
	case tBytes2:
		ids := make([][]byte, rng.Intn(5))
		for i := range ids {
			ids[i] = id()
		}
		return reflect.ValueOf(ids)
	case tU32s:
		hs := make([]uint32, rng.Intn(5))
		for i := range hs {
			hs[i] = height()
		}
		return reflect.ValueOf(hs)
	case tBlock:
		return reflect.ValueOf(w.Blocks[rng.Intn(len(w.Blocks))])
	}
	return reflect.Zero(t)
}

// ScenarioAccessors: readers against one writer. finOnly: the readers only call GetFinalizedHeight (judged);
// otherwise reader 0 does that and the others call every accessor found by reflection. Returns the number of
// distinct accessors exercised.
func ScenarioAccessors(rng *rand.Rand, stable, cache, readers, writes, lag, churn int, finOnly bool) ([]corr.Fail, int) {
	fs := &failSet{}
	w, err := NewWorld(rng, stable, cache, 3)
	if err != nil {
		return []corr.Fail{{Sig: "harness-error", Detail: err.Error(), Op: -1}}, 0
	}
	if v, ok := dbFinalized(w.DB); !ok || v != 0 {
		return []corr.Fail{{Sig: "harness-error", Detail: "finalized height key not found in the database", Op: -1}}, 0
	}
	if churn >= cache {
		churn = cache - 1
	}
	da := w.Chain.DataAccess()
	accC, skipC := accessorsOf(w.Chain, "Chain.")
	accD, skipD := accessorsOf(da, "DataAccess.")
	acc := append(accC, accD...)
	_ = append(skipC, skipD...)
	or := &finOracle{fs: fs}
	var tip uint32 = uint32(stable)
	var progress int64
	var stop int32
	var called sync.Map
	seeds := make([]int64, readers)
	for i := range seeds {
		seeds[i] = rng.Int63()
	}
	wrng := rand.New(rand.NewSource(rng.Int63()))
	ok := watchdog(&progress, func() {
		var wg sync.WaitGroup
		for r := 0; r < readers; r++ {
			wg.Add(1)
			go func(r int) {
				defer wg.Done()
				g := rand.New(rand.NewSource(seeds[r]))
				last := uint32(0)
				who := fmt.Sprintf("reader %d", r)
				for i := 0; atomic.LoadInt32(&stop) == 0; i++ {
					if finOnly || r == 0 {
						last = or.read(da, w.DB, last, who)
						atomic.AddInt64(&progress, 1)
						continue
					}
					a := acc[(r+i)%len(acc)]
					args := make([]reflect.Value, len(a.args))
					t := atomic.LoadUint32(&tip)
					for k, at := range a.args {
						args[k] = w.synth(g, at, t)
					}
					func() {
						defer func() {
							if p := recover(); p != nil {
								fs.add("c20-accessor-panic", fmt.Sprintf("%s panicked while the writer adds / removes blocks: %v", a.name, p))
							}
						}()
						a.fn.Call(args)
					}()
					called.Store(a.name, true)
					atomic.AddInt64(&progress, 1)
				}
			}(r)
		}
		// the writer: the consensus goroutine
		prevFin := uint32(0)
		var added []*blockchain.Block
		for i := 0; i < writes; i++ {
			if len(added) > 0 && churn > 0 && wrng.Intn(4) == 0 {
				k := 1 + wrng.Intn(churn)
				for ; k > 0 && len(added) > 0; k-- {
					if err := w.Chain.RemoveBlock(w.DB.NewBatch(), false); err != nil {
						fs.add("c20-writer-error", "RemoveBlock: "+err.Error())
					}
					added = added[:len(added)-1]
					atomic.StoreUint32(&tip, uint32(stable+len(added)))
				}
				continue
			}
			h := uint32(stable + len(added) + 1)
			b := MkBlock(wrng, h, wrng.Intn(3))
			f := finFor(h, lag, prevFin)
			atomic.StoreUint32(&or.pending, f)
			if err := w.Chain.AddBlock(w.DB.NewBatch(), b, []*blockchain.Event{}, f, false); err != nil {
				fs.add("c20-writer-error", "AddBlock: "+err.Error())
			}
			atomic.StoreUint32(&or.committed, f)
			prevFin = f
			added = append(added, b)
			atomic.StoreUint32(&tip, h)
			atomic.AddInt64(&progress, 1)
		}
		atomic.StoreInt32(&stop, 1)
		wg.Wait()
		// quiescent: the accessor must return exactly the committed value
		if v, err := da.GetFinalizedHeight(); err != nil || v != prevFin {
			fs.add("c20-finalized-height-stale", fmt.Sprintf("after the writer finished (finalized height %d committed), GetFinalizedHeight returns %d (err=%v)", prevFin, v, err))
		}
	})
	if !ok {
		fs.add("c20-hang-accessors", "readers of the chain accessors and the writer adding / removing blocks stopped making progress")
		return fs.fails, 0
	}
	n := 0
	called.Range(func(_, _ interface{}) bool { n++; return true })
	w.Close()
	return fs.fails, n
}

// AccessorNames lists the accessors the reflection finds (reported by the race test, and a non-vacuity check).
func AccessorNames() (names, skipped []string) {
	w, err := NewWorld(rand.New(rand.NewSource(1)), 1, 2, 0)
	if err != nil {
		return nil, nil
	}
	defer w.Close()
	a1, s1 := accessorsOf(w.Chain, "Chain.")
	a2, s2 := accessorsOf(w.Chain.DataAccess(), "DataAccess.")
	for _, a := range append(a1, a2...) {
		names = append(names, a.name)
	}
	sort.Strings(names)
	return names, append(s1, s2...)
}

// ScenarioRestartWindow: a new Chain over the same database for every block; the readers' FIRST calls after the
// restart are released together with the AddBlock that raises the finalized height.
func ScenarioRestartWindow(rng *rand.Rand, stable, cache, readers, rounds, lag int) []corr.Fail {
	fs := &failSet{}
	w, err := NewWorld(rng, stable, cache, 1)
	if err != nil {
		return []corr.Fail{{Sig: "harness-error", Detail: err.Error(), Op: -1}}
	}
	or := &finOracle{fs: fs}
	genesis := w.Blocks[0]
	prevFin := uint32(0)
	var progress int64
	ok := watchdog(&progress, func() {
		for i := 0; i < rounds; i++ {
			// "restart": nothing in memory yet
			chain := blockchain.NewChain(&blockchain.ChainConfig{ChainID: []byte{0, 0, 0, 0}, MaxTransactionsLength: 15 * 1024, MaxBlockCache: cache})
			chain.Init(genesis, w.DB)
			if err := chain.PrepareCache(); err != nil {
				fs.add("c20-writer-error", "PrepareCache: "+err.Error())
				return
			}
			da := chain.DataAccess()
			h := uint32(stable + i + 1)
			b := MkBlock(rng, h, 0)
			f := finFor(h, lag, prevFin)
			if f == prevFin && h > 0 {
				f = prevFin + 1 // every round raises the finalized height
				if f > h {
					f = h
				}
			}
			start := make(chan struct{})
			var wg sync.WaitGroup
			for r := 0; r < readers; r++ {
				wg.Add(1)
				go func(r int) {
					defer wg.Done()
					<-start
					last := uint32(0)
					who := fmt.Sprintf("round %d (block %d raises the finalized height %d -> %d), first requests after the restart, reader %d", i, h, prevFin, f, r)
					for k := 0; k < 1+r%3; k++ {
						last = or.read(da, w.DB, last, who)
					}
				}(r)
			}
			atomic.StoreUint32(&or.pending, f)
			close(start)
			if err := chain.AddBlock(w.DB.NewBatch(), b, []*blockchain.Event{}, f, false); err != nil {
				fs.add("c20-writer-error", "AddBlock: "+err.Error())
			}
			atomic.StoreUint32(&or.committed, f)
			wg.Wait()
			// no writer is running now
			if v, err := da.GetFinalizedHeight(); err != nil || v != f {
				fs.add("c20-finalized-height-stale", fmt.Sprintf("round %d: block %d was committed with finalized height %d (before: %d) while %d readers made their first request after a restart; afterwards GetFinalizedHeight returns %d (err=%v)", i, h, f, prevFin, readers, v, err))
				return
			}
			prevFin = f
			atomic.AddInt64(&progress, 1)
		}
	})
	if !ok {
		fs.add("c20-hang-accessors", "first reads after a restart and the writer stopped making progress")
		return fs.fails
	}
	w.Close()
	return fs.fails
}

// ---------------------------------------------------------------------------------------------
// RPC endpoints on the node harness

type nodeInfo struct {
	FinalizedHeight uint32 `json:"finalizedHeight"`
	Height          uint32 `json:"height"`
	Syncing         bool   `json:"syncing"`
}

func callEndpoint(h router.EndpointHandler, params interface{}) (data []byte, err error, panicked interface{}) {
	defer func() { panicked = recover() }()
	js, _ := json.Marshal(params)
	rw := rpc.NewEndpointResponseWriter()
	h(rw, router.NewEndpointRequest(context.Background(), node.NopLogger(), js))
	res := rw.Result()
	if e := res.Err(); e != nil {
		return nil, e, nil
	}
	data, err = res.JSONData()
	return data, err, nil
}

// ScenarioRPCReaders: the RPC endpoints that read chain / consensus / generator data, called from reader
// goroutines while the writer goroutine (the only one, as the consensus goroutine) processes blocks.
func ScenarioRPCReaders(rng *rand.Rand, vals, pre, readers, blocks int) []corr.Fail {
	fs := &failSet{}
	if vals < 1 || vals > 7 {
		vals = 1
	}
	n, err := node.New(node.Config{NumValidators: vals, Seed: rng.Int63()})
	if err != nil {
		return []corr.Fail{{Sig: "harness-error", Detail: err.Error(), Op: -1}}
	}
	defer n.Close()
	if _, err := n.Extend(pre); err != nil {
		return []corr.Fail{{Sig: "harness-error", Detail: err.Error(), Op: -1}}
	}
	genDB, err := db.NewInMemoryDB()
	if err != nil {
		return []corr.Fail{{Sig: "harness-error", Detail: err.Error(), Op: -1}}
	}
	defer genDB.Close()
	cfg := &config.Config{Genesis: &config.GenesisConfig{ChainID: n.Cfg.ChainID, BlockTime: n.Cfg.BlockTime, BFTBatchSize: uint32(n.Cfg.BatchSize)}}
	_ = cfg.InsertDefault()
	gen := generator.NewGenerator(&generator.GeneratorParams{Consensus: n.Exec, ABI: n.ABI, Chain: n.Chain})
	eps := map[string]router.EndpointHandler{}
	for m, h := range endpoint.NewChainEndpoint(n.Chain, n.Exec, n.Conn, nil, n.ABI).Endpoint() {
		eps["chain_"+m] = h
	}
	for m, h := range endpoint.NewSystemEndpoint(cfg, n.Chain, n.Exec, n.Conn, nil, n.ABI).Endpoint() {
		eps["system_"+m] = h
	}
	for m, h := range endpoint.NewGeneratorEndpoint(cfg, n.Chain, n.Exec, gen, n.DB, genDB, n.ABI).Endpoint() {
		eps["generator_"+m] = h
	}
	for _, need := range []string{"system_getNodeInfo", "chain_getLastBlock", "chain_getBlockByHeight", "generator_getStatus", "generator_estimateSafeStatus"} {
		if eps[need] == nil {
			return []corr.Fail{{Sig: "harness-error", Detail: "endpoint " + need + " not registered", Op: -1}}
		}
	}
	var pending, committed uint32
	f0, okKey := dbFinalized(n.DB)
	if !okKey || f0 != n.Finalized() {
		return []corr.Fail{{Sig: "harness-error", Detail: "finalized height key not found in the node's database", Op: -1}}
	}
	atomic.StoreUint32(&pending, f0)
	atomic.StoreUint32(&committed, f0)
	var progress int64
	var stop int32
	ok := watchdog(&progress, func() {
		var wg sync.WaitGroup
		for r := 0; r < readers; r++ {
			wg.Add(1)
			go func(r int) {
				defer wg.Done()
				var lastFin, lastH uint32
				for i := 0; atomic.LoadInt32(&stop) == 0; i++ {
					name := []string{"system_getNodeInfo", "system_getNodeInfo", "chain_getLastBlock", "chain_getBlockByHeight", "generator_getStatus", "generator_estimateSafeStatus"}[(r+i)%6]
					var params interface{} = map[string]interface{}{}
					switch name {
					case "chain_getBlockByHeight":
						params = map[string]interface{}{"height": lastH}
					case "generator_estimateSafeStatus":
						params = map[string]interface{}{"timeShutdown": 0}
					}
					c0 := atomic.LoadUint32(&committed)
					data, err, p := callEndpoint(eps[name], params)
					p1 := atomic.LoadUint32(&pending)
					if p != nil {
						fs.add("c20-rpc-panic", fmt.Sprintf("%s panicked while the consensus goroutine processes blocks: %v", name, p))
						continue
					}
					if name == "system_getNodeInfo" {
						if err != nil {
							fs.add("c20-rpc-error", fmt.Sprintf("system_getNodeInfo failed while blocks are processed: %v", err))
							continue
						}
						var ni nodeInfo
						if e := json.Unmarshal(data, &ni); e != nil {
							fs.add("harness-error", "node info does not decode: "+e.Error())
							continue
						}
						switch {
						case ni.FinalizedHeight < c0:
							fs.add("c20-finalized-height-stale", fmt.Sprintf("system_getNodeInfo reports finalized height %d, but %d had been committed before the request started", ni.FinalizedHeight, c0))
						case ni.FinalizedHeight > p1:
							fs.add("c20-finalized-height-never-committed", fmt.Sprintf("system_getNodeInfo reports finalized height %d, the highest value a processed block could have stored is %d", ni.FinalizedHeight, p1))
						case ni.FinalizedHeight < lastFin:
							fs.add("c20-finalized-height-decreased", fmt.Sprintf("system_getNodeInfo reports finalized height %d after an earlier request of the same client got %d", ni.FinalizedHeight, lastFin))
						case ni.Height < lastH:
							fs.add("c20-rpc-height-decreased", fmt.Sprintf("system_getNodeInfo reports height %d after %d although no block was removed", ni.Height, lastH))
						}
						if dbv, ok := dbFinalized(n.DB); ok && dbv < ni.FinalizedHeight {
							fs.add("c20-finalized-height-before-write", fmt.Sprintf("system_getNodeInfo reported finalized height %d while the database, read after the answer, still holds %d", ni.FinalizedHeight, dbv))
						}
						lastFin, lastH = ni.FinalizedHeight, ni.Height
					}
					atomic.AddInt64(&progress, 1)
				}
			}(r)
		}
		for i := 0; i < blocks; i++ {
			b, err := n.BuildBlock(node.BlockOpts{})
			if err != nil {
				fs.add("harness-error", "build: "+err.Error())
				break
			}
			// the finalized height a block can store is at most its own height
			atomic.StoreUint32(&pending, b.Header.Height)
			if err := n.Process(b); err != nil {
				fs.add("harness-error", "process: "+err.Error())
				break
			}
			if dbv, ok := dbFinalized(n.DB); ok { // the truth is the database, not the accessor under test
				atomic.StoreUint32(&committed, dbv)
			}
			n.DrainEvents()
			atomic.AddInt64(&progress, 1)
			time.Sleep(200 * time.Microsecond)
		}
		atomic.StoreInt32(&stop, 1)
		wg.Wait()
	})
	if !ok {
		fs.add("c20-hang-accessors", "RPC readers and the block processor stopped making progress")
	}
	return fs.fails
}
