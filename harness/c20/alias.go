// Hand-out oracles (model-free) for the clause "a value handed out of a lock-protected structure does not
// share memory with it": certificate.Pool (Select / Get), the bulk getters of blockchain.DataAccess and
// Chain (backed by the block cache), and the staged store diffdb.Database with its prefix views
// (Get / Iterate / Range / Commit).
//
// Every scenario follows the same two-clause pattern:
//
//	(a) STABLE  — the result of an accessor is deep-copied when it is returned (element identity, order,
//	    and the bytes reachable from it); then more operations are driven on the structure (from the same
//	    goroutine in the sequential part, from other goroutines in the concurrent part) and every result
//	    handed out so far must still equal its copy. The owner re-reads its result outside of the
//	    structure's lock, exactly as the real callers do (e.g. Consensus.broadcastCertificate), so under
//	    `go test -race` (harness/c20race) a result that aliases internal memory is also a reported race.
//	(b) PRIVATE — the owner overwrites what it was given (swap / overwrite elements, fill the spare
//	    capacity of the slice, flip bytes) and what the structure returns next must not change.
//
// The scenarios are parameterised over the regimes the code branches on (pool: maxHeightPrecommited
// below / at / above CommitRangeStored=100, fewer / exactly / more old non-gossiped commits than the
// limit, limits 0 / 1 / small / large, list lengths at and off the powers of two so that the internal
// slices do and do not have spare capacity, lists rebuilt by Upgrade / Cleanup).
//
// The scenarios run as the model-free pseudo-property C20ALIAS (registered here, wired into the C20 check
// through "also" in bin/vprops.py) and, under the race detector, from harness/c20race/alias_test.go.
//
// Ops (every case starts with `reset <seed>`):
//
//	aliaspool  <maxH> <old> <recent> <limit> <rounds> <workers> <iters>
//	aliasbulk  <nblocks> <cache> <maxTx> <churn> <rounds> <workers>
//	aliasviews <stored> <staged> <rounds> <workers>
package c20

import (
	"bytes"
	"fmt"
	"math/rand"
	"runtime"
	"sort"
	"strconv"
	"strings"
	"sync"
	"sync/atomic"
	"time"

	"github.com/LiskHQ/lisk-engine/pkg/blockchain"
	"github.com/LiskHQ/lisk-engine/pkg/consensus/certificate"
	"github.com/LiskHQ/lisk-engine/pkg/db"
	"github.com/LiskHQ/lisk-engine/pkg/db/diffdb"

	"verifharness/corr"
)

// ---- the pseudo-property ------------------------------------------------------------------

type aliasProp struct{}

func init() { corr.Register(aliasProp{}) }

func (aliasProp) ID() string                 { return "C20ALIAS" }
func (aliasProp) NoModel() bool              { return true }
func (aliasProp) Parallel() int              { return 1 }
func (aliasProp) CaseTimeout() time.Duration { return 120 * time.Second }

func (aliasProp) Generate(rng *rand.Rand, tier string) []corr.Case {
	var cases []corr.Case
	genAlias(rng, tier, func(tag string, ops ...string) {
		cases = append(cases, corr.Case{Ops: append([]string{fmt.Sprintf("reset %d", rng.Int63())}, ops...), Tag: tag})
	})
	return cases
}

func runAliasOp(rng *rand.Rand, op string) (fails []corr.Fail, err string) {
	defer func() {
		if r := recover(); r != nil {
			fails = append(fails, corr.Fail{Sig: "c20-alias-panic", Detail: fmt.Sprint(r), Op: -1})
			err = "panic"
		}
	}()
	w := strings.Fields(op)
	switch {
	case w[0] == "aliaspool" && len(w) == 8:
		return ScenarioPoolAlias(rng, PoolAliasSpec{MaxH: atoi(w[1]), Old: atoi(w[2]), Recent: atoi(w[3]), Limit: atoi(w[4]), Rounds: atoi(w[5]), Workers: atoi(w[6]), Iters: atoi(w[7])}), ""
	case w[0] == "aliasbulk" && len(w) == 7:
		return ScenarioBulkAlias(rng, atoi(w[1]), atoi(w[2]), atoi(w[3]), atoi(w[4]), atoi(w[5]), atoi(w[6])), ""
	case w[0] == "aliasviews" && len(w) == 5:
		return ScenarioViewsAlias(rng, atoi(w[1]), atoi(w[2]), atoi(w[3]), atoi(w[4])), ""
	}
	return nil, "bad-op"
}

func (aliasProp) RunImpl(c corr.Case) ([]string, []corr.Fail) {
	out := make([]string, len(c.Ops))
	var fails []corr.Fail
	rng := rand.New(rand.NewSource(1))
	for i, op := range c.Ops {
		w := strings.Fields(op)
		if len(w) == 0 {
			out[i] = "bad-op"
			continue
		}
		if w[0] == "reset" {
			seed := int64(1)
			if len(w) > 1 {
				seed, _ = strconv.ParseInt(w[1], 10, 64)
			}
			rng = rand.New(rand.NewSource(seed))
			out[i] = "ok"
			continue
		}
		fs, e := runAliasOp(rng, op)
		for _, f := range fs {
			f.Op = i
			fails = append(fails, f)
		}
		switch {
		case e != "":
			out[i] = e
		case len(fs) > 0:
			out[i] = "fail " + fs[0].Sig
		default:
			out[i] = "ok"
		}
	}
	return out, fails
}

func (aliasProp) Classify(c corr.Case, out []string) string {
	if len(c.Ops) < 2 {
		return ""
	}
	w := strings.Fields(c.Ops[1])
	res := "ok"
	for _, o := range out[1:] {
		if o != "ok" {
			res = "fail"
		}
	}
	switch w[0] {
	case "aliaspool":
		if len(w) != 8 {
			return ""
		}
		k := "young-chain"
		if atoi(w[1]) > 100 {
			k = "old<limit"
			if atoi(w[2]) >= atoi(w[4]) {
				k = "old>=limit"
			}
		}
		if atoi(w[6]) > 0 {
			k += ":concurrent"
		}
		return "aliaspool:" + k + ":" + res
	case "aliasbulk", "aliasviews":
		k := "sequential"
		if atoi(w[len(w)-1]) > 0 {
			k = "concurrent"
		}
		return w[0] + ":" + k + ":" + res
	}
	return ""
}

// ---- certificate pool ---------------------------------------------------------------------

// commitCopy is the deep copy of one selected commit: its identity and the content reachable from it.
type commitCopy struct {
	ptr     *certificate.SingleCommit
	height  uint32
	blockID []byte
	addr    []byte
	sig     []byte
}

type poolHandout struct {
	what string
	res  certificate.SingleCommits
	cp   []commitCopy
}

func copyCommits(s certificate.SingleCommits) []commitCopy {
	cp := make([]commitCopy, len(s))
	for i, c := range s {
		cp[i].ptr = c
		if c != nil {
			cp[i].height = c.Height()
			cp[i].blockID = append([]byte{}, c.BlockID()...)
			cp[i].addr = append([]byte{}, c.ValidatorAddress()...)
			cp[i].sig = append([]byte{}, c.CertificateSignature()...)
		}
	}
	return cp
}

// diffCommits compares a handed-out selection with its deep copy ("" = unchanged).
func diffCommits(s certificate.SingleCommits, cp []commitCopy) string {
	if len(s) != len(cp) {
		return fmt.Sprintf("length %d, was %d", len(s), len(cp))
	}
	for i, c := range s {
		if c != cp[i].ptr {
			now := "nil"
			if c != nil {
				now = fmt.Sprintf("the commit for height %d (block %x)", c.Height(), []byte(c.BlockID())[:4])
			}
			return fmt.Sprintf("index %d was the commit for height %d (block %x), now %s", i, cp[i].height, cp[i].blockID[:4], now)
		}
		if c != nil && (c.Height() != cp[i].height || !bytes.Equal(c.BlockID(), cp[i].blockID) || !bytes.Equal(c.ValidatorAddress(), cp[i].addr) || !bytes.Equal(c.CertificateSignature(), cp[i].sig)) {
			return fmt.Sprintf("index %d: the content of the commit for height %d changed", i, cp[i].height)
		}
	}
	return ""
}

func sameCommitSeq(a []commitCopy, b certificate.SingleCommits) bool {
	if len(a) != len(b) {
		return false
	}
	for i := range a {
		if a[i].ptr != b[i] {
			return false
		}
	}
	return true
}

func commitSet(lists ...certificate.SingleCommits) map[*certificate.SingleCommit]int {
	m := map[*certificate.SingleCommit]int{}
	for _, l := range lists {
		for _, c := range l {
			m[c]++
		}
	}
	return m
}

func sameCommitSet(a, b map[*certificate.SingleCommit]int) bool {
	if len(a) != len(b) {
		return false
	}
	for k, v := range a {
		if b[k] != v {
			return false
		}
	}
	return true
}

func mkCommit(rng *rand.Rand, h uint32, internal bool) *certificate.SingleCommit {
	return certificate.VerifNewSingleCommit(rbytes(rng, 32), h, rbytes(rng, 20), rbytes(rng, 96), internal)
}

// scramble overwrites everything the owner of a result can reach through it: the elements are reversed,
// every second one is replaced by `foreign`, and the spare capacity behind the result is filled with
// `foreign` as well (an `append` within capacity).
func scrambleCommits(s certificate.SingleCommits, foreign *certificate.SingleCommit) {
	for i, j := 0, len(s)-1; i < j; i, j = i+1, j-1 {
		s[i], s[j] = s[j], s[i]
	}
	for i := 0; i < len(s); i += 2 {
		s[i] = foreign
	}
	full := s[:cap(s)]
	for i := len(s); i < len(full); i++ {
		full[i] = foreign
	}
}

// PoolAliasSpec: `Old` commits below maxH-100 (only possible when maxH > 100), `Recent` commits at or
// above it, selections with `Limit`.
type PoolAliasSpec struct {
	MaxH, Old, Recent, Limit, Rounds, Workers, Iters int
}

func (s PoolAliasSpec) String() string {
	return fmt.Sprintf("aliaspool %d %d %d %d %d %d %d", s.MaxH, s.Old, s.Recent, s.Limit, s.Rounds, s.Workers, s.Iters)
}

// ScenarioPoolAlias: see the package comment of this file.
func ScenarioPoolAlias(rng *rand.Rand, sp PoolAliasSpec) []corr.Fail {
	fs := &failSet{}
	pool := certificate.NewPool()
	maxH := uint32(sp.MaxH)
	threshold := uint32(0)
	if maxH > certificate.CommitRangeStored {
		threshold = maxH - certificate.CommitRangeStored
	}
	// heights: old commits use the odd heights just below the threshold, later "lower" additions the
	// heights below / between them, recent commits the heights from the threshold upwards
	used := map[uint32]bool{}
	var initial []*certificate.SingleCommit
	for i := 0; i < sp.Old && threshold > 1; i++ {
		h := int(threshold) - 1 - 2*i
		if h < 1 {
			h = 1 + rng.Intn(int(threshold)-1)
		}
		used[uint32(h)] = true
		initial = append(initial, mkCommit(rng, uint32(h), rng.Intn(2) == 0))
	}
	for i := 0; i < sp.Recent; i++ {
		h := threshold + uint32(i)
		used[h] = true
		initial = append(initial, mkCommit(rng, h, i%2 == 0))
	}
	rng.Shuffle(len(initial), func(i, j int) { initial[i], initial[j] = initial[j], initial[i] })
	for _, c := range initial {
		pool.Add(c)
	}
	lowest := func() uint32 { // a height below every old commit if there is room, else any old height
		if threshold <= 1 {
			return threshold + uint32(rng.Intn(3))
		}
		min := threshold
		for h := range used {
			if h < min {
				min = h
			}
		}
		if min > 1 {
			return min - 1
		}
		return 1 + uint32(rng.Intn(int(threshold)-1))
	}
	top := threshold + uint32(sp.Recent)
	var handouts []*poolHandout
	hand := func(what string, res certificate.SingleCommits) *poolHandout {
		h := &poolHandout{what: what, res: res, cp: copyCommits(res)}
		handouts = append(handouts, h)
		return h
	}
	checkAll := func(after string) {
		for _, h := range handouts {
			if d := diffCommits(h.res, h.cp); d != "" {
				fs.add("c20-alias-pool-result-changed-after-return", fmt.Sprintf("%s (maxHeightPrecommited %d): the result changed after %s: %s", h.what, maxH, after, d))
			}
		}
	}
	selectOnce := func(limit int) *poolHandout {
		res := pool.Select(maxH, limit)
		if len(res) > limit {
			fs.add("c20-pool-select-over-limit", fmt.Sprintf("Select limit %d returned %d", limit, len(res)))
		}
		return hand(fmt.Sprintf("Select(%d, %d)", maxH, limit), res)
	}
	limits := []int{sp.Limit, 0, 1, sp.Limit + 2, 2 * (sp.Old + sp.Recent + 4)}
	// ---- (a) sequential: accessor, then mutators, every earlier result re-checked after each of them
	for r := 0; r < sp.Rounds; r++ {
		selectOnce(sp.Limit)
		if r%2 == 1 {
			selectOnce(limits[rng.Intn(len(limits))])
		}
		if len(initial) > 0 {
			h := initial[rng.Intn(len(initial))].Height()
			hand(fmt.Sprintf("Get(%d)", h), pool.Get(h))
		}
		// mutators: always an addition below all pooled heights followed by another Select (the next
		// gossip round), surrounded by a random choice of the other operations
		var steps []int
		for i, n := 0, rng.Intn(3); i < n; i++ {
			steps = append(steps, rng.Intn(7))
		}
		steps = append(steps, 0, 2)
		for i, n := 0, rng.Intn(3); i < n; i++ {
			steps = append(steps, rng.Intn(7))
		}
		for _, st := range steps {
			var after string
			switch st {
			case 0:
				h := lowest()
				used[h] = true
				pool.Add(mkCommit(rng, h, rng.Intn(2) == 0))
				after = fmt.Sprintf("Add(height %d)", h)
			case 1:
				top++
				pool.Add(mkCommit(rng, top, rng.Intn(2) == 0))
				after = fmt.Sprintf("Add(height %d)", top)
			case 2:
				pool.Select(maxH, sp.Limit)
				after = fmt.Sprintf("Select(%d, %d)", maxH, sp.Limit)
			case 3:
				l := limits[rng.Intn(len(limits))]
				pool.Select(maxH, l)
				after = fmt.Sprintf("Select(%d, %d)", maxH, l)
			case 4:
				// what the gossip loop does with (a copy of the head of) its selection
				sel := pool.Select(maxH, 1)
				pool.Upgrade(append(certificate.SingleCommits{}, sel...))
				after = "Select(.., 1) + Upgrade"
			case 5:
				pool.Cleanup(func(h uint32) bool { return h != top })
				after = fmt.Sprintf("Cleanup(drop height %d)", top)
			case 6:
				_ = pool.Size()
				if len(initial) > 0 {
					_ = pool.Has(initial[0])
					_ = pool.Get(initial[0].Height())
				}
				after = "Size/Has/Get"
			}
			checkAll(after)
		}
	}
	// ---- (b) what the owner does with its result must not reach the pool
	foreign := mkCommit(rng, maxH/2+7, true)
	for _, l := range limits {
		exp := copyCommits(pool.Select(maxH, l))
		ng, g := pool.VerifAll()
		before := commitSet(ng, g)
		res := pool.Select(maxH, l)
		scrambleCommits(res, foreign)
		got := pool.Select(maxH, l)
		ng, g = pool.VerifAll()
		if !sameCommitSeq(exp, got) || !sameCommitSet(before, commitSet(ng, g)) || pool.Has(foreign) {
			fs.add("c20-alias-pool-result-writable-into-pool", fmt.Sprintf("Select(%d, %d): after its owner overwrote the returned slice (len %d, cap %d) the pool returns a different selection / holds different commits (foreign commit pooled: %v)",
				maxH, l, len(res), cap(res), pool.Has(foreign)))
			// repair for the remaining checks
			pool.Cleanup(func(uint32) bool { return true })
		}
	}
	if len(initial) > 0 {
		h := initial[0].Height()
		exp := commitSet(pool.Get(h))
		res := pool.Get(h)
		scrambleCommits(res, foreign)
		if !sameCommitSet(exp, commitSet(pool.Get(h))) || pool.Has(foreign) {
			fs.add("c20-alias-pool-result-writable-into-pool", fmt.Sprintf("Get(%d): after its owner overwrote the returned slice the pool returns different commits", h))
		}
	}
	checkAll("the owners of later results overwrote them")
	if sp.Workers <= 0 {
		return fs.fails
	}
	// ---- (a) concurrent: selectors keep re-reading their selection (outside of the pool lock) while
	// adders, a cleaner and other selectors work on the pool
	var progress int64
	var stop int32
	seeds := make([]int64, sp.Workers+2)
	for i := range seeds {
		seeds[i] = rng.Int63()
	}
	ok := watchdog(&progress, func() {
		var wg, bg sync.WaitGroup
		for a := 0; a < 2; a++ {
			bg.Add(1)
			go func(a int) {
				defer bg.Done()
				r := rand.New(rand.NewSource(seeds[sp.Workers+a]))
				for i := 0; atomic.LoadInt32(&stop) == 0 && i < 40*sp.Iters; i++ {
					var h uint32
					if threshold > 1 && r.Intn(4) != 0 {
						h = 1 + uint32(r.Intn(int(threshold)-1)) // old: sorts in front of / between the selected ones
					} else {
						h = threshold + uint32(r.Intn(int(maxH-threshold)+1))
					}
					pool.Add(mkCommit(r, h, r.Intn(2) == 0))
					if a == 1 && i%64 == 63 {
						keep := uint32(r.Intn(int(maxH) + 1))
						pool.Cleanup(func(h uint32) bool { return h <= keep || h%3 != 0 })
					}
					atomic.AddInt64(&progress, 1)
					runtime.Gosched()
				}
			}(a)
		}
		for wk := 0; wk < sp.Workers; wk++ {
			wg.Add(1)
			go func(wk int) {
				defer wg.Done()
				r := rand.New(rand.NewSource(seeds[wk]))
				for i := 0; i < sp.Iters; i++ {
					l := sp.Limit
					if r.Intn(4) == 0 {
						l = limits[r.Intn(len(limits))]
					}
					var res certificate.SingleCommits
					what := fmt.Sprintf("Select(%d, %d)", maxH, l)
					if r.Intn(6) == 0 {
						h := uint32(r.Intn(int(maxH) + 1))
						res, what = pool.Get(h), fmt.Sprintf("Get(%d)", h)
					} else {
						res = pool.Select(maxH, l)
					}
					cp := copyCommits(res)
					// the owner works with its result (encode, publish ...) outside of the pool lock
					for k := 0; k < 20; k++ {
						if d := diffCommits(res, cp); d != "" {
							fs.add("c20-alias-pool-result-changed-after-return", fmt.Sprintf("%s: the result changed while its owner was using it and other goroutines added / selected: %s", what, d))
							break
						}
						runtime.Gosched()
					}
					if r.Intn(3) == 0 {
						pool.Upgrade(res)
					}
					atomic.AddInt64(&progress, 1)
				}
			}(wk)
		}
		wg.Wait()
		atomic.StoreInt32(&stop, 1)
		bg.Wait()
	})
	if !ok {
		fs.add("c20-hang-certificate-pool", "certificate pool operations stopped making progress")
	}
	return fs.fails
}

// ---- bulk getters of DataAccess / Chain ---------------------------------------------------

type blockCopy struct {
	ptr    *blockchain.Block
	hdr    *blockchain.BlockHeader
	id     []byte
	height uint32
	enc    []byte   // encoded header
	txs    [][]byte // transaction ids
}

func copyHeader(h *blockchain.BlockHeader) blockCopy {
	if h == nil {
		return blockCopy{}
	}
	return blockCopy{hdr: h, id: append([]byte{}, h.ID...), height: h.Height, enc: h.Encode()}
}

func copyBlock(b *blockchain.Block) blockCopy {
	if b == nil {
		return blockCopy{}
	}
	c := copyHeader(b.Header)
	c.ptr = b
	for _, tx := range b.Transactions {
		c.txs = append(c.txs, append([]byte{}, tx.ID...))
	}
	return c
}

func (c blockCopy) diffHeader(h *blockchain.BlockHeader) string {
	if h != c.hdr {
		return "another header object"
	}
	if h == nil {
		return ""
	}
	if h.Height != c.height || !bytes.Equal(h.ID, c.id) || !bytes.Equal(h.Encode(), c.enc) {
		return fmt.Sprintf("the content of the header of height %d changed", c.height)
	}
	return ""
}

func (c blockCopy) diffBlock(b *blockchain.Block) string {
	if b != c.ptr {
		return "another block object"
	}
	if b == nil {
		return ""
	}
	if d := c.diffHeader(b.Header); d != "" {
		return d
	}
	if len(b.Transactions) != len(c.txs) {
		return fmt.Sprintf("block of height %d has %d transactions, had %d", c.height, len(b.Transactions), len(c.txs))
	}
	for i, tx := range b.Transactions {
		if !bytes.Equal(tx.ID, c.txs[i]) {
			return fmt.Sprintf("block of height %d: transaction %d changed", c.height, i)
		}
	}
	return ""
}

// bulkHandout is one returned slice (headers, blocks or transactions) with its deep copy.
type bulkHandout struct {
	what    string
	headers []*blockchain.BlockHeader
	blocks  []*blockchain.Block
	txs     []*blockchain.Transaction
	single  *blockchain.Block
	cp      []blockCopy
	txcp    [][]byte
	txptr   []*blockchain.Transaction
}

func (h *bulkHandout) diff() string {
	switch {
	case h.headers != nil:
		if len(h.headers) != len(h.cp) {
			return fmt.Sprintf("length %d, was %d", len(h.headers), len(h.cp))
		}
		for i, x := range h.headers {
			if d := h.cp[i].diffHeader(x); d != "" {
				return fmt.Sprintf("index %d: %s", i, d)
			}
		}
	case h.blocks != nil:
		if len(h.blocks) != len(h.cp) {
			return fmt.Sprintf("length %d, was %d", len(h.blocks), len(h.cp))
		}
		for i, x := range h.blocks {
			if d := h.cp[i].diffBlock(x); d != "" {
				return fmt.Sprintf("index %d: %s", i, d)
			}
		}
	case h.txs != nil:
		if len(h.txs) != len(h.txcp) {
			return fmt.Sprintf("length %d, was %d", len(h.txs), len(h.txcp))
		}
		for i, x := range h.txs {
			if x != h.txptr[i] || (x != nil && !bytes.Equal(x.ID, h.txcp[i])) {
				return fmt.Sprintf("index %d: another transaction", i)
			}
		}
	case h.single != nil:
		return h.cp[0].diffBlock(h.single)
	}
	return ""
}

func idsOfHeaders(hs []*blockchain.BlockHeader) [][]byte {
	r := make([][]byte, len(hs))
	for i, h := range hs {
		if h != nil {
			r[i] = append([]byte{}, h.ID...)
		}
	}
	return r
}

func idsOfBlocks(bs []*blockchain.Block) [][]byte {
	r := make([][]byte, len(bs))
	for i, b := range bs {
		if b != nil && b.Header != nil {
			r[i] = append([]byte{}, b.Header.ID...)
		}
	}
	return r
}

func idsOfTxs(ts []*blockchain.Transaction) [][]byte {
	r := make([][]byte, len(ts))
	for i, t := range ts {
		if t != nil {
			r[i] = append([]byte{}, t.ID...)
		}
	}
	return r
}

func sameSeq(a, b [][]byte) bool {
	if len(a) != len(b) {
		return false
	}
	for i := range a {
		if !bytes.Equal(a[i], b[i]) {
			return false
		}
	}
	return true
}

// scrambleSlice reverses s, clears every second element and fills the spare capacity with `fill`.
func scrambleSlice[T any](s []T, fill T) {
	var zero T
	for i, j := 0, len(s)-1; i < j; i, j = i+1, j-1 {
		s[i], s[j] = s[j], s[i]
	}
	for i := 0; i < len(s); i += 2 {
		s[i] = zero
	}
	full := s[:cap(s)]
	for i := len(s); i < len(full); i++ {
		full[i] = fill
	}
}

// ScenarioBulkAlias: results of the bulk getters (headers by ids / by heights, transactions by ids, blocks
// by range, last N blocks, the tip) are handed out, the writer then adds and removes blocks on top of the
// stable prefix while other goroutines run the same getters; every handed-out result must stay what it
// was, and overwriting a returned slice must not change what the next call returns.
func ScenarioBulkAlias(rng *rand.Rand, nblocks, cache, maxTx, churn, rounds, workers int) []corr.Fail {
	fs := &failSet{}
	w, err := NewWorld(rng, nblocks, cache, maxTx)
	if err != nil {
		return []corr.Fail{{Sig: "harness-error", Detail: err.Error(), Op: -1}}
	}
	defer w.Close()
	da := w.Chain.DataAccess()
	if churn < 1 {
		churn = 1
	}
	variants := make([]*blockchain.Block, churn)
	for i := range variants {
		variants[i] = MkBlock(rng, uint32(nblocks+1+i), rng.Intn(maxTx+1))
	}
	type request struct {
		ids     [][]byte
		heights []uint32
		txIDs   [][]byte
		lo, hi  int
		lastN   int
	}
	mkReq := func(r *rand.Rand) request {
		var q request
		n := []int{0, 1, 2, 3, 5, 8, 9}[r.Intn(7)]
		for i := 0; i < n; i++ {
			h := r.Intn(nblocks + 1)
			b := w.Blocks[h]
			q.ids = append(q.ids, b.Header.ID)
			q.heights = append(q.heights, uint32(h))
			for _, tx := range b.Transactions {
				q.txIDs = append(q.txIDs, tx.ID)
			}
			if r.Intn(5) == 0 {
				q.ids = append(q.ids, rbytes(r, 32))
				q.heights = append(q.heights, uint32(1000000+r.Intn(100)))
				q.txIDs = append(q.txIDs, rbytes(r, 32))
			}
		}
		q.lo = r.Intn(nblocks + 1)
		q.hi = q.lo + r.Intn(nblocks+1-q.lo)
		q.lastN = 1 + r.Intn(cache+2)
		return q
	}
	var mu sync.Mutex
	var handouts []*bulkHandout
	hand := func(h *bulkHandout) {
		mu.Lock()
		handouts = append(handouts, h)
		mu.Unlock()
	}
	checkAll := func(after string) {
		mu.Lock()
		hs := append([]*bulkHandout{}, handouts...)
		mu.Unlock()
		for _, h := range hs {
			if d := h.diff(); d != "" {
				fs.add("c20-alias-bulk-result-changed-after-return", fmt.Sprintf("%s: the result changed after %s: %s", h.what, after, d))
			}
		}
	}
	// keep = the results are kept for clause (a); otherwise their owner overwrites them (clause (b)):
	// the requests touch only the stable prefix, so repeating one must give the same sequence
	take := func(q request, keep bool) {
		if hs, err := da.GetBlockHeaders(q.ids); err == nil {
			h := &bulkHandout{what: fmt.Sprintf("GetBlockHeaders(%d ids)", len(q.ids)), headers: hs}
			for _, x := range hs {
				h.cp = append(h.cp, copyHeader(x))
			}
			if keep {
				hand(h)
			} else {
				exp := idsOfHeaders(hs)
				scrambleSlice(hs, &blockchain.BlockHeader{})
				if again, err := da.GetBlockHeaders(q.ids); err != nil || !sameSeq(exp, idsOfHeaders(again)) {
					fs.add("c20-alias-bulk-result-writable-into-structure", fmt.Sprintf("GetBlockHeaders(%d ids): after the owner overwrote the returned slice the next call returns another sequence", len(q.ids)))
				}
			}
		} else {
			fs.add("c20-bulk-error", "GetBlockHeaders: "+err.Error())
		}
		if hs, err := da.GetBlockHeadersByHeights(q.heights); err == nil {
			h := &bulkHandout{what: fmt.Sprintf("GetBlockHeadersByHeights(%d heights)", len(q.heights)), headers: hs}
			for _, x := range hs {
				h.cp = append(h.cp, copyHeader(x))
			}
			if keep {
				hand(h)
			} else {
				exp := idsOfHeaders(hs)
				scrambleSlice(hs, &blockchain.BlockHeader{})
				if again, err := da.GetBlockHeadersByHeights(q.heights); err != nil || !sameSeq(exp, idsOfHeaders(again)) {
					fs.add("c20-alias-bulk-result-writable-into-structure", fmt.Sprintf("GetBlockHeadersByHeights(%d heights): after the owner overwrote the returned slice the next call returns another sequence", len(q.heights)))
				}
			}
		} else {
			fs.add("c20-bulk-error", "GetBlockHeadersByHeights: "+err.Error())
		}
		if ts, err := da.GetTransactions(q.txIDs); err == nil {
			h := &bulkHandout{what: fmt.Sprintf("GetTransactions(%d ids)", len(q.txIDs)), txs: ts, txcp: idsOfTxs(ts), txptr: append([]*blockchain.Transaction{}, ts...)}
			if keep && len(ts) > 0 {
				hand(h)
			} else if !keep {
				exp := idsOfTxs(ts)
				scrambleSlice(ts, &blockchain.Transaction{})
				if again, err := da.GetTransactions(q.txIDs); err != nil || !sameSeq(exp, idsOfTxs(again)) {
					fs.add("c20-alias-bulk-result-writable-into-structure", fmt.Sprintf("GetTransactions(%d ids): after the owner overwrote the returned slice the next call returns another sequence", len(q.txIDs)))
				}
			}
		} else {
			fs.add("c20-bulk-error", "GetTransactions: "+err.Error())
		}
		if bs, err := da.GetBlocksBetweenHeight(uint32(q.lo), uint32(q.hi)); err == nil {
			h := &bulkHandout{what: fmt.Sprintf("GetBlocksBetweenHeight(%d, %d)", q.lo, q.hi), blocks: bs}
			for _, x := range bs {
				h.cp = append(h.cp, copyBlock(x))
			}
			exp := idsOfBlocks(bs)
			if keep {
				hand(h)
			} else {
				scrambleSlice(bs, &blockchain.Block{})
				if again, err := da.GetBlocksBetweenHeight(uint32(q.lo), uint32(q.hi)); err != nil || !sameSeq(exp, idsOfBlocks(again)) {
					fs.add("c20-alias-bulk-result-writable-into-structure", fmt.Sprintf("GetBlocksBetweenHeight(%d, %d): after the owner overwrote the returned slice the next call returns another sequence", q.lo, q.hi))
				}
			}
		} else {
			fs.add("c20-bulk-error", "GetBlocksBetweenHeight: "+err.Error())
		}
	}
	takeTip := func() {
		if b := w.Chain.LastBlock(); b != nil {
			hand(&bulkHandout{what: "Chain.LastBlock", single: b, cp: []blockCopy{copyBlock(b)}})
		}
	}
	top := nblocks
	write := func(r *rand.Rand) string {
		if top > nblocks && (r.Intn(2) == 0 || top == nblocks+churn) {
			if err := w.Chain.RemoveBlock(w.DB.NewBatch(), false); err != nil {
				fs.add("c20-writer-error", "RemoveBlock: "+err.Error())
			}
			top--
			return "RemoveBlock"
		}
		if err := w.Chain.AddBlock(w.DB.NewBatch(), variants[top-nblocks], []*blockchain.Event{}, 0, false); err != nil {
			fs.add("c20-writer-error", "AddBlock: "+err.Error())
		}
		top++
		return "AddBlock"
	}
	// sequential part
	for r := 0; r < rounds; r++ {
		q := mkReq(rng)
		take(q, r%2 == 0)
		takeTip()
		if top == nblocks { // last N blocks of the stable chain
			if bs, err := w.Chain.GetLastNBlocks(q.lastN); err == nil {
				h := &bulkHandout{what: fmt.Sprintf("GetLastNBlocks(%d)", q.lastN), blocks: bs}
				for _, x := range bs {
					h.cp = append(h.cp, copyBlock(x))
				}
				hand(h)
			}
		}
		for i, n := 0, 1+rng.Intn(3); i < n; i++ {
			after := write(rng)
			checkAll(after)
			take(mkReq(rng), false)
			checkAll(after + " and further bulk lookups")
		}
	}
	if workers <= 0 {
		return fs.fails
	}
	// concurrent part: the owners keep re-reading what they were given while the writer works
	var progress int64
	var stop int32
	seeds := make([]int64, workers)
	for i := range seeds {
		seeds[i] = rng.Int63()
	}
	wseed := rng.Int63()
	ok := watchdog(&progress, func() {
		var wg sync.WaitGroup
		for wk := 0; wk < workers; wk++ {
			wg.Add(1)
			go func(wk int) {
				defer wg.Done()
				r := rand.New(rand.NewSource(seeds[wk]))
				for atomic.LoadInt32(&stop) == 0 {
					q := mkReq(r)
					var mine []*bulkHandout
					if hs, err := da.GetBlockHeaders(q.ids); err == nil {
						h := &bulkHandout{what: "GetBlockHeaders", headers: hs}
						for _, x := range hs {
							h.cp = append(h.cp, copyHeader(x))
						}
						mine = append(mine, h)
					}
					if bs, err := da.GetBlocksBetweenHeight(uint32(q.lo), uint32(q.hi)); err == nil {
						h := &bulkHandout{what: "GetBlocksBetweenHeight", blocks: bs}
						for _, x := range bs {
							h.cp = append(h.cp, copyBlock(x))
						}
						mine = append(mine, h)
					}
					if b := w.Chain.LastBlock(); b != nil {
						mine = append(mine, &bulkHandout{what: "Chain.LastBlock", single: b, cp: []blockCopy{copyBlock(b)}})
					}
					for k := 0; k < 4; k++ {
						for _, h := range mine {
							if d := h.diff(); d != "" {
								fs.add("c20-alias-bulk-result-changed-after-return", fmt.Sprintf("%s: the result changed while its owner was using it and the writer added / removed blocks: %s", h.what, d))
							}
						}
						runtime.Gosched()
					}
					atomic.AddInt64(&progress, 1)
				}
			}(wk)
		}
		r := rand.New(rand.NewSource(wseed))
		for i := 0; i < 40*rounds; i++ {
			write(r)
			atomic.AddInt64(&progress, 1)
			if i%4 == 0 {
				runtime.Gosched()
			}
		}
		atomic.StoreInt32(&stop, 1)
		wg.Wait()
	})
	if !ok {
		fs.add("c20-hang-block-cache", "bulk lookups and the writer stopped making progress")
		return fs.fails
	}
	checkAll("the concurrent part")
	return fs.fails
}

// ---- staged store and its prefix views ----------------------------------------------------

type kvCopy struct {
	kv  db.KeyValue
	key []byte
	val []byte
}

type viewHandout struct {
	what string
	kvs  []db.KeyValue
	cp   []kvCopy
	raw  []byte // result of Get
	rawc []byte
}

func copyKVs(kvs []db.KeyValue) []kvCopy {
	cp := make([]kvCopy, len(kvs))
	for i, kv := range kvs {
		cp[i] = kvCopy{kv: kv, key: append([]byte{}, kv.Key()...), val: append([]byte{}, kv.Value()...)}
	}
	return cp
}

func (h *viewHandout) diff() string {
	if h.kvs == nil {
		if !bytes.Equal(h.raw, h.rawc) {
			return fmt.Sprintf("value %x, was %x", h.raw, h.rawc)
		}
		return ""
	}
	if len(h.kvs) != len(h.cp) {
		return fmt.Sprintf("length %d, was %d", len(h.kvs), len(h.cp))
	}
	for i, kv := range h.kvs {
		if kv != h.cp[i].kv {
			return fmt.Sprintf("index %d holds another entry", i)
		}
		if !bytes.Equal(kv.Key(), h.cp[i].key) || !bytes.Equal(kv.Value(), h.cp[i].val) {
			return fmt.Sprintf("index %d: entry %x=%x, was %x=%x", i, kv.Key(), kv.Value(), h.cp[i].key, h.cp[i].val)
		}
	}
	return ""
}

func kvString(kvs []db.KeyValue) string {
	s := ""
	for _, kv := range kvs {
		s += fmt.Sprintf("%x=%x ", kv.Key(), kv.Value())
	}
	return s
}

type nullWriter struct{}

func (nullWriter) Set(key, value []byte) {}
func (nullWriter) Del(key []byte)        {}

// ScenarioViewsAlias: results of Get / Iterate / Range on prefix views of one shared staged store (and
// the Diff returned by Commit) are handed out; then keys are set and deleted through the same and sibling
// views, snapshots are taken and restored, by the same and by other goroutines. Every result must keep its
// content, and overwriting a result (the slice, and the key / value bytes reachable from it) must not
// change what the store returns next.
func ScenarioViewsAlias(rng *rand.Rand, stored, staged, rounds, workers int) []corr.Fail {
	fs := &failSet{}
	database, err := db.NewInMemoryDB()
	if err != nil {
		return []corr.Fail{{Sig: "harness-error", Detail: err.Error(), Op: -1}}
	}
	defer database.Close()
	batch := database.NewBatch()
	nviews := 2 + workers
	for v := 0; v < nviews; v++ {
		for i := 0; i < stored; i++ {
			batch.Set([]byte{0xaa, byte(v), byte(2 * i)}, rbytes(rng, 1+rng.Intn(4)))
		}
	}
	database.Write(batch)
	root := diffdb.New(database, []byte{0xaa})
	views := make([]*diffdb.Database, nviews)
	for v := range views {
		views[v] = root.WithPrefix([]byte{byte(v)})
		for i := 0; i < staged; i++ {
			views[v].Set([]byte{byte(2*i + 1)}, rbytes(rng, 1+rng.Intn(4)))
		}
		if stored > 1 {
			views[v].Set([]byte{2}, rbytes(rng, 2)) // a stored key with a staged update
		}
	}
	nkeys := 2*stored + 2*staged + 2
	var handouts []*viewHandout
	checkAll := func(hs []*viewHandout, after string) {
		for _, h := range hs {
			if d := h.diff(); d != "" {
				fs.add("c20-alias-diffdb-result-changed-after-return", fmt.Sprintf("%s: the result changed after %s: %s", h.what, after, d))
			}
		}
	}
	access := func(r *rand.Rand, v int) *viewHandout {
		view := views[v]
		switch r.Intn(3) {
		case 0:
			k := []byte{byte(r.Intn(nkeys))}
			val, _ := view.Get(k)
			return &viewHandout{what: fmt.Sprintf("view %02x Get(%x)", v, k), raw: val, rawc: append([]byte{}, val...)}
		case 1:
			kvs := view.Iterate([]byte{}, -1+r.Intn(2)*(1+r.Intn(nkeys)), r.Intn(2) == 0)
			return &viewHandout{what: fmt.Sprintf("view %02x Iterate", v), kvs: kvs, cp: copyKVs(kvs)}
		default:
			kvs := view.Range([]byte{0}, []byte{0xff}, -1+r.Intn(2)*(1+r.Intn(nkeys)), r.Intn(2) == 0)
			return &viewHandout{what: fmt.Sprintf("view %02x Range", v), kvs: kvs, cp: copyKVs(kvs)}
		}
	}
	mutate := func(r *rand.Rand, v int) string {
		view := views[v]
		k := []byte{byte(r.Intn(nkeys))}
		switch r.Intn(6) {
		case 0, 1:
			val := rbytes(r, 1+r.Intn(4))
			view.Set(k, val)
			return fmt.Sprintf("view %02x Set(%x)", v, k)
		case 2:
			view.Del(k)
			return fmt.Sprintf("view %02x Del(%x)", v, k)
		case 3:
			view.Iterate([]byte{}, -1, false)
			view.Range([]byte{0}, []byte{0xff}, -1, true)
			return fmt.Sprintf("view %02x Iterate+Range", v)
		case 4:
			view.Get(k)
			return fmt.Sprintf("view %02x Get(%x)", v, k)
		default:
			// overwrite a key in place with a value of the same length (the case in which an
			// implementation could be tempted to reuse the old array)
			if old, ok := view.Get(k); ok {
				view.Set(k, rbytes(r, len(old)))
			}
			return fmt.Sprintf("view %02x overwrite(%x)", v, k)
		}
	}
	// ---- (a) sequential
	for r := 0; r < rounds; r++ {
		v := rng.Intn(2)
		handouts = append(handouts, access(rng, v))
		for i, n := 0, 2+rng.Intn(3); i < n; i++ {
			after := mutate(rng, rng.Intn(2))
			checkAll(handouts, after)
		}
		if r%4 == 3 {
			id := root.Snapshot()
			after := mutate(rng, v)
			if err := root.RestoreSnapshot(id); err != nil {
				fs.add("c20-view-restore-error", err.Error())
			}
			checkAll(handouts, "Snapshot, "+after+", RestoreSnapshot")
			// the views created before the restore keep the replaced cache: re-create them
			for i := range views {
				views[i] = root.WithPrefix([]byte{byte(i)})
			}
		}
	}
	// ---- (b) slice level: overwriting the returned slice
	for v := 0; v < 2; v++ {
		for _, reverse := range []bool{false, true} {
			for _, limit := range []int{-1, 0, 1, stored + staged} {
				exp := kvString(views[v].Iterate([]byte{}, limit, reverse))
				res := views[v].Iterate([]byte{}, limit, reverse)
				scrambleSlice(res, db.KeyValue(nil))
				if got := kvString(views[v].Iterate([]byte{}, limit, reverse)); got != exp {
					fs.add("c20-alias-diffdb-result-writable-into-store", fmt.Sprintf("view %02x Iterate(limit %d): after the owner overwrote the returned slice the next call returns [%s], before [%s]", v, limit, got, exp))
				}
				exp = kvString(views[v].Range([]byte{0}, []byte{0xff}, limit, reverse))
				res = views[v].Range([]byte{0}, []byte{0xff}, limit, reverse)
				scrambleSlice(res, db.KeyValue(nil))
				if got := kvString(views[v].Range([]byte{0}, []byte{0xff}, limit, reverse)); got != exp {
					fs.add("c20-alias-diffdb-result-writable-into-store", fmt.Sprintf("view %02x Range(limit %d): after the owner overwrote the returned slice the next call returns [%s], before [%s]", v, limit, got, exp))
				}
			}
		}
	}
	// ---- (b) byte level: overwriting the key / value bytes reachable from the result
	flip := func(b []byte) {
		for i := range b {
			b[i] ^= 0xff
		}
	}
	for v := 0; v < 2; v++ {
		view := views[v]
		exp := kvString(view.Iterate([]byte{}, -1, false))
		for _, kv := range view.Iterate([]byte{}, -1, false) {
			if val, ok := view.Get(kv.Key()); ok {
				flip(val)
			}
		}
		if got := kvString(view.Iterate([]byte{}, -1, false)); got != exp {
			fs.add("c20-alias-diffdb-get-value-shared-with-store", fmt.Sprintf("view %02x: after the owner overwrote the bytes returned by Get the store holds [%s], before [%s]", v, got, exp))
		}
		for ci, call := range []func() []db.KeyValue{
			func() []db.KeyValue { return view.Iterate([]byte{}, -1, false) },
			func() []db.KeyValue { return view.Range([]byte{0}, []byte{0xff}, -1, false) },
		} {
			name := []string{"Iterate", "Range"}[ci]
			exp := kvString(call())
			res := call()
			var touched []db.KeyValue
			for _, kv := range res {
				flip(kv.Value())
				flip(kv.Key())
				touched = append(touched, kv)
			}
			got := kvString(call())
			var gotGet string
			for _, c := range copyKVsFromString(exp) {
				val, ok := view.Get(c.key)
				if !ok || !bytes.Equal(val, c.val) {
					gotGet = fmt.Sprintf("; Get(%x) = %x/%v, was %x", c.key, val, ok, c.val)
					break
				}
			}
			if got != exp || gotGet != "" {
				// OBSERVATION, not a failure: on the unchanged code Range / Iterate / Commit hand out the overlay's own
				// value bytes (Get copies). Nothing in the repository writes into returned values, and C20 / C12 do not
				// promise that results may be overwritten by their owner; the regenerated ownership table lists the three
				// methods as knownDeepViews (Props/C20_Alias.lean), fixes/C20-diffdb-handout-copies.patch would remove them.
				fs.note("c20-alias-diffdb-"+map[string]string{"Iterate": "iterate", "Range": "range"}[name]+"-value-shared-with-store",
					fmt.Sprintf("view %02x (%d stored, %d staged keys): after the owner overwrote the key / value bytes of the entries returned by %s the store returns [%s], before [%s]%s", v, stored, staged, name, got, exp, gotGet))
				// undo, so that the remaining checks start from the original content
				for _, kv := range touched {
					flip(kv.Value())
					flip(kv.Key())
				}
			}
		}
		// the Diff returned by Commit (the store itself is not written: null batch)
		d1 := view.Commit(nullWriter{})
		exp1 := diffString(d1)
		for _, k := range d1.Added {
			flip(k)
		}
		for _, kv := range append(append([]*diffdb.KV{}, d1.Updated...), d1.Deleted...) {
			flip(kv.Key)
			flip(kv.Value)
		}
		if got := diffString(view.Commit(nullWriter{})); got != exp1 {
			fs.note("c20-alias-diffdb-commit-diff-shared-with-store", fmt.Sprintf("view %02x: after the owner overwrote the bytes of the Diff returned by Commit the next Commit returns another Diff", v))
			for _, kv := range append(append([]*diffdb.KV{}, d1.Updated...), d1.Deleted...) {
				flip(kv.Key)
				flip(kv.Value)
			}
		}
	}
	checkAll(handouts, "the owners of later results overwrote them")
	if workers <= 0 {
		return fs.fails
	}
	// ---- (a) concurrent: every worker owns one view (2+wk) and re-reads the results it was given while it
	// and the others keep writing; views 0 and 1 are written by two background goroutines
	var progress int64
	var stop int32
	seeds := make([]int64, workers+2)
	for i := range seeds {
		seeds[i] = rng.Int63()
	}
	ok := watchdog(&progress, func() {
		var wg, bg sync.WaitGroup
		for a := 0; a < 2; a++ {
			bg.Add(1)
			go func(a int) {
				defer bg.Done()
				r := rand.New(rand.NewSource(seeds[workers+a]))
				for atomic.LoadInt32(&stop) == 0 {
					mutate(r, a)
					atomic.AddInt64(&progress, 1)
					runtime.Gosched()
				}
			}(a)
		}
		for wk := 0; wk < workers; wk++ {
			wg.Add(1)
			go func(wk int) {
				defer wg.Done()
				r := rand.New(rand.NewSource(seeds[wk]))
				var mine []*viewHandout
				for i := 0; i < 12*rounds; i++ {
					if i%3 == 0 {
						mine = append(mine, access(r, 2+wk))
						if len(mine) > 6 {
							mine = mine[1:]
						}
					}
					after := mutate(r, 2+wk)
					checkAll(mine, after+" (other views written concurrently)")
					atomic.AddInt64(&progress, 1)
				}
			}(wk)
		}
		wg.Wait()
		atomic.StoreInt32(&stop, 1)
		bg.Wait()
	})
	if !ok {
		fs.add("c20-hang-diffdb-views", "staged store views stopped making progress")
	}
	return fs.fails
}

// copyKVsFromString parses the canonical "k=v k=v " rendering back (keys and values are hex).
func copyKVsFromString(s string) []kvCopy {
	var out []kvCopy
	for _, f := range splitFields(s) {
		var k, v []byte
		for i := 0; i < len(f); i++ {
			if f[i] == '=' {
				k, v = unhex(f[:i]), unhex(f[i+1:])
				break
			}
		}
		out = append(out, kvCopy{key: k, val: v})
	}
	return out
}

func splitFields(s string) []string {
	var out []string
	cur := ""
	for _, c := range s {
		if c == ' ' {
			if cur != "" {
				out = append(out, cur)
			}
			cur = ""
		} else {
			cur += string(c)
		}
	}
	if cur != "" {
		out = append(out, cur)
	}
	return out
}

func unhex(s string) []byte {
	b := make([]byte, len(s)/2)
	for i := range b {
		fmt.Sscanf(s[2*i:2*i+2], "%02x", &b[i])
	}
	return b
}

func diffString(d *diffdb.Diff) string {
	var parts []string
	for _, k := range d.Added {
		parts = append(parts, fmt.Sprintf("A%x", k))
	}
	for _, kv := range d.Updated {
		parts = append(parts, fmt.Sprintf("U%x=%x", kv.Key, kv.Value))
	}
	for _, kv := range d.Deleted {
		parts = append(parts, fmt.Sprintf("D%x=%x", kv.Key, kv.Value))
	}
	sort.Strings(parts)
	return fmt.Sprint(parts)
}

// ---- generation ---------------------------------------------------------------------------

// PoolAliasGrid is the directed part of the pool regimes: maxHeightPrecommited at and around
// CommitRangeStored and far above it, fewer / exactly / more old commits than the limit, limits
// 0 / 1 / small / large, list lengths on and off the powers of two.
func PoolAliasGrid() []PoolAliasSpec {
	var out []PoolAliasSpec
	for _, maxH := range []int{0, 60, 100, 101, 130, 250, 400} {
		for _, limit := range []int{0, 1, 3, 8, 40} {
			for _, d := range []int{-1, 0, 3} {
				old := limit + d
				if old < 0 || (maxH <= 100 && d != 0) {
					continue
				}
				out = append(out, PoolAliasSpec{MaxH: maxH, Old: old, Recent: (maxH + limit + d + 3) % 6, Limit: limit, Rounds: 5})
			}
		}
	}
	return out
}

func genAlias(rng *rand.Rand, tier string, add func(tag string, ops ...string)) {
	grid := PoolAliasGrid()
	for i := 0; i < len(grid); i += 12 {
		var ops []string
		for _, s := range grid[i:min(i+12, len(grid))] {
			ops = append(ops, s.String())
		}
		add("alias-pool", ops...)
	}
	n, scale := 10, 1
	if tier == "thorough" {
		n, scale = 40, 4
	}
	for i := 0; i < n; i++ {
		limit := []int{0, 1, 2, 3, 5, 8, 16, 40}[rng.Intn(8)]
		sp := PoolAliasSpec{MaxH: []int{0, 99, 100, 101, 102, 120, 200, 300, 400}[rng.Intn(9)], Old: []int{0, limit - 1, limit, limit + 1, limit + 5, 2 * limit}[rng.Intn(6)],
			Recent: rng.Intn(12), Limit: limit, Rounds: 4 + rng.Intn(6), Workers: 2 + rng.Intn(3), Iters: (100 + rng.Intn(200)) * scale}
		if sp.Old < 0 {
			sp.Old = 0
		}
		add("alias-pool-concurrent", sp.String())
	}
	for i := 0; i < n/2; i++ {
		cache := []int{2, 3, 5, 8, 64}[rng.Intn(5)]
		add("alias-bulk", fmt.Sprintf("aliasbulk %d %d %d %d %d %d", []int{1, 3, 6, 12, 20}[rng.Intn(5)], cache, rng.Intn(4), 1+rng.Intn(cache), (6+rng.Intn(6))*scale, rng.Intn(4)))
	}
	for i := 0; i < n/2; i++ {
		add("alias-views", fmt.Sprintf("aliasviews %d %d %d %d", []int{0, 1, 3, 6}[rng.Intn(4)], []int{0, 1, 2, 5}[rng.Intn(4)], (8+rng.Intn(8))*scale, rng.Intn(4)))
	}
}
