// Atomicity oracles (C20): forced interleavings that are neither data races nor deadlocks.
//
// A reader operation of the staged store (Get / Has / Iterate / Range) is paused INSIDE its read of the
// underlying store (diffdb.New takes the DatabaseReader interface: the store handed to it is a wrapper
// whose Get / Iterate / IterateRange can be gated on a key). While it is paused a writer performs
// Set / Del / Set+Del / Snapshot+Restore / Commit on the same key through the same view, a sibling prefix
// view, a differently factored prefix view or the root. On the unchanged code the reader holds the
// shared mutex across the store read, so the writer simply blocks until the reader is released; a reader
// that gives the mutex up around the store read lets the writer run in between. A timeout tells which
// order happened; in BOTH orders the staged store must afterwards hold exactly what the writer staged
// (a read never undoes a write): every view shows it, Commit writes it, the diff lists it, and a fresh
// staged store over the committed data reads it back. The expectation is computed from the writer's
// operation alone (sequential specification), not from any model.
//
// The block cache has no injectable store; its check-then-act sequences (Chain.LastBlock / Cached, then
// AddBlock / RemoveBlock) are exercised by the single writer with strictly alternating and with
// concurrent bursts of every read API in between: no read may change what the writer checked.
package c20

import (
	"bytes"
	"errors"
	"fmt"
	"math/rand"
	"sort"
	"sync"
	"sync/atomic"
	"time"

	"github.com/LiskHQ/lisk-engine/pkg/blockchain"
	"github.com/LiskHQ/lisk-engine/pkg/db"
	"github.com/LiskHQ/lisk-engine/pkg/db/diffdb"

	"verifharness/corr"
)

// Grace is how long the writer is given to finish while the reader is paused inside the store (it can
// only finish if the reader does not hold the shared mutex there).
var Grace = 40 * time.Millisecond

// gate pauses the first matching store read.
type gate struct {
	kind    string // get | iterate | range
	key     []byte // get: the exact key; iterate / range: any call
	entered chan struct{}
	release chan struct{}
	once    sync.Once
}

// pauseStore wraps a DatabaseReader; the value returned by a paused read is the one read BEFORE the pause
// (a slow disk read returning what was on disk when it started).
type pauseStore struct {
	inner diffdb.DatabaseReader
	mu    sync.Mutex
	g     *gate
	reads int64
}

func (s *pauseStore) arm(kind string, key []byte) *gate {
	g := &gate{kind: kind, key: key, entered: make(chan struct{}), release: make(chan struct{})}
	s.mu.Lock()
	s.g = g
	s.mu.Unlock()
	return g
}

func (s *pauseStore) disarm() {
	s.mu.Lock()
	s.g = nil
	s.mu.Unlock()
}

func (s *pauseStore) pause(kind string, key []byte) {
	s.mu.Lock()
	g := s.g
	s.mu.Unlock()
	if g == nil || g.kind != kind || (kind == "get" && !bytes.Equal(g.key, key)) {
		return
	}
	first := false
	g.once.Do(func() { first = true })
	if first {
		close(g.entered)
		<-g.release
	}
}

func (s *pauseStore) Get(key []byte) ([]byte, bool) {
	atomic.AddInt64(&s.reads, 1)
	v, ok := s.inner.Get(key)
	s.pause("get", key)
	return v, ok
}

func (s *pauseStore) Iterate(prefix []byte, limit int, reverse bool) []db.KeyValue {
	atomic.AddInt64(&s.reads, 1)
	r := s.inner.Iterate(prefix, limit, reverse)
	s.pause("iterate", prefix)
	return r
}

func (s *pauseStore) IterateRange(start, end []byte, limit int, reverse bool) []db.KeyValue {
	atomic.AddInt64(&s.reads, 1)
	r := s.inner.IterateRange(start, end, limit, reverse)
	s.pause("range", start)
	return r
}

// recBatch records what Commit writes and forwards it to a real batch.
type recBatch struct {
	inner *db.Batch
	set   map[string][]byte
	del   map[string]bool
	ops   int
}

func newRecBatch(b *db.Batch) *recBatch {
	return &recBatch{inner: b, set: map[string][]byte{}, del: map[string]bool{}}
}
func (b *recBatch) Set(key, value []byte) {
	b.ops++
	delete(b.del, string(key))
	b.set[string(key)] = append([]byte{}, value...)
	b.inner.Set(key, value)
}
func (b *recBatch) Del(key []byte) {
	b.ops++
	delete(b.set, string(key))
	b.del[string(key)] = true
	b.inner.Del(key)
}

// LostUpdateSpec describes one forced interleaving.
type LostUpdateSpec struct {
	Reader string // get | has | iterate | range
	Writer string // set | del | setdel | delset | snaprestore | setsnap | commit
	View   string // same | sibling | split | root
	Stored bool   // the key exists in the underlying store
	Noise  int    // other keys staged before the race (0..3)
}

var (
	luReaders = []string{"get", "has", "iterate", "range"}
	luWriters = []string{"set", "del", "setdel", "delset", "snaprestore", "setsnap", "commit"}
	luViews   = []string{"same", "sibling", "split", "root"}
)

func (s LostUpdateSpec) String() string {
	st := 0
	if s.Stored {
		st = 1
	}
	return fmt.Sprintf("lostupd %s %s %s %d %d", s.Reader, s.Writer, s.View, st, s.Noise)
}

func validName(x string, l []string) bool {
	for _, y := range l {
		if x == y {
			return true
		}
	}
	return false
}

// AllLostUpdateSpecs enumerates every reader x writer x view x stored combination.
func AllLostUpdateSpecs(rng *rand.Rand) []LostUpdateSpec {
	var r []LostUpdateSpec
	for _, rd := range luReaders {
		for _, wr := range luWriters {
			for _, v := range luViews {
				for _, st := range []bool{true, false} {
					r = append(r, LostUpdateSpec{Reader: rd, Writer: wr, View: v, Stored: st, Noise: rng.Intn(4)})
				}
			}
		}
	}
	return r
}

type kvState struct {
	val   []byte
	exist bool
}

func (a kvState) eq(b kvState) bool {
	return a.exist == b.exist && (!a.exist || bytes.Equal(a.val, b.val))
}
func (a kvState) String() string {
	if !a.exist {
		return "absent"
	}
	return fmt.Sprintf("%x", a.val)
}

func join(parts ...[]byte) []byte {
	var r []byte
	for _, p := range parts {
		r = append(r, p...)
	}
	return r
}

// ScenarioLostUpdate runs one forced interleaving and checks the final staged, committed and persisted
// state against the writer's sequential effect.
func ScenarioLostUpdate(rng *rand.Rand, spec LostUpdateSpec) []corr.Fail {
	fs := &failSet{}
	if !validName(spec.Reader, luReaders) || !validName(spec.Writer, luWriters) || !validName(spec.View, luViews) {
		return []corr.Fail{{Sig: "harness-error", Detail: "bad lostupd spec " + spec.String(), Op: -1}}
	}
	database, err := db.NewInMemoryDB()
	if err != nil {
		return []corr.Fail{{Sig: "harness-error", Detail: err.Error(), Op: -1}}
	}
	defer database.Close()

	modulePrefix := rbytes(rng, 4)
	storePrefix := rbytes(rng, 2)
	full := join(modulePrefix, storePrefix)
	// keys of the sub-store: the contended key, noise keys staged before the race, bystanders only in the store
	mkKey := func(first byte) []byte { k := rbytes(rng, 32); k[0] = first; return k }
	key := mkKey(0x40 + byte(rng.Intn(64)))
	oldVal := rbytes(rng, 1+rng.Intn(8))
	newVal := append(rbytes(rng, 1+rng.Intn(8)), 0xee)
	new2Val := append(rbytes(rng, 1+rng.Intn(8)), 0xdd)
	type noise struct {
		key, stored, staged []byte
		del                 bool
	}
	var noises []noise
	for i := 0; i < spec.Noise; i++ {
		n := noise{key: mkKey(byte(1 + i)), staged: rbytes(rng, 1+rng.Intn(4))}
		if rng.Intn(2) == 0 {
			n.stored = rbytes(rng, 1+rng.Intn(4))
			n.del = rng.Intn(3) == 0
		}
		noises = append(noises, n)
	}
	bystander := mkKey(0xf0)
	bystanderVal := rbytes(rng, 3)
	// a neighbouring sub-store of the same module that must stay invisible
	otherStore := join(modulePrefix, []byte{storePrefix[0] ^ 0xff, storePrefix[1]})

	batch := database.NewBatch()
	if spec.Stored {
		batch.Set(join(full, key), oldVal)
	}
	for _, n := range noises {
		if n.stored != nil {
			batch.Set(join(full, n.key), n.stored)
		}
	}
	batch.Set(join(full, bystander), bystanderVal)
	batch.Set(join(otherStore, key), []byte{0x99})
	database.Write(batch)

	store := &pauseStore{inner: database}
	root := diffdb.New(store, []byte{})
	mkView := func(kind string) (*diffdb.Database, []byte) {
		switch kind {
		case "split":
			return root.WithPrefix(full), key
		case "root":
			return root, join(full, key)
		default:
			return root.WithPrefix(modulePrefix).WithPrefix(storePrefix), key
		}
	}
	viewR, keyR := mkView("sibling")
	viewW, keyW := viewR, keyR
	if spec.View != "same" {
		viewW, keyW = mkView(spec.View)
	}
	// noise staged before the race through yet another view
	viewN, _ := mkView("split")
	for _, n := range noises {
		if n.del {
			viewN.Del(n.key)
		} else {
			viewN.Set(n.key, n.staged)
		}
	}

	stored := kvState{oldVal, spec.Stored}
	// sequential effect of the writer on the contended key, and the states a concurrent reader may see
	final := stored
	allowed := []kvState{stored}
	switch spec.Writer {
	case "set":
		final = kvState{newVal, true}
	case "del":
		final = kvState{nil, false}
	case "setdel":
		final = kvState{nil, false}
		allowed = append(allowed, kvState{newVal, true})
	case "delset":
		final = kvState{newVal, true}
		allowed = append(allowed, kvState{nil, false})
	case "snaprestore":
		allowed = append(allowed, kvState{newVal, true})
	case "setsnap":
		final = kvState{newVal, true}
		allowed = append(allowed, kvState{new2Val, true})
	case "commit":
	}
	allowed = append(allowed, final)
	isAllowed := func(s kvState) bool {
		for _, a := range allowed {
			if a.eq(s) {
				return true
			}
		}
		return false
	}

	// ---- the race -------------------------------------------------------------------------
	gateKind := map[string]string{"get": "get", "has": "get", "iterate": "iterate", "range": "range"}[spec.Reader]
	g := store.arm(gateKind, join(full, key))
	lo, hi := bytes.Repeat([]byte{0}, 32), bytes.Repeat([]byte{0xff}, 32)
	type readerResult struct {
		one kvState
		kvs []db.KeyValue
	}
	readDone := make(chan readerResult, 1)
	go func() {
		defer func() {
			if p := recover(); p != nil {
				fs.add("c20-lost-update-panic", fmt.Sprintf("reader %s panicked: %v", spec.Reader, p))
				readDone <- readerResult{}
			}
		}()
		var r readerResult
		switch spec.Reader {
		case "get":
			v, ok := viewR.Get(keyR)
			r.one = kvState{v, ok}
		case "has":
			ok := viewR.Has(keyR)
			r.one = kvState{nil, ok}
		case "iterate":
			r.kvs = viewR.Iterate([]byte{}, -1, false)
		case "range":
			r.kvs = viewR.Range(lo, hi, -1, false)
		}
		readDone <- r
	}()
	select {
	case <-g.entered:
	case <-time.After(Stall):
		close(g.release)
		fs.add("harness-error", "reader "+spec.Reader+" never reached the underlying store")
		return fs.fails
	}

	var firstCommit *recBatch
	var firstDiff *diffdb.Diff
	writeDone := make(chan struct{})
	go func() {
		defer close(writeDone)
		defer func() {
			if p := recover(); p != nil {
				fs.add("c20-lost-update-panic", fmt.Sprintf("writer %s panicked: %v", spec.Writer, p))
			}
		}()
		switch spec.Writer {
		case "set":
			viewW.Set(keyW, newVal)
		case "del":
			viewW.Del(keyW)
		case "setdel":
			viewW.Set(keyW, newVal)
			viewW.Del(keyW)
		case "delset":
			viewW.Del(keyW)
			viewW.Set(keyW, newVal)
		case "snaprestore":
			id := root.Snapshot()
			viewW.Set(keyW, newVal)
			if err := root.RestoreSnapshot(id); err != nil {
				fs.add("c20-view-restore-error", err.Error())
			}
		case "setsnap":
			viewW.Set(keyW, newVal)
			id := root.Snapshot()
			// views created before the restore keep the replaced cache: write through a fresh one
			fresh, k := root.WithPrefix(full), key
			fresh.Set(k, new2Val)
			if err := root.RestoreSnapshot(id); err != nil {
				fs.add("c20-view-restore-error", err.Error())
			}
		case "commit":
			firstCommit = newRecBatch(database.NewBatch())
			firstDiff = root.Commit(firstCommit)
		}
	}()
	writerInBetween := false
	select {
	case <-writeDone:
		writerInBetween = true
	case <-time.After(Grace):
	}
	close(g.release)
	var rres readerResult
	for _, w := range []struct {
		name string
		wait func() bool
	}{
		{"writer " + spec.Writer, func() bool {
			select {
			case <-writeDone:
				return true
			case <-time.After(Stall):
				return false
			}
		}},
		{"reader " + spec.Reader, func() bool {
			select {
			case rres = <-readDone:
				return true
			case <-time.After(Stall):
				return false
			}
		}},
	} {
		if !w.wait() {
			fs.add("c20-hang-lost-update", w.name+" never returned ("+spec.String()+")")
			return fs.fails
		}
	}
	store.disarm()
	order := "reader-first"
	if writerInBetween {
		order = "writer-in-between"
	}
	ctx := fmt.Sprintf("%s [%s]", spec.String(), order)

	// ---- what the reader saw -------------------------------------------------------------------
	findKey := func(kvs []db.KeyValue, k []byte) (kvState, int) {
		st, n := kvState{}, 0
		for _, kv := range kvs {
			if bytes.Equal(kv.Key(), k) {
				st = kvState{kv.Value(), true}
				n++
			}
		}
		return st, n
	}
	switch spec.Reader {
	case "get":
		if !isAllowed(rres.one) {
			fs.add("c20-atomic-reader-result", fmt.Sprintf("%s: Get returned %v, neither the stored nor a staged value", ctx, rres.one))
		}
	case "has":
		okSome := false
		for _, a := range allowed {
			if a.exist == rres.one.exist {
				okSome = true
			}
		}
		if !okSome {
			fs.add("c20-atomic-reader-result", fmt.Sprintf("%s: Has returned %v", ctx, rres.one.exist))
		}
	default:
		st, n := findKey(rres.kvs, key)
		if n > 1 || !isAllowed(st) {
			fs.add("c20-atomic-reader-result", fmt.Sprintf("%s: %s listed the key %d times with %v", ctx, spec.Reader, n, st))
		}
		if !sort.SliceIsSorted(rres.kvs, func(i, j int) bool { return bytes.Compare(rres.kvs[i].Key(), rres.kvs[j].Key()) < 0 }) {
			fs.add("c20-atomic-reader-result", ctx+": result not sorted")
		}
		if bs, n := findKey(rres.kvs, bystander); n != 1 || !bytes.Equal(bs.val, bystanderVal) {
			fs.add("c20-atomic-reader-result", ctx+": stored bystander key missing from the listing")
		}
	}

	// ---- the staged state after both operations -------------------------------------------------
	type namedView struct {
		name string
		v    *diffdb.Database
		k    []byte
	}
	f1, k1 := mkView("sibling")
	f2, k2 := mkView("split")
	f3, k3 := mkView("root")
	views := []namedView{{"fresh-nested", f1, k1}, {"fresh-split", f2, k2}, {"fresh-root", f3, k3}}
	if spec.Writer != "snaprestore" && spec.Writer != "setsnap" {
		// (a view created before RestoreSnapshot keeps the replaced cache: only fresh views are checked then)
		views = append(views, namedView{"reader-view", viewR, keyR}, namedView{"writer-view", viewW, keyW})
	}
	expectListing := map[string][]byte{string(bystander): bystanderVal}
	if final.exist {
		expectListing[string(key)] = final.val
	}
	for _, n := range noises {
		if !n.del {
			expectListing[string(n.key)] = n.staged
		}
	}
	for _, nv := range views {
		v, ok := nv.v.Get(nv.k)
		if got := (kvState{v, ok}); !got.eq(final) {
			fs.add("c20-lost-update", fmt.Sprintf("%s: %s.Get = %v after the writer returned, the writer staged %v (stored %v)", ctx, nv.name, got, final, stored))
		}
		if nv.v.Has(nv.k) != final.exist {
			fs.add("c20-lost-update", fmt.Sprintf("%s: %s.Has = %v, the writer staged %v", ctx, nv.name, !final.exist, final))
		}
		if nv.v == root {
			continue // the root lists every sub-store
		}
		for which, kvs := range map[string][]db.KeyValue{"Iterate": nv.v.Iterate([]byte{}, -1, false), "Range": nv.v.Range(lo, hi, -1, rng.Intn(2) == 0)} {
			if len(kvs) != len(expectListing) {
				fs.add("c20-lost-update", fmt.Sprintf("%s: %s.%s lists %d keys, expected %d", ctx, nv.name, which, len(kvs), len(expectListing)))
				continue
			}
			for _, kv := range kvs {
				if want, ok := expectListing[string(kv.Key())]; !ok || !bytes.Equal(want, kv.Value()) {
					fs.add("c20-lost-update", fmt.Sprintf("%s: %s.%s lists key %x = %x, expected %x", ctx, nv.name, which, kv.Key()[:2], kv.Value(), want))
				}
			}
		}
	}

	// ---- Commit writes it, the diff lists it ----------------------------------------------------
	checkCommit := func(what string, rb *recBatch, diff *diffdb.Diff, keyFinal kvState, keyTouched bool) {
		fk := string(join(full, key))
		inDiff := func(kvs []*diffdb.KV, k string) ([]byte, int) {
			var v []byte
			n := 0
			for _, kv := range kvs {
				if string(kv.Key) == k {
					v, n = kv.Value, n+1
				}
			}
			return v, n
		}
		nAdded := 0
		for _, a := range diff.Added {
			if string(a) == fk {
				nAdded++
			}
		}
		upd, nUpd := inDiff(diff.Updated, fk)
		dl, nDel := inDiff(diff.Deleted, fk)
		bad := func(msg string) {
			fs.add("c20-lost-update-commit", fmt.Sprintf("%s: %s: %s (batch set=%x del=%v; diff added=%d updated=%d deleted=%d)", ctx, what, msg, rb.set[fk], rb.del[fk], nAdded, nUpd, nDel))
		}
		switch {
		case !keyTouched || (!keyFinal.exist && !spec.Stored):
			if _, s := rb.set[fk]; s || rb.del[fk] || nAdded+nUpd+nDel != 0 {
				bad("the key was not changed but the commit mentions it")
			}
		case keyFinal.exist && spec.Stored:
			if !bytes.Equal(rb.set[fk], keyFinal.val) || nUpd != 1 || !bytes.Equal(upd, oldVal) || nAdded+nDel != 0 {
				bad(fmt.Sprintf("expected the update to %x with original value %x", keyFinal.val, oldVal))
			}
		case keyFinal.exist && !spec.Stored:
			if !bytes.Equal(rb.set[fk], keyFinal.val) || nAdded != 1 || nUpd+nDel != 0 {
				bad(fmt.Sprintf("expected the key added with %x", keyFinal.val))
			}
		case !keyFinal.exist && spec.Stored:
			if !rb.del[fk] || nDel != 1 || !bytes.Equal(dl, oldVal) || nAdded+nUpd != 0 {
				bad(fmt.Sprintf("expected the deletion with original value %x", oldVal))
			}
		}
		// the noise staged before the race is committed as staged
		for _, n := range noises {
			nk := string(join(full, n.key))
			switch {
			case n.del:
				if !rb.del[nk] {
					fs.add("c20-lost-update-commit", fmt.Sprintf("%s: %s: deletion staged before the race missing from the batch", ctx, what))
				}
			default:
				if !bytes.Equal(rb.set[nk], n.staged) {
					fs.add("c20-lost-update-commit", fmt.Sprintf("%s: %s: write staged before the race missing from the batch", ctx, what))
				}
			}
		}
		if _, s := rb.set[string(join(full, bystander))]; s {
			fs.add("c20-lost-update-commit", fmt.Sprintf("%s: %s: a key that was only read is written by the commit", ctx, what))
		}
	}
	if firstCommit != nil {
		// the commit raced with the reader: the contended key was never written
		checkCommit("commit during the read", firstCommit, firstDiff, stored, false)
	}
	rb := newRecBatch(database.NewBatch())
	diff := root.Commit(rb)
	touched := spec.Writer != "snaprestore" && spec.Writer != "commit"
	checkCommit("commit after the race", rb, diff, final, touched)

	// ---- and a fresh staged store over the committed data reads it back ------------------------
	database.Write(rb.inner)
	again := diffdb.New(database, []byte{}).WithPrefix(full)
	v, ok := again.Get(key)
	if got := (kvState{v, ok}); !got.eq(final) {
		fs.add("c20-lost-update-persisted", fmt.Sprintf("%s: after Commit + Write the store holds %v, the writer staged %v", ctx, got, final))
	}
	// reverting the diff restores the stored value
	undo := database.NewBatch()
	root.RevertDiff(undo, diff)
	database.Write(undo)
	v, ok = diffdb.New(database, []byte{}).WithPrefix(full).Get(key)
	if got := (kvState{v, ok}); !got.eq(stored) {
		fs.add("c20-lost-update-persisted", fmt.Sprintf("%s: after reverting the diff the store holds %v, originally %v", ctx, got, stored))
	}
	return fs.fails
}

// ---- block cache: check-then-act of the single writer -------------------------------------------

// ScenarioChainCheckThenAct: the writer (consensus goroutine) repeatedly checks the tip and the cache
// (LastBlock, Cached) and then acts on what it saw (AddBlock of height tip+1, RemoveBlock of the tip).
// Between check and act every read API is called — in strict alternation by a second goroutine on every
// round, and concurrently by `readers` goroutines all the time. Reads must not change what the writer
// checked: the act succeeds, and afterwards the tip, the cache membership and the height index are
// exactly what the writer's own operations imply.
func ScenarioChainCheckThenAct(rng *rand.Rand, stable, cache, readers, rounds int) []corr.Fail {
	fs := &failSet{}
	w, err := NewWorld(rng, stable, cache, 1)
	if err != nil {
		return []corr.Fail{{Sig: "harness-error", Detail: err.Error(), Op: -1}}
	}
	churn := cache + 2
	next := map[uint32]*blockchain.Block{}
	for h := stable + 1; h <= stable+churn; h++ {
		next[uint32(h)] = MkBlock(rng, uint32(h), rng.Intn(2))
	}
	plan := make([]int, rounds)
	for i := range plan {
		plan[i] = rng.Intn(5)
	}
	seeds := make([]int64, readers+1)
	for i := range seeds {
		seeds[i] = rng.Int63()
	}
	da := w.Chain.DataAccess()
	// every read API once; errors other than not-found are failures, results are not interpreted here
	readAll := func(r *rand.Rand, top int) {
		_ = w.Chain.LastBlock()
		_, _ = da.GetLastBlock()
		_, _ = da.GetLastBlockHeader()
		h := uint32(r.Intn(top + 2))
		_ = da.Cached(h)
		if _, err := da.GetBlockByHeight(h); err != nil && !errors.Is(err, db.ErrDataNotFound) {
			fs.add("c20-bulk-error", "GetBlockByHeight: "+err.Error())
		}
		if _, err := da.GetBlockHeaderByHeight(h); err != nil && !errors.Is(err, db.ErrDataNotFound) {
			fs.add("c20-bulk-error", "GetBlockHeaderByHeight: "+err.Error())
		}
		if int(h) <= stable {
			_, _ = da.GetBlockHeader(w.Blocks[h].Header.ID)
			_, _ = da.GetBlock(w.Blocks[h].Header.ID)
			lo := r.Intn(int(h) + 1)
			_, _ = da.GetBlocksBetweenHeight(uint32(lo), h)
			_, _ = da.GetBlockHeadersByHeights([]uint32{h, uint32(lo)})
			_, _ = da.GetBlockHeaders([][]byte{w.Blocks[h].Header.ID, w.Blocks[lo].Header.ID})
		}
	}
	var progress int64
	var stop int32
	ok := watchdog(&progress, func() {
		var wg sync.WaitGroup
		for r := 0; r < readers; r++ {
			wg.Add(1)
			go func(r int) {
				defer wg.Done()
				rr := rand.New(rand.NewSource(seeds[r]))
				for atomic.LoadInt32(&stop) == 0 {
					readAll(rr, stable+churn)
					atomic.AddInt64(&progress, 1)
				}
			}(r)
		}
		// the strictly alternating reader: runs a burst when asked, reports back
		burstReq, burstAck := make(chan int), make(chan struct{})
		wg.Add(1)
		go func() {
			defer wg.Done()
			rr := rand.New(rand.NewSource(seeds[readers]))
			for top := range burstReq {
				for i := 0; i < 6; i++ {
					readAll(rr, top)
				}
				burstAck <- struct{}{}
			}
		}()
		top := stable
		tipBlock := func(h int) *blockchain.Block {
			if h <= stable {
				return w.Blocks[h]
			}
			return next[uint32(h)]
		}
		bad := func(format string, a ...interface{}) {
			fs.add("c20-check-then-act-chain", fmt.Sprintf(format, a...))
		}
		for _, p := range plan {
			// check
			tip := w.Chain.LastBlock()
			if tip == nil || int(tip.Header.Height) != top || !bytes.Equal(tip.Header.ID, tipBlock(top).Header.ID) {
				bad("check: the tip is not the block the writer committed last (height %d)", top)
				break
			}
			if da.Cached(uint32(top + 1)) {
				bad("check: height %d is cached before it was added", top+1)
			}
			if !da.Cached(uint32(top)) {
				bad("check: the tip height %d is not cached", top)
			}
			// reads in between (strict alternation: the writer does nothing meanwhile)
			burstReq <- top
			<-burstAck
			// act
			remove := (p == 0 && top > stable) || top == stable+churn
			if top > 1 && p == 1 && top <= stable && top > stable-cache-1 {
				remove = true // go below the stable prefix too: removals in a row empty the cache (refill path)
			}
			if remove {
				removed := tipBlock(top)
				if err := w.Chain.RemoveBlock(w.DB.NewBatch(), false); err != nil {
					bad("act: RemoveBlock at height %d failed: %v", top, err)
					break
				}
				top--
				if da.Cached(uint32(top + 1)) {
					bad("after RemoveBlock height %d is still cached", top+1)
				}
				if _, err := da.GetBlockHeaderByHeight(uint32(top + 1)); !errors.Is(err, db.ErrDataNotFound) {
					bad("after RemoveBlock the header of height %d is still served (%v)", top+1, err)
				}
				if _, err := da.GetBlockHeader(removed.Header.ID); !errors.Is(err, db.ErrDataNotFound) {
					bad("after RemoveBlock the removed block is still served by id (%v)", err)
				}
			} else {
				b := tipBlock(top + 1)
				if err := w.Chain.AddBlock(w.DB.NewBatch(), b, []*blockchain.Event{}, 0, false); err != nil {
					bad("act: AddBlock of height %d on tip %d failed: %v", top+1, top, err)
					break
				}
				top++
				if hd, err := da.GetBlockHeaderByHeight(uint32(top)); err != nil || !bytes.Equal(hd.ID, b.Header.ID) {
					bad("after AddBlock the header by height %d is not the added block (%v)", top, err)
				}
				if hd, err := da.GetBlockHeader(b.Header.ID); err != nil || hd.Height != uint32(top) {
					bad("after AddBlock the added block is not served by id (%v)", err)
				}
			}
			after := w.Chain.LastBlock()
			if after == nil || int(after.Header.Height) != top || !bytes.Equal(after.Header.ID, tipBlock(top).Header.ID) {
				bad("after the act the tip is not the writer's block of height %d", top)
				break
			}
			if !da.Cached(uint32(top)) {
				bad("after the act the tip height %d is not cached", top)
			}
			atomic.AddInt64(&progress, 1)
		}
		atomic.StoreInt32(&stop, 1)
		close(burstReq)
		wg.Wait()
	})
	if !ok {
		fs.add("c20-hang-block-cache", "check-then-act writer and readers stopped making progress (blockCache lock)")
		return fs.fails
	}
	w.Close()
	return fs.fails
}

// genAtomic adds the atomicity cases: every reader x writer x view x stored combination in the thorough
// tier, the directed combinations plus a random sample in the quick tier.
func genAtomic(rng *rand.Rand, tier string, add func(tag string, ops ...string)) {
	all := AllLostUpdateSpecs(rng)
	if tier == "thorough" {
		for i := 0; i < len(all); i += 8 {
			var ops []string
			for _, s := range all[i:min(i+8, len(all))] {
				ops = append(ops, s.String())
			}
			add("lost-update", ops...)
		}
	} else {
		// directed: the motivating interleavings (Get / Has of a stored key vs Set / Del through a sibling view)
		add("lost-update", LostUpdateSpec{"get", "set", "sibling", true, 1}.String(), LostUpdateSpec{"get", "del", "sibling", true, 0}.String(),
			LostUpdateSpec{"has", "set", "split", true, 2}.String(), LostUpdateSpec{"get", "set", "same", true, 0}.String())
		for i := 0; i < 6; i++ {
			var ops []string
			for j := 0; j < 6; j++ {
				ops = append(ops, all[rng.Intn(len(all))].String())
			}
			add("lost-update", ops...)
		}
	}
	n := 2
	if tier == "thorough" {
		n = 10
	}
	for i := 0; i < n; i++ {
		cache := []int{2, 3, 5}[rng.Intn(3)]
		rounds := 60 + rng.Intn(60)
		if tier == "thorough" {
			rounds *= 3
		}
		add("chain-check-then-act", fmt.Sprintf("chaincta %d %d %d %d", cache+1+rng.Intn(6), cache, rng.Intn(4), rounds))
	}
}
