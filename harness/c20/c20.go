package c20

import (
	"fmt"
	"math/rand"
	"strconv"
	"strings"
	"time"

	"verifharness/corr"
)

type prop struct{}

func init() { corr.Register(prop{}) }

func (prop) ID() string                 { return "C20" }
func (prop) NoModel() bool              { return true }
func (prop) Parallel() int              { return 1 }
func (prop) CaseTimeout() time.Duration { return 120 * time.Second }

// Op vocabulary (every case starts with `reset <seed>`; all random choices of a scenario derive from it):
//   bulk <nblocks> <cache> <maxTx> <callers> <reps> <spec>;<spec>...   spec = h,h,h+missing
//   tip <stable> <cache> <readers> <writes> <churn> <withBulk>
//   drain <nblocks> <cache> <removals> <readers>
//   pool <workers> <iters>
//   emit <subs> <pubs> <msgs> <late> <unsub>
//   emitstall <close|unsubscribe>
//   views <workers> <iters> <snapshots> <readOnly>
//   lostupd <get|has|iterate|range> <set|del|setdel|delset|snaprestore|setsnap|commit> <same|sibling|split|root> <stored> <noise>   (atomic.go)
//   chaincta <stable> <cache> <readers> <rounds>   (atomic.go)

func specString(specs []BulkSpec) string {
	var parts []string
	for _, s := range specs {
		hs := make([]string, len(s.Heights))
		for i, h := range s.Heights {
			hs[i] = strconv.Itoa(h)
		}
		parts = append(parts, strings.Join(hs, ",")+"+"+strconv.Itoa(s.Missing))
	}
	return strings.Join(parts, ";")
}

func parseSpecs(s string) []BulkSpec {
	var specs []BulkSpec
	for _, part := range strings.Split(s, ";") {
		hm := strings.SplitN(part, "+", 2)
		var sp BulkSpec
		if hm[0] != "" {
			for _, h := range strings.Split(hm[0], ",") {
				v, _ := strconv.Atoi(h)
				sp.Heights = append(sp.Heights, v)
			}
		}
		if len(hm) == 2 {
			sp.Missing, _ = strconv.Atoi(hm[1])
		}
		specs = append(specs, sp)
	}
	return specs
}

// genSpecs: request sizes around powers of two, the empty request, duplicates, only-missing ids,
// heights inside and outside the block cache.
func genSpecs(rng *rand.Rand, nblocks int) []BulkSpec {
	sizes := []int{0, 1, 2, 3, 4, 7, 8, 9, 15, 16, 17, 31, 32, 33, 64, 100}
	var specs []BulkSpec
	n := 2 + rng.Intn(3)
	for i := 0; i < n; i++ {
		size := sizes[rng.Intn(len(sizes))]
		sp := BulkSpec{}
		switch rng.Intn(5) {
		case 0: // all blocks in order
			for h := 0; h <= nblocks && len(sp.Heights) < size; h++ {
				sp.Heights = append(sp.Heights, h)
			}
		case 1: // duplicates
			for len(sp.Heights) < size {
				sp.Heights = append(sp.Heights, rng.Intn(nblocks+1)%3)
			}
		default:
			for len(sp.Heights) < size {
				sp.Heights = append(sp.Heights, rng.Intn(nblocks+1))
			}
		}
		if rng.Intn(3) == 0 {
			sp.Missing = 1 + rng.Intn(4)
		}
		specs = append(specs, sp)
	}
	return specs
}

func (prop) Generate(rng *rand.Rand, tier string) []corr.Case {
	n := 28
	scale := 1
	if tier == "thorough" {
		n = 160
		scale = 4
	}
	var cases []corr.Case
	add := func(tag string, ops ...string) {
		cases = append(cases, corr.Case{Ops: append([]string{fmt.Sprintf("reset %d", rng.Int63())}, ops...), Tag: tag})
	}
	// the known finding is replayed once per run
	add("emitter-stalled", "emitstall unsubscribe", "emitstall close")
	for i := 0; i < n; i++ {
		if i%14 == 13 {
			// removals around the capacity of the block cache
			cache := []int{2, 3, 5, 8}[rng.Intn(4)]
			add("drain", fmt.Sprintf("drain %d %d %d %d", cache+6, cache, []int{cache - 1, cache, cache + 1, cache + 4}[rng.Intn(4)], rng.Intn(5)))
			continue
		}
		switch i % 7 {
		case 0, 1:
			nblocks := []int{1, 3, 5, 6, 12, 40}[rng.Intn(6)]
			cache := []int{2, 5, 8, 64}[rng.Intn(4)]
			add("bulk", fmt.Sprintf("bulk %d %d %d %d %d %s", nblocks, cache, rng.Intn(5), 1+rng.Intn(6), (10+rng.Intn(30))*scale, specString(genSpecs(rng, nblocks))))
		case 2, 3:
			cache := []int{3, 5, 8}[rng.Intn(3)]
			add("tip", fmt.Sprintf("tip %d %d %d %d %d %d", []int{0, 1, 6, 20}[rng.Intn(4)], cache, 2+rng.Intn(10), (300+rng.Intn(600))*scale, 1+rng.Intn(cache-1), rng.Intn(2)))
		case 4:
			add("pool", fmt.Sprintf("pool %d %d", 2+rng.Intn(7), (200+rng.Intn(400))*scale))
		case 5:
			add("emitter", fmt.Sprintf("emit %d %d %d %d %d", 1+rng.Intn(5), 1+rng.Intn(4), (20+rng.Intn(60))*scale, rng.Intn(4), rng.Intn(2)))
		case 6:
			add("views", fmt.Sprintf("views %d %d %d %d", 2+rng.Intn(6), (150+rng.Intn(300))*scale, rng.Intn(2), rng.Intn(2)))
		}
	}
	for i := 0; i < 2*scale; i++ {
		add("tip-committed", fmt.Sprintf("tipdb %d %d %d %d", []int{0, 2, 9}[rng.Intn(3)], []int{3, 8, 64}[rng.Intn(3)], 3+rng.Intn(10), (150+rng.Intn(200))*scale))
	}
	genAtomic(rng, tier, add)
	return cases
}

func atoi(s string) int { v, _ := strconv.Atoi(s); return v }

func runOp(rng *rand.Rand, op string) (fails []corr.Fail, err string) {
	defer func() {
		if r := recover(); r != nil {
			fails = append(fails, corr.Fail{Sig: "c20-panic", Detail: fmt.Sprint(r), Op: -1})
			err = "panic"
		}
	}()
	w := strings.Fields(op)
	switch {
	case w[0] == "bulk" && len(w) == 7:
		return ScenarioBulk(rng, atoi(w[1]), atoi(w[2]), atoi(w[3]), atoi(w[4]), atoi(w[5]), parseSpecs(w[6])), ""
	case w[0] == "tip" && len(w) == 7:
		return ScenarioTip(rng, atoi(w[1]), atoi(w[2]), atoi(w[3]), atoi(w[4]), atoi(w[5]), w[6] == "1"), ""
	case w[0] == "drain" && len(w) == 5:
		return ScenarioDrain(rng, atoi(w[1]), atoi(w[2]), atoi(w[3]), atoi(w[4])), ""
	case w[0] == "pool" && len(w) == 3:
		return ScenarioPool(rng, atoi(w[1]), atoi(w[2])), ""
	case w[0] == "emit" && len(w) == 6:
		return ScenarioEmitterLive(rng, atoi(w[1]), atoi(w[2]), atoi(w[3]), atoi(w[4]), w[5] == "1"), ""
	case w[0] == "emitstall" && len(w) == 2:
		return ScenarioEmitterStalled(w[1] == "close"), ""
	case w[0] == "views" && len(w) == 5:
		return ScenarioViews(rng, atoi(w[1]), atoi(w[2]), w[3] == "1", w[4] == "1"), ""
	case w[0] == "lostupd" && len(w) == 6:
		return ScenarioLostUpdate(rng, LostUpdateSpec{Reader: w[1], Writer: w[2], View: w[3], Stored: w[4] == "1", Noise: atoi(w[5])}), ""
	case w[0] == "tipdb" && len(w) == 5:
		return ScenarioTipCommitted(rng, atoi(w[1]), atoi(w[2]), atoi(w[3]), atoi(w[4])), ""
	case w[0] == "chaincta" && len(w) == 5:
		return ScenarioChainCheckThenAct(rng, atoi(w[1]), atoi(w[2]), atoi(w[3]), atoi(w[4])), ""
	}
	return nil, "bad-op"
}

func (prop) RunImpl(c corr.Case) ([]string, []corr.Fail) {
	out := make([]string, len(c.Ops))
	var fails []corr.Fail
	rng := rand.New(rand.NewSource(1))
	for i, op := range c.Ops {
		w := strings.Fields(op)
		if len(w) == 0 {
			out[i] = "bad-op"
			continue
		}
		if w[0] == "reset" {
			seed := int64(1)
			if len(w) > 1 {
				seed, _ = strconv.ParseInt(w[1], 10, 64)
			}
			rng = rand.New(rand.NewSource(seed))
			out[i] = "ok"
			continue
		}
		fs, e := runOp(rng, op)
		for _, f := range fs {
			f.Op = i
			fails = append(fails, f)
		}
		switch {
		case e != "":
			out[i] = e
		case len(fs) > 0:
			out[i] = "fail " + fs[0].Sig
		default:
			out[i] = "ok"
		}
	}
	return out, fails
}

func (prop) Classify(c corr.Case, out []string) string {
	if len(c.Ops) < 2 {
		return ""
	}
	w := strings.Fields(c.Ops[1])
	res := "ok"
	for _, o := range out[1:] {
		if o != "ok" {
			res = "fail"
		}
	}
	switch w[0] {
	case "bulk":
		k := "all-cached"
		if atoi(w[1]) >= atoi(w[2]) {
			k = "cache+db"
		}
		if strings.Contains(w[6], "+1") || strings.Contains(w[6], "+2") || strings.Contains(w[6], "+3") || strings.Contains(w[6], "+4") {
			k += "+missing"
		}
		return "bulk:" + k + ":" + res
	case "tip":
		return fmt.Sprintf("tip:stable%s:bulk%s:%s", w[1], w[6], res)
	case "drain":
		k := "within-cache"
		if atoi(w[3]) >= atoi(w[2]) {
			k = "beyond-cache"
		}
		return "drain:" + k + ":" + res
	case "views":
		return fmt.Sprintf("views:snap%s:ro%s:%s", w[3], w[4], res)
	case "lostupd":
		return fmt.Sprintf("lostupd:%s-vs-%s:%s", w[1], w[2], res)
	case "tipdb":
		return "tip-committed:" + res
	case "chaincta":
		return "chaincta:" + res
	}
	return w[0] + ":" + res
}

// Extra: one long mixed stress run — N readers of every kind against one writer, together with pool,
// emitter and view traffic, under the progress watchdog.
func (prop) Extra(rng *rand.Rand, tier string) corr.ExtraResult {
	rounds := 3
	scale := 1
	if tier == "thorough" {
		rounds = 12
		scale = 6
	}
	res := corr.ExtraResult{Notes: map[string]any{}}
	for r := 0; r < rounds; r++ {
		type job struct {
			name string
			fn   func(*rand.Rand) []corr.Fail
		}
		jobs := []job{
			{"tip", func(g *rand.Rand) []corr.Fail { return ScenarioTip(g, 30, 5, 12, 3000*scale, 4, true) }},
			{"bulk", func(g *rand.Rand) []corr.Fail {
				return ScenarioBulk(g, 40, 5, 4, 6, 60*scale, genSpecs(g, 40))
			}},
			{"pool", func(g *rand.Rand) []corr.Fail { return ScenarioPool(g, 8, 1500*scale) }},
			{"emit", func(g *rand.Rand) []corr.Fail { return ScenarioEmitterLive(g, 4, 3, 150*scale, 3, true) }},
			{"views", func(g *rand.Rand) []corr.Fail { return ScenarioViews(g, 6, 800*scale, true, r%2 == 1) }},
		}
		ch := make(chan []corr.Fail, len(jobs))
		for _, j := range jobs {
			seed := rng.Int63()
			go func(j job, seed int64) { ch <- j.fn(rand.New(rand.NewSource(seed))) }(j, seed)
		}
		for range jobs {
			res.Fails = append(res.Fails, <-ch...)
			res.Evaluations++
		}
	}
	res.Notes["rounds"] = rounds
	return res
}
