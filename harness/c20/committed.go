package c20

import (
	"fmt"
	"math/rand"
	"sync"
	"sync/atomic"

	"github.com/LiskHQ/lisk-engine/pkg/blockchain"
	"verifharness/corr"
)

// ScenarioTipCommitted: the writer only ADDS blocks (a growing chain, every block with transactions) while
// readers take the tip from Chain.LastBlock and then look its data up in the DATABASE (transactions by id, the
// transaction list of the block): a tip handed to a reader must be a complete committed block, i.e. everything
// the reader can ask about it is already there. Blocks are never removed here, so a miss cannot be explained by
// a later removal.
func ScenarioTipCommitted(rng *rand.Rand, stable, cache, readers, adds int) []corr.Fail {
	fs := &failSet{}
	w, err := NewWorld(rng, stable, cache, 2)
	if err != nil {
		return []corr.Fail{{Sig: "harness-error", Detail: err.Error(), Op: -1}}
	}
	blocks := make([]*blockchain.Block, adds)
	for i := range blocks {
		blocks[i] = MkBlock(rng, uint32(stable+1+i), 1+rng.Intn(12))
	}
	var progress int64
	var stop int32
	ok := watchdog(&progress, func() {
		var wg sync.WaitGroup
		for r := 0; r < readers; r++ {
			wg.Add(1)
			go func(r int) {
				defer wg.Done()
				da := w.Chain.DataAccess()
				for i := 0; atomic.LoadInt32(&stop) == 0; i++ {
					b := w.Chain.LastBlock()
					if b == nil || b.Header == nil {
						fs.add("c20-tip-nil", "Chain.LastBlock returned no block")
						continue
					}
					ids := make([][]byte, len(b.Transactions))
					for k, tx := range b.Transactions {
						ids[k] = tx.ID
					}
					switch (r + i) % 3 {
					case 0:
						for _, id := range ids {
							if _, err := da.GetTransaction(id); err != nil {
								fs.add("c20-tip-not-committed-in-db", fmt.Sprintf("tip at height %d obtained from LastBlock, but its transaction %x is not in the database: %v", b.Header.Height, id[:4], err))
								break
							}
						}
					case 1:
						if len(ids) > 0 {
							got, err := da.GetTransactions(ids)
							if err != nil || len(got) != len(ids) {
								fs.add("c20-tip-not-committed-in-db", fmt.Sprintf("tip at height %d obtained from LastBlock, GetTransactions returned %d of its %d transactions (err=%v)", b.Header.Height, len(got), len(ids), err))
							}
						}
					case 2:
						hd, err := da.GetLastBlockHeader()
						if err != nil || hd.Height < b.Header.Height {
							fs.add("c20-tip-not-committed-in-db", fmt.Sprintf("tip at height %d obtained from LastBlock, GetLastBlockHeader afterwards gives %v (err=%v)", b.Header.Height, hd, err))
						}
					}
					atomic.AddInt64(&progress, 1)
				}
			}(r)
		}
		for _, b := range blocks {
			if err := w.Chain.AddBlock(w.DB.NewBatch(), b, []*blockchain.Event{}, 0, false); err != nil {
				fs.add("c20-writer-error", "AddBlock: "+err.Error())
			}
			atomic.AddInt64(&progress, 1)
		}
		atomic.StoreInt32(&stop, 1)
		wg.Wait()
	})
	if !ok {
		fs.add("c20-hang-block-cache", "readers of the tip and the writer adding blocks stopped making progress (blockCache lock)")
		return fs.fails
	}
	w.Close()
	return fs.fails
}
