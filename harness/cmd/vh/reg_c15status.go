package main

import _ "verifharness/c15status"
