package main

import _ "verifharness/c13"
