package main

import _ "verifharness/c17"
