package main

import _ "verifharness/c06bls"
