package main

import _ "verifharness/engineboot"
