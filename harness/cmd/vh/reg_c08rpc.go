package main

import _ "verifharness/c08rpc"
