package main

import _ "verifharness/c19"
