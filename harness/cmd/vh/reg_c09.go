package main

import _ "verifharness/c09"
