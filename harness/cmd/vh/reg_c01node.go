package main

import _ "verifharness/c01node"
