package main

import _ "verifharness/libcoll"
