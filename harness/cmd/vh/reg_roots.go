package main

import _ "verifharness/roots"
