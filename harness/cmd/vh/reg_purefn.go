package main

import _ "verifharness/purefn"
