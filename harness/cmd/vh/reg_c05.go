package main

import _ "verifharness/c05"
