package main

import _ "verifharness/c20cache"
