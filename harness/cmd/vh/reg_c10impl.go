package main

import _ "verifharness/c10impl"
