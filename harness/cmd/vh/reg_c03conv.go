package main

import _ "verifharness/c03conv"
