package main

import _ "verifharness/nodecheck"
