package main

import _ "verifharness/c04"
