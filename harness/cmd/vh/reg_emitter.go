package main

import _ "verifharness/emitter"
