// Command vh is the correspondence harness: `vh <property> --tier quick --seed 1 --ldriver <path> --out report.json`.
package main

import (
	"flag"
	"fmt"
	"os"

	"verifharness/corr"
)

func main() {
	if len(os.Args) < 2 {
		fmt.Println("usage: vh <property-id> [flags]; properties:", corr.IDs())
		os.Exit(2)
	}
	id := os.Args[1]
	fs := flag.NewFlagSet("vh", flag.ExitOnError)
	tier := fs.String("tier", "quick", "quick|thorough")
	seed := fs.Int64("seed", 1, "PRNG seed")
	ldriver := fs.String("ldriver", "", "path of the Lean model driver")
	out := fs.String("out", "", "report file")
	corpus := fs.String("corpus", "", "corpus directory")
	replay := fs.String("replay", "", "replay file")
	_ = fs.Parse(os.Args[2:])
	p := corr.Lookup(id)
	if p == nil {
		fmt.Println("unknown property", id, "known:", corr.IDs())
		os.Exit(2)
	}
	rep := corr.Main(p, corr.Options{Tier: *tier, Seed: *seed, LDriver: *ldriver, Out: *out, Corpus: *corpus, Replay: *replay})
	fmt.Printf("cases=%d ops=%d distinct=%d mismatches=%d propfails=%d error=%q wall=%.1fs\n", rep.Cases, rep.Ops, rep.Distinct, len(rep.Mismatches), len(rep.PropFails), rep.Error, rep.WallS)
	if *replay != "" {
		for _, m := range rep.Mismatches {
			fmt.Println("MISMATCH at op", m.FirstDiff)
			for i, op := range m.Case.Ops {
				im, mo := "", ""
				if i < len(m.Impl) {
					im = m.Impl[i]
				}
				if i < len(m.Model) {
					mo = m.Model[i]
				}
				fmt.Printf("  %-40s impl=%s model=%s\n", op, im, mo)
			}
		}
		for _, f := range rep.PropFails {
			fmt.Println("PROPFAIL", f.Sig, f.Detail)
		}
	}
}
