package main

import _ "verifharness/c12"
