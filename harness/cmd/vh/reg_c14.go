package main

import _ "verifharness/c14"
