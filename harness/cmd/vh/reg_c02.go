package main

import _ "verifharness/c02"
