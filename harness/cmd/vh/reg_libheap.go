package main

import _ "verifharness/libheap"
