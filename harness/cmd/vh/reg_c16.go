package main

import _ "verifharness/c16"
