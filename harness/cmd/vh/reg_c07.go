package main

import _ "verifharness/c07"
