package main

import _ "verifharness/c18"
