package main

import _ "verifharness/c11"
