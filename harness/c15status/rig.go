package c15status

import (
	"context"
	"crypto/sha256"
	"encoding/json"
	"fmt"
	"os"
	"path/filepath"
	"sort"
	"strings"
	"sync"

	"github.com/cockroachdb/pebble/vfs"

	"github.com/LiskHQ/lisk-engine/pkg/codec"
	"github.com/LiskHQ/lisk-engine/pkg/crypto"
	"github.com/LiskHQ/lisk-engine/pkg/db"
	"github.com/LiskHQ/lisk-engine/pkg/engine/config"
	"github.com/LiskHQ/lisk-engine/pkg/engine/endpoint"
	"github.com/LiskHQ/lisk-engine/pkg/generator"
	"github.com/LiskHQ/lisk-engine/pkg/log"
	"github.com/LiskHQ/lisk-engine/pkg/router"
	"github.com/LiskHQ/lisk-engine/pkg/txpool"

	"verifharness/c15"
	"verifharness/node"
)

// ---------------------------------------------------------------------------------------------
// A pebble file system that reports the syncs of the write-ahead log.
//
// db.DB.Write applies its batch with pebble.Sync: the call returns after the WAL file was synced.
// syncFS wraps the strict in-memory file system of the crash tests and calls `hook(before)` right
// before and right after every Sync of a *.log file. The harness uses it (1) to look at
// Generator.IsGenerationEnabled at the moment the record of an updateStatus call becomes durable and
// (2) to let the process "die" at exactly that moment: the hook switches the file system to
// ignore-syncs mode, so nothing from that moment on survives ResetToSyncedState.
// ---------------------------------------------------------------------------------------------

type syncFS struct {
	*vfs.MemFS
	mu   sync.Mutex
	hook func(before bool)
}

func (f *syncFS) setHook(h func(before bool)) {
	f.mu.Lock()
	f.hook = h
	f.mu.Unlock()
}

func (f *syncFS) fire(before bool) {
	f.mu.Lock()
	h := f.hook
	f.mu.Unlock()
	if h != nil {
		h(before)
	}
}

type syncFile struct {
	vfs.File
	fs *syncFS
}

func (s syncFile) Sync() error {
	s.fs.fire(true)
	err := s.File.Sync()
	s.fs.fire(false)
	return err
}

func (f *syncFS) wrap(name string, file vfs.File, err error) (vfs.File, error) {
	if err != nil || !strings.HasSuffix(name, ".log") {
		return file, err
	}
	return syncFile{File: file, fs: f}, nil
}

func (f *syncFS) Create(name string) (vfs.File, error) {
	file, err := f.MemFS.Create(name)
	return f.wrap(name, file, err)
}

func (f *syncFS) ReuseForWrite(oldname, newname string) (vfs.File, error) {
	file, err := f.MemFS.ReuseForWrite(oldname, newname)
	return f.wrap(newname, file, err)
}

// ---------------------------------------------------------------------------------------------
// rig: node harness + real Generator + real generator endpoint over one crashable generator database
// ---------------------------------------------------------------------------------------------

// tracked addresses: validators 0,1 (managed through keys file / setKeys), validator 2 (another
// weight-1 validator, gets keys only through setKeys), 9 = an address that is no validator.
var trackedIdx = []int{0, 1, 2, 9}

const kingIdx = 3 // validator 3 holds the prevote threshold alone: a block of it moves maxHeightPrevoted

type fileKey struct {
	kind byte // 'p' plain, 'e' encrypted, '-' absent
	pw   int
}

type rig struct {
	n        *node.Node
	stranger []byte
	dir      string
	keysPath string

	fs     *syncFS
	genDB  *db.DB
	gen    *generator.Generator
	cons   *c15.Clock
	pool   *txpool.TransactionPool
	logger log.Logger
	forge  *c15.ForgeRig
	ep     router.EndpointHandlers
	cancel context.CancelFunc
}

func password(n int) string { return fmt.Sprintf("pw%d", n) }

func (r *rig) addrOf(idx int) []byte {
	if idx == 9 {
		return r.stranger
	}
	if idx >= 0 && idx < len(r.n.Validators) {
		return r.n.Validators[idx].Address
	}
	return nil
}

func (r *rig) idxOf(addr []byte) int {
	for _, i := range trackedIdx {
		if string(r.addrOf(i)) == string(addr) {
			return i
		}
	}
	if string(r.addrOf(kingIdx)) == string(addr) {
		return kingIdx
	}
	return -1
}

func plainKeysOf(v *node.Validator) *generator.PlainKeys {
	return &generator.PlainKeys{GeneratorKey: v.EdPub, GeneratorPrivateKey: v.EdPriv, BLSKey: v.BLSPub, BLSPrivateKey: v.BLSPriv}
}

// cheap KDF parameters: the harness opens encrypted keys thousands of times
var encOpts = &crypto.EncryptOptions{KDF: crypto.KDFArgon2ID, Parallelism: 1, Iterations: 1, MemorySize: 8}

func newRig(seed int64, file []fileKey) (*rig, error) {
	n, err := node.New(node.Config{NumValidators: 4, Weights: []uint64{1, 1, 1, 9}, PrecommitThreshold: 12, Seed: seed})
	if err != nil {
		return nil, err
	}
	n.ABI.LogCalls = false
	r := &rig{n: n, logger: c15.NewForgeLogger()}
	h := sha256.Sum256([]byte(fmt.Sprintf("c15status-stranger-%d", seed)))
	r.stranger = h[:20]
	r.dir, err = os.MkdirTemp("", "c15status-")
	if err != nil {
		n.Close()
		return nil, err
	}
	if err := r.writeKeysFile(file); err != nil {
		r.Close()
		return nil, err
	}
	r.fs = &syncFS{MemFS: vfs.NewStrictMem()}
	if err := r.openGenDB(); err != nil {
		r.Close()
		return nil, err
	}
	if err := r.startGenerator(true); err != nil {
		r.Close()
		return nil, err
	}
	return r, nil
}

func (r *rig) writeKeysFile(file []fileKey) error {
	type item struct {
		Address   codec.Lisk32         `json:"address"`
		Plain     *generator.PlainKeys `json:"plain"`
		Encrypted interface{}          `json:"encrypted"`
	}
	f := struct {
		Keys []item `json:"keys"`
	}{Keys: []item{}}
	for i, k := range file {
		v := r.n.Validators[i]
		switch k.kind {
		case 'p':
			// saveGeneratorsFromFile calls Encrypted.Validate() first; an absent "encrypted" object is a
			// nil pointer and the value-receiver call panics (C15 finding c15-keys-file-plain-only-panics)
			f.Keys = append(f.Keys, item{Address: v.Address, Plain: plainKeysOf(v), Encrypted: map[string]string{}})
		case 'e':
			msg, err := crypto.EncryptMessageWithPassword(plainKeysOf(v).Encode(), password(k.pw), encOpts)
			if err != nil {
				return err
			}
			f.Keys = append(f.Keys, item{Address: v.Address, Plain: &generator.PlainKeys{}, Encrypted: msg})
		}
	}
	data, err := json.Marshal(f)
	if err != nil {
		return err
	}
	r.keysPath = filepath.Join(r.dir, "keys.json")
	return os.WriteFile(r.keysPath, data, 0o600)
}

func (r *rig) openGenDB() error {
	d, err := db.NewDBWithFS(r.fs, "")
	if err != nil {
		return err
	}
	r.genDB = d
	return nil
}

// startGenerator: new Generator over the node's current Chain / Executer and the generator
// database, Init (withFile: the keys file is configured), new endpoint object.
func (r *rig) startGenerator(withFile bool) (err error) {
	defer func() {
		if p := recover(); p != nil {
			err = fmt.Errorf("generator init panic: %v", p)
		}
	}()
	ctx, cancel := context.WithCancel(context.Background())
	r.cancel = cancel
	r.cons = c15.NewClock(r.n.Exec)
	r.pool = txpool.NewTransactionPool(nil)
	r.gen = generator.NewGenerator(&generator.GeneratorParams{Consensus: r.cons, ABI: r.n.ABI, Pool: r.pool, Chain: r.n.Chain})
	cfg := &config.Config{
		System:    &config.SystemConfig{DataPath: r.dir},
		Genesis:   &config.GenesisConfig{BlockTime: r.n.Cfg.BlockTime, MaxTransactionsSize: 15 * 1024, ChainID: r.n.Cfg.ChainID},
		Generator: &config.GeneratorConfig{Keys: &config.KeysConfig{}},
	}
	if withFile {
		cfg.Generator.Keys.FromFile = r.keysPath
	}
	err = r.gen.Init(&generator.GeneratorInitParams{CTX: ctx, Cfg: cfg, Logger: r.logger, BlockchainDB: r.n.DB, GeneratorDB: r.genDB})
	r.gen.VerifStopTicker()
	r.forge = c15.NewForgeRig(r.n, r.gen, r.cons, r.pool, r.genDB, r.logger)
	r.ep = endpoint.NewGeneratorEndpoint(cfg, r.n.Chain, r.n.Exec, r.gen, r.n.DB, r.genDB, r.n.ABI).Endpoint()
	return err
}

func (r *rig) stopGenerator() {
	if r.cancel != nil {
		r.cancel()
		r.cancel = nil
	}
	r.gen = nil
}

// Restart: process restart. crash=true drops whatever the generator database had not synced.
func (r *rig) Restart(crash, withFile bool) error {
	r.stopGenerator()
	r.fs.setHook(nil)
	if crash {
		r.fs.SetIgnoreSyncs(true)
	}
	func() {
		defer func() { _ = recover() }()
		_ = r.genDB.Close()
	}()
	if crash {
		r.fs.ResetToSyncedState()
		r.fs.SetIgnoreSyncs(false)
	}
	if err := r.openGenDB(); err != nil {
		return err
	}
	if err := r.n.Restart(); err != nil {
		return err
	}
	return r.startGenerator(withFile)
}

func (r *rig) Close() {
	r.stopGenerator()
	if r.genDB != nil {
		func() {
			defer func() { _ = recover() }()
			_ = r.genDB.Close()
		}()
		r.genDB = nil
	}
	if r.n != nil {
		r.n.Close()
	}
	if r.dir != "" {
		_ = os.RemoveAll(r.dir)
	}
}

// ---------------------------------------------------------------------------------------------
// raw views of the generator database (no endpoint / generator logic involved, only the key layout
// and the codec of the stored values)
// ---------------------------------------------------------------------------------------------

type rec struct {
	ok      bool
	h, p, g uint32
}

func (a rec) String() string {
	if !a.ok {
		return "-"
	}
	return fmt.Sprintf("%d/%d/%d", a.h, a.p, a.g)
}

func (r *rig) rawInfo(idx int) rec {
	data, ok := r.genDB.Get(generator.VerifInfoKey(r.addrOf(idx)))
	if !ok {
		return rec{}
	}
	i := generator.GeneratorInfo{}
	if err := i.Decode(data); err != nil {
		return rec{ok: true, h: ^uint32(0), p: ^uint32(0), g: ^uint32(0)}
	}
	return rec{ok: true, h: i.Height, p: i.MaxHeightPrevoted, g: i.MaxHeightGenerated}
}

// rawKey: '-' nothing stored, 'p' plain, 'e' encrypted with data, 'u' encrypted without data, '?' other
func (r *rig) rawKey(idx int) byte {
	key := append(append([]byte{}, generator.GeneratorDBPrefixKeys...), r.addrOf(idx)...)
	data, ok := r.genDB.Get(key)
	if !ok {
		return '-'
	}
	k := &generator.Keys{}
	if err := k.Decode(data); err != nil {
		return '?'
	}
	switch {
	case k.Type == generator.KeyTypePlain && len(k.Data) > 0:
		return 'p'
	case k.Type == generator.KeyTypeEncrypted && len(k.Data) > 0:
		return 'e'
	case k.Type == generator.KeyTypeEncrypted:
		return 'u'
	}
	return '?'
}

func (r *rig) enabledIdx() []int {
	res := []int{}
	for _, a := range r.gen.VerifEnabled() {
		res = append(res, r.idxOf(a))
	}
	sort.Ints(res)
	return res
}

type snapshot struct {
	info    map[int]rec
	key     map[int]byte
	enabled map[int]bool
}

func (r *rig) snap() snapshot {
	s := snapshot{info: map[int]rec{}, key: map[int]byte{}, enabled: map[int]bool{}}
	for _, i := range trackedIdx {
		s.info[i] = r.rawInfo(i)
		s.key[i] = r.rawKey(i)
	}
	for _, i := range r.enabledIdx() {
		s.enabled[i] = true
	}
	return s
}

// state line: ` | i0=.. i1=.. i2=.. i9=.. en=<idx,..|-> k=<kinds>`
func (s snapshot) String() string {
	var b strings.Builder
	b.WriteString(" |")
	for _, i := range trackedIdx {
		fmt.Fprintf(&b, " i%d=%s", i, s.info[i])
	}
	en := []string{}
	idx := []int{}
	for i := range s.enabled {
		idx = append(idx, i)
	}
	sort.Ints(idx)
	for _, i := range idx {
		en = append(en, fmt.Sprint(i))
	}
	if len(en) == 0 {
		en = []string{"-"}
	}
	b.WriteString(" en=" + strings.Join(en, ","))
	b.WriteString(" k=")
	for _, i := range trackedIdx {
		b.WriteByte(s.key[i])
	}
	return b.String()
}

// ---------------------------------------------------------------------------------------------
// endpoint calls
// ---------------------------------------------------------------------------------------------

type respWriter struct {
	data interface{}
	err  error
}

func (w *respWriter) Write(d interface{}) { w.data = d }
func (w *respWriter) Error(e error)       { w.err = e }

func (r *rig) callRaw(name string, data []byte) *respWriter {
	w := &respWriter{}
	r.ep[name](w, router.NewEndpointRequest(context.Background(), r.logger, data))
	return w
}

func (r *rig) call(name string, params interface{}) *respWriter {
	data, err := json.Marshal(params)
	if err != nil {
		return &respWriter{err: err}
	}
	return r.callRaw(name, data)
}

func cryptoEncrypt(msg []byte, pw string) (interface{}, error) {
	return crypto.EncryptMessageWithPassword(msg, pw, encOpts)
}
