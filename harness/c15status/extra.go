package c15status

import (
	"context"
	"encoding/json"
	"fmt"
	"math/rand"
	"sync/atomic"

	"github.com/LiskHQ/lisk-engine/pkg/codec"
	"github.com/LiskHQ/lisk-engine/pkg/engine/config"
	"github.com/LiskHQ/lisk-engine/pkg/engine/endpoint"
	"github.com/LiskHQ/lisk-engine/pkg/generator"
	"github.com/LiskHQ/lisk-engine/pkg/router"

	"verifharness/corr"
	"verifharness/node"
)

// Extra: counters of what the generated cases exercised, and model-free observations of corners that
// are outside the line protocol (recorded in Notes, no Fail unless a property clause breaks):
//   - estimateSafeStatus arithmetic on a young chain,
//   - requests without address,
//   - a stored empty value under an information key (generatorInfoStore.Get ignores `exist`).
func (prop) Extra(rng *rand.Rand, tier string) corr.ExtraResult {
	res := corr.ExtraResult{Notes: map[string]any{}}
	res.Notes["counters"] = map[string]int64{
		"updateStatus_enabled":                    atomic.LoadInt64(&cntEnabled),
		"forged_headers":                          atomic.LoadInt64(&cntForged),
		"crash_before_record_durable":             atomic.LoadInt64(&cntCrashBefore),
		"crash_after_record_durable":              atomic.LoadInt64(&cntCrashAfter),
		"updates_with_observed_sync":              atomic.LoadInt64(&cntSyncSeen),
		"contradictions_after_setStatus_override": atomic.LoadInt64(&cntOverrideContra),
	}
	func() {
		defer func() {
			if p := recover(); p != nil {
				res.Fails = append(res.Fails, corr.Fail{Sig: "c15s-panic", Detail: fmt.Sprintf("extra: %v", p), Op: -1})
			}
		}()
		r, err := newRig(4242, []fileKey{{kind: 'p'}, {kind: '-'}})
		if err != nil {
			res.Notes["rig"] = err.Error()
			return
		}
		defer r.Close()
		res.Evaluations++
		res.Notes["estimateSafeStatus"] = extraEstimate(r)
		res.Evaluations++
		res.Notes["empty_address"] = extraEmptyAddress(r, &res)
		res.Evaluations++
		res.Notes["empty_stored_value"] = extraEmptyValue(r, &res)
	}()
	return res
}

// extraEstimate: the endpoint computes `heightOneMonthAgo := ints.Max(numberOfBlocksPerMonth, 0)` -
// the ABSOLUTE height "blocks per month", not finalizedHeight - blocksPerMonth - and then subtracts
// uint32 timestamps / heights of the finalized block and of that block. The chain of the rig never
// finalizes (finalized height 0); a configured block time of 10 days makes "a month" 3 blocks.
func extraEstimate(r *rig) []string {
	notes := []string{}
	cfg := &config.Config{Genesis: &config.GenesisConfig{BlockTime: 864000}}
	ep := endpoint.NewGeneratorEndpoint(cfg, r.n.Chain, r.n.Exec, r.gen, r.n.DB, r.genDB, r.n.ABI).Endpoint()
	ask := func(what string) {
		w := &respWriter{}
		func() {
			defer func() {
				if p := recover(); p != nil {
					w.err = fmt.Errorf("panic: %v", p)
				}
			}()
			ep["estimateSafeStatus"](w, router.NewEndpointRequest(context.Background(), r.logger, []byte(`{"timeShutdown":0}`)))
		}()
		fin := r.n.Finalized()
		if w.err != nil {
			notes = append(notes, fmt.Sprintf("%s: tip %d, finalized %d, blocks per month 3 -> error %q", what, r.n.Height(), fin, w.err.Error()))
			return
		}
		if resp, ok := w.data.(*endpoint.EstimateSafeStatusResponse); ok {
			notes = append(notes, fmt.Sprintf("%s: tip %d, finalized %d, blocks per month 3 -> height=%d maxHeightPrevoted=%d maxHeightGenerated=%d", what, r.n.Height(), fin, resp.Height, resp.MaxHeightPrevoted, resp.MaxHeightGenerated))
		}
	}
	ask("chain younger than a month")
	for i := 0; i < 5; i++ {
		b, err := r.n.BuildBlock(node.BlockOpts{Generator: r.n.Validators[kingIdx]})
		if err != nil {
			return append(notes, "build: "+err.Error())
		}
		if err := r.n.Process(b); err != nil {
			return append(notes, "process: "+err.Error())
		}
	}
	ask("finalized block older than the block at height blocks-per-month")
	return notes
}

// extraEmptyAddress: codec.Lisk32 accepts the empty string: a request without address writes / reads
// a record under the bare information prefix.
func extraEmptyAddress(r *rig, res *corr.ExtraResult) string {
	w := r.callRaw("setStatus", []byte(`{"height":7,"maxHeightPreviouslyForged":6,"maxHeightPrevoted":5}`))
	if w.err != nil {
		return "setStatus without address: error " + w.err.Error()
	}
	data, ok := r.genDB.Get(generator.VerifInfoKey(codec.Lisk32{}))
	note := fmt.Sprintf("setStatus without address accepted; record under the empty address stored=%v", ok)
	if ok {
		i := generator.GeneratorInfo{}
		_ = i.Decode(data)
		note += fmt.Sprintf(" (%d/%d/%d)", i.Height, i.MaxHeightPrevoted, i.MaxHeightGenerated)
	}
	g := r.call("getStatus", map[string]interface{}{})
	if g.err != nil {
		return note + "; getStatus afterwards: error " + g.err.Error()
	}
	if resp, ok := g.data.(*endpoint.GetGeneratorsResponse); ok {
		for _, s := range resp.Status {
			if len(s.Address) == 0 {
				js, _ := json.Marshal(s)
				note += "; getStatus lists it: " + string(js)
			}
		}
	}
	// no validator record may have been touched
	for _, i := range trackedIdx {
		if r.rawInfo(i).ok {
			res.Fails = append(res.Fails, corr.Fail{Sig: "c15s-record-created", Detail: fmt.Sprintf("setStatus without address created a record for %d", i), Op: -1})
		}
	}
	return note
}

// extraEmptyValue: verifyAndUpdateGeneratorInfo decides "nothing stored" by len(value) == 0 and
// ignores the exist flag of Get. No code path stores an empty value (GeneratorInfo.Encode of the
// all-zero record is 6 bytes); if one is planted, updateStatus treats it as absent.
func extraEmptyValue(r *rig, res *corr.ExtraResult) string {
	v := 0
	zero := (&generator.GeneratorInfo{}).Encode()
	r.genDB.Set(generator.VerifInfoKey(r.addrOf(v)), []byte{})
	for i := 0; i < 2; i++ {
		b, err := r.n.BuildBlock(node.BlockOpts{Generator: r.n.Validators[kingIdx]})
		if err == nil {
			_ = r.n.Process(b)
		}
	}
	w1 := r.call("updateStatus", map[string]interface{}{"generatorAddress": codec.Lisk32(r.addrOf(v)), "password": "", "enable": true, "height": 1, "maxHeightPrevoted": 0, "maxHeightGenerated": 0})
	w2 := r.call("updateStatus", map[string]interface{}{"generatorAddress": codec.Lisk32(r.addrOf(v)), "password": "", "enable": true, "height": 0, "maxHeightPrevoted": 0, "maxHeightGenerated": 0})
	e1, e2 := "accepted", "accepted"
	if w1.err != nil {
		e1 = classify(w1.err)
	}
	if w2.err != nil {
		e2 = classify(w2.err)
	}
	if e1 == "accepted" {
		res.Fails = append(res.Fails, corr.Fail{Sig: "c15s-enabled-with-unequal-info", Detail: "empty stored value: updateStatus(1/0/0) accepted", Op: -1})
	}
	return fmt.Sprintf("all-zero record encodes to %d bytes; with an EMPTY value planted under the key: updateStatus(1/0/0) -> %s, updateStatus(0/0/0) -> %s, stored afterwards %s", len(zero), e1, e2, r.rawInfo(v))
}
