// Package c15status: correspondence and model-free oracle for the writers and readers of the
// persisted generator information OTHER than Generator.forge - the generator RPC endpoint
// (pkg/engine/endpoint/generator_endpoint.go: updateStatus, setStatus, getStatus, setKeys, hasKeys,
// getAllKeys) and Generator.Init (saveGeneratorsFromFile, loadGenerator), EnableGeneration /
// DisableGeneration / IsGenerationEnabled - pseudo-property C15STATUS, part of C15.
//
// The REAL endpoint handlers are called in-process on a REAL Generator over the node harness and a
// crashable generator database; they are interleaved with REAL forge steps (the shifted-clock
// forge of harness/c15), chain extensions / deletions and process restarts. After every operation
// the stored records, the enabled set and the stored key kinds are read RAW from the database /
// the generator and printed; the Lean driver (lean/Driver/GenStatus.lean, model
// LiskVerif/Model/GenStatus.lean composed with Model/Generator.lean) prints the same line.
//
// Chain environment: 4 validators with BFT weights 1,1,1,9 and precommit threshold 12. Validator 3
// ("king") reaches the prevote threshold (9) alone: a block of it at height h with
// maxHeightGenerated < h moves the chain's maxHeightPrevoted to h; no other block moves it; nothing
// is ever finalized (validator 2 never generates), so every block can be deleted again. The chain's
// maxHeightPrevoted after an operation is an INPUT of the model (as in Model/Generator.lean); the
// Lean driver supplies it with the rule above, the runner prints the real value in every line - a
// deviation from the rule shows up as a mismatch.
//
// Line protocol (every output line ends with ` t=<height>/<chain maxHeightPrevoted> | <state>`,
// state = `i0=<h>/<p>/<g>|- i1= i2= i9= en=<idx,..|-> k=<kinds of 0,1,2,9: p e u ->`):
//
//	reset seed=<s> file=<k0>,<k1>          -> ok            k = - | p | e<pw>: keys file entry of validator 0 / 1
//	ext                                    -> ext           the king extends the tip
//	del <k>                                -> del           k blocks deleted from the tip
//	forge <v>                              -> noforge | forged h=<h> g=<mhg> p=<mhp> acc=1
//	forgedrop <v> | forgecrash <v>         -> noforge | forged ... acc=0   (block lost | process dies at the hand-off, restart)
//	restart f=<0|1> | crash f=<0|1>        -> ok            new Generator + Init on the same database (f: keys file configured)
//	update <v> pw=<n> en=<0|1> h= p= g= [c=b|a]  -> enabled | disabled | crashed | err:<params|notstored|keys|password|notsynced|contradicting|noprevious>
//	                                                     c=b / c=a: the process dies right before / right after the record is durable
//	setstatus <v> h= p= g=                 -> ok | err:params
//	getstatus                              -> status <v>:<en>:<h>/<p>/<g>,.. | status -
//	setkeys <v> <p|e>                      -> ok
//	haskeys <v>                            -> has=<0|1>
//	allkeys                                -> keys <v>:<type>,.. | keys - | err
//	badjson <endpoint>                     -> err:params
package c15status

import (
	"bytes"
	"encoding/json"
	"errors"
	"fmt"
	"math/rand"
	"sort"
	"strconv"
	"strings"
	"sync/atomic"

	"github.com/LiskHQ/lisk-engine/pkg/blockchain"
	"github.com/LiskHQ/lisk-engine/pkg/codec"
	"github.com/LiskHQ/lisk-engine/pkg/consensus/contradiction"
	"github.com/LiskHQ/lisk-engine/pkg/engine/endpoint"

	"verifharness/c15"
	"verifharness/corr"
	"verifharness/node"
)

type prop struct{}

func init() { corr.Register(prop{}) }

func (prop) ID() string    { return "C15STATUS" }
func (prop) Parallel() int { return 4 }

var (
	cntEnabled, cntForged, cntCrashBefore, cntCrashAfter, cntSyncSeen, cntOverrideContra int64
)

// ---------------------------------------------------------------------------------------------
// runner
// ---------------------------------------------------------------------------------------------

type signedHdr struct {
	h *blockchain.BlockHeader
}

type runner struct {
	fails []corr.Fail
	op    int
	r     *rig
	file  []fileKey

	signed  map[int][]*signedHdr // headers handed on per validator, oldest first
	tainted map[int]bool         // setStatus was applied to the address: the operator took over
}

func (x *runner) fail(sig, f string, a ...interface{}) {
	x.fails = append(x.fails, corr.Fail{Sig: sig, Detail: fmt.Sprintf(f, a...), Op: x.op})
}

func (x *runner) close() {
	if x.r != nil {
		x.r.Close()
		x.r = nil
	}
}

func kv(words []string, key string) (uint64, bool) {
	for _, w := range words {
		if strings.HasPrefix(w, key+"=") {
			n, err := strconv.ParseUint(w[len(key)+1:], 10, 64)
			return n, err == nil
		}
	}
	return 0, false
}

func kvs(words []string, key string) (string, bool) {
	for _, w := range words {
		if strings.HasPrefix(w, key+"=") {
			return w[len(key)+1:], true
		}
	}
	return "", false
}

func parseFile(s string) ([]fileKey, bool) {
	res := []fileKey{}
	for _, t := range strings.Split(s, ",") {
		switch {
		case t == "-":
			res = append(res, fileKey{kind: '-'})
		case t == "p":
			res = append(res, fileKey{kind: 'p'})
		case strings.HasPrefix(t, "e"):
			n, err := strconv.Atoi(t[1:])
			if err != nil {
				return nil, false
			}
			res = append(res, fileKey{kind: 'e', pw: n})
		default:
			return nil, false
		}
	}
	return res, len(res) == 2
}

func (prop) RunImpl(c corr.Case) ([]string, []corr.Fail) {
	x := &runner{}
	defer x.close()
	out := make([]string, len(c.Ops))
	for i, op := range c.Ops {
		x.op = i
		func() {
			defer func() {
				if p := recover(); p != nil {
					out[i] = "panic"
					x.fail("c15s-panic", "op %q: %v", op, p)
				}
			}()
			out[i] = x.step(strings.Fields(op))
		}()
	}
	return out, x.fails
}

func (x *runner) tail() string {
	mhp, _, _ := x.r.n.BFTHeights()
	return fmt.Sprintf(" t=%d/%d%s", x.r.n.Height(), mhp, x.r.snap())
}

func isTracked(i int) bool { return i == 0 || i == 1 || i == 2 || i == 9 }

func (x *runner) step(w []string) string {
	if len(w) == 0 {
		return "bad-op"
	}
	if w[0] == "reset" {
		x.close()
		x.signed = map[int][]*signedHdr{}
		x.tainted = map[int]bool{}
		seed, _ := kv(w, "seed")
		fs, _ := kvs(w, "file")
		file, ok := parseFile(fs)
		if !ok {
			return "bad-op"
		}
		r, err := newRig(int64(seed), file)
		if err != nil {
			x.fail("c15s-harness", "rig: %v", err)
			return "rig-error"
		}
		x.r = r
		x.file = file
		x.checkRestart(snapshot{info: map[int]rec{}}, "first start")
		return "ok" + x.tail()
	}
	if x.r == nil {
		return "bad-op"
	}
	before := x.r.snap()
	res := x.dispatch(w, before)
	if res == "bad-op" {
		return res
	}
	after := x.r.snap()
	x.checkGeneric(w, before, after)
	switch w[0] {
	case "getstatus", "haskeys", "allkeys":
		return res
	}
	return res + x.tail()
}

func (x *runner) dispatch(w []string, before snapshot) string {
	r := x.r
	switch w[0] {
	case "ext":
		b, err := r.n.BuildBlock(node.BlockOpts{Generator: r.n.Validators[kingIdx]})
		if err != nil {
			x.fail("c15s-harness", "ext: build: %v", err)
			return "build-error"
		}
		if res := r.n.ProcessResult(b); !res.Applied {
			x.fail("c15s-harness", "ext: block of the king not applied: %v (%s)", res.Err, res.ForkChoice)
		}
		return "ext"
	case "del":
		if len(w) != 2 {
			return "bad-op"
		}
		k, err := strconv.Atoi(w[1])
		if err != nil {
			return "bad-op"
		}
		for i := 0; i < k && r.n.Height() > 0; i++ {
			if err := r.n.DeleteTip(false); err != nil {
				x.fail("c15s-harness", "del: %v", err)
				break
			}
		}
		return "del"
	case "forge", "forgedrop", "forgecrash":
		return x.opForge(w, before)
	case "restart", "crash":
		f, _ := kv(w, "f")
		if err := r.Restart(w[0] == "crash", f == 1); err != nil {
			x.fail("c15s-harness", "restart: %v", err)
			return "restart-error"
		}
		x.checkRestart(before, w[0])
		return "ok"
	case "update":
		return x.opUpdate(w, before)
	case "setstatus":
		return x.opSetStatus(w)
	case "getstatus":
		return x.opGetStatus()
	case "setkeys":
		return x.opSetKeys(w)
	case "haskeys":
		if len(w) != 2 {
			return "bad-op"
		}
		i, err := strconv.Atoi(w[1])
		if err != nil || !isTracked(i) {
			return "bad-op"
		}
		rw := r.call("hasKeys", map[string]interface{}{"address": codec.Lisk32(r.addrOf(i))})
		resp, ok := rw.data.(*endpoint.HasKeysResponse)
		if rw.err != nil || !ok {
			return "err"
		}
		if resp.HasKeys != (before.key[i] != '-') {
			x.fail("c15s-haskeys-mismatch", "hasKeys(%d) = %v, the key store holds %q", i, resp.HasKeys, before.key[i])
		}
		if resp.HasKeys {
			return "has=1"
		}
		return "has=0"
	case "allkeys":
		return x.opAllKeys()
	case "badjson":
		if len(w) != 2 {
			return "bad-op"
		}
		if _, ok := r.ep[w[1]]; !ok {
			return "bad-op"
		}
		rw := r.callRaw(w[1], []byte(`{"generatorAddress":`))
		if rw.err == nil {
			x.fail("c15s-badjson-accepted", "%s answered truncated JSON with %v", w[1], rw.data)
			return "accepted"
		}
		return "err:params"
	}
	return "bad-op"
}

// ---------------------------------------------------------------------------------------------
// generic oracle: what no operation other than setStatus may do
// ---------------------------------------------------------------------------------------------

func (x *runner) checkGeneric(w []string, before, after snapshot) {
	target := -1
	if len(w) >= 2 {
		if i, err := strconv.Atoi(w[1]); err == nil {
			target = i
		}
	}
	for _, i := range trackedIdx {
		b, a := before.info[i], after.info[i]
		if w[0] == "setstatus" && i == target {
			continue
		}
		// (1) a stored record never disappears and its height (the largest height ever generated,
		// source of the next maxHeightGenerated) never decreases; without operator override the
		// stored maxHeightGenerated never decreases either
		if b.ok && (!a.ok || a.h < b.h || (!x.tainted[i] && a.g < b.g)) {
			x.fail("c15s-record-lowered", "%v: stored record of %d went from %s to %s", w, i, b, a)
		}
		// (2) only forge and setStatus write non-zero records
		if w[0] != "forge" && w[0] != "forgedrop" && w[0] != "forgecrash" {
			if b.ok && a != b {
				x.fail("c15s-record-changed", "%v: stored record of %d changed from %s to %s", w, i, b, a)
			}
			if !b.ok && a.ok && !(w[0] == "update" && i == target && a.h == 0 && a.p == 0 && a.g == 0) {
				x.fail("c15s-record-created", "%v: record %s of %d appeared", w, a, i)
			}
		}
	}
	// (3) the enabled set grows only through a successful updateStatus or a restart
	for i := range after.enabled {
		_, dies := kvs(w, "c")
		if !before.enabled[i] && !(w[0] == "update" && (i == target || dies)) && w[0] != "restart" && w[0] != "crash" && w[0] != "forgecrash" {
			x.fail("c15s-enabled-unexpectedly", "%v: %d became enabled", w, i)
		}
	}
}

// after a (re)start: exactly the addresses with plain stored keys are enabled; no record changed
func (x *runner) checkRestart(before snapshot, kind string) {
	after := x.r.snap()
	for _, i := range trackedIdx {
		if after.enabled[i] != (after.key[i] == 'p') {
			x.fail("c15s-restart-enabled-set", "after %s: key kind of %d is %q, enabled=%v", kind, i, after.key[i], after.enabled[i])
		}
		if b, ok := before.info[i]; ok && kind == "restart" && b != after.info[i] {
			x.fail("c15s-restart-changed-record", "after %s: record of %d went from %s to %s", kind, i, b, after.info[i])
		}
	}
	for i := range after.enabled {
		if !isTracked(i) {
			x.fail("c15s-restart-enabled-set", "after %s: untracked address %d enabled", kind, i)
		}
	}
}

// ---------------------------------------------------------------------------------------------
// forge
// ---------------------------------------------------------------------------------------------

func better(e, l *blockchain.BlockHeader) bool {
	return e.MaxHeightPrevoted < l.MaxHeightPrevoted || (e.MaxHeightPrevoted == l.MaxHeightPrevoted && e.Height < l.Height)
}

func (x *runner) opForge(w []string, before snapshot) string {
	if len(w) < 2 {
		return "bad-op"
	}
	i, err := strconv.Atoi(w[1])
	if err != nil || i < 0 || i > 2 {
		return "bad-op"
	}
	r := x.r
	v := r.n.Validators[i]
	var atHandoff func()
	if w[0] == "forgecrash" {
		atHandoff = func() { r.fs.SetIgnoreSyncs(true) }
	}
	fr, ok, err := r.forge.ForgeAt(v, 3, atHandoff)
	if !ok {
		x.fail("c15s-harness", "validator %d has no slot", i)
		return "no-slot"
	}
	if err != nil {
		if w[0] == "forgecrash" {
			r.fs.SetIgnoreSyncs(false)
		}
		if c15.IsNoForge(err) && len(fr.Logs) == 0 {
			if before.enabled[i] {
				x.fail("c15s-forge-missing", "validator %d is enabled, forge in its slot produced nothing", i)
			}
			return "noforge"
		}
		x.fail("c15s-forge-failed", "forge by validator %d at height %d: %v; log: %v", i, r.n.Height()+1, err, fr.Logs)
		return "forge-error"
	}
	h := fr.Block.Header
	atomic.AddInt64(&cntForged, 1)
	// the generator forges only with an enabled key
	if !before.enabled[i] {
		x.fail("c15s-forged-while-disabled", "validator %d is not enabled, forge signed a header at height %d", i, h.Height)
	}
	// the header reports the stored height - whoever wrote it (forge, updateStatus, setStatus)
	want := uint32(0)
	if before.info[i].ok {
		want = before.info[i].h
	}
	if h.MaxHeightGenerated != want {
		x.fail("c15s-forge-ignores-record", "validator %d: stored record %s, header at height %d reports maxHeightGenerated %d", i, before.info[i], h.Height, h.MaxHeightGenerated)
	}
	// durable at the hand-off: height = max(stored, new)
	nh := want
	if h.Height > nh {
		nh = h.Height
	}
	if !fr.HandoffExists || fr.HandoffInfo.Height != nh || fr.HandoffInfo.MaxHeightGenerated != want || fr.HandoffInfo.MaxHeightPrevoted != h.MaxHeightPrevoted {
		x.fail("c15s-info-not-persisted-before-handoff", "validator %d, height %d: at AddInternal the stored record is %d/%d/%d (exists=%v), want %d/%d/%d", i, h.Height,
			fr.HandoffInfo.Height, fr.HandoffInfo.MaxHeightPrevoted, fr.HandoffInfo.MaxHeightGenerated, fr.HandoffExists, nh, h.MaxHeightPrevoted, want)
	}
	// no contradiction with an earlier header of the validator - unless the operator overrode the record
	for _, e := range x.signed[i] {
		if contradiction.AreDistinctHeadersContradicting(contradiction.NewBFTBlockHeader(e.h.Readonly()), contradiction.NewBFTBlockHeader(h.Readonly())) && better(e.h, h) {
			if x.tainted[i] {
				atomic.AddInt64(&cntOverrideContra, 1)
			} else {
				x.fail("c15s-self-contradiction", "validator %d: header (h=%d mhg=%d mhp=%d) contradicts its earlier header (h=%d mhg=%d mhp=%d) although it is on a better tip and setStatus was never used", i,
					h.Height, h.MaxHeightGenerated, h.MaxHeightPrevoted, e.h.Height, e.h.MaxHeightGenerated, e.h.MaxHeightPrevoted)
			}
		}
	}
	x.signed[i] = append(x.signed[i], &signedHdr{h: h})
	acc := 0
	switch w[0] {
	case "forge":
		if res := r.n.ProcessResult(fr.Block); res.Applied {
			acc = 1
		} else {
			x.fail("c15s-forged-block-rejected", "validator %d height %d: %v (%s)", i, h.Height, res.Err, res.ForkChoice)
		}
	case "forgedrop":
	case "forgecrash":
		if err := r.Restart(true, false); err != nil {
			x.fail("c15s-harness", "crash restart: %v", err)
			return "restart-error"
		}
		if got := r.rawInfo(i); !got.ok || got.h != nh {
			x.fail("c15s-info-lost-on-restart", "validator %d: crash at the hand-off of height %d, stored record afterwards %s", i, h.Height, got)
		}
		x.checkRestart(snapshot{info: map[int]rec{}}, "crash at hand-off")
	}
	return fmt.Sprintf("forged h=%d g=%d p=%d acc=%d", h.Height, h.MaxHeightGenerated, h.MaxHeightPrevoted, acc)
}

// ---------------------------------------------------------------------------------------------
// updateStatus
// ---------------------------------------------------------------------------------------------

func classify(err error) string {
	var te *json.UnmarshalTypeError
	var se *json.SyntaxError
	m := err.Error()
	switch {
	case errors.As(err, &te), errors.As(err, &se), strings.Contains(m, "unexpected end of JSON"), strings.HasPrefix(m, "json:"):
		return "err:params"
	case strings.Contains(m, "is not stored"):
		return "err:notstored"
	case strings.Contains(m, "not synced"):
		return "err:notsynced"
	case strings.Contains(m, "contradicting block generation info"):
		return "err:contradicting"
	case strings.Contains(m, "no previous generator info"):
		return "err:noprevious"
	case strings.Contains(m, "message authentication failed"):
		return "err:password"
	}
	return "err:keys"
}

func (x *runner) opUpdate(w []string, before snapshot) string {
	if len(w) < 7 {
		return "bad-op"
	}
	i, err := strconv.Atoi(w[1])
	if err != nil || !isTracked(i) {
		return "bad-op"
	}
	pw, _ := kv(w, "pw")
	en, _ := kv(w, "en")
	h, ok1 := kv(w, "h")
	p, ok2 := kv(w, "p")
	g, ok3 := kv(w, "g")
	if !ok1 || !ok2 || !ok3 {
		return "bad-op"
	}
	crash, _ := kvs(w, "c")
	r := x.r
	tip := r.n.Tip().Header
	params := map[string]interface{}{
		"generatorAddress": codec.Lisk32(r.addrOf(i)), "password": password(int(pw)), "enable": en == 1,
		"height": h, "maxHeightPrevoted": p, "maxHeightGenerated": g,
	}
	// observation point: the moment the write-ahead log of the generator database is synced
	syncs := 0
	enabledAtSync := false
	died := false
	r.fs.setHook(func(beforeSync bool) {
		if beforeSync {
			syncs++
			if r.gen.IsGenerationEnabled(r.addrOf(i)) {
				enabledAtSync = true
			}
			if crash == "b" && !died {
				died = true
				r.fs.SetIgnoreSyncs(true)
			}
		} else if crash == "a" && !died {
			died = true
			r.fs.SetIgnoreSyncs(true)
		}
	})
	rw := r.call("updateStatus", params)
	r.fs.setHook(nil)
	if syncs > 0 {
		atomic.AddInt64(&cntSyncSeen, 1)
	}
	res := ""
	switch {
	case rw.err != nil:
		res = classify(rw.err)
	default:
		resp, ok := rw.data.(*endpoint.UpdateStatusResponse)
		switch {
		case !ok:
			res = "err:response"
		case !bytes.Equal(resp.Address, r.addrOf(i)):
			x.fail("c15s-update-response", "response names address %x", []byte(resp.Address))
			res = "err:response"
		case resp.Enabled:
			res = "enabled"
		default:
			res = "disabled"
		}
	}
	supplied := rec{ok: true, h: uint32(h), p: uint32(p), g: uint32(g)}
	now := r.rawInfo(i)
	switch res {
	case "enabled":
		atomic.AddInt64(&cntEnabled, 1)
		// the operator's information is what is stored: before the call (or nothing stored and all-zero) and after it
		b := before.info[i]
		if !(b == supplied || (!b.ok && h == 0 && p == 0 && g == 0)) {
			x.fail("c15s-enabled-with-unequal-info", "updateStatus(%d, %s) enabled the key; stored before the call: %s", i, supplied, b)
		}
		if now != supplied {
			x.fail("c15s-enabled-with-unequal-info", "updateStatus(%d, %s) enabled the key; stored after the call: %s", i, supplied, now)
		}
		// LIP-0014 order against the tip the node is on
		prio := false
		if tip.Version == 0 {
			prio = h <= uint64(tip.Height) && p <= uint64(tip.Height)
		} else {
			prio = p < uint64(tip.MaxHeightPrevoted) || (p == uint64(tip.MaxHeightPrevoted) && h < uint64(tip.Height))
		}
		if !prio {
			x.fail("c15s-enabled-unsynced", "updateStatus(%d, %s) enabled the key on tip h=%d mhp=%d version=%d", i, supplied, tip.Height, tip.MaxHeightPrevoted, tip.Version)
		}
		if before.key[i] != 'p' && before.key[i] != 'e' {
			x.fail("c15s-enabled-without-keys", "updateStatus(%d) enabled the key; stored key kind %q", i, before.key[i])
		}
		if !r.gen.IsGenerationEnabled(r.addrOf(i)) {
			x.fail("c15s-update-response", "response says enabled, IsGenerationEnabled(%d) is false", i)
		}
		// everything the call wrote was durable before the key became usable
		if enabledAtSync && !before.enabled[i] {
			x.fail("c15s-enabled-before-durable", "updateStatus(%d): IsGenerationEnabled was already true while the record was being written (not yet synced)", i)
		}
		if syncs == 0 {
			x.fail("c15s-enable-write-not-durable", "updateStatus(%d) enabled the key without a synced write of the generator database", i)
		}
	case "disabled":
		if r.gen.IsGenerationEnabled(r.addrOf(i)) {
			x.fail("c15s-update-response", "response says disabled, IsGenerationEnabled(%d) is true", i)
		}
		if now != before.info[i] {
			x.fail("c15s-record-changed", "disable changed the record of %d from %s to %s", i, before.info[i], now)
		}
	default:
		if r.gen.IsGenerationEnabled(r.addrOf(i)) != before.enabled[i] {
			x.fail("c15s-failed-update-changed-enabled", "updateStatus(%d) failed with %s and changed IsGenerationEnabled to %v", i, res, !before.enabled[i])
		}
	}
	if crash == "b" || crash == "a" {
		if !died {
			// the call never reached the write: nothing to kill, an ordinary call
			return res
		}
		if crash == "b" {
			atomic.AddInt64(&cntCrashBefore, 1)
			if enabledAtSync && !before.enabled[i] {
				x.fail("c15s-enabled-before-durable", "updateStatus(%d): process dies before the record is durable, the key was already enabled", i)
			}
		} else {
			atomic.AddInt64(&cntCrashAfter, 1)
		}
		if err := r.Restart(true, false); err != nil {
			x.fail("c15s-harness", "crash restart: %v", err)
			return "restart-error"
		}
		got := r.rawInfo(i)
		if crash == "a" && got != supplied {
			x.fail("c15s-enable-write-not-durable", "updateStatus(%d, %s): process dies after the write returned, stored after restart: %s", i, supplied, got)
		}
		if crash == "b" && got != before.info[i] {
			x.fail("c15s-record-changed", "updateStatus(%d, %s): process dies before the write is durable, record went from %s to %s", i, supplied, before.info[i], got)
		}
		x.checkRestart(snapshot{info: map[int]rec{}}, "crash in updateStatus")
		return "crashed"
	}
	return res
}

func (x *runner) opSetStatus(w []string) string {
	if len(w) != 5 {
		return "bad-op"
	}
	i, err := strconv.Atoi(w[1])
	if err != nil || !isTracked(i) {
		return "bad-op"
	}
	h, ok1 := kv(w, "h")
	p, ok2 := kv(w, "p")
	g, ok3 := kv(w, "g")
	if !ok1 || !ok2 || !ok3 {
		return "bad-op"
	}
	r := x.r
	rw := r.call("setStatus", map[string]interface{}{"address": codec.Lisk32(r.addrOf(i)), "height": h, "maxHeightPrevoted": p, "maxHeightPreviouslyForged": g})
	if rw.err != nil {
		return classify(rw.err)
	}
	x.tainted[i] = true
	if got := r.rawInfo(i); got != (rec{ok: true, h: uint32(h), p: uint32(p), g: uint32(g)}) {
		x.fail("c15s-setstatus-not-stored", "setStatus(%d, %d/%d/%d) stored %s", i, h, p, g, got)
	}
	return "ok"
}

func (x *runner) opGetStatus() string {
	r := x.r
	rw := r.call("getStatus", map[string]interface{}{})
	if rw.err != nil {
		return "err"
	}
	resp, ok := rw.data.(*endpoint.GetGeneratorsResponse)
	if !ok {
		return "err:response"
	}
	type ent struct {
		idx int
		s   string
	}
	ents := []ent{}
	seen := map[int]bool{}
	for _, s := range resp.Status {
		i := r.idxOf(s.Address)
		if seen[i] {
			x.fail("c15s-getstatus-mismatch", "address %d listed twice", i)
		}
		seen[i] = true
		raw := rec{}
		if isTracked(i) {
			raw = r.rawInfo(i)
		}
		got := rec{ok: true, h: s.Height, p: s.MaxHeightPrevoted, g: s.MaxHeightGenerated}
		if got != raw {
			x.fail("c15s-getstatus-mismatch", "getStatus reports %s for %d, stored is %s", got, i, raw)
		}
		if s.Enabled != r.gen.IsGenerationEnabled(s.Address) {
			x.fail("c15s-getstatus-mismatch", "getStatus reports enabled=%v for %d, IsGenerationEnabled=%v", s.Enabled, i, !s.Enabled)
		}
		e := 0
		if s.Enabled {
			e = 1
		}
		ents = append(ents, ent{i, fmt.Sprintf("%d:%d:%s", i, e, got)})
	}
	for _, i := range trackedIdx {
		if r.rawInfo(i).ok && !seen[i] {
			x.fail("c15s-getstatus-mismatch", "stored record of %d is not listed", i)
		}
	}
	sort.Slice(ents, func(a, b int) bool { return ents[a].idx < ents[b].idx })
	l := []string{}
	for _, e := range ents {
		l = append(l, e.s)
	}
	if len(l) == 0 {
		return "status -"
	}
	return "status " + strings.Join(l, ",")
}

func (x *runner) opSetKeys(w []string) string {
	if len(w) != 3 || (w[2] != "p" && w[2] != "e") {
		return "bad-op"
	}
	i, err := strconv.Atoi(w[1])
	if err != nil || i < 0 || i > 2 {
		return "bad-op"
	}
	r := x.r
	v := r.n.Validators[i]
	params := map[string]interface{}{"address": codec.Lisk32(v.Address), "type": "plain", "data": plainKeysOf(v)}
	if w[2] == "e" {
		msg, err := encryptFor(v, 1)
		if err != nil {
			return "bad-op"
		}
		params = map[string]interface{}{"address": codec.Lisk32(v.Address), "type": "encrypted", "data": msg}
	}
	rw := r.call("setKeys", params)
	if rw.err != nil {
		return classify(rw.err)
	}
	return "ok"
}

func (x *runner) opAllKeys() string {
	r := x.r
	rw := r.call("getAllKeys", map[string]interface{}{})
	if rw.err != nil {
		return "err"
	}
	resp, ok := rw.data.(*endpoint.GetAllKeysResponse)
	if !ok {
		return "err:response"
	}
	type ent struct {
		idx int
		s   string
	}
	ents := []ent{}
	for _, k := range resp.Keys {
		i := r.idxOf(k.Address)
		ents = append(ents, ent{i, fmt.Sprintf("%d:%s", i, k.Type)})
	}
	sort.Slice(ents, func(a, b int) bool { return ents[a].idx < ents[b].idx })
	l := []string{}
	for _, e := range ents {
		l = append(l, e.s)
	}
	if len(l) == 0 {
		return "keys -"
	}
	return "keys " + strings.Join(l, ",")
}

// ---------------------------------------------------------------------------------------------
// classification
// ---------------------------------------------------------------------------------------------

func (prop) Classify(c corr.Case, out []string) string {
	f := map[string]bool{}
	restarted := false
	for i, op := range c.Ops {
		if i >= len(out) {
			break
		}
		w := strings.Fields(op)
		o := out[i]
		switch w[0] {
		case "update":
			switch {
			case strings.HasPrefix(o, "enabled"):
				if restarted {
					f["enable-after-restart"] = true
				} else {
					f["enable"] = true
				}
			case strings.HasPrefix(o, "crashed"):
				f["crash-in-update"] = true
			case strings.HasPrefix(o, "err:"):
				f[strings.Fields(o)[0][4:]] = true
			case strings.HasPrefix(o, "disabled"):
				f["disable"] = true
			}
		case "forge", "forgedrop", "forgecrash":
			if strings.HasPrefix(o, "forged") {
				f[w[0]] = true
			} else {
				f["noforge"] = true
			}
		case "setstatus":
			f["setstatus"] = true
		case "restart", "crash":
			restarted = true
		case "del":
			f["del"] = true
		case "setkeys":
			f["setkeys-"+w[2]] = true
		}
	}
	if len(f) < 2 {
		return ""
	}
	l := []string{}
	for k := range f {
		l = append(l, k)
	}
	sort.Strings(l)
	return strings.Join(l, "+")
}

// ---------------------------------------------------------------------------------------------
// generator of op sequences (with a prediction of what the node will hold, to aim the inputs)
// ---------------------------------------------------------------------------------------------

type sim struct {
	rng     *rand.Rand
	ops     []string
	height  int
	hist    []uint32 // chain maxHeightPrevoted after heights 1..height
	kingMax int
	info    map[int]*[3]uint32 // height, mhp, mhg
	enabled map[int]bool
	keys    map[int]fileKey // kind 'p','e','u'
	file    []fileKey
	lowered map[int]bool // setStatus lowered the record: the next headers may contradict earlier ones
}

func (g *sim) mhp() uint32 {
	if g.height == 0 {
		return 0
	}
	return g.hist[g.height-1]
}

// tip header: version, height, maxHeightPrevoted
func (g *sim) tip() (int, uint32, uint32) {
	if g.height == 0 {
		return 0, 0, 0
	}
	p := uint32(0)
	if g.height >= 2 {
		p = g.hist[g.height-2]
	}
	return 2, uint32(g.height), p
}

func (g *sim) loadKeys(withFile bool) {
	if withFile {
		for i, k := range g.file {
			if k.kind != '-' {
				g.keys[i] = k
			}
		}
	}
	g.enabled = map[int]bool{}
	for i, k := range g.keys {
		if k.kind == 'p' {
			g.enabled[i] = true
		}
	}
}

func fileTok(k fileKey) string {
	if k.kind == 'e' {
		return fmt.Sprintf("e%d", k.pw)
	}
	return string(k.kind)
}

func (g *sim) reset(seed int, file []fileKey) {
	*g = sim{rng: g.rng, info: map[int]*[3]uint32{}, keys: map[int]fileKey{}, file: file, lowered: map[int]bool{}}
	g.loadKeys(true)
	g.ops = []string{fmt.Sprintf("reset seed=%d file=%s,%s", seed, fileTok(file[0]), fileTok(file[1]))}
}

func (g *sim) ext() {
	h := g.height + 1
	m := g.mhp()
	if g.kingMax < h {
		m = uint32(h)
		g.kingMax = h
	}
	g.hist = append(g.hist[:g.height], m)
	g.height = h
	g.ops = append(g.ops, "ext")
}

func (g *sim) del(k int) {
	if k > g.height {
		k = g.height
	}
	g.height -= k
	g.ops = append(g.ops, fmt.Sprintf("del %d", k))
}

func (g *sim) forge(kind string, v int) {
	m := g.mhp()
	if kind == "forge" && g.lowered[v] {
		// the node itself refuses to apply a block whose header contradicts one in its BFT window
		// ("received contradicting block header"): after an operator override the blocks are signed
		// and handed on, but not fed to the node
		kind = "forgedrop"
	}
	g.ops = append(g.ops, fmt.Sprintf("%s %d", kind, v))
	if !g.enabled[v] {
		return
	}
	h := uint32(g.height + 1)
	prev := uint32(0)
	if g.info[v] != nil {
		prev = g.info[v][0]
	}
	nh := prev
	if h > nh {
		nh = h
	}
	g.info[v] = &[3]uint32{nh, m, prev}
	switch kind {
	case "forge":
		g.hist = append(g.hist[:g.height], m)
		g.height++
	case "forgecrash":
		g.loadKeys(false)
	}
}

func (g *sim) restart(crash, withFile bool) {
	name := "restart"
	if crash {
		name = "crash"
	}
	f := 0
	if withFile {
		f = 1
	}
	g.ops = append(g.ops, fmt.Sprintf("%s f=%d", name, f))
	g.loadKeys(withFile)
}

func (g *sim) synced(h, p uint32) bool {
	ver, th, tp := g.tip()
	if ver == 0 {
		return h <= th && p <= th
	}
	return p < tp || (p == tp && h < th)
}

// update emits an updateStatus op and predicts its effect.
func (g *sim) update(v, pw int, en bool, h, p, gg uint64, crash string) {
	e := 0
	if en {
		e = 1
	}
	op := fmt.Sprintf("update %d pw=%d en=%d h=%d p=%d g=%d", v, pw, e, h, p, gg)
	if crash != "" {
		op += " c=" + crash
	}
	g.ops = append(g.ops, op)
	if h > 0xffffffff || p > 0xffffffff || gg > 0xffffffff {
		return
	}
	k, ok := g.keys[v]
	if !ok || k.kind == 'u' || (k.kind == 'e' && k.pw != pw) {
		return
	}
	if !en {
		delete(g.enabled, v)
		return
	}
	if !g.synced(uint32(h), uint32(p)) {
		return
	}
	st := g.info[v]
	if st != nil && (*st != [3]uint32{uint32(h), uint32(p), uint32(gg)}) {
		return
	}
	if st == nil && (h != 0 || p != 0 || gg != 0) {
		return
	}
	switch crash {
	case "b":
		g.loadKeys(false)
	case "a":
		g.info[v] = &[3]uint32{uint32(h), uint32(p), uint32(gg)}
		g.loadKeys(false)
	default:
		g.info[v] = &[3]uint32{uint32(h), uint32(p), uint32(gg)}
		g.enabled[v] = true
	}
}

func (g *sim) setStatus(v int, h, p, gg uint64) {
	g.ops = append(g.ops, fmt.Sprintf("setstatus %d h=%d p=%d g=%d", v, h, p, gg))
	if h > 0xffffffff || p > 0xffffffff || gg > 0xffffffff {
		return
	}
	if st := g.info[v]; st != nil && uint32(h) < st[0] {
		g.lowered[v] = true
	}
	g.info[v] = &[3]uint32{uint32(h), uint32(p), uint32(gg)}
}

func (g *sim) setKeys(v int, kind byte) {
	g.ops = append(g.ops, fmt.Sprintf("setkeys %d %c", v, kind))
	if kind == 'p' {
		g.keys[v] = fileKey{kind: 'p'}
	} else {
		g.keys[v] = fileKey{kind: 'u'}
	}
}

// pwFor returns the right password of v most of the time.
func (g *sim) pwFor(v int, wrong bool) int {
	k := g.keys[v]
	if wrong {
		return k.pw + 1 + g.rng.Intn(3)
	}
	return k.pw
}

// stored returns the stored record of v (zeros if none).
func (g *sim) stored(v int) (uint64, uint64, uint64) {
	if st := g.info[v]; st != nil {
		return uint64(st[0]), uint64(st[1]), uint64(st[2])
	}
	return 0, 0, 0
}

// goodUpdate: the operator supplies exactly what is stored, with the right password.
func (g *sim) goodUpdate(v int, crash string) {
	h, p, gg := g.stored(v)
	g.update(v, g.pwFor(v, false), true, h, p, gg, crash)
}

// nearUpdate: one deviation from a good request.
func (g *sim) nearUpdate(v int) {
	h, p, gg := g.stored(v)
	pw := g.pwFor(v, false)
	en := true
	switch g.rng.Intn(12) {
	case 0:
		h++
	case 1:
		if h > 0 {
			h--
		} else {
			h = 1
		}
	case 2:
		p++
	case 3:
		gg++
	case 4:
		if gg > 0 {
			gg--
		} else {
			p = 1
		}
	case 5:
		h, p, gg = 0, 0, 0
	case 6:
		pw = g.pwFor(v, true)
	case 7:
		en = false
	case 8:
		h = 1 << 32
	case 9:
		_, th, tp := g.tip()
		h, p = uint64(th), uint64(tp) // exactly the tip: not prior to it
	case 10:
		gg = 0xffffffff
	case 11:
		h, p, gg = uint64(g.height+1), uint64(g.mhp()), h // what the operator might guess from the chain
	}
	g.update(v, pw, en, h, p, gg, "")
}

func (g *sim) sprinkleReads() {
	switch g.rng.Intn(6) {
	case 0:
		g.ops = append(g.ops, "getstatus")
	case 1:
		g.ops = append(g.ops, fmt.Sprintf("haskeys %d", trackedIdx[g.rng.Intn(4)]))
	case 2:
		g.ops = append(g.ops, "allkeys")
	}
}

func randFile(rng *rand.Rand) []fileKey {
	one := func() fileKey {
		switch rng.Intn(5) {
		case 0:
			return fileKey{kind: '-'}
		case 1, 2:
			return fileKey{kind: 'p'}
		}
		return fileKey{kind: 'e', pw: 1 + rng.Intn(4)}
	}
	return []fileKey{one(), one()}
}

// genLifecycle: the intended use - enable with the stored information, forge, restart, enable again.
func genLifecycle(rng *rand.Rand, seed int) corr.Case {
	g := &sim{rng: rng}
	g.reset(seed, []fileKey{{kind: 'e', pw: 1 + rng.Intn(3)}, {kind: []byte{'p', 'e', '-'}[rng.Intn(3)], pw: 2}})
	n := 2 + rng.Intn(3)
	for i := 0; i < n; i++ {
		g.ext()
	}
	for round := 0; round < 2+rng.Intn(3); round++ {
		for _, v := range []int{0, 1} {
			if _, ok := g.keys[v]; !ok {
				continue
			}
			if rng.Intn(4) == 0 {
				g.nearUpdate(v)
			}
			g.goodUpdate(v, "")
			g.sprinkleReads()
		}
		for j := 0; j < 1+rng.Intn(3); j++ {
			v := rng.Intn(2)
			g.forge([]string{"forge", "forge", "forge", "forgedrop"}[rng.Intn(4)], v)
			if rng.Intn(2) == 0 {
				g.ext()
			}
		}
		if rng.Intn(3) == 0 {
			g.del(1 + rng.Intn(3))
			g.ext()
		}
		// right after its own block a validator is "not synced" (its record is the tip): one more block
		g.ext()
		switch rng.Intn(4) {
		case 0:
			g.restart(true, rng.Intn(2) == 0)
		case 1:
			g.forge("forgecrash", rng.Intn(2))
		default:
			g.restart(false, rng.Intn(3) == 0)
		}
		g.sprinkleReads()
	}
	return corr.Case{Ops: g.ops, Tag: "lifecycle"}
}

// genNear: many requests around the decision boundaries of updateStatus.
func genNear(rng *rand.Rand, seed int) corr.Case {
	g := &sim{rng: rng}
	g.reset(seed, randFile(rng))
	for i := 0; i < 1+rng.Intn(4); i++ {
		g.ext()
	}
	for i := 0; i < 14+rng.Intn(10); i++ {
		v := []int{0, 0, 1, 1, 2, 9}[rng.Intn(6)]
		switch rng.Intn(10) {
		case 0, 1, 2:
			g.nearUpdate(v)
		case 3, 4:
			g.goodUpdate(v, "")
		case 5:
			if v <= 1 {
				g.forge("forge", v)
			}
		case 6:
			g.ext()
		case 7:
			g.sprinkleReads()
		case 8:
			if v <= 2 {
				g.setKeys(v, []byte{'p', 'e'}[rng.Intn(2)])
			}
		case 9:
			if rng.Intn(2) == 0 {
				g.restart(rng.Intn(3) == 0, rng.Intn(2) == 0)
			} else {
				g.ops = append(g.ops, "badjson "+[]string{"updateStatus", "setStatus", "setKeys", "hasKeys"}[rng.Intn(4)])
			}
		}
	}
	return corr.Case{Ops: g.ops, Tag: "near"}
}

// genCrash: the process dies inside updateStatus and at the hand-off of forge.
func genCrash(rng *rand.Rand, seed int) corr.Case {
	g := &sim{rng: rng}
	g.reset(seed, []fileKey{{kind: []byte{'e', 'p'}[rng.Intn(2)], pw: 3}, {kind: 'e', pw: 4}})
	g.ext()
	for i := 0; i < 6+rng.Intn(6); i++ {
		v := rng.Intn(2)
		switch rng.Intn(7) {
		case 0, 1:
			g.goodUpdate(v, []string{"a", "b"}[rng.Intn(2)])
		case 2:
			g.goodUpdate(v, "")
		case 3:
			g.forge([]string{"forge", "forgecrash"}[rng.Intn(2)], v)
			g.ext()
		case 4:
			g.restart(true, false)
		case 5:
			g.nearUpdate(v)
		case 6:
			g.ext()
		}
		if rng.Intn(4) == 0 {
			g.ops = append(g.ops, "getstatus")
		}
	}
	return corr.Case{Ops: g.ops, Tag: "crash"}
}

// genOverride: the operator rewrites the record with setStatus (lower, equal, higher), also while
// the key is enabled; then enables and forges.
func genOverride(rng *rand.Rand, seed int) corr.Case {
	g := &sim{rng: rng}
	g.reset(seed, []fileKey{{kind: 'p'}, {kind: 'e', pw: 1}})
	for i := 0; i < 3+rng.Intn(6); i++ {
		g.ext()
	}
	g.goodUpdate(1, "")
	if rng.Intn(3) == 0 {
		// the counterexample of C15_status_operator_override_contradicts on the real code: generate high,
		// the operator resets the record, the node moves to a better shorter chain, generate low
		k := 2 + rng.Intn(3)
		for i := 0; i < k; i++ {
			g.forge("forge", 0)
		}
		g.setStatus(0, 0, 0, 0)
		g.del(k - 1)
		g.ext()
		g.forge("forge", 0)
	}
	for i := 0; i < 8+rng.Intn(8); i++ {
		v := rng.Intn(2)
		switch rng.Intn(8) {
		case 0, 1:
			g.forge("forge", v)
		case 2:
			h, p, gg := g.stored(v)
			switch rng.Intn(5) {
			case 0:
				h, p, gg = 0, 0, 0
			case 1:
				if h > 0 {
					h -= 1 + uint64(rng.Intn(int(h)))
				}
			case 2:
				h += 1 + uint64(rng.Intn(20))
				gg = h
			case 3:
				h, p, gg = uint64(rng.Intn(40)), uint64(rng.Intn(10)), uint64(rng.Intn(40))
			case 4:
				h = 1 << 32
			}
			g.setStatus([]int{v, v, v, 2, 9}[rng.Intn(5)], h, p, gg)
		case 3:
			g.del(1 + rng.Intn(4))
			g.ext()
		case 4:
			g.ext()
		case 5:
			g.goodUpdate(v, "")
		case 6:
			g.restart(false, false)
		case 7:
			g.ops = append(g.ops, "getstatus")
		}
	}
	return corr.Case{Ops: g.ops, Tag: "override"}
}

// genSwitch: forge high, move to a better shorter chain, restart, enable with the stored record,
// forge low - the record written before the restart keeps the headers consistent.
func genSwitch(rng *rand.Rand, seed int) corr.Case {
	g := &sim{rng: rng}
	g.reset(seed, []fileKey{{kind: 'e', pw: 2}, {kind: 'p'}})
	g.ext()
	g.goodUpdate(0, "")
	for i := 0; i < 2+rng.Intn(4); i++ {
		g.forge("forge", rng.Intn(2))
	}
	for round := 0; round < 2; round++ {
		g.forge("forge", 0)
		k := 1 + rng.Intn(3)
		g.del(k + 1)
		// the better chain: the king was not at these heights before? it was not - its blocks are
		// below; a king block here raises maxHeightPrevoted only if it is above everything it signed
		for i := 0; i < k; i++ {
			g.ext()
		}
		if rng.Intn(2) == 0 {
			g.restart(rng.Intn(2) == 0, false)
			g.goodUpdate(0, "")
			if rng.Intn(2) == 0 {
				g.nearUpdate(0)
			}
		}
		g.forge("forge", 0)
		g.forge("forge", 1)
		g.ext()
		g.ops = append(g.ops, "getstatus")
	}
	return corr.Case{Ops: g.ops, Tag: "switch"}
}

func (prop) Generate(rng *rand.Rand, tier string) []corr.Case {
	n := 40
	if tier == "thorough" {
		n = 1000
	}
	cases := []corr.Case{}
	seed := 1 + rng.Intn(1000)
	for i := 0; i < n; i++ {
		cases = append(cases, genLifecycle(rng, seed+i))
		cases = append(cases, genNear(rng, seed+i))
		cases = append(cases, genCrash(rng, seed+i))
		cases = append(cases, genOverride(rng, seed+i))
		cases = append(cases, genSwitch(rng, seed+i))
	}
	return cases
}

func encryptFor(v *node.Validator, pw int) (interface{}, error) {
	return cryptoEncrypt(plainKeysOf(v).Encode(), password(pw))
}
