// Package c12: correspondence and model-free oracle for the staged store (pkg/db/diffdb) and the
// range / prefix scans of pkg/db.
package c12

import (
	"bytes"
	"fmt"
	"math/rand"
	"sort"
	"strconv"
	"strings"

	"github.com/LiskHQ/lisk-engine/pkg/db"
	"github.com/LiskHQ/lisk-engine/pkg/db/diffdb"

	"verifharness/corr"
)

type prop struct{}

func init() { corr.Register(prop{}) }

func (prop) ID() string    { return "C12" }
func (prop) Parallel() int { return 8 }

var keyAlphabet = []byte{0x00, 0x01, 0xff}

func genKey(rng *rand.Rand, maxLen int) []byte {
	n := rng.Intn(maxLen + 1)
	k := make([]byte, n)
	for i := range k {
		if rng.Intn(10) == 0 {
			k[i] = byte(rng.Intn(256))
		} else {
			k[i] = keyAlphabet[rng.Intn(len(keyAlphabet))]
		}
	}
	return k
}

func genVal(rng *rand.Rand) []byte {
	n := rng.Intn(4)
	v := make([]byte, n)
	for i := range v {
		v[i] = byte(rng.Intn(256))
	}
	return v
}

var viewPrefixes = [][]byte{{}, {0x00}, {0x00, 0x01}, {0x01}, {0xff}, {0x00, 0x02}, {0x00, 0x01, 0x07}}
var rootPrefixes = [][]byte{{}, {0x00}, {0xaa, 0x00}}

func genLimit(rng *rand.Rand) int {
	switch rng.Intn(4) {
	case 0:
		return -1
	case 1:
		return rng.Intn(3)
	default:
		return 1 + rng.Intn(5)
	}
}

// genDBLimit: the DB-level scans are not claimed for limit 0 (they return one item; see DESIGN.md C12).
func genDBLimit(rng *rand.Rand) int {
	l := genLimit(rng)
	if l == 0 {
		return -1
	}
	return l
}

func (prop) Generate(rng *rand.Rand, tier string) []corr.Case {
	n := 1500
	if tier == "thorough" {
		n = 60000
	}
	cases := make([]corr.Case, 0, n)
	for i := 0; i < n; i++ {
		root := rootPrefixes[rng.Intn(len(rootPrefixes))]
		nInit := rng.Intn(8)
		var kvs []string
		seen := map[string]bool{}
		for j := 0; j < nInit; j++ {
			var k []byte
			if rng.Intn(4) > 0 {
				k = append(append(append([]byte{}, root...), viewPrefixes[rng.Intn(len(viewPrefixes))]...), genKey(rng, 2)...)
			} else {
				k = genKey(rng, 3)
			}
			if len(k) == 0 || seen[string(k)] {
				continue
			}
			seen[string(k)] = true
			kvs = append(kvs, corr.Hex(k)+"="+corr.Hex(genVal(rng)))
		}
		kvStr := "-"
		if len(kvs) > 0 {
			kvStr = strings.Join(kvs, ",")
		}
		ops := []string{fmt.Sprintf("reset %s %s", corr.Hex(root), kvStr)}
		nOps := 1 + rng.Intn(14)
		snaps := 0
		var usedVals []string
		for _, kv := range kvs {
			if i := strings.IndexByte(kv, '='); i >= 0 && kv[i+1:] != "-" {
				usedVals = append(usedVals, kv[i+1:])
			}
		}
		vsnaps := map[string]int{}
		for j := 0; j < nOps; j++ {
			p := corr.Hex(viewPrefixes[rng.Intn(len(viewPrefixes))])
			b := func() string {
				if rng.Intn(2) == 0 {
					return "1"
				}
				return "0"
			}
			switch r := rng.Intn(100); {
			case r < 12:
				ops = append(ops, fmt.Sprintf("get %s %s", p, corr.Hex(genKey(rng, 2))))
			case r < 15:
				ops = append(ops, fmt.Sprintf("has %s %s", p, corr.Hex(genKey(rng, 2))))
			case r < 35:
				v := corr.Hex(genVal(rng))
				if len(usedVals) > 0 && rng.Intn(3) == 0 {
					v = usedVals[rng.Intn(len(usedVals))] // a value staged / stored before: the harness stages the same buffer
					if rng.Intn(2) == 0 && len(v) > 2 {
						v = v[:len(v)-2] // or a shorter one, which fits the old buffer
					}
				}
				usedVals = append(usedVals, v)
				ops = append(ops, fmt.Sprintf("set %s %s %s", p, corr.Hex(genKey(rng, 2)), v))
			case r < 50:
				ops = append(ops, fmt.Sprintf("del %s %s", p, corr.Hex(genKey(rng, 2))))
			case r < 65:
				s, e := genKey(rng, 2), genKey(rng, 3)
				if rng.Intn(3) > 0 && bytes.Compare(s, e) > 0 {
					s, e = e, s
				}
				ops = append(ops, fmt.Sprintf("range %s %s %s %d %s", p, corr.Hex(s), corr.Hex(e), genLimit(rng), b()))
			case r < 78:
				ops = append(ops, fmt.Sprintf("iter %s %s %d %s", p, corr.Hex(genKey(rng, 1)), genLimit(rng), b()))
			case r < 82:
				if rng.Intn(2) == 0 {
					ops = append(ops, "snap")
					snaps++
				} else {
					ops = append(ops, "vsnap "+p)
					vsnaps[p]++
				}
			case r < 86:
				if rng.Intn(2) == 0 {
					ops = append(ops, fmt.Sprintf("restore %d", rng.Intn(snaps+1)))
				} else {
					ops = append(ops, fmt.Sprintf("vrestore %s %d", p, rng.Intn(vsnaps[p]+1)))
				}
			case r < 88:
				if rng.Intn(2) == 0 {
					ops = append(ops, fmt.Sprintf("delsnap %d", rng.Intn(snaps+1)))
				} else {
					ops = append(ops, fmt.Sprintf("vdelsnap %s %d", p, rng.Intn(vsnaps[p]+1)))
				}
			case r < 92:
				ops = append(ops, "commit")
				snaps = 0
				vsnaps = map[string]int{}
				if rng.Intn(2) == 0 {
					ops = append(ops, "revert")
				}
			case r < 96:
				s, e := genKey(rng, 2), genKey(rng, 3)
				ops = append(ops, fmt.Sprintf("dbrange %s %s %d %s", corr.Hex(s), corr.Hex(e), genDBLimit(rng), b()))
			default:
				ops = append(ops, fmt.Sprintf("dbiter %s %d %s", corr.Hex(genKey(rng, 2)), genDBLimit(rng), b()))
			}
		}
		ops = append(ops, "commit", "revert")
		cases = append(cases, corr.Case{Ops: ops, Tag: "random"})
	}
	// view-snapshot family: snapshots taken, restored and deleted through SEVERAL handles (root and kept prefix
	// views, each with its own table and ids: equal ids coexist), handles derived BEFORE a restore used after it,
	// reads and writes through other handles on both sides, then commit and revert
	for i := 0; i < n/3; i++ {
		hs := []string{"-", "01", "02", "0101"}
		keys := []string{"00", "01", "0100", "ff"}
		ops := []string{"reset - 0100=aa,0201=bb,010100=cc"}
		// touch every handle first so that it exists before the snapshots are taken
		for _, h := range hs[1:] {
			ops = append(ops, "get "+h+" 00")
		}
		held := map[string]int{}
		rw := func() {
			h, k := hs[rng.Intn(len(hs))], keys[rng.Intn(len(keys))]
			switch rng.Intn(6) {
			case 0:
				ops = append(ops, "get "+h+" "+k)
			case 1, 2:
				ops = append(ops, "set "+h+" "+k+" "+corr.Hex(genVal(rng)))
			case 3:
				ops = append(ops, "del "+h+" "+k)
			case 4:
				ops = append(ops, fmt.Sprintf("range %s - ffff %d %d", h, genLimit(rng), rng.Intn(2)))
			default:
				ops = append(ops, fmt.Sprintf("iter %s - %d %d", h, genLimit(rng), rng.Intn(2)))
			}
		}
		for j, m := 0, 4+rng.Intn(10); j < m; j++ {
			h := hs[rng.Intn(len(hs))]
			switch r := rng.Intn(10); {
			case r < 4:
				rw()
			case r < 7:
				ops = append(ops, "vsnap "+h)
				held[h]++
			case r < 9:
				ops = append(ops, fmt.Sprintf("vrestore %s %d", h, rng.Intn(held[h]+1)))
				rw()
			default:
				ops = append(ops, fmt.Sprintf("vdelsnap %s %d", h, rng.Intn(held[h]+1)))
			}
		}
		ops = append(ops, "range - - ffff -1 0", "range 01 - ffff -1 0", "commit", "revert")
		cases = append(cases, corr.Case{Ops: ops, Tag: "viewsnap"})
	}
	// snapshot family: tiny key space, many zero-length values, overlay populated before the
	// snapshot, writes and deletes on both sides of snapshot / restore, then commit and revert
	ns := n / 3
	for i := 0; i < ns; i++ {
		keys := [][]byte{{0x00}, {0x01}, {0x01, 0x00}, {0xff}}
		val := func() string {
			if rng.Intn(2) == 0 {
				return "-"
			}
			return corr.Hex(genVal(rng))
		}
		var kvs []string
		for _, k := range keys {
			if rng.Intn(3) > 0 {
				kvs = append(kvs, corr.Hex(k)+"="+val())
			}
		}
		kvStr := "-"
		if len(kvs) > 0 {
			kvStr = strings.Join(kvs, ",")
		}
		ops := []string{"reset - " + kvStr}
		step := func() {
			k := corr.Hex(keys[rng.Intn(len(keys))])
			switch rng.Intn(6) {
			case 0:
				ops = append(ops, "get - "+k)
			case 1, 2:
				ops = append(ops, "set - "+k+" "+val())
			case 3:
				ops = append(ops, "del - "+k)
			case 4:
				ops = append(ops, fmt.Sprintf("range - - ffff %d %d", genLimit(rng), rng.Intn(2)))
			default:
				ops = append(ops, fmt.Sprintf("iter - - %d %d", genLimit(rng), rng.Intn(2)))
			}
		}
		for j, m := 0, rng.Intn(4); j < m; j++ {
			step()
		}
		ops = append(ops, "snap")
		for j, m := 0, rng.Intn(4); j < m; j++ {
			step()
		}
		ops = append(ops, "restore 0")
		for j, m := 0, 1+rng.Intn(4); j < m; j++ {
			step()
		}
		ops = append(ops, "range - - ffff -1 0", "commit", "revert")
		cases = append(cases, corr.Case{Ops: ops, Tag: "snapshot"})
	}
	// commit2 family (commit2.go): the staged store stays in use after a Commit whose batch is discarded
	cases = append(cases, genCommit2(rng, n/3)...)
	return cases
}

// memWriter collects a diffdb commit into a db batch.
type runner struct {
	database *db.DB
	root     *diffdb.Database
	rootPfx  []byte
	lastDiff *diffdb.Diff
	// reference (oracle)
	base     map[string][]byte
	eff      map[string][]byte
	prevBase map[string][]byte
	refSnaps map[int]map[string][]byte
	// value buffers: a value that was staged before, or that a Range / Iterate handed out, is staged again as the
	// SAME []byte object (callers copy values between keys without cloning them; Set keeps the caller's slice and
	// scans hand out the overlay's own slices - none of them may ever be written into)
	bufs map[string][]byte
	// snapshots taken through view handles: handle prefix -> id -> reference state
	refVSnaps map[string]map[int]map[string][]byte
	fails     []corr.Fail
	opIdx     int
	// prefix views derived from r.root and kept alive while r.root is: a view with a prefix of two or more
	// bytes is derived from the (kept) view of its first byte, as modules derive sub-stores from their store,
	// so that sibling sub-views of one parent coexist
	views     map[string]*diffdb.Database
	viewsRoot *diffdb.Database
	// commit2.go: the last discarded commit (repeatability clause)
	c2 commit2State
}

func copyMap(m map[string][]byte) map[string][]byte {
	r := make(map[string][]byte, len(m))
	for k, v := range m {
		r[k] = v
	}
	return r
}

// keepBufs remembers the value slices a scan handed out: a later `set` of an equal value stages that very slice.
func (r *runner) keepBufs(kvs []db.KeyValue) {
	if r.bufs == nil {
		r.bufs = map[string][]byte{}
	}
	for _, kv := range kvs {
		if v := kv.Value(); len(v) > 0 {
			r.bufs[string(v)] = v
		}
	}
}

func showKVs(kvs []db.KeyValue) string {
	if len(kvs) == 0 {
		return "-"
	}
	parts := make([]string, len(kvs))
	for i, kv := range kvs {
		parts[i] = corr.Hex(kv.Key()) + "=" + corr.Hex(kv.Value())
	}
	return strings.Join(parts, ",")
}

// refScan is the specification: filter, sort, limit on a plain map.
func refScan(m map[string][]byte, f func(k []byte) bool, strip int, limit int, reverse bool) string {
	keys := []string{}
	for k := range m {
		if f([]byte(k)) {
			keys = append(keys, k)
		}
	}
	sort.Strings(keys)
	if reverse {
		for i, j := 0, len(keys)-1; i < j; i, j = i+1, j-1 {
			keys[i], keys[j] = keys[j], keys[i]
		}
	}
	if limit > -1 && len(keys) > limit {
		keys = keys[:limit]
	}
	if len(keys) == 0 {
		return "-"
	}
	parts := make([]string, len(keys))
	for i, k := range keys {
		parts[i] = corr.Hex([]byte(k)[strip:]) + "=" + corr.Hex(m[k])
	}
	return strings.Join(parts, ",")
}

func dumpMap(m map[string][]byte) string {
	return refScan(m, func([]byte) bool { return true }, 0, -1, false)
}

func (r *runner) dumpDB() string {
	return showKVs(r.database.IterateRange([]byte{}, bytes.Repeat([]byte{0xff}, 64), -1, false))
}

func (r *runner) fail(sig, detail string) {
	r.fails = append(r.fails, corr.Fail{Sig: sig, Detail: detail, Op: r.opIdx})
}

func (r *runner) view(p []byte) *diffdb.Database {
	if len(p) == 0 {
		return r.root
	}
	if r.views == nil || r.viewsRoot != r.root {
		r.views, r.viewsRoot = map[string]*diffdb.Database{}, r.root
	}
	if v, ok := r.views[string(p)]; ok {
		return v
	}
	var v *diffdb.Database
	if len(p) >= 2 {
		v = r.view(p[:1]).WithPrefix(p[1:])
	} else {
		v = r.root.WithPrefix(p)
	}
	r.views[string(p)] = v
	return v
}

func join(parts ...[]byte) []byte {
	var r []byte
	for _, p := range parts {
		r = append(r, p...)
	}
	return r
}

func atoi(s string) int {
	n, err := strconv.Atoi(s)
	if err != nil {
		panic(err)
	}
	return n
}

func (r *runner) step(op string) string {
	w := strings.Fields(op)
	switch w[0] {
	case "reset":
		if r.database != nil {
			r.database.Close()
		}
		d, err := db.NewInMemoryDB()
		if err != nil {
			panic(err)
		}
		r.database = d
		r.rootPfx = corr.UnHex(w[1])
		r.base = map[string][]byte{}
		if w[2] != "-" {
			for _, item := range strings.Split(w[2], ",") {
				kv := strings.Split(item, "=")
				k, v := corr.UnHex(kv[0]), corr.UnHex(kv[1])
				d.Set(k, v)
				r.base[string(k)] = v
			}
		}
		r.eff = copyMap(r.base)
		r.refSnaps, r.refVSnaps = map[int]map[string][]byte{}, map[string]map[int]map[string][]byte{}
		r.root = diffdb.New(d, r.rootPfx)
		r.lastDiff = nil
		r.bufs = map[string][]byte{}
		return "ok"
	case "get", "has":
		p, k := corr.UnHex(w[1]), corr.UnHex(w[2])
		full := join(r.rootPfx, p, k)
		want, wantOK := r.eff[string(full)]
		if w[0] == "has" {
			got := r.view(p).Has(k)
			if got != wantOK {
				r.fail("has-differs-from-overlay", fmt.Sprintf("%s: got %v want %v", op, got, wantOK))
			}
			return strconv.FormatBool(got)
		}
		v, ok := r.view(p).Get(k)
		if ok != wantOK || (ok && !bytes.Equal(v, want)) {
			r.fail("get-differs-from-overlay", fmt.Sprintf("%s: got %x,%v want %x,%v", op, v, ok, want, wantOK))
		}
		if !ok {
			return "none"
		}
		return "some " + corr.Hex(v)
	case "set":
		p, k, v := corr.UnHex(w[1]), corr.UnHex(w[2]), corr.UnHex(w[3])
		if r.bufs == nil {
			r.bufs = map[string][]byte{}
		}
		if b, ok := r.bufs[string(v)]; ok && len(v) > 0 {
			v = b // the same buffer object as before
		} else {
			r.bufs[string(v)] = v
		}
		r.view(p).Set(k, v)
		r.eff[string(join(r.rootPfx, p, k))] = append([]byte{}, v...) // the reference keeps its own copy
		return "ok"
	case "del":
		p, k := corr.UnHex(w[1]), corr.UnHex(w[2])
		r.view(p).Del(k)
		delete(r.eff, string(join(r.rootPfx, p, k)))
		return "ok"
	case "range":
		p, s, e := corr.UnHex(w[1]), corr.UnHex(w[2]), corr.UnHex(w[3])
		limit, rev := atoi(w[4]), w[5] == "1"
		kvsR := r.view(p).Range(s, e, limit, rev)
		r.keepBufs(kvsR)
		got := showKVs(kvsR)
		fs, fe := join(r.rootPfx, p, s), join(r.rootPfx, p, e)
		want := refScan(r.eff, func(k []byte) bool { return bytes.Compare(k, fs) >= 0 && bytes.Compare(k, fe) <= 0 }, len(r.rootPfx)+len(p), limit, rev)
		if got != want {
			r.fail("range-differs-from-overlay", fmt.Sprintf("%s: got %s want %s", op, got, want))
		}
		return got
	case "iter":
		p, pre := corr.UnHex(w[1]), corr.UnHex(w[2])
		limit, rev := atoi(w[3]), w[4] == "1"
		kvsI := r.view(p).Iterate(pre, limit, rev)
		r.keepBufs(kvsI)
		got := showKVs(kvsI)
		fp := join(r.rootPfx, p, pre)
		want := refScan(r.eff, func(k []byte) bool { return bytes.HasPrefix(k, fp) }, len(r.rootPfx)+len(p), limit, rev)
		if got != want {
			r.fail("iterate-differs-from-overlay", fmt.Sprintf("%s: got %s want %s", op, got, want))
		}
		return got
	case "snap":
		id := r.root.Snapshot()
		r.refSnaps[id] = copyMap(r.eff)
		return strconv.Itoa(id)
	case "restore":
		id := atoi(w[1])
		err := r.root.RestoreSnapshot(id)
		snap, ok := r.refSnaps[id]
		if (err == nil) != ok {
			r.fail("restore-verdict", fmt.Sprintf("%s: err=%v, reference has snapshot=%v", op, err, ok))
		}
		if err != nil {
			return "err"
		}
		// views derived before the restore stay in use: the overlay is restored in place (fix 5a39fd4)
		r.eff = snap
		delete(r.refSnaps, id)
		return "ok"
	case "vsnap":
		// Snapshot through the (kept) view handle of prefix p; every handle has its own table and ids
		p := corr.UnHex(w[1])
		if len(p) == 0 {
			return r.step("snap")
		}
		id := r.view(p).Snapshot()
		if r.refVSnaps == nil {
			r.refVSnaps = map[string]map[int]map[string][]byte{}
		}
		if r.refVSnaps[string(p)] == nil {
			r.refVSnaps[string(p)] = map[int]map[string][]byte{}
		}
		if _, dup := r.refVSnaps[string(p)][id]; dup {
			r.fail("view-snapshot-id-reused", fmt.Sprintf("%s: id %d is still held through this handle", op, id))
		}
		r.refVSnaps[string(p)][id] = copyMap(r.eff)
		return strconv.Itoa(id)
	case "vrestore":
		p, id := corr.UnHex(w[1]), atoi(w[2])
		if len(p) == 0 {
			return r.step(fmt.Sprintf("restore %d", id))
		}
		err := r.view(p).RestoreSnapshot(id)
		snap, ok := r.refVSnaps[string(p)][id]
		if (err == nil) != ok {
			r.fail("restore-verdict", fmt.Sprintf("%s: err=%v, reference has snapshot=%v", op, err, ok))
		}
		if err != nil {
			return "err"
		}
		if ok {
			r.eff = snap
			delete(r.refVSnaps[string(p)], id)
		}
		return "ok"
	case "vdelsnap":
		p, id := corr.UnHex(w[1]), atoi(w[2])
		if len(p) == 0 {
			return r.step(fmt.Sprintf("delsnap %d", id))
		}
		r.view(p).DeleteSnapshot(id)
		delete(r.refVSnaps[string(p)], id)
		return "ok"
	case "delsnap":
		id := atoi(w[1])
		r.root.DeleteSnapshot(id)
		delete(r.refSnaps, id)
		return "ok"
	case "commit":
		batch := r.database.NewBatch()
		diff := r.root.Commit(batch)
		r.database.Write(batch)
		// the diff travels through its codec, as in consensus.Executer
		enc := diff.Encode()
		dec := &diffdb.Diff{}
		if err := dec.Decode(enc); err != nil {
			r.fail("diff-decode", err.Error())
		}
		r.lastDiff = dec
		r.prevBase = r.base
		r.base = copyMap(r.eff)
		r.refSnaps, r.refVSnaps = map[int]map[string][]byte{}, map[string]map[int]map[string][]byte{}
		dump := r.dumpDB()
		if dump != dumpMap(r.base) {
			r.fail("commit-not-final-state", fmt.Sprintf("db %s want %s", dump, dumpMap(r.base)))
		}
		r.root = diffdb.New(r.database, r.rootPfx)
		return showDiff(diff) + " | " + dump
	case "revert":
		if r.lastDiff == nil {
			return "err"
		}
		batch := r.database.NewBatch()
		r.root.RevertDiff(batch, r.lastDiff)
		r.database.Write(batch)
		r.lastDiff = nil
		r.base = r.prevBase
		r.eff = copyMap(r.base)
		r.refSnaps, r.refVSnaps = map[int]map[string][]byte{}, map[string]map[int]map[string][]byte{}
		r.root = diffdb.New(r.database, r.rootPfx)
		dump := r.dumpDB()
		if dump != dumpMap(r.base) {
			r.fail("revert-not-previous-state", fmt.Sprintf("db %s want %s", dump, dumpMap(r.base)))
		}
		return dump
	case "dbrange":
		s, e := corr.UnHex(w[1]), corr.UnHex(w[2])
		limit, rev := atoi(w[3]), w[4] == "1"
		got := showKVs(r.database.IterateRange(s, e, limit, rev))
		want := refScan(r.base, func(k []byte) bool { return bytes.Compare(k, s) >= 0 && bytes.Compare(k, e) <= 0 }, 0, limit, rev)
		if got != want {
			r.fail("dbrange-not-exact", fmt.Sprintf("%s: got %s want %s", op, got, want))
		}
		// the snapshot reader shares the scan code
		rd := r.database.NewReader()
		got2 := showKVs(rd.IterateRange(s, e, limit, rev))
		rd.Close()
		if got2 != want {
			r.fail("reader-range-not-exact", fmt.Sprintf("%s: got %s want %s", op, got2, want))
		}
		return got
	case "dbiter":
		p := corr.UnHex(w[1])
		limit, rev := atoi(w[2]), w[3] == "1"
		got := showKVs(r.database.Iterate(p, limit, rev))
		want := refScan(r.base, func(k []byte) bool { return bytes.HasPrefix(k, p) }, 0, limit, rev)
		if got != want {
			r.fail("dbiter-not-exact", fmt.Sprintf("%s: got %s want %s", op, got, want))
		}
		keys := r.database.IterateKey(p, limit, rev)
		ks := make([]string, len(keys))
		for i, k := range keys {
			ks[i] = corr.Hex(k) + "=" + corr.Hex(r.base[string(k)])
		}
		got3 := "-"
		if len(ks) > 0 {
			got3 = strings.Join(ks, ",")
		}
		if got3 != want {
			r.fail("dbiterkey-not-exact", fmt.Sprintf("%s: got %s want %s", op, got3, want))
		}
		return got
	case "dump":
		return r.dumpDB()
	}
	return r.step2(w, op)
}

func showDiff(d *diffdb.Diff) string {
	added := make([]string, len(d.Added))
	for i, k := range d.Added {
		added[i] = string(k)
	}
	sort.Strings(added)
	for i := range added {
		added[i] = corr.Hex([]byte(added[i]))
	}
	kvs := func(l []*diffdb.KV) string {
		m := map[string][]byte{}
		for _, kv := range l {
			m[string(kv.Key)] = kv.Value
		}
		return dumpMap(m)
	}
	a := "-"
	if len(added) > 0 {
		a = strings.Join(added, ",")
	}
	return "A:" + a + " U:" + kvs(d.Updated) + " D:" + kvs(d.Deleted)
}

func (prop) RunImpl(c corr.Case) ([]string, []corr.Fail) {
	r := &runner{}
	out := make([]string, 0, len(c.Ops))
	for i, op := range c.Ops {
		r.opIdx = i
		func() {
			defer func() {
				if e := recover(); e != nil {
					out = append(out, "panic")
					r.fail("panic", fmt.Sprintf("%s: %v", op, e))
				}
			}()
			r.c2.note(op)
			out = append(out, r.step(op))
		}()
	}
	if r.database != nil {
		r.database.Close()
	}
	return out, r.fails
}

func (prop) Classify(c corr.Case, out []string) string {
	// non-trivial: a scan that returned data after a staged write or delete
	staged := false
	kinds := map[string]bool{}
	for i, op := range c.Ops {
		w := strings.SplitN(op, " ", 2)[0]
		switch w {
		case "set", "del":
			staged = true
		case "commit":
			if staged && i < len(out) && !strings.HasPrefix(out[i], "A:- U:- D:-") {
				kinds["commit"] = true
			}
			staged = false
		case "commitd":
			// a discarded commit of a non-empty overlay which stays in use
			if staged && i < len(out) && !strings.HasPrefix(out[i], "A:- U:- D:-") && i+1 < len(c.Ops) {
				kinds["recommit"] = true
			}
		case "range", "iter":
			if staged && i < len(out) && out[i] != "-" {
				kinds[w] = true
			}
		case "restore":
			if i < len(out) && out[i] == "ok" {
				kinds["restore"] = true
			}
		case "vrestore":
			if i < len(out) && out[i] == "ok" {
				kinds["vrestore"] = true
			}
		}
	}
	if len(kinds) == 0 {
		return ""
	}
	ks := []string{}
	for k := range kinds {
		ks = append(ks, k)
	}
	sort.Strings(ks)
	return strings.Join(ks, "+")
}
