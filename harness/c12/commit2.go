// commit2.go: the staged store AFTER a Commit (C12, clause "Commit writes exactly that final state and
// returns a diff whose reversal restores the previous database contents").
//
// Database.Commit only fills the batch it is handed; whether that batch is ever written is the caller's
// business. framework.ABIHandler.Commit with DryRun (and with a wrong ExpectedStateRoot) calls
// diffStore.Commit and throws the batch away, consensus.Executer.processValidated drops its batch when a
// later step fails — and the same staged store stays in use: it is read again, written again and
// committed again. Commit is therefore an OBSERVATION of the overlay: it must not change it.
//
// Op `commitd` (commit, batch discarded): Commit into a recording writer which is not applied to the
// database; overlay, snapshots and the reference stay as they are. Output: the diff and the recorded
// batch (both canonical). The model driver prints the same from Model/DiffDBCommit.lean (`commitKeep`).
// Model-free oracle, against the plain maps of c12.go:
//
//	commit-batch-not-final-state   database + batch  != database with the staged writes applied
//	commit-diff-not-exact          Added / Deleted are not exactly the keys that appear / disappear, Updated
//	                               holds a key that is not in both states or not with its persisted value,
//	                               or misses a key whose value changes
//	commit-diff-not-reversible     RevertDiff(decode(encode(diff))) on database + batch != database
//	commit-batch-not-in-diff       the batch touches a key the diff does not list (a key that was only read)
//	commit-not-repeatable          two Commits with only reads in between return different batches / diffs
//
// Every read after a `commitd` keeps being checked against the overlay reference by c12.go (a Commit that
// "rebases" the overlay onto the batch it handed out shows there first: deleted keys reappear), and the
// written `commit` at the end of the case must still produce the final state (a second Commit that writes
// nothing shows there).
package c12

import (
	"bytes"
	"fmt"
	"math/rand"
	"sort"
	"strings"

	"github.com/LiskHQ/lisk-engine/pkg/db/diffdb"

	"verifharness/corr"
)

// recWriter records what Commit hands to its writer; nothing reaches the database.
type recWriter struct {
	set map[string][]byte
	del map[string]bool
	ops int
}

func newRecWriter() *recWriter { return &recWriter{set: map[string][]byte{}, del: map[string]bool{}} }

func (b *recWriter) Set(key, value []byte) {
	b.ops++
	delete(b.del, string(key))
	b.set[string(key)] = append([]byte{}, value...)
}

func (b *recWriter) Del(key []byte) {
	b.ops++
	delete(b.set, string(key))
	b.del[string(key)] = true
}

func (b *recWriter) apply(m map[string][]byte) map[string][]byte {
	r := copyMap(m)
	for k, v := range b.set {
		r[k] = v
	}
	for k := range b.del {
		delete(r, k)
	}
	return r
}

func (b *recWriter) String() string {
	dels := make([]string, 0, len(b.del))
	for k := range b.del {
		dels = append(dels, k)
	}
	sort.Strings(dels)
	for i := range dels {
		dels[i] = corr.Hex([]byte(dels[i]))
	}
	d := "-"
	if len(dels) > 0 {
		d = strings.Join(dels, ",")
	}
	return "S:" + dumpMap(b.set) + " X:" + d
}

// commit2State: what the last discarded commit returned, for the repeatability clause.
type commit2State struct {
	last       string
	lastRoot   *diffdb.Database
	writeSince bool
}

// note is called for every op before it runs: anything but a read ends the "only reads in between" window.
func (s *commit2State) note(op string) {
	switch strings.SplitN(op, " ", 2)[0] {
	case "get", "has", "range", "iter", "dbrange", "dbiter", "dump", "commitd":
	default:
		s.writeSince = true
	}
}

// revertOnMap is RevertDiff on a plain map (the order of the three loops is the one of the code: a key
// is in one list only).
type mapWriter struct{ m map[string][]byte }

func (w mapWriter) Set(k, v []byte) { w.m[string(k)] = append([]byte{}, v...) }
func (w mapWriter) Del(k []byte)    { delete(w.m, string(k)) }

func (r *runner) step2(w []string, op string) string {
	switch w[0] {
	case "commitd":
		rec := newRecWriter()
		diff := r.root.Commit(rec)
		out := showDiff(diff) + " | " + rec.String()
		// (1) the batch is the final state
		after := rec.apply(r.base)
		if dumpMap(after) != dumpMap(r.eff) {
			r.fail("commit-batch-not-final-state", fmt.Sprintf("%s: database + batch = %s, staged state %s (batch %s)", op, dumpMap(after), dumpMap(r.eff), rec.String()))
		}
		if rec.ops != len(rec.set)+len(rec.del) {
			r.fail("commit-batch-not-final-state", fmt.Sprintf("%s: %d writer calls for %d keys", op, rec.ops, len(rec.set)+len(rec.del)))
		}
		// (2) the diff is exact
		r.checkDiffExact(op, diff)
		// (3) the diff, through its codec, reverses the batch
		dec := &diffdb.Diff{}
		if err := dec.Decode(diff.Encode()); err != nil {
			r.fail("diff-decode", err.Error())
		} else {
			back := mapWriter{copyMap(after)}
			r.root.RevertDiff(back, dec)
			if dumpMap(back.m) != dumpMap(r.base) {
				r.fail("commit-diff-not-reversible", fmt.Sprintf("%s: reverting %s on %s gives %s, database was %s", op, showDiff(dec), dumpMap(after), dumpMap(back.m), dumpMap(r.base)))
			}
		}
		// (4) every key of the batch is listed by the diff
		listed := map[string]bool{}
		for _, k := range diff.Added {
			listed[string(k)] = true
		}
		for _, kv := range diff.Updated {
			listed[string(kv.Key)] = true
		}
		for _, kv := range diff.Deleted {
			listed[string(kv.Key)] = true
		}
		for k := range rec.set {
			if !listed[k] {
				r.fail("commit-batch-not-in-diff", fmt.Sprintf("%s: the batch sets %x, the diff %s does not list it", op, k, showDiff(diff)))
			}
		}
		for k := range rec.del {
			if !listed[k] {
				r.fail("commit-batch-not-in-diff", fmt.Sprintf("%s: the batch deletes %x, the diff %s does not list it", op, k, showDiff(diff)))
			}
		}
		// (5) repeatable
		if r.c2.last != "" && r.c2.lastRoot == r.root && !r.c2.writeSince && r.c2.last != out {
			r.fail("commit-not-repeatable", fmt.Sprintf("%s: a Commit with only reads since the previous one returned %s, the previous one %s", op, out, r.c2.last))
		}
		r.c2.last, r.c2.lastRoot, r.c2.writeSince = out, r.root, false
		return out
	}
	return "bad-op"
}

func (r *runner) checkDiffExact(op string, diff *diffdb.Diff) {
	bad := func(format string, a ...interface{}) {
		r.fail("commit-diff-not-exact", op+": "+fmt.Sprintf(format, a...)+" (diff "+showDiff(diff)+", database "+dumpMap(r.base)+", staged state "+dumpMap(r.eff)+")")
	}
	seen := map[string]int{}
	for _, k := range diff.Added {
		seen[string(k)]++
		if _, inBase := r.base[string(k)]; inBase {
			bad("Added lists %x which is in the database", k)
		}
		if _, inEff := r.eff[string(k)]; !inEff {
			bad("Added lists %x which is not in the staged state", k)
		}
	}
	for _, kv := range diff.Deleted {
		seen[string(kv.Key)]++
		bv, inBase := r.base[string(kv.Key)]
		if _, inEff := r.eff[string(kv.Key)]; inEff || !inBase || !bytes.Equal(bv, kv.Value) {
			bad("Deleted lists %x=%x", kv.Key, kv.Value)
		}
	}
	for _, kv := range diff.Updated {
		seen[string(kv.Key)]++
		bv, inBase := r.base[string(kv.Key)]
		if _, inEff := r.eff[string(kv.Key)]; !inEff || !inBase || !bytes.Equal(bv, kv.Value) {
			bad("Updated lists %x=%x", kv.Key, kv.Value)
		}
	}
	for k, n := range seen {
		if n > 1 {
			bad("%x is listed %d times", k, n)
		}
	}
	for k, ev := range r.eff {
		bv, inBase := r.base[k]
		if (!inBase || !bytes.Equal(bv, ev)) && seen[k] == 0 {
			bad("%x changes but is not listed", k)
		}
	}
	for k := range r.base {
		if _, inEff := r.eff[k]; !inEff && seen[k] == 0 {
			bad("%x disappears but is not listed", k)
		}
	}
}

// genCommit2: stage, Commit into a discarded batch, keep using the store (reads, a second Commit, further
// writes, snapshots), Commit for real, revert. Small key pool so that updates, deletions of persisted keys,
// deletions of keys added before the first commit and re-additions are all frequent.
func genCommit2(rng *rand.Rand, n int) []corr.Case {
	cases := make([]corr.Case, 0, n+4)
	// directed: the dry-run sequence of ABIHandler.Commit (dry run for the root, then the real commit), and
	// a delete of a key added before the first commit
	cases = append(cases,
		corr.Case{Tag: "commit2", Ops: []string{"reset - 01=aa,02=bb,03=cc", "set - 01 a1", "del - 02", "set - 04 dd", "commitd", "commit", "revert"}},
		corr.Case{Tag: "commit2", Ops: []string{"reset - 01=aa,02=bb", "del - 01", "commitd", "get - 01", "has - 01", "iter - - -1 0", "range - - ff -1 1", "commitd", "commit", "revert"}},
		corr.Case{Tag: "commit2", Ops: []string{"reset 00 0001=aa", "set 01 - 10", "set 01 05 11", "commitd", "del 01 05", "set - 01 a2", "commitd", "get 01 05", "commit", "revert"}},
		corr.Case{Tag: "commit2", Ops: []string{"reset - 01=aa", "snap", "set - 01 ab", "commitd", "restore 0", "commitd", "get - 01", "commit", "revert"}},
	)
	for i := 0; i < n; i++ {
		root := rootPrefixes[rng.Intn(len(rootPrefixes))]
		type pk struct{ p, k []byte }
		pool := make([]pk, 0, 6)
		seen := map[string]bool{}
		for len(pool) < 6 {
			p := viewPrefixes[rng.Intn(len(viewPrefixes))]
			k := genKey(rng, 2)
			if len(p)+len(k) == 0 || seen[string(join(p, k))] {
				continue
			}
			seen[string(join(p, k))] = true
			pool = append(pool, pk{p, k})
		}
		val := func() string {
			if rng.Intn(4) == 0 {
				return "-"
			}
			return corr.Hex(genVal(rng))
		}
		var kvs []string
		for _, e := range pool {
			if rng.Intn(3) > 0 {
				kvs = append(kvs, corr.Hex(join(root, e.p, e.k))+"="+val())
			}
		}
		if rng.Intn(3) == 0 {
			// a key outside the root prefix stays invisible and untouched
			if k := genKey(rng, 3); len(k) > 0 && !seen[string(k)] && !bytes.HasPrefix(k, root) {
				kvs = append(kvs, corr.Hex(k)+"="+val())
			}
		}
		kvStr := "-"
		if len(kvs) > 0 {
			sort.Strings(kvs)
			kvStr = strings.Join(kvs, ",")
		}
		ops := []string{fmt.Sprintf("reset %s %s", corr.Hex(root), kvStr)}
		snaps := 0
		read := func() {
			e := pool[rng.Intn(len(pool))]
			switch rng.Intn(5) {
			case 0, 1:
				ops = append(ops, fmt.Sprintf("get %s %s", corr.Hex(e.p), corr.Hex(e.k)))
			case 2:
				ops = append(ops, fmt.Sprintf("has %s %s", corr.Hex(e.p), corr.Hex(e.k)))
			case 3:
				ops = append(ops, fmt.Sprintf("iter %s - %d %d", corr.Hex(e.p), genLimit(rng), rng.Intn(2)))
			default:
				ops = append(ops, fmt.Sprintf("range %s - ffffff %d %d", corr.Hex(e.p), genLimit(rng), rng.Intn(2)))
			}
		}
		write := func() {
			e := pool[rng.Intn(len(pool))]
			switch r := rng.Intn(20); {
			case r < 9:
				ops = append(ops, fmt.Sprintf("set %s %s %s", corr.Hex(e.p), corr.Hex(e.k), val()))
			case r < 16:
				ops = append(ops, fmt.Sprintf("del %s %s", corr.Hex(e.p), corr.Hex(e.k)))
			case r < 18:
				ops = append(ops, "snap")
				snaps++
			case r < 19:
				ops = append(ops, fmt.Sprintf("restore %d", rng.Intn(snaps+1)))
			default:
				read()
			}
		}
		for j, m := 0, 1+rng.Intn(5); j < m; j++ {
			write()
		}
		ops = append(ops, "commitd")
		if rng.Intn(3) == 0 {
			ops = append(ops, "commitd")
		}
		for j, m := 0, rng.Intn(4); j < m; j++ {
			read()
		}
		if rng.Intn(3) == 0 {
			ops = append(ops, "commitd")
		}
		for j, m := 0, rng.Intn(4); j < m; j++ {
			write()
		}
		if rng.Intn(2) == 0 {
			ops = append(ops, "commitd")
			read()
		}
		ops = append(ops, "range - - ffffff -1 0", "commit", "revert")
		cases = append(cases, corr.Case{Ops: ops, Tag: "commit2"})
	}
	return cases
}
