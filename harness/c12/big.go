// big.go: pseudo-property "C12BIG" (run as part of C12, and of C05 / C16 whose block execution stages its
// writes in the same store): the clauses of C12 on LARGE stores and LARGE overlays. Nothing in C12 may depend
// on how many entries the database, the overlay (cacheDB.data), a scan result, a snapshot or a diff holds.
// The Lean model works on association lists and is not run here (NoModel): the oracle is the plain sorted
// map of c12.go (database contents with every staged write applied, snapshots = copies of the map) plus the
// exact classification of the commit diff. Props/C12_Size.lean states the size independence of the model.
//
// Stores hold n = 2^k ± small persisted keys in one "module store" (view prefix bigB, keys be32(2i), so that
// every odd index is a free slot for new keys between persisted ones), a handful of keys in a second module
// store (bigS), and keys outside the root prefix which must stay invisible and untouched. A few staged writes
// of every kind (new key set once / twice, update, same-value update, delete, delete-then-set, set-then-delete)
// are placed before, between and after big reads (Iterate / Range in both directions, with and without
// limits, through the root, the module view and nested / joined sub-views; bulk point Get / Has), snapshots
// are taken and restored around them, bulk staged writes cross the same sizes, then Commit: database dump,
// Added / Updated / Deleted and the diff codec are compared with the reference, and RevertDiff must restore
// the previous database.
//
// Line protocol (outputs of scans are digests "n=<count> h=<fnv64> f=<first key> l=<last key>"):
//
//	reset <root> <n> <salt>
//	get|has <view> <key> | set <view> <key> <val> | del <view> <key> | setbig <view> <key> <len> <salt>
//	mget|mhas <view> <from> <count> <stride> | mset <view> <from> <count> <stride> <salt> | mdel <view> <from> <count> <stride>
//	range <view> <start> <end> <limit> <rev> | iter <view> <prefix> <limit> <rev>
//	snap | snapn <count> | restore <id> | delsnap <id> | commit | revert
//	dbrange <start> <end> <limit> <rev> | dbiter <prefix> <limit> <rev>
//
// <view> is "-" (the root database) or a dot-separated path of hex prefixes, each step one WithPrefix call.
package c12

import (
	"bytes"
	"encoding/binary"
	"fmt"
	"hash/fnv"
	"math/rand"
	"sort"
	"strconv"
	"strings"
	"time"

	"github.com/LiskHQ/lisk-engine/pkg/db"
	"github.com/LiskHQ/lisk-engine/pkg/db/diffdb"

	"verifharness/corr"
)

type bigProp struct{}

func init() { corr.Register(bigProp{}) }

func (bigProp) ID() string                 { return "C12BIG" }
func (bigProp) NoModel() bool              { return true }
func (bigProp) Parallel() int              { return 4 }
func (bigProp) CaseTimeout() time.Duration { return 300 * time.Second }

var (
	bigB = []byte{0, 0, 0, 2, 0, 0}
	bigS = []byte{0, 0, 0, 3, 0x80, 0}
)

func be32(x uint32) []byte {
	b := make([]byte, 4)
	binary.BigEndian.PutUint32(b, x)
	return b
}

// bigVal: deterministic value of 0..4 bytes (one in five is empty).
func bigVal(x, salt uint32) []byte {
	h := (x+1)*2654435761 ^ (salt+1)*40503
	h ^= h >> 15
	return be32(h)[:int(h>>7)%5]
}

// bigBlob: deterministic value of the given length.
func bigBlob(n int, salt uint32) []byte {
	b := make([]byte, n)
	s := salt*2246822519 + 1
	for i := range b {
		s = s*1664525 + 1013904223
		b[i] = byte(s >> 24)
	}
	return b
}

// bigInitial: the initial database contents of `reset <root> <n> <salt>`.
func bigInitial(root []byte, n int, salt uint32) map[string][]byte {
	m := make(map[string][]byte, n+16)
	for i := 0; i < n; i++ {
		m[string(join(root, bigB, be32(uint32(2*i))))] = bigVal(uint32(2*i), salt)
	}
	for j, k := range [][]byte{{0x00}, {0x01}, {0x01, 0x00}, {0xff}, {}} {
		if salt>>uint(j)&1 == 1 {
			m[string(join(root, bigS, k))] = bigVal(uint32(1000+j), salt)
		}
	}
	// keys outside the root prefix: never visible through the staged store, never touched by Commit
	if len(root) > 0 {
		last := root[len(root)-1]
		m[string(join(root[:len(root)-1], []byte{last + 1}))] = []byte{0xee}
		m[string(join(root[:len(root)-1], []byte{last + 1}, bigB, be32(0)))] = []byte{0xee, 1}
		if last > 0 {
			m[string(join(root[:len(root)-1], []byte{last - 1, 0xff}))] = []byte{0xee, 2}
		}
		if len(root) > 1 {
			m[string(root[:len(root)-1])] = []byte{0xee, 3}
		}
	}
	return m
}

type kvPair struct{ k, v []byte }

func digest(l []kvPair) string {
	h := fnv.New64a()
	var n [4]byte
	for _, e := range l {
		binary.BigEndian.PutUint32(n[:], uint32(len(e.k)))
		h.Write(n[:])
		h.Write(e.k)
		binary.BigEndian.PutUint32(n[:], uint32(len(e.v)))
		h.Write(n[:])
		h.Write(e.v)
	}
	f, la := "-", "-"
	if len(l) > 0 {
		f, la = corr.Hex(l[0].k), corr.Hex(l[len(l)-1].k)
	}
	return fmt.Sprintf("n=%d h=%016x f=%s l=%s", len(l), h.Sum64(), f, la)
}

func short(b []byte) string {
	if len(b) > 24 {
		return fmt.Sprintf("%x..(%d bytes)", b[:24], len(b))
	}
	return corr.Hex(b)
}

// diffKVs returns "" when the lists are equal, else the first difference.
func diffKVs(got, want []kvPair) string {
	for i := 0; i < len(got) && i < len(want); i++ {
		if !bytes.Equal(got[i].k, want[i].k) || !bytes.Equal(got[i].v, want[i].v) {
			return fmt.Sprintf("got %d entries, want %d; first difference at index %d: got %s=%s want %s=%s",
				len(got), len(want), i, short(got[i].k), short(got[i].v), short(want[i].k), short(want[i].v))
		}
	}
	if len(got) != len(want) {
		i := len(got)
		l, side := want, "missing"
		if len(want) < len(got) {
			i, l, side = len(want), got, "unexpected"
		}
		return fmt.Sprintf("got %d entries, want %d; first %s entry (index %d): %s=%s", len(got), len(want), side, i, short(l[i].k), short(l[i].v))
	}
	return ""
}

func fromKVs(kvs []db.KeyValue) []kvPair {
	r := make([]kvPair, len(kvs))
	for i, e := range kvs {
		r[i] = kvPair{e.Key(), e.Value()}
	}
	return r
}

// refList is the specification of every scan: filter, sort, limit on a plain map.
func refList(m map[string][]byte, f func(k []byte) bool, strip, limit int, reverse bool) []kvPair {
	keys := []string{}
	for k := range m {
		if f([]byte(k)) {
			keys = append(keys, k)
		}
	}
	sort.Strings(keys)
	if reverse {
		for i, j := 0, len(keys)-1; i < j; i, j = i+1, j-1 {
			keys[i], keys[j] = keys[j], keys[i]
		}
	}
	if limit > -1 && len(keys) > limit {
		keys = keys[:limit]
	}
	r := make([]kvPair, len(keys))
	for i, k := range keys {
		r[i] = kvPair{[]byte(k)[strip:], m[k]}
	}
	return r
}

type bigSnap struct {
	eff     map[string][]byte
	written map[string]bool
}

type bigRunner struct {
	database *db.DB
	root     *diffdb.Database
	rootPfx  []byte
	lastDiff *diffdb.Diff
	views    map[string]*diffdb.Database
	// reference
	base     map[string][]byte
	eff      map[string][]byte
	written  map[string]bool // keys Set since the overlay was opened (rolled back with a restored snapshot)
	prevBase map[string][]byte
	snaps    map[int]bigSnap
	fails    []corr.Fail
	sigs     map[string]bool
	opIdx    int
	// the database no longer holds what the reference holds (reported once): later differences are consequences
	diverged bool
}

// fail keeps the first failure of each signature per case.
func (r *bigRunner) fail(sig, detail string) {
	if r.diverged {
		return
	}
	if r.sigs == nil {
		r.sigs = map[string]bool{}
	}
	if r.sigs[sig] {
		return
	}
	r.sigs[sig] = true
	r.fails = append(r.fails, corr.Fail{Sig: sig, Detail: detail, Op: r.opIdx})
}

func copyBoolMap(m map[string]bool) map[string]bool {
	r := make(map[string]bool, len(m))
	for k, v := range m {
		r[k] = v
	}
	return r
}

// view resolves a view path; returns the database and the joined prefix (without the root prefix).
func (r *bigRunner) view(path string) (*diffdb.Database, []byte) {
	if path == "-" {
		return r.root, nil
	}
	var pfx []byte
	for _, seg := range strings.Split(path, ".") {
		pfx = append(pfx, corr.UnHex(seg)...)
	}
	if r.views == nil {
		r.views = map[string]*diffdb.Database{}
	}
	if v, ok := r.views[path]; ok {
		return v, pfx
	}
	var v *diffdb.Database
	if i := strings.LastIndex(path, "."); i >= 0 {
		parent, _ := r.view(path[:i])
		v = parent.WithPrefix(corr.UnHex(path[i+1:]))
	} else {
		v = r.root.WithPrefix(corr.UnHex(path))
	}
	r.views[path] = v
	return v, pfx
}

func (r *bigRunner) dbAll() []kvPair {
	return fromKVs(r.database.IterateRange([]byte{}, bytes.Repeat([]byte{0xff}, 64), -1, false))
}

func all([]byte) bool { return true }

func (r *bigRunner) newOverlay() {
	r.root = diffdb.New(r.database, r.rootPfx)
	r.views = nil
	r.written = map[string]bool{}
	r.snaps = map[int]bigSnap{}
}

func (r *bigRunner) refSet(full, v []byte) {
	r.eff[string(full)] = v
	r.written[string(full)] = true
}

func (r *bigRunner) step(op string) string {
	w := strings.Fields(op)
	switch w[0] {
	case "reset":
		if r.database != nil {
			r.database.Close()
		}
		d, err := db.NewInMemoryDB()
		if err != nil {
			panic(err)
		}
		r.database = d
		r.rootPfx = corr.UnHex(w[1])
		r.base = bigInitial(r.rootPfx, atoi(w[2]), uint32(atoi(w[3])))
		batch := d.NewBatch()
		for k, v := range r.base {
			batch.Set([]byte(k), v)
		}
		d.Write(batch)
		r.eff = copyMap(r.base)
		r.lastDiff = nil
		r.diverged = false
		r.newOverlay()
		return "ok"
	case "get", "has":
		v, p := r.view(w[1])
		k := corr.UnHex(w[2])
		want, wantOK := r.eff[string(join(r.rootPfx, p, k))]
		if w[0] == "has" {
			got := v.Has(k)
			if got != wantOK {
				r.fail("has-differs-from-overlay", fmt.Sprintf("%s: got %v want %v", op, got, wantOK))
			}
			return strconv.FormatBool(got)
		}
		val, ok := v.Get(k)
		if ok != wantOK || (ok && !bytes.Equal(val, want)) {
			r.fail("get-differs-from-overlay", fmt.Sprintf("%s: got %s,%v want %s,%v", op, short(val), ok, short(want), wantOK))
		}
		if !ok {
			return "none"
		}
		return "some " + short(val)
	case "set":
		v, p := r.view(w[1])
		k, val := corr.UnHex(w[2]), corr.UnHex(w[3])
		v.Set(k, val)
		r.refSet(join(r.rootPfx, p, k), val)
		return "ok"
	case "setbig":
		v, p := r.view(w[1])
		k, val := corr.UnHex(w[2]), bigBlob(atoi(w[3]), uint32(atoi(w[4])))
		v.Set(k, val)
		r.refSet(join(r.rootPfx, p, k), val)
		return "ok"
	case "del":
		v, p := r.view(w[1])
		k := corr.UnHex(w[2])
		v.Del(k)
		delete(r.eff, string(join(r.rootPfx, p, k)))
		return "ok"
	case "mget", "mhas":
		v, p := r.view(w[1])
		from, count, stride := uint32(atoi(w[2])), atoi(w[3]), uint32(atoi(w[4]))
		h := fnv.New64a()
		found := 0
		for j := 0; j < count; j++ {
			k := be32(from + uint32(j)*stride)
			want, wantOK := r.eff[string(join(r.rootPfx, p, k))]
			if w[0] == "mhas" {
				got := v.Has(k)
				if got != wantOK {
					r.fail("has-differs-from-overlay", fmt.Sprintf("%s: key %x (item %d): got %v want %v", op, k, j, got, wantOK))
				}
				if got {
					found++
					h.Write(k)
				}
				continue
			}
			val, ok := v.Get(k)
			if ok != wantOK || (ok && !bytes.Equal(val, want)) {
				r.fail("get-differs-from-overlay", fmt.Sprintf("%s: key %x (item %d): got %s,%v want %s,%v", op, k, j, short(val), ok, short(want), wantOK))
			}
			if ok {
				found++
				h.Write(k)
				h.Write([]byte{byte(len(val))})
				h.Write(val)
			}
		}
		return fmt.Sprintf("found=%d h=%016x", found, h.Sum64())
	case "mset":
		v, p := r.view(w[1])
		from, count, stride, salt := uint32(atoi(w[2])), atoi(w[3]), uint32(atoi(w[4])), uint32(atoi(w[5]))
		for j := 0; j < count; j++ {
			x := from + uint32(j)*stride
			val := bigVal(x, salt)
			v.Set(be32(x), val)
			r.refSet(join(r.rootPfx, p, be32(x)), val)
		}
		return "ok"
	case "mdel":
		v, p := r.view(w[1])
		from, count, stride := uint32(atoi(w[2])), atoi(w[3]), uint32(atoi(w[4]))
		for j := 0; j < count; j++ {
			k := be32(from + uint32(j)*stride)
			v.Del(k)
			delete(r.eff, string(join(r.rootPfx, p, k)))
		}
		return "ok"
	case "range":
		v, p := r.view(w[1])
		s, e := corr.UnHex(w[2]), corr.UnHex(w[3])
		limit, rev := atoi(w[4]), w[5] == "1"
		got := fromKVs(v.Range(s, e, limit, rev))
		fs, fe := join(r.rootPfx, p, s), join(r.rootPfx, p, e)
		want := refList(r.eff, func(k []byte) bool { return bytes.Compare(k, fs) >= 0 && bytes.Compare(k, fe) <= 0 }, len(r.rootPfx)+len(p), limit, rev)
		if d := diffKVs(got, want); d != "" {
			r.fail("range-differs-from-overlay", op+": "+d)
		}
		return digest(got)
	case "iter":
		v, p := r.view(w[1])
		pre := corr.UnHex(w[2])
		limit, rev := atoi(w[3]), w[4] == "1"
		got := fromKVs(v.Iterate(pre, limit, rev))
		fp := join(r.rootPfx, p, pre)
		want := refList(r.eff, func(k []byte) bool { return bytes.HasPrefix(k, fp) }, len(r.rootPfx)+len(p), limit, rev)
		if d := diffKVs(got, want); d != "" {
			r.fail("iterate-differs-from-overlay", op+": "+d)
		}
		return digest(got)
	case "snap":
		id := r.root.Snapshot()
		r.snaps[id] = bigSnap{copyMap(r.eff), copyBoolMap(r.written)}
		return strconv.Itoa(id)
	case "snapn":
		last := -1
		for j, n := 0, atoi(w[1]); j < n; j++ {
			last = r.root.Snapshot()
			r.snaps[last] = bigSnap{copyMap(r.eff), copyBoolMap(r.written)}
		}
		return strconv.Itoa(last)
	case "restore":
		id := atoi(w[1])
		err := r.root.RestoreSnapshot(id)
		snap, ok := r.snaps[id]
		if (err == nil) != ok {
			r.fail("restore-verdict", fmt.Sprintf("%s: err=%v, reference has snapshot=%v", op, err, ok))
		}
		if err != nil {
			return "err"
		}
		if ok {
			r.eff, r.written = snap.eff, snap.written
		}
		delete(r.snaps, id)
		return "ok"
	case "delsnap":
		id := atoi(w[1])
		r.root.DeleteSnapshot(id)
		delete(r.snaps, id)
		return "ok"
	case "commit":
		// nothing reaches the database before Commit
		if d := diffKVs(r.dbAll(), refList(r.base, all, 0, -1, false)); d != "" {
			r.fail("staged-write-reached-db-before-commit", d)
		}
		batch := r.database.NewBatch()
		diff := r.root.Commit(batch)
		r.database.Write(batch)
		// the diff travels through its codec, as in consensus.Executer
		dec := &diffdb.Diff{}
		if err := dec.Decode(diff.Encode()); err != nil {
			r.fail("diff-decode", err.Error())
		}
		added, updated, deleted := diffLists(diff)
		a2, u2, d2 := diffLists(dec)
		if diffKVs(a2, added) != "" || diffKVs(u2, updated) != "" || diffKVs(d2, deleted) != "" {
			r.fail("diff-codec-roundtrip", fmt.Sprintf("decoded diff differs: A %s U %s D %s", diffKVs(a2, added), diffKVs(u2, updated), diffKVs(d2, deleted)))
		}
		// exact classification: Added = absent before, present after; Deleted = present before, absent after
		// (with the old value); Updated = present before and after and written in this overlay (old value)
		var wantA, wantU, wantD []kvPair
		for k := range r.eff {
			if old, ok := r.base[k]; !ok {
				wantA = append(wantA, kvPair{[]byte(k), nil})
			} else if r.written[k] {
				wantU = append(wantU, kvPair{[]byte(k), old})
			}
		}
		for k, old := range r.base {
			if _, ok := r.eff[k]; !ok {
				wantD = append(wantD, kvPair{[]byte(k), old})
			}
		}
		sortPairs(wantA)
		sortPairs(wantU)
		sortPairs(wantD)
		if d := diffKVs(added, wantA); d != "" {
			r.fail("commit-diff-added", d)
		}
		if d := diffKVs(updated, wantU); d != "" {
			r.fail("commit-diff-updated", d)
		}
		if d := diffKVs(deleted, wantD); d != "" {
			r.fail("commit-diff-deleted", d)
		}
		r.lastDiff = dec
		r.prevBase = r.base
		r.base = copyMap(r.eff)
		dump := r.dbAll()
		if d := diffKVs(dump, refList(r.base, all, 0, -1, false)); d != "" {
			r.fail("commit-not-final-state", d)
			r.diverged = true
		}
		r.newOverlay()
		return "A:" + digest(added) + " U:" + digest(updated) + " D:" + digest(deleted) + " | " + digest(dump)
	case "revert":
		if r.lastDiff == nil {
			return "err"
		}
		batch := r.database.NewBatch()
		r.root.RevertDiff(batch, r.lastDiff)
		r.database.Write(batch)
		r.lastDiff = nil
		r.base = r.prevBase
		r.eff = copyMap(r.base)
		r.newOverlay()
		dump := r.dbAll()
		if d := diffKVs(dump, refList(r.base, all, 0, -1, false)); d != "" {
			r.fail("revert-not-previous-state", d)
			r.diverged = true
		}
		return digest(dump)
	case "dbrange":
		s, e := corr.UnHex(w[1]), corr.UnHex(w[2])
		limit, rev := atoi(w[3]), w[4] == "1"
		got := fromKVs(r.database.IterateRange(s, e, limit, rev))
		want := refList(r.base, func(k []byte) bool { return bytes.Compare(k, s) >= 0 && bytes.Compare(k, e) <= 0 }, 0, limit, rev)
		if d := diffKVs(got, want); d != "" {
			r.fail("dbrange-not-exact", op+": "+d)
		}
		rd := r.database.NewReader()
		got2 := fromKVs(rd.IterateRange(s, e, limit, rev))
		rd.Close()
		if d := diffKVs(got2, want); d != "" {
			r.fail("reader-range-not-exact", op+": "+d)
		}
		return digest(got)
	case "dbiter":
		p := corr.UnHex(w[1])
		limit, rev := atoi(w[2]), w[3] == "1"
		got := fromKVs(r.database.Iterate(p, limit, rev))
		want := refList(r.base, func(k []byte) bool { return bytes.HasPrefix(k, p) }, 0, limit, rev)
		if d := diffKVs(got, want); d != "" {
			r.fail("dbiter-not-exact", op+": "+d)
		}
		keys := r.database.IterateKey(p, limit, rev)
		got3 := make([]kvPair, len(keys))
		for i, k := range keys {
			got3[i] = kvPair{k, r.base[string(k)]}
		}
		if d := diffKVs(got3, want); d != "" {
			r.fail("dbiterkey-not-exact", op+": "+d)
		}
		return digest(got)
	}
	return "bad-op"
}

func sortPairs(l []kvPair) {
	sort.Slice(l, func(i, j int) bool { return bytes.Compare(l[i].k, l[j].k) < 0 })
}

// diffLists: the three lists of a diff in key order (the order inside a diff is Go map order).
func diffLists(d *diffdb.Diff) (added, updated, deleted []kvPair) {
	for _, k := range d.Added {
		added = append(added, kvPair{k, nil})
	}
	for _, kv := range d.Updated {
		updated = append(updated, kvPair{kv.Key, kv.Value})
	}
	for _, kv := range d.Deleted {
		deleted = append(deleted, kvPair{kv.Key, kv.Value})
	}
	sortPairs(added)
	sortPairs(updated)
	sortPairs(deleted)
	return
}

func (bigProp) RunImpl(c corr.Case) ([]string, []corr.Fail) {
	r := &bigRunner{}
	out := make([]string, 0, len(c.Ops))
	for i, op := range c.Ops {
		r.opIdx = i
		func() {
			defer func() {
				if e := recover(); e != nil {
					out = append(out, "panic")
					r.fail("panic", fmt.Sprintf("%s: %v", op, e))
				}
			}()
			if i > 0 && r.database == nil {
				out = append(out, "no-reset")
				return
			}
			out = append(out, r.step(op))
		}()
	}
	if r.database != nil {
		r.database.Close()
	}
	return out, r.fails
}

// ---------------------------------------------------------------------------------------------
// generator

var bigRoots = [][]byte{{0x05}, {}, {0xaa, 0x00}, {0x05}}

type bigGen struct {
	rng     *rand.Rand
	n       int
	salt    uint32
	ops     []string
	watch   [][2]string // (view, key) of every staged write so far
	fresh   int
	snaps   int
	B, S    string
	subView []string // views below B: nested and joined
}

func (g *bigGen) add(f string, a ...any) { g.ops = append(g.ops, fmt.Sprintf(f, a...)) }

func (g *bigGen) val() string {
	if g.rng.Intn(5) == 0 {
		return "-"
	}
	return corr.Hex(genVal(g.rng))
}

// slot picks an index in the big module store: boundary positions half of the time.
func (g *bigGen) slot(even bool) uint32 {
	n2 := uint32(2 * g.n)
	var x uint32
	if g.rng.Intn(2) == 0 {
		c := []uint32{0, 2, n2 - 2, n2, n2 + 2, n2 / 2, 1 << 15, 1<<15 - 2, 1 << 16, 1 << 17}
		x = c[g.rng.Intn(len(c))]
	} else {
		x = uint32(g.rng.Intn(2*g.n + 4))
	}
	x &^= 1
	if !even {
		x |= 1
	}
	return x
}

// persisted picks the index of a persisted key of the big module store (n >= 1).
func (g *bigGen) persisted() uint32 {
	for {
		x := g.slot(true)
		if int(x) < 2*g.n {
			return x
		}
	}
}

func (g *bigGen) freshKey() string {
	g.fresh++
	return fmt.Sprintf("6e%02x", g.fresh&0xff)
}

func (g *bigGen) set(view, key, val string) {
	g.add("set %s %s %s", view, key, val)
	g.watch = append(g.watch, [2]string{view, key})
}

func (g *bigGen) del(view, key string) {
	g.add("del %s %s", view, key)
	g.watch = append(g.watch, [2]string{view, key})
}

// stage emits one staged change of the given kind (-1: random).
func (g *bigGen) stage(kind int) {
	rng := g.rng
	if kind < 0 {
		kind = rng.Intn(13)
	}
	if g.n == 0 && (kind >= 4 && kind <= 7) {
		kind = rng.Intn(4)
	}
	switch kind {
	case 0: // new key in the small module store, set once
		g.set(g.S, g.freshKey(), g.val())
	case 1: // new key between persisted keys of the big module store, set once
		g.set(g.B, corr.Hex(be32(g.slot(false))), g.val())
	case 2: // new key through the root view, set once
		if rng.Intn(2) == 0 {
			g.set("-", corr.Hex(join(bigS, corr.UnHex(g.freshKey()))), g.val())
		} else {
			g.set("-", "07"+g.freshKey(), g.val())
		}
	case 3: // new key set twice
		v, k := g.S, g.freshKey()
		if rng.Intn(2) == 0 {
			v, k = g.B, corr.Hex(be32(g.slot(false)))
		}
		g.set(v, k, g.val())
		g.set(v, k, g.val())
	case 4: // update of a persisted key
		g.set(g.B, corr.Hex(be32(g.persisted())), g.val())
	case 5: // update writing back the stored value
		x := g.persisted()
		g.set(g.B, corr.Hex(be32(x)), corr.Hex(bigVal(x, g.salt)))
	case 6: // delete of a persisted key
		g.del(g.B, corr.Hex(be32(g.persisted())))
	case 7: // delete, then set again
		k := corr.Hex(be32(g.persisted()))
		g.del(g.B, k)
		g.set(g.B, k, g.val())
	case 8: // created and deleted inside the overlay
		v, k := g.S, g.freshKey()
		if rng.Intn(2) == 0 {
			v, k = g.B, corr.Hex(be32(g.slot(false)))
		}
		g.set(v, k, g.val())
		g.del(v, k)
	case 9: // delete of a key that never existed
		g.del(g.B, corr.Hex(be32(g.slot(false))))
	case 10: // small module store: persisted keys (or not, by salt)
		k := []string{"00", "01", "0100", "ff", "-"}[rng.Intn(5)]
		if rng.Intn(2) == 0 {
			g.set(g.S, k, g.val())
		} else {
			g.del(g.S, k)
		}
	case 11: // through a sub-view of the big module store
		sv := g.subView[rng.Intn(len(g.subView))]
		// the sub-views cover indexes 0x0000xxxx: the key is the low half of the index
		x := g.slot(rng.Intn(2) == 0) & 0xffff
		if rng.Intn(3) == 0 {
			g.del(sv, corr.Hex(be32(x)[2:]))
		} else {
			g.set(sv, corr.Hex(be32(x)[2:]), g.val())
		}
	case 12: // a large value
		k := g.freshKey()
		g.add("setbig %s %s %d %d", g.S, k, []int{255, 256, 65535, 65536, 70001}[rng.Intn(5)], rng.Intn(1000))
		g.watch = append(g.watch, [2]string{g.S, k})
	}
}

func (g *bigGen) limit() int {
	c := []int{-1, -1, -1, 0, 1, 5, g.n - 1, g.n, g.n + 1, 1<<14 - 1, 1 << 14, 1<<14 + 1, g.n / 2}
	l := c[g.rng.Intn(len(c))]
	if l < -1 {
		l = -1
	}
	return l
}

// bigRead emits one read that touches a large part of the store. full: it must visit every persisted key
// of the big module store.
func (g *bigGen) bigRead(full bool) {
	rng := g.rng
	rev := rng.Intn(2)
	hexB := corr.Hex(bigB)
	kind := rng.Intn(9)
	if full && (kind == 3 || kind == 5) {
		kind = rng.Intn(3)
	}
	switch kind {
	case 0:
		g.add("iter %s - %d %d", g.B, g.limit(), rev)
	case 1:
		g.add("iter - - %d %d", g.limit(), rev)
	case 2:
		g.add("iter - %s %d %d", hexB, g.limit(), rev)
	case 3: // part of the big module store: a random window
		lo, hi := g.slot(rng.Intn(2) == 0), g.slot(rng.Intn(2) == 0)
		if lo > hi && rng.Intn(4) > 0 {
			lo, hi = hi, lo
		}
		if rng.Intn(2) == 0 {
			g.add("range %s %s %s %d %d", g.B, corr.Hex(be32(lo)), corr.Hex(be32(hi)), g.limit(), rev)
		} else {
			g.add("range - %s %s %d %d", corr.Hex(join(bigB, be32(lo))), corr.Hex(join(bigB, be32(hi))), g.limit(), rev)
		}
	case 4: // the whole big module store as a range
		if rng.Intn(2) == 0 {
			g.add("range %s 00000000 ffffffff %d %d", g.B, g.limit(), rev)
		} else {
			g.add("range - %s %s %d %d", corr.Hex(join(bigB, be32(0))), corr.Hex(join(bigB, be32(0xffffffff))), g.limit(), rev)
		}
	case 5: // sub-views / sub-prefixes (indexes 0x0000xxxx: up to 32768 persisted keys)
		if rng.Intn(2) == 0 {
			g.add("iter %s - %d %d", g.subView[rng.Intn(len(g.subView))], g.limit(), rev)
		} else {
			g.add("iter %s %s %d %d", g.B, []string{"0000", "000000", "0001", "00"}[rng.Intn(4)], g.limit(), rev)
		}
	case 6: // point reads of every persisted key
		op := "mget"
		if rng.Intn(3) == 0 {
			op = "mhas"
		}
		g.add("%s %s 0 %d 2", op, g.B, g.n+1)
	case 7: // point reads of every slot, persisted or not
		g.add("mget %s 0 %d 1", g.B, 2*g.n+2)
	case 8: // everything under the root as a range
		g.add("range - - ffffffffffffffff %d %d", g.limit(), rev)
	}
}

// checks: point reads of every staged key so far, a scan of the small module store, a window around one
// staged key of the big module store.
func (g *bigGen) checks() {
	for _, wk := range g.watch {
		if g.rng.Intn(8) == 0 {
			g.add("has %s %s", wk[0], wk[1])
		} else {
			g.add("get %s %s", wk[0], wk[1])
		}
	}
	g.add("iter %s - -1 %d", g.S, g.rng.Intn(2))
	g.add("iter - 07 %d %d", g.limit(), g.rng.Intn(2))
	x := g.slot(false)
	lo := uint32(0)
	if x > 6 {
		lo = x - 6
	}
	g.add("range %s %s %s %d %d", g.B, corr.Hex(be32(lo)), corr.Hex(be32(x+6)), []int{-1, 1, 3}[g.rng.Intn(3)], g.rng.Intn(2))
}

func (g *bigGen) snap() {
	g.add("snap")
	g.snaps++
}

func (g *bigGen) maybeRestore() {
	if g.snaps == 0 {
		return
	}
	switch g.rng.Intn(4) {
	case 0, 1:
		g.add("restore %d", g.rng.Intn(g.snaps))
	case 2:
		g.add("delsnap %d", g.rng.Intn(g.snaps))
	}
}

func (g *bigGen) commit() {
	g.add("commit")
	g.snaps = 0
	switch g.rng.Intn(3) {
	case 0:
		g.add("dbiter %s %d %d", corr.Hex(join(g.root(), bigB)), g.dbLimit(), g.rng.Intn(2))
	case 1:
		g.add("dbrange %s %s %d %d", corr.Hex(join(g.root(), bigB, be32(g.slot(true)))), corr.Hex(join(g.root(), bigB, be32(g.slot(false)))), g.dbLimit(), g.rng.Intn(2))
	}
}

func (g *bigGen) root() []byte { return corr.UnHex(strings.Fields(g.ops[0])[1]) }

func (g *bigGen) dbLimit() int {
	l := g.limit()
	if l == 0 { // DB-level scans with limit 0 are not claimed (see DESIGN.md C12)
		return -1
	}
	return l
}

// bigCase: one case on a store of n persisted keys; reads = number of big reads the budget allows.
func bigCase(rng *rand.Rand, n, reads int, variant string) corr.Case {
	g := &bigGen{rng: rng, n: n, salt: uint32(rng.Intn(1 << 16)), B: corr.Hex(bigB), S: corr.Hex(bigS)}
	g.subView = []string{g.B + ".0000", corr.Hex(join(bigB, []byte{0, 0}))}
	g.add("reset %s %d %d", corr.Hex(bigRoots[rng.Intn(len(bigRoots))]), n, g.salt)
	stages := func(lo, hi int) {
		for j, m := 0, lo+rng.Intn(hi-lo+1); j < m; j++ {
			g.stage(-1)
		}
	}
	switch variant {
	case "bulk":
		// bulk staged writes of about n/2 .. n entries each: new keys, updates, deletes; then reads, snapshot, commit
		cnt := n/2 + rng.Intn(n/2+2)
		g.stage(rng.Intn(3))
		g.add("mset %s 1 %d 2 %d", g.B, cnt, rng.Intn(1000))
		if rng.Intn(2) == 0 {
			g.snap()
		}
		g.add("mset %s 0 %d 4 %d", g.B, (n+1)/2, rng.Intn(1000))
		g.add("mdel %s 2 %d 4", g.B, n/2)
		stages(1, 3)
		g.bigRead(true)
		g.checks()
		g.maybeRestore()
		stages(0, 2)
		g.bigRead(false)
		g.checks()
		g.commit()
		if rng.Intn(2) == 0 {
			g.add("revert")
		} else {
			g.bigRead(true)
			g.stage(-1)
			g.add("mdel %s 1 %d 2", g.B, cnt/2)
			g.commit()
			g.add("revert")
		}
	case "snaps":
		// many snapshots of one overlay
		stages(2, 4)
		g.bigRead(true)
		for _, m := range []int{1, 254 + rng.Intn(4)} {
			g.add("snapn %d", m)
			g.snaps += m
			stages(1, 2)
		}
		g.checks()
		g.add("restore %d", g.snaps-1-rng.Intn(3))
		g.checks()
		g.add("restore %d", rng.Intn(2))
		g.checks()
		g.commit()
		g.add("revert")
	default:
		// phase 1: staged writes of every "new key" kind before the first big read
		g.stage(rng.Intn(3))
		g.stage(3)
		stages(1, 4)
		if rng.Intn(2) == 0 {
			g.snap()
			stages(0, 2)
		}
		g.bigRead(true)
		g.checks()
		g.maybeRestore()
		for left := reads - 1; left > 0; left-- {
			stages(1, 3)
			if rng.Intn(3) == 0 {
				g.snap()
			}
			g.bigRead(left == 1 || rng.Intn(2) == 0)
			if rng.Intn(2) == 0 || left == 1 {
				g.checks()
			}
			if rng.Intn(3) == 0 {
				g.maybeRestore()
			}
		}
		stages(0, 2)
		g.add("iter - - -1 0")
		g.commit()
		if rng.Intn(2) == 0 {
			g.add("revert")
		} else {
			// second overlay on the committed database
			stages(1, 3)
			g.bigRead(true)
			g.checks()
			g.commit()
			g.add("revert")
		}
	}
	return corr.Case{Ops: g.ops, Tag: fmt.Sprintf("big:%s:2^%d", variant, log2near(n))}
}

func log2near(n int) int {
	k := 0
	for (1 << uint(k+1)) <= n+n/2 {
		k++
	}
	return k
}

func nearPow(rng *rand.Rand, k int) int {
	n := 1<<uint(k) + rng.Intn(7) - 3
	if n < 0 {
		n = 0
	}
	return n
}

func (bigProp) Generate(rng *rand.Rand, tier string) []corr.Case {
	var cases []corr.Case
	if tier != "thorough" {
		// sizes crossing 2^14 and 2^16 (and 2^13 / 2^15 / 2^17 once), small stores with many ops
		for i := 0; i < 6; i++ {
			cases = append(cases, bigCase(rng, nearPow(rng, 14), 4, "mix"))
		}
		cases = append(cases, bigCase(rng, nearPow(rng, 14), 2, "bulk"))
		cases = append(cases, bigCase(rng, nearPow(rng, 13), 4, "mix"), bigCase(rng, nearPow(rng, 15), 2, "bulk"), bigCase(rng, nearPow(rng, 15), 3, "mix"))
		for i := 0; i < 2; i++ {
			cases = append(cases, bigCase(rng, nearPow(rng, 16), 3, "mix"))
		}
		cases = append(cases, bigCase(rng, nearPow(rng, 17), 2, "mix"))
		cases = append(cases, bigCase(rng, nearPow(rng, 8), 2, "snaps"))
		for i := 0; i < 8; i++ {
			cases = append(cases, bigCase(rng, nearPow(rng, rng.Intn(13)), 6, []string{"mix", "mix", "bulk"}[rng.Intn(3)]))
		}
		return cases
	}
	for k := 0; k <= 17; k++ {
		per, reads := 14, 6
		switch {
		case k >= 17:
			per, reads = 8, 3
		case k >= 16:
			per, reads = 16, 4
		case k >= 15:
			per, reads = 20, 5
		case k >= 13:
			per, reads = 36, 6
		}
		for i := 0; i < per; i++ {
			n := 1<<uint(k) + (i % 7) - 3
			if i >= 7 {
				n = nearPow(rng, k)
			}
			if n < 0 {
				n = 0
			}
			variant := "mix"
			if i%4 == 3 {
				variant = "bulk"
			}
			cases = append(cases, bigCase(rng, n, reads, variant))
		}
	}
	for i := 0; i < 6; i++ {
		cases = append(cases, bigCase(rng, nearPow(rng, 4+rng.Intn(8)), 2, "snaps"))
	}
	// sizes that are not powers of two
	for _, n := range []int{1000, 4095 + rng.Intn(3), 10000, 20000 + rng.Intn(100), 50000, 100000} {
		cases = append(cases, bigCase(rng, n, 4, "mix"))
	}
	return cases
}

// Classify: size class of the store and what happened on it; non-trivial = a scan or bulk read that returned
// at least 1024 entries after a staged write, followed by a non-empty commit.
func (bigProp) Classify(c corr.Case, out []string) string {
	if len(c.Ops) == 0 {
		return ""
	}
	w := strings.Fields(c.Ops[0])
	if len(w) < 3 || w[0] != "reset" {
		return ""
	}
	n, _ := strconv.Atoi(w[2])
	staged, bigAfterStaged, restored, committed := false, 0, false, false
	for i, op := range c.Ops {
		if i >= len(out) {
			break
		}
		switch strings.SplitN(op, " ", 2)[0] {
		case "set", "del", "mset", "mdel", "setbig":
			staged = true
		case "iter", "range", "mget", "mhas":
			var cnt int
			if _, err := fmt.Sscanf(out[i], "n=%d", &cnt); err != nil {
				fmt.Sscanf(out[i], "found=%d", &cnt)
			}
			if staged && cnt >= 1024 {
				bigAfterStaged++
			}
		case "restore":
			if out[i] == "ok" {
				restored = true
			}
		case "commit":
			if staged && !strings.HasPrefix(out[i], "A:n=0 h=cbf29ce484222325 f=- l=- U:n=0 h=cbf29ce484222325 f=- l=- D:n=0") {
				committed = true
			}
			staged = false
		}
	}
	if bigAfterStaged == 0 || !committed {
		return ""
	}
	cl := fmt.Sprintf("2^%d", log2near(n))
	if restored {
		cl += "+restore"
	}
	if strings.Contains(c.Tag, "bulk") {
		cl += "+bulk"
	}
	return cl
}
