// durable.go: C12DUR - the C12 op sequences on a pebble that flushes, compacts and is closed and reopened.
//
// C12 says what reads through the staged store return and that Commit WRITES exactly the final staged state; every
// other C12 run keeps its database in a pebble memtable that is never flushed (db.NewInMemoryDB) and reads right
// after the write. What the staged store and pkg/db promise must also hold on the database as it is stored: pebble
// keeps per key a HISTORY of entries which memtable flush / compaction reduce (lean/LiskVerif/Model/KeyHistory.lean),
// and a read after close / reopen sees the files. The model of C12 is a finite map; it ignores storage maintenance -
// which is exactly the claim (Props/C12_Durable.lean: for every history of commit batches of Set / plain Delete and
// every placement of flush / compaction points the visible store is that map).
//
// The runner is the C12 runner (c12.go: same ops, same sorted-map reference, same oracles) over a database opened
// with the settings of the durable checks (harness/c05/maint.go, c13.PebbleOptions: default / 16 KB / 3 KB
// memtables on pebble's strict in-memory file system, "disk": 3 KB memtables in a temporary directory of the real
// file system which is removed at the end of the case). New ops, on both sides (lean/Driver/DiffDBDur.lean):
//
//	dreset <mode> <root> <kvs>   open a fresh database, write the initial content (one DB.Set per key)
//	flush | compact              memtable flush | manual compaction of the whole key range  (model: nothing)
//	reopen <0|1>                 close and reopen (1: after a power loss - everything unsynced is dropped; every
//	                             write of pkg/db is synced); the staged store does not survive its database handle:
//	                             staged writes and snapshots are dropped on both sides
//	commits | reverts            commit and push the (encoded, decoded) diff / pop and revert: a stack of commits
//	dbset <k> <v> | dbdel <k>    DB.Set / DB.Del on a key outside the staged store's prefix
//	rawbatch <items>             one db.Batch filled with s:<k>:<v> / d:<k> items (keys may repeat: the later one
//	                             wins) and written
//
// Oracle `c12-durable-read-differs`, model-free (sorted-map reference of c12.go): after every write to the database
// and before and after every flush / compact / reopen, EVERY read equals the reference of the committed content:
// DB.Get / Exist of every key ever written, DB.IterateRange / Iterate / IterateKey / snapshot reader scans in both
// directions with limits, and get / has / range / iterate (both directions, with limits) of a FRESH staged store
// through every prefix view (a fresh store because the reads of the live one are answered from its overlay once a
// key was read; the live one keeps being checked by the oracles of c12.go against database + staged writes).
// `c12-durable-maintenance-failed`: flush / compact / reopen returned an error.
package c12

import (
	"bytes"
	"fmt"
	"math/rand"
	"os"
	"sort"
	"strings"
	"time"

	"github.com/cockroachdb/pebble/vfs"

	"github.com/LiskHQ/lisk-engine/pkg/db/diffdb"

	"verifharness/c05"
	"verifharness/corr"
)

type durProp struct{}

func init() { corr.Register(durProp{}) }

func (durProp) ID() string                 { return "C12DUR" }
func (durProp) Parallel() int              { return 6 }
func (durProp) CaseTimeout() time.Duration { return 2 * time.Minute }

// ---------------------------------------------------------------------------------------------
// generator

var durGenModes = []string{"default", "small", "tiny", "tiny", "tiny", "small", "default", "disk"}

func durMode(rng *rand.Rand) string {
	m := durGenModes[rng.Intn(len(durGenModes))]
	if m == "disk" && rng.Intn(3) > 0 {
		m = "tiny" // few cases on the real file system (every write is an fsync)
	}
	return m
}

// maintOps returns one storage-maintenance step (one to three ops).
func maintOps(rng *rand.Rand, mayReopen bool) []string {
	switch x := rng.Intn(12); {
	case x < 4:
		return []string{"flush"}
	case x < 6:
		return []string{"flush", "compact"}
	case x < 7:
		return []string{"compact"}
	case x < 9 && mayReopen:
		return []string{"reopen 0"}
	case x < 10 && mayReopen:
		return []string{"reopen 1"}
	case x < 11 && mayReopen:
		return []string{"flush", "compact", "reopen 0"}
	default:
		return []string{"flush"}
	}
}

func (durProp) Generate(rng *rand.Rand, tier string) []corr.Case {
	nHist, nRand := 240, 160
	if tier == "thorough" {
		nHist, nRand = 8000, 4000
	}
	cases := durDirected()
	for i := 0; i < nHist; i++ {
		cases = append(cases, genDurHistory(rng))
	}
	// the C12 families (random, snapshot, commit2) with storage maintenance at arbitrary points
	base := prop{}.Generate(rng, "quick")
	for i := 0; i < nRand; i++ {
		c := base[rng.Intn(len(base))]
		cases = append(cases, durTransform(rng, c))
	}
	return cases
}

// durTransform turns a C12 case into a durable one: `reset` becomes `dreset <mode>`, maintenance ops are inserted at
// arbitrary points (flush / compact anywhere; reopen drops what is staged, so it is rarer and mostly follows a write).
func durTransform(rng *rand.Rand, c corr.Case) corr.Case {
	mode := durMode(rng)
	ops := make([]string, 0, len(c.Ops)*2)
	for i, op := range c.Ops {
		w := strings.Fields(op)
		if i == 0 && w[0] == "reset" {
			ops = append(ops, fmt.Sprintf("dreset %s %s %s", mode, w[1], w[2]))
			if rng.Intn(3) == 0 {
				ops = append(ops, maintOps(rng, true)...)
			}
			continue
		}
		ops = append(ops, op)
		switch w[0] {
		case "commit", "revert":
			// a revert directly after the commit is kept together half of the time
			if w[0] == "commit" && i+1 < len(c.Ops) && c.Ops[i+1] == "revert" && rng.Intn(2) == 0 {
				continue
			}
			if rng.Intn(2) == 0 {
				ops = append(ops, maintOps(rng, true)...)
			}
		default:
			if rng.Intn(6) == 0 {
				ops = append(ops, maintOps(rng, rng.Intn(4) == 0)...)
			}
		}
	}
	ops = append(ops, "flush", "compact", "reopen 0", "iter - - -1 0", "dump")
	return corr.Case{Ops: ops, Tag: "dur-" + c.Tag + "/" + mode}
}

// durDirected: the shapes named by the property clause, in every mode.
func durDirected() []corr.Case {
	shapes := [][]string{
		// created by one commit, updated by a later one, deleted by a third; then storage maintenance
		{"set - 07 a1", "commits", "set - 07 a2", "commits", "del - 07", "commits", "get - 07", "flush", "get - 07", "has - 07", "iter - - -1 0", "compact", "reopen 0", "get - 07", "range - - ffff -1 1", "dump"},
		// a commit that ADDED a key which later commits updated is reverted
		{"set - 07 a1", "commits", "set - 07 a2", "commits", "set - 07 a3", "commits", "reverts", "reverts", "reverts", "flush", "get - 07", "reopen 0", "iter - - -1 1", "dump"},
		// through a prefix view, with a reopen between the writes
		{"set 01 0001 a1", "set 01 0002 b1", "commits", "reopen 0", "set 01 0001 a2", "commits", "flush", "del 01 0001", "commits", "compact", "get 01 0001", "iter 01 - -1 0", "reopen 1", "iter 01 00 2 1", "dump"},
		// delete of a never written key, delete then recreate, delete again
		{"del - 09", "commits", "set - 09 c1", "commits", "del - 09", "commits", "set - 09 c2", "commits", "flush", "get - 09", "del - 09", "commits", "compact", "get - 09", "reopen 0", "has - 09", "dump"},
		// direct writes
		{"dbset ee01 01", "dbset ee01 02", "dbdel ee01", "dbiter ee -1 0", "flush", "dbiter ee -1 0", "dbset ee02 01", "dbdel ee02", "dbdel ee03", "compact", "reopen 0", "dbiter ee -1 1", "dump"},
		// raw batches: a key written by two batches and deleted by a third; a key set twice and deleted inside one batch
		{"rawbatch s:ee01:aa,s:ee02:bb", "rawbatch s:ee01:ab", "rawbatch d:ee01", "flush", "dbiter ee -1 0", "rawbatch s:ee03:01,s:ee03:02,d:ee03,d:ee02,s:ee02:bc", "flush", "compact", "dbiter ee -1 0", "reopen 1", "dump"},
		// the persisted value is updated twice inside one overlay (one Set in the batch), deleted by the next commit
		{"set - 05 01", "set - 05 02", "commits", "set - 05 03", "set - 05 04", "commits", "flush", "del - 05", "commits", "flush", "get - 05", "reverts", "compact", "get - 05", "reverts", "reverts", "reopen 0", "get - 05", "dump"},
	}
	var cases []corr.Case
	for _, mode := range []string{"default", "tiny", "disk"} {
		for _, root := range []string{"00", "aa00"} {
			for _, s := range shapes {
				ops := append([]string{fmt.Sprintf("dreset %s %s %s", mode, root, root+"07=a0,"+root+"0155=99,ee05=01")}, s...)
				cases = append(cases, corr.Case{Ops: ops, Tag: "dur-directed/" + mode})
			}
			if mode == "disk" {
				break
			}
		}
	}
	// the same with an initially empty database (the key is created by the first commit)
	for _, s := range shapes[:4] {
		cases = append(cases, corr.Case{Ops: append([]string{"dreset tiny - -"}, s...), Tag: "dur-directed/tiny"})
	}
	return cases
}

// genDurHistory: a stack of commits over a small pool of keys (created by one commit, updated by later ones,
// deleted, created again), reverts, direct writes and raw batches next to it, maintenance in between.
func genDurHistory(rng *rand.Rand) corr.Case {
	mode := durMode(rng)
	root := [][]byte{{0x00}, {0xaa, 0x00}, {0x00}, {}}[rng.Intn(4)]
	direct := len(root) > 0 // direct keys (prefix ee) must stay outside the staged store
	type pk struct{ p, k []byte }
	var pool []pk
	seen := map[string]bool{}
	for len(pool) < 5 {
		p := viewPrefixes[rng.Intn(len(viewPrefixes))]
		k := genKey(rng, 2)
		f := join(root, p, k)
		if len(f) == 0 || f[0] == 0xee || seen[string(f)] {
			continue
		}
		seen[string(f)] = true
		pool = append(pool, pk{p, k})
	}
	big := mode != "default" && rng.Intn(3) == 0
	val := func() string {
		switch {
		case big && rng.Intn(4) == 0:
			v := make([]byte, 500+rng.Intn(1200)) // a few of these roll a 3 KB / 16 KB memtable
			rng.Read(v)
			return corr.Hex(v)
		case rng.Intn(5) == 0:
			return "-"
		}
		return corr.Hex(genVal(rng))
	}
	var kvs []string
	for _, e := range pool {
		if rng.Intn(3) == 0 {
			kvs = append(kvs, corr.Hex(join(root, e.p, e.k))+"="+val())
		}
	}
	kvStr := "-"
	if len(kvs) > 0 {
		sort.Strings(kvs)
		kvStr = strings.Join(kvs, ",")
	}
	ops := []string{fmt.Sprintf("dreset %s %s %s", mode, corr.Hex(root), kvStr)}
	add := func(o ...string) { ops = append(ops, o...) }
	dkeys := []string{"ee01", "ee02", "ee0100"}
	read := func() {
		e := pool[rng.Intn(len(pool))]
		switch rng.Intn(7) {
		case 0, 1:
			add(fmt.Sprintf("get %s %s", corr.Hex(e.p), corr.Hex(e.k)))
		case 2:
			add(fmt.Sprintf("has %s %s", corr.Hex(e.p), corr.Hex(e.k)))
		case 3:
			add(fmt.Sprintf("iter %s - %d %d", corr.Hex(e.p), genLimit(rng), rng.Intn(2)))
		case 4:
			add(fmt.Sprintf("range %s - ffffff %d %d", corr.Hex(e.p), genLimit(rng), rng.Intn(2)))
		case 5:
			add(fmt.Sprintf("dbiter %s %d %d", corr.Hex(join(root, e.p)), genDBLimit(rng), rng.Intn(2)))
		default:
			add(fmt.Sprintf("dbrange %s %s %d %d", corr.Hex(root), corr.Hex(join(root, []byte{0xff, 0xff, 0xff})), genDBLimit(rng), rng.Intn(2)))
		}
	}
	depth, snaps := 0, 0
	rounds := 3 + rng.Intn(7)
	for r := 0; r < rounds; r++ {
		for j, m := 0, 1+rng.Intn(4); j < m; j++ {
			e := pool[rng.Intn(len(pool))]
			switch x := rng.Intn(20); {
			case x < 10:
				add(fmt.Sprintf("set %s %s %s", corr.Hex(e.p), corr.Hex(e.k), val()))
			case x < 16:
				add(fmt.Sprintf("del %s %s", corr.Hex(e.p), corr.Hex(e.k)))
			case x < 17:
				// a key outside the pool: mostly a delete of a never written key
				add(fmt.Sprintf("del %s %s", corr.Hex(e.p), corr.Hex(append(append([]byte{}, e.k...), 0x33))))
			case x < 18:
				add("snap")
				snaps++
			case x < 19:
				add(fmt.Sprintf("restore %d", rng.Intn(snaps+1)))
			default:
				read()
			}
			if rng.Intn(8) == 0 {
				add(maintOps(rng, false)...) // flush / compaction under a live overlay
			}
		}
		if rng.Intn(10) == 0 {
			add("commitd")
		}
		add("commits")
		depth, snaps = depth+1, 0
		if rng.Intn(2) == 0 {
			add(maintOps(rng, true)...)
		}
		if rng.Intn(3) == 0 {
			read()
		}
		if depth > 0 && rng.Intn(5) == 0 {
			add("reverts")
			depth--
			if rng.Intn(2) == 0 {
				add(maintOps(rng, true)...)
			}
		}
		if direct && rng.Intn(4) == 0 {
			k := dkeys[rng.Intn(len(dkeys))]
			switch rng.Intn(5) {
			case 0, 1:
				add("dbset " + k + " " + val())
			case 2:
				add("dbdel " + k)
			default:
				var items []string
				for q, m := 0, 1+rng.Intn(4); q < m; q++ {
					k := dkeys[rng.Intn(len(dkeys))]
					if rng.Intn(3) == 0 {
						items = append(items, "d:"+k)
					} else {
						items = append(items, "s:"+k+":"+val())
					}
				}
				add("rawbatch " + strings.Join(items, ","))
			}
			if rng.Intn(3) == 0 {
				add(maintOps(rng, true)...)
			}
		}
	}
	read()
	for ; depth > 0; depth-- {
		add("reverts")
		if rng.Intn(3) == 0 {
			add(maintOps(rng, true)...)
		}
	}
	add("flush", "compact", "reopen 0", "iter - - -1 0", "range - - ffffff -1 1", "dump")
	return corr.Case{Ops: ops, Tag: "dur-history/" + mode}
}

// ---------------------------------------------------------------------------------------------
// runner

type durCommit struct {
	diff *diffdb.Diff
	prev map[string][]byte
}

type durRunner struct {
	runner
	mode  string
	mem   *vfs.MemFS // nil: real file system
	dir   string
	stack []durCommit
	ever  map[string]bool // every key ever written or staged in this case
}

func (r *durRunner) fsys() vfs.FS {
	if r.mem != nil {
		return r.mem
	}
	return vfs.Default
}

func (r *durRunner) pebbleMode() string {
	if r.mode == "disk" {
		return "tiny"
	}
	return r.mode
}

func (r *durRunner) closeAll() {
	if r.database != nil {
		c05.CloseQuiet(r.database)
		r.database = nil
	}
	if r.mem == nil && r.dir != "" {
		_ = os.RemoveAll(r.dir)
	}
	r.dir = ""
}

func (r *durRunner) open() error {
	d, err := c05.OpenDurable(r.fsys(), r.dir, r.pebbleMode())
	if err != nil {
		return err
	}
	r.database = d
	r.root = diffdb.New(d, r.rootPfx)
	r.eff = copyMap(r.base)
	r.refSnaps, r.refVSnaps = map[int]map[string][]byte{}, map[string]map[int]map[string][]byte{}
	return nil
}

// setAll applies a direct write to every level of the reference (direct keys are outside the staged store).
func (r *durRunner) setAll(k string, v []byte) {
	ms := []map[string][]byte{r.base, r.eff, r.prevBase}
	for _, c := range r.stack {
		ms = append(ms, c.prev)
	}
	for _, m := range r.refSnaps {
		ms = append(ms, m)
	}
	for _, t := range r.refVSnaps {
		for _, m := range t {
			ms = append(ms, m)
		}
	}
	for _, m := range ms {
		if m == nil {
			continue
		}
		if v == nil {
			delete(m, k)
		} else {
			m[k] = v
		}
	}
	r.ever[k] = true
}

func cut900(s string) string {
	if len(s) > 900 {
		return s[:900] + "..."
	}
	return s
}

func shortVals(s string) string {
	// long values are cut for the report
	parts := strings.Split(s, ",")
	for i, p := range parts {
		if j := strings.IndexByte(p, '='); j >= 0 && len(p)-j > 40 {
			parts[i] = fmt.Sprintf("%s..(%d bytes)", p[:j+17], (len(p)-j-1)/2)
		}
	}
	return cut900(strings.Join(parts, ","))
}

// sweep: every read of the database and of a fresh staged store over it equals the reference of the committed content.
func (r *durRunner) sweep(when string) bool {
	ok := true
	bad := func(format string, a ...interface{}) {
		if ok { // one report per sweep
			r.fail("c12-durable-read-differs", fmt.Sprintf("%s (%s, memtables %s): ", when, map[bool]string{true: "in-memory file system", false: "on disk"}[r.mem != nil], r.pebbleMode())+fmt.Sprintf(format, a...))
		}
		ok = false
	}
	d := r.database
	for k := range r.base {
		r.ever[k] = true
	}
	keys := make([]string, 0, len(r.ever))
	for k := range r.ever {
		keys = append(keys, k)
	}
	sort.Strings(keys)
	// the database itself
	for _, k := range keys {
		want, wantOK := r.base[k]
		got, gotOK := d.Get([]byte(k))
		if gotOK != wantOK || (gotOK && !bytes.Equal(got, want)) {
			bad("DB.Get(%x) = %s,%v, the reference has %s,%v", k, shortVals("="+corr.Hex(got)), gotOK, shortVals("="+corr.Hex(want)), wantOK)
		}
		if d.Exist([]byte(k)) != wantOK {
			bad("DB.Exist(%x) = %v, reference %v", k, !wantOK, wantOK)
		}
	}
	all := func([]byte) bool { return true }
	top := bytes.Repeat([]byte{0xff}, 64)
	for _, rev := range []bool{false, true} {
		for _, limit := range []int{-1, 1, 3} {
			want := refScan(r.base, all, 0, limit, rev)
			if got := showKVs(d.IterateRange([]byte{}, top, limit, rev)); got != want {
				bad("DB.IterateRange(-, ff.., %d, reverse=%v) = %s, reference %s", limit, rev, shortVals(got), shortVals(want))
			}
			if got := showKVs(d.Iterate([]byte{}, limit, rev)); got != want {
				bad("DB.Iterate(-, %d, reverse=%v) = %s, reference %s", limit, rev, shortVals(got), shortVals(want))
			}
			rd := d.NewReader()
			got := showKVs(rd.IterateRange([]byte{}, top, limit, rev))
			rd.Close()
			if got != want {
				bad("Reader.IterateRange(-, ff.., %d, reverse=%v) = %s, reference %s", limit, rev, shortVals(got), shortVals(want))
			}
			wantKeys := []string{}
			for _, item := range strings.Split(want, ",") {
				if want != "-" {
					wantKeys = append(wantKeys, strings.SplitN(item, "=", 2)[0])
				}
			}
			gotKeys := []string{}
			for _, k := range d.IterateKey([]byte{}, limit, rev) {
				gotKeys = append(gotKeys, corr.Hex(k))
			}
			if strings.Join(gotKeys, ",") != strings.Join(wantKeys, ",") {
				bad("DB.IterateKey(-, %d, reverse=%v) = %s, reference %s", limit, rev, cut900(strings.Join(gotKeys, ",")), cut900(strings.Join(wantKeys, ",")))
			}
		}
	}
	// a fresh staged store, through every prefix view: point reads on one store, scans on another (a scan fills
	// the overlay, later point reads of the same store would not reach the database)
	points, scans := &runner{root: diffdb.New(d, r.rootPfx)}, &runner{root: diffdb.New(d, r.rootPfx)}
	for _, p := range viewPrefixes {
		fp := join(r.rootPfx, p)
		for _, k := range keys {
			if !bytes.HasPrefix([]byte(k), fp) {
				continue
			}
			want, wantOK := r.base[k]
			got, gotOK := points.view(p).Get([]byte(k)[len(fp):])
			if gotOK != wantOK || (gotOK && !bytes.Equal(got, want)) {
				bad("get through a fresh staged store (root %s, view %s) of %s = %s,%v, the reference has %s,%v", corr.Hex(r.rootPfx), corr.Hex(p), corr.Hex([]byte(k)[len(fp):]), shortVals("="+corr.Hex(got)), gotOK, shortVals("="+corr.Hex(want)), wantOK)
			}
			if points.view(p).Has([]byte(k)[len(fp):]) != wantOK {
				bad("has through a fresh staged store (root %s, view %s) of %s = %v, reference %v", corr.Hex(r.rootPfx), corr.Hex(p), corr.Hex([]byte(k)[len(fp):]), !wantOK, wantOK)
			}
		}
		in := func(k []byte) bool { return bytes.HasPrefix(k, fp) }
		for _, rev := range []bool{false, true} {
			for _, limit := range []int{-1, 2} {
				want := refScan(r.base, in, len(fp), limit, rev)
				if got := showKVs(scans.view(p).Iterate([]byte{}, limit, rev)); got != want {
					bad("iterate through a fresh staged store (root %s, view %s, limit %d, reverse=%v) = %s, reference %s", corr.Hex(r.rootPfx), corr.Hex(p), limit, rev, shortVals(got), shortVals(want))
				}
				if got := showKVs(scans.view(p).Range([]byte{}, top[:8], limit, rev)); got != want {
					bad("range through a fresh staged store (root %s, view %s, limit %d, reverse=%v) = %s, reference %s", corr.Hex(r.rootPfx), corr.Hex(p), limit, rev, shortVals(got), shortVals(want))
				}
			}
		}
	}
	return ok
}

func (r *durRunner) maintain(what string, f func() error) string {
	before := r.sweep("before " + what)
	if err := f(); err != nil {
		r.fail("c12-durable-maintenance-failed", fmt.Sprintf("%s: %v", what, err))
		return "err"
	}
	if before {
		r.sweep("after " + what + " (every read was right before it, nothing was written in between)")
	} else {
		r.sweep("after " + what)
	}
	return "ok"
}

func (r *durRunner) step(op string) string {
	w := strings.Fields(op)
	if w[0] != "dreset" && r.database == nil {
		return "no-db"
	}
	switch w[0] {
	case "dreset":
		r.closeAll()
		r.mode, r.rootPfx = w[1], corr.UnHex(w[2])
		r.mem, r.dir = vfs.NewStrictMem(), ""
		if r.mode == "disk" {
			dir, err := os.MkdirTemp("", "verif-c12dur-")
			if err != nil {
				return "open-failed"
			}
			r.mem, r.dir = nil, dir
		}
		r.base, r.prevBase, r.stack, r.lastDiff = map[string][]byte{}, nil, nil, nil
		r.ever = map[string]bool{}
		if err := r.open(); err != nil {
			r.fail("c12-durable-maintenance-failed", "open: "+err.Error())
			return "open-failed"
		}
		if w[3] != "-" {
			for _, item := range strings.Split(w[3], ",") {
				kv := strings.Split(item, "=")
				k, v := corr.UnHex(kv[0]), corr.UnHex(kv[1])
				r.database.Set(k, v)
				r.base[string(k)] = v
			}
		}
		r.eff = copyMap(r.base)
		r.sweep("after the initial writes")
		return "ok"
	case "reset":
		return "bad-op" // in-memory runs are C12's
	case "flush":
		return r.maintain("flush", func() error { return c05.Flush(r.database) })
	case "compact":
		return r.maintain("compact", func() error { return c05.CompactAll(r.database) })
	case "reopen":
		crash := w[1] == "1" && r.mem != nil
		what := "close + reopen"
		if crash {
			what = "power loss + reopen"
		}
		return r.maintain(what, func() error {
			if crash {
				c05.PowerLoss(r.mem, r.database)
			} else {
				c05.CloseQuiet(r.database)
			}
			r.database = nil
			return r.open()
		})
	case "commits":
		out := r.runner.step("commit")
		r.stack = append(r.stack, durCommit{r.lastDiff, r.prevBase})
		r.lastDiff, r.prevBase = nil, nil
		r.sweep(fmt.Sprintf("after commit %d", len(r.stack)))
		return out
	case "reverts":
		if len(r.stack) == 0 {
			return "err"
		}
		top := r.stack[len(r.stack)-1]
		r.stack = r.stack[:len(r.stack)-1]
		r.lastDiff, r.prevBase = top.diff, top.prev
		out := r.runner.step("revert")
		r.prevBase = nil
		r.sweep(fmt.Sprintf("after the revert of commit %d", len(r.stack)+1))
		return out
	case "commit":
		out := r.runner.step(op)
		r.stack = nil
		r.sweep("after commit")
		return out
	case "revert":
		out := r.runner.step(op)
		if out != "err" {
			r.sweep("after revert")
		}
		return out
	case "dbset":
		k, v := corr.UnHex(w[1]), corr.UnHex(w[2])
		r.database.Set(k, v)
		r.setAll(string(k), v)
		r.sweep("after DB.Set")
		return "ok"
	case "dbdel":
		k := corr.UnHex(w[1])
		r.database.Del(k)
		r.setAll(string(k), nil)
		r.sweep("after DB.Del")
		return "ok"
	case "rawbatch":
		batch := r.database.NewBatch()
		for _, item := range strings.Split(w[1], ",") {
			p := strings.Split(item, ":")
			k := corr.UnHex(p[1])
			if p[0] == "s" {
				batch.Set(k, corr.UnHex(p[2]))
				r.setAll(string(k), corr.UnHex(p[2]))
			} else {
				batch.Del(k)
				r.setAll(string(k), nil)
			}
		}
		r.database.Write(batch)
		r.sweep("after a raw batch")
		return "ok"
	case "set", "del":
		r.ever[string(join(r.rootPfx, corr.UnHex(w[1]), corr.UnHex(w[2])))] = true
	}
	return r.runner.step(op)
}

func (durProp) RunImpl(c corr.Case) ([]string, []corr.Fail) {
	r := &durRunner{}
	defer r.closeAll()
	out := make([]string, 0, len(c.Ops))
	for i, op := range c.Ops {
		r.opIdx = i
		func() {
			defer func() {
				if e := recover(); e != nil {
					out = append(out, "panic")
					r.fail("panic", fmt.Sprintf("%s: %v", cut900(op), e))
				}
			}()
			r.c2.note(op)
			out = append(out, r.step(op))
		}()
	}
	return out, r.fails
}

// Classify: non-trivial = storage maintenance ran after a written deletion (a commit with deletions, a revert, a
// direct delete, a raw batch with a delete); the class says which maintenance.
func (durProp) Classify(c corr.Case, out []string) string {
	removed, maintained, mid := false, false, false
	kinds := map[string]bool{}
	for i, op := range c.Ops {
		if i >= len(out) {
			break
		}
		w := strings.Fields(op)
		switch w[0] {
		case "commit", "commits", "revert", "reverts", "dbset", "dbdel", "rawbatch":
			mid = mid || maintained // the history of the database goes on after the maintenance
		}
		switch w[0] {
		case "commit", "commits":
			if j := strings.Index(out[i], " D:"); j >= 0 && !strings.HasPrefix(out[i][j:], " D:- ") {
				removed = true
			}
		case "revert", "reverts":
			if out[i] != "err" {
				removed = true
			}
		case "dbdel":
			removed = true
		case "rawbatch":
			if strings.Contains(op, "d:") {
				removed = true
			}
		case "flush", "compact":
			if removed && out[i] == "ok" {
				kinds[w[0]], maintained = true, true
			}
		case "reopen":
			if removed && out[i] == "ok" {
				kinds[map[string]string{"0": "reopen", "1": "powerloss"}[w[1]]], maintained = true, true
			}
		}
	}
	if len(kinds) == 0 {
		return ""
	}
	ks := []string{}
	for k := range kinds {
		ks = append(ks, k)
	}
	sort.Strings(ks)
	if mid {
		return "removal+" + strings.Join(ks, "+") + ",then-more-writes"
	}
	return "removal+" + strings.Join(ks, "+")
}
