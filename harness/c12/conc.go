// conc.go: pseudo-property "C12CONC" (run as part of C12): the concurrency clause of the staged store.
//
// C12 quantifies over "all interleavings of set / del / get / range / iterate / snapshot / restore over
// several prefix views". All views of one staged store share ONE overlay and ONE mutex; every method is
// meant to be one critical section. A method that gives the mutex up in the middle — e.g. a Get that looks
// the key up, reads the underlying database unlocked and re-locks to cache what it read — is free of data
// races and deadlocks and behaves exactly as before in every sequential test, yet a write through any view
// that falls into the gap is overwritten: reads stop being "the database with the staged writes applied".
//
// The Lean side restates the lock obligations for diffdb.Database on the skeletons regenerated from the
// source (Props/C12_Atomic.lean). Here the real code is driven through FORCED interleavings: diffdb.New
// takes the DatabaseReader interface, so the store handed to it is a wrapper whose Get / Iterate /
// IterateRange pause on demand — the reader is then exactly inside its read of the underlying database.
// While it is paused a writer runs through another (or the same) view. On the unchanged code the reader
// holds the shared mutex there and the writer simply waits (a short timeout tells which order happened);
// in EITHER order the store must afterwards be what the SEQUENTIAL specification says:
//
//	window <reader> <rview> <writer> <wview> <pre> <stored> <seed>       (this file)
//	  reader  get | has | range | ranger | range1 | iter | iterr | iter1 — or a PAUSED WRITER wset | wdel: Set / Del
//	          are read-modify-write too (ensureCache reads the database for the initial value of the entry)
//	  views   root | mod | sub | flat     (root; WithPrefix(module); .WithPrefix(store); WithPrefix(module+store))
//	  writer  set | del | setdel | delset | snaprestore | setsnap | commitd | commitdset
//	  pre     none | clean | dirty | tomb | added   (overlay entry of the contended key before the race)
//	lostupd <reader> <writer> <view> <stored> <noise>                    (harness/c20: the C20 obligations,
//	  every reader x writer x view x stored combination, in both tiers)
//	views <workers> <iters> <snapshots> <readonly>                       (harness/c20: free-running stress)
//
// Oracles of `window` (reference: plain maps; the reader's operation never changes the staged state):
//
//	c12-window-reader-result   the reader returned something that is not its result in ANY state the writer
//	                           passed through (before, between two of its steps, after)
//	c12-window-lost-write      after both returned, some view's Get / Has / Iterate / Range differs from the
//	                           database with the pre-staged and the writer's writes applied (paused writer: from
//	                           both serial orders of the two writers)
//	c12-window-commit          Commit: database + batch != that state, or the diff does not reverse it
//	c12-window-hang            reader or writer never returned
package c12

import (
	"bytes"
	"fmt"
	"math/rand"
	"sort"
	"strconv"
	"strings"
	"sync"
	"time"

	"github.com/LiskHQ/lisk-engine/pkg/db"
	"github.com/LiskHQ/lisk-engine/pkg/db/diffdb"

	"verifharness/c20"
	"verifharness/corr"
)

type concProp struct{}

func init() { corr.Register(concProp{}) }

func (concProp) ID() string                 { return "C12CONC" }
func (concProp) NoModel() bool              { return true }
func (concProp) Parallel() int              { return 8 }
func (concProp) CaseTimeout() time.Duration { return 180 * time.Second }

// windowGrace: how long the writer is given while the reader is paused inside the store; windowStall: when
// a goroutine is declared hung.
var (
	windowGrace = 40 * time.Millisecond
	windowStall = 20 * time.Second
)

// gatedStore pauses the next store read of the armed kind.
type gatedStore struct {
	inner   diffdb.DatabaseReader
	mu      sync.Mutex
	armed   bool
	entered chan struct{}
	release chan struct{}
}

func (s *gatedStore) arm() {
	s.mu.Lock()
	s.armed, s.entered, s.release = true, make(chan struct{}), make(chan struct{})
	s.mu.Unlock()
}

func (s *gatedStore) disarm() {
	s.mu.Lock()
	s.armed = false
	s.mu.Unlock()
}

// pause: the value returned by a paused read is the one read BEFORE the pause (a slow disk read).
func (s *gatedStore) pause() {
	s.mu.Lock()
	if !s.armed {
		s.mu.Unlock()
		return
	}
	s.armed = false
	entered, release := s.entered, s.release
	s.mu.Unlock()
	close(entered)
	<-release
}

func (s *gatedStore) Get(key []byte) ([]byte, bool) {
	v, ok := s.inner.Get(key)
	s.pause()
	return v, ok
}

func (s *gatedStore) Iterate(prefix []byte, limit int, reverse bool) []db.KeyValue {
	r := s.inner.Iterate(prefix, limit, reverse)
	s.pause()
	return r
}

func (s *gatedStore) IterateRange(start, end []byte, limit int, reverse bool) []db.KeyValue {
	r := s.inner.IterateRange(start, end, limit, reverse)
	s.pause()
	return r
}

var (
	winReaders = []string{"get", "has", "range", "ranger", "range1", "iter", "iterr", "iter1", "wset", "wdel"}
	winViews   = []string{"root", "mod", "sub", "flat"}
	winWriters = []string{"set", "del", "setdel", "delset", "snaprestore", "setsnap", "commitd", "commitdset"}
	winPres    = []string{"none", "clean", "dirty", "tomb", "added"}
)

type windowSpec struct {
	reader, rview, writer, wview, pre string
	stored                            bool
	seed                              int64
}

func (s windowSpec) String() string {
	st := 0
	if s.stored {
		st = 1
	}
	return fmt.Sprintf("window %s %s %s %s %s %d %d", s.reader, s.rview, s.writer, s.wview, s.pre, st, s.seed)
}

// valid: the pre-state must be reachable (a clean entry or a tombstone needs a persisted key, an added entry
// a key that is not persisted)
func (s windowSpec) valid() bool {
	switch s.pre {
	case "clean", "tomb":
		return s.stored
	case "added":
		return !s.stored
	}
	return true
}

func oneOf(x string, l []string) bool {
	for _, y := range l {
		if x == y {
			return true
		}
	}
	return false
}

func rnd(rng *rand.Rand, n int) []byte {
	b := make([]byte, n)
	for i := range b {
		b[i] = byte(rng.Intn(256))
	}
	return b
}

// scenarioWindow runs one forced interleaving.
func scenarioWindow(spec windowSpec) (fails []corr.Fail) {
	add := func(sig, detail string) {
		if len(fails) < 6 {
			fails = append(fails, corr.Fail{Sig: sig, Detail: spec.String() + ": " + detail, Op: -1})
		}
	}
	if !oneOf(spec.reader, winReaders) || !oneOf(spec.rview, winViews) || !oneOf(spec.writer, winWriters) ||
		!oneOf(spec.wview, winViews) || !oneOf(spec.pre, winPres) || !spec.valid() {
		return []corr.Fail{{Sig: "harness-error", Detail: "bad window spec " + spec.String(), Op: -1}}
	}
	rng := rand.New(rand.NewSource(spec.seed))
	database, err := db.NewInMemoryDB()
	if err != nil {
		return []corr.Fail{{Sig: "harness-error", Detail: err.Error(), Op: -1}}
	}
	defer database.Close()

	module, sub := rnd(rng, 4), rnd(rng, 2)
	full := join(module, sub)
	mk := func(first byte) []byte { k := rnd(rng, 1+rng.Intn(6)); k[0] = first; return k }
	key := mk(0x40 + byte(rng.Intn(64)))
	below, above := mk(0x10), mk(0xd0) // neighbours in the same sub-store
	oldVal, preVal := rnd(rng, 1+rng.Intn(4)), append(rnd(rng, rng.Intn(4)), 0xcc)
	newVal, new2Val := append(rnd(rng, rng.Intn(4)), 0xee), append(rnd(rng, rng.Intn(4)), 0xdd)
	otherSub := join(module, []byte{sub[0] ^ 0xff, sub[1]}) // a neighbouring sub-store of the module

	base := map[string][]byte{}
	if spec.stored {
		base[string(join(full, key))] = oldVal
	}
	base[string(join(full, below))] = []byte{0x01}
	base[string(join(otherSub, key))] = []byte{0x99}
	if rng.Intn(2) == 0 {
		base[string(join(full, above))] = []byte{0x02}
	}
	batch := database.NewBatch()
	for k, v := range base {
		batch.Set([]byte(k), v)
	}
	database.Write(batch)

	store := &gatedStore{inner: database}
	root := diffdb.New(store, []byte{})
	// view of the given kind and the key under which it addresses join(full, k)
	mkView := func(kind string, k []byte) (*diffdb.Database, []byte) {
		switch kind {
		case "root":
			return root, join(full, k)
		case "mod":
			return root.WithPrefix(module), join(sub, k)
		case "flat":
			return root.WithPrefix(full), k
		default:
			return root.WithPrefix(module).WithPrefix(sub), k
		}
	}
	viewPrefix := map[string][]byte{"root": {}, "mod": module, "sub": full, "flat": full}

	// ---- before the race: the overlay entry of the contended key, a staged neighbour ----------------
	eff := copyMap(base)
	fk := string(join(full, key))
	pv, pk := mkView(winViews[rng.Intn(len(winViews))], key)
	switch spec.pre {
	case "clean":
		pv.Get(pk)
	case "dirty", "added":
		pv.Set(pk, preVal)
		eff[fk] = preVal
	case "tomb":
		pv.Del(pk)
		delete(eff, fk)
	}
	if rng.Intn(2) == 0 {
		av, ak := mkView(winViews[rng.Intn(len(winViews))], above)
		if _, ok := eff[string(join(full, above))]; ok && rng.Intn(2) == 0 {
			av.Del(ak)
			delete(eff, string(join(full, above)))
		} else {
			av.Set(ak, []byte{0x03})
			eff[string(join(full, above))] = []byte{0x03}
		}
	}

	// ---- the writer's steps on the reference: states[i] = staged state after i steps -----------------
	with := func(m map[string][]byte, v []byte) map[string][]byte {
		r := copyMap(m)
		if v == nil {
			delete(r, fk)
		} else {
			r[fk] = v
		}
		return r
	}
	// statesFrom(m): the staged states the writer passes through when it starts in m
	statesFrom := func(m map[string][]byte) []map[string][]byte {
		st := []map[string][]byte{m}
		switch spec.writer {
		case "set", "commitdset":
			st = append(st, with(m, newVal))
		case "del":
			st = append(st, with(m, nil))
		case "setdel":
			st = append(st, with(m, newVal), with(m, nil))
		case "delset":
			st = append(st, with(m, nil), with(m, newVal))
		case "snaprestore":
			st = append(st, with(m, newVal), m)
		case "setsnap":
			st = append(st, with(m, newVal), with(m, new2Val), with(m, newVal))
		}
		return st
	}
	// the paused operation itself: a pure read leaves the staged state alone, a paused Set / Del is a second writer
	pausedVal := append(rnd(rng, rng.Intn(4)), 0xaa)
	pausedWrites := spec.reader == "wset" || spec.reader == "wdel"
	applyPaused := func(m map[string][]byte) map[string][]byte {
		switch spec.reader {
		case "wset":
			return with(m, pausedVal)
		case "wdel":
			return with(m, nil)
		}
		return m
	}
	states := statesFrom(eff)
	// the serial orders: paused operation first (the only order on code that holds the mutex), or writer first
	pausedFirst := statesFrom(applyPaused(eff))
	finals := []map[string][]byte{pausedFirst[len(pausedFirst)-1], applyPaused(states[len(states)-1])}
	final := finals[0]

	// ---- the reader ------------------------------------------------------------------------------------
	rv, rk := mkView(spec.rview, key)
	rp := viewPrefix[spec.rview]
	lo, hi := []byte{}, bytes.Repeat([]byte{0xff}, 8)
	if spec.rview == "root" {
		lo, hi = full, join(full, hi)
	} else if spec.rview == "mod" {
		lo, hi = sub, join(sub, hi)
	}
	limit, reverse := -1, strings.HasSuffix(spec.reader, "r")
	if strings.HasSuffix(spec.reader, "1") {
		limit = 1 + rng.Intn(2)
	}
	// what the read returns on a staged state (reference: filter, sort, limit)
	readOn := func(m map[string][]byte) string {
		switch spec.reader {
		case "get":
			if v, ok := m[fk]; ok {
				return "some " + corr.Hex(v)
			}
			return "none"
		case "has":
			_, ok := m[fk]
			return strconv.FormatBool(ok)
		}
		flo, fhi, fpre := join(rp, lo), join(rp, hi), join(rp, lo)
		if strings.HasPrefix(spec.reader, "range") {
			return refScan(m, func(k []byte) bool { return bytes.Compare(k, flo) >= 0 && bytes.Compare(k, fhi) <= 0 }, len(rp), limit, reverse)
		}
		return refScan(m, func(k []byte) bool { return bytes.HasPrefix(k, fpre) }, len(rp), limit, reverse)
	}
	// (WithPrefix takes the shared mutex: the writer's view exists before the reader is paused)
	wv, wk := mkView(spec.wview, key)
	store.arm()
	entered := store.entered
	readDone := make(chan string, 1)
	go func() {
		defer func() {
			if p := recover(); p != nil {
				readDone <- fmt.Sprintf("panic: %v", p)
			}
		}()
		switch {
		case spec.reader == "get":
			if v, ok := rv.Get(rk); ok {
				readDone <- "some " + corr.Hex(v)
			} else {
				readDone <- "none"
			}
		case spec.reader == "has":
			readDone <- strconv.FormatBool(rv.Has(rk))
		case spec.reader == "wset":
			rv.Set(rk, pausedVal)
			readDone <- "ok"
		case spec.reader == "wdel":
			rv.Del(rk)
			readDone <- "ok"
		case strings.HasPrefix(spec.reader, "range"):
			readDone <- showKVs(rv.Range(lo, hi, limit, reverse))
		default:
			readDone <- showKVs(rv.Iterate(lo, limit, reverse))
		}
	}()
	readerResult, readerReturned, inWindow := "", false, false
	select {
	case <-entered:
		inWindow = true
	case readerResult = <-readDone:
		readerReturned = true // the read was answered from the overlay: no window, the writer runs after it
		store.disarm()
	case <-time.After(windowStall):
		add("c12-window-hang", "the reader neither reached the underlying store nor returned")
		return fails
	}

	// ---- the writer ------------------------------------------------------------------------------------
	var raceBatch *recWriter
	var raceDiff *diffdb.Diff
	writeDone := make(chan string, 1)
	go func() {
		defer func() {
			if p := recover(); p != nil {
				writeDone <- fmt.Sprintf("panic: %v", p)
			}
		}()
		msg := ""
		switch spec.writer {
		case "set":
			wv.Set(wk, newVal)
		case "del":
			wv.Del(wk)
		case "setdel":
			wv.Set(wk, newVal)
			wv.Del(wk)
		case "delset":
			wv.Del(wk)
			wv.Set(wk, newVal)
		case "snaprestore":
			id := root.Snapshot()
			wv.Set(wk, newVal)
			if err := root.RestoreSnapshot(id); err != nil {
				msg = "restore: " + err.Error()
			}
		case "setsnap":
			wv.Set(wk, newVal)
			id := root.Snapshot()
			// (a view created before a restore keeps the replaced overlay: write through a fresh one)
			fv, k := mkView(spec.wview, key)
			fv.Set(k, new2Val)
			if err := root.RestoreSnapshot(id); err != nil {
				msg = "restore: " + err.Error()
			}
		case "commitd", "commitdset":
			raceBatch = newRecWriter()
			raceDiff = root.Commit(raceBatch)
			if spec.writer == "commitdset" {
				wv.Set(wk, newVal)
			}
		}
		writeDone <- msg
	}()
	order, writerMsg, writerReturned := "reader-first", "", false
	if inWindow {
		select {
		case writerMsg = <-writeDone:
			writerReturned, order = true, "writer-inside-the-read"
		case <-time.After(windowGrace):
		}
		close(store.release)
	} else {
		order = "no-store-read"
	}
	if !writerReturned {
		select {
		case writerMsg = <-writeDone:
		case <-time.After(windowStall):
			add("c12-window-hang", "the writer never returned ["+order+"]")
			return fails
		}
	}
	if !readerReturned {
		select {
		case readerResult = <-readDone:
		case <-time.After(windowStall):
			add("c12-window-hang", "the reader never returned ["+order+"]")
			return fails
		}
	}
	if writerMsg != "" {
		add("c12-window-writer-error", writerMsg+" ["+order+"]")
	}

	// ---- what the reader saw: its result in one of the states the writer passed through -------------
	okResult, wants := pausedWrites, []string{}
	for _, m := range states {
		w := readOn(m)
		wants = append(wants, w)
		if w == readerResult {
			okResult = true
		}
	}
	if !okResult {
		add("c12-window-reader-result", fmt.Sprintf("[%s] the reader returned %s; in the states the writer passed through it returns %s", order, readerResult, strings.Join(wants, " / ")))
	}

	// ---- the commit that ran inside the window saw the state before the writer's own write ----------
	checkCommit := func(what string, rec *recWriter, diff *diffdb.Diff, want map[string][]byte) map[string][]byte {
		after := rec.apply(base)
		if dumpMap(after) != dumpMap(want) {
			add("c12-window-commit", fmt.Sprintf("[%s] %s: database + batch = %s, the staged state is %s (database %s)", order, what, dumpMap(after), dumpMap(want), dumpMap(base)))
		}
		dec := &diffdb.Diff{}
		if err := dec.Decode(diff.Encode()); err != nil {
			add("c12-window-commit", what+": diff codec: "+err.Error())
			return after
		}
		back := mapWriter{copyMap(after)}
		root.RevertDiff(back, dec)
		if dumpMap(back.m) != dumpMap(base) {
			add("c12-window-commit", fmt.Sprintf("[%s] %s: reverting the diff %s gives %s, the database was %s", order, what, showDiff(dec), dumpMap(back.m), dumpMap(base)))
		}
		return after
	}
	if raceBatch != nil {
		at := eff
		if pausedWrites && dumpMap(raceBatch.apply(base)) == dumpMap(applyPaused(eff)) {
			at = applyPaused(eff) // the paused Set / Del was serialised before the Commit
		}
		checkCommit("Commit during the read", raceBatch, raceDiff, at)
	}
	if pausedWrites {
		// which serial order happened: the one whose final state of the contended key is what the root view reads
		fv, fvk := mkView("root", key)
		got, ok := fv.Get(fvk)
		matched := false
		for _, f := range finals {
			if w, wok := f[fk]; wok == ok && (!ok || bytes.Equal(w, got)) {
				final, matched = f, true
				break
			}
		}
		if !matched {
			add("c12-window-lost-write", fmt.Sprintf("[%s] Get = %x,%v after both writers returned: neither serial order (%s / %s)", order, got, ok, dumpMap(finals[0]), dumpMap(finals[1])))
		}
	}

	// ---- the staged state after both returned, through every kind of (fresh) view -------------------
	known := [][]byte{key, below, above}
	for _, kind := range winViews {
		for _, k := range known {
			v, vk := mkView(kind, k)
			want, wantOK := final[string(join(full, k))]
			got, ok := v.Get(vk)
			if ok != wantOK || (ok && !bytes.Equal(got, want)) {
				add("c12-window-lost-write", fmt.Sprintf("[%s] %s view: Get(%x) = %x,%v; database with the staged writes applied holds %x,%v", order, kind, k, got, ok, want, wantOK))
			}
			if v.Has(vk) != wantOK {
				add("c12-window-lost-write", fmt.Sprintf("[%s] %s view: Has(%x) = %v", order, kind, k, !wantOK))
			}
		}
		v, _ := mkView(kind, nil)
		p := viewPrefix[kind]
		wantAll := refScan(final, func(k []byte) bool { return bytes.HasPrefix(k, p) }, len(p), -1, false)
		if got := showKVs(v.Iterate([]byte{}, -1, false)); got != wantAll {
			add("c12-window-lost-write", fmt.Sprintf("[%s] %s view: Iterate lists %s, expected %s", order, kind, got, wantAll))
		}
		wantRev := refScan(final, func(k []byte) bool { return bytes.HasPrefix(k, p) }, len(p), -1, true)
		if got := showKVs(v.Range([]byte{}, bytes.Repeat([]byte{0xff}, 16), -1, true)); got != wantRev {
			add("c12-window-lost-write", fmt.Sprintf("[%s] %s view: Range lists %s, expected %s", order, kind, got, wantRev))
		}
	}

	// ---- Commit writes exactly that state, the diff reverses it --------------------------------------
	rec := newRecWriter()
	diff := root.Commit(rec)
	after := checkCommit("Commit after the race", rec, diff, final)
	// and a fresh staged store over the written database reads it back
	wb := database.NewBatch()
	for k, v := range rec.set {
		wb.Set([]byte(k), v)
	}
	for k := range rec.del {
		wb.Del([]byte(k))
	}
	database.Write(wb)
	again := diffdb.New(database, []byte{})
	if got := showKVs(again.Iterate([]byte{}, -1, false)); got != dumpMap(after) {
		add("c12-window-commit", fmt.Sprintf("[%s] a fresh staged store over the written database lists %s, expected %s", order, got, dumpMap(after)))
	}
	return fails
}

func runConcOp(rng *rand.Rand, op string) ([]corr.Fail, string) {
	w := strings.Fields(op)
	switch {
	case w[0] == "window" && len(w) == 8:
		seed, _ := strconv.ParseInt(w[7], 10, 64)
		return scenarioWindow(windowSpec{reader: w[1], rview: w[2], writer: w[3], wview: w[4], pre: w[5], stored: w[6] == "1", seed: seed}), ""
	case w[0] == "lostupd" && len(w) == 6:
		return c20.ScenarioLostUpdate(rng, c20.LostUpdateSpec{Reader: w[1], Writer: w[2], View: w[3], Stored: w[4] == "1", Noise: atoi(w[5])}), ""
	case w[0] == "views" && len(w) == 5:
		return c20.ScenarioViews(rng, atoi(w[1]), atoi(w[2]), w[3] == "1", w[4] == "1"), ""
	}
	return nil, "bad-op"
}

func (concProp) RunImpl(c corr.Case) ([]string, []corr.Fail) {
	out := make([]string, len(c.Ops))
	var fails []corr.Fail
	rng := rand.New(rand.NewSource(1))
	for i, op := range c.Ops {
		w := strings.Fields(op)
		if len(w) == 0 {
			out[i] = "bad-op"
			continue
		}
		if w[0] == "reset" {
			seed := int64(1)
			if len(w) > 1 {
				seed, _ = strconv.ParseInt(w[1], 10, 64)
			}
			rng = rand.New(rand.NewSource(seed))
			out[i] = "ok"
			continue
		}
		var fs []corr.Fail
		var e string
		func() {
			defer func() {
				if r := recover(); r != nil {
					fs = append(fs, corr.Fail{Sig: "c12-conc-panic", Detail: fmt.Sprintf("%s: %v", op, r), Op: i})
					e = "panic"
				}
			}()
			fs, e = runConcOp(rng, op)
		}()
		for _, f := range fs {
			f.Op = i
			if !strings.Contains(f.Detail, op) {
				f.Detail = op + ": " + f.Detail
			}
			fails = append(fails, f)
		}
		switch {
		case e != "":
			out[i] = e
		case len(fs) > 0:
			out[i] = "fail " + fs[0].Sig
		default:
			out[i] = "ok"
		}
	}
	return out, fails
}

func (concProp) Classify(c corr.Case, out []string) string {
	if len(c.Ops) < 2 {
		return ""
	}
	w := strings.Fields(c.Ops[1])
	switch w[0] {
	case "window":
		return "window:" + w[1] + "-vs-" + w[3]
	case "lostupd":
		return "lostupd:" + w[1] + "-vs-" + w[2]
	}
	return w[0]
}

// allWindowSpecs: every valid reader x reader view x writer x writer view x pre-state x stored combination.
func allWindowSpecs() []windowSpec {
	var all []windowSpec
	for _, rd := range winReaders {
		for _, rvw := range winViews {
			for _, wr := range winWriters {
				for _, wvw := range winViews {
					for _, pre := range winPres {
						for _, st := range []bool{true, false} {
							s := windowSpec{reader: rd, rview: rvw, writer: wr, wview: wvw, pre: pre, stored: st}
							if !s.valid() {
								continue
							}
							// a Get / Has / Set / Del of a key that has an overlay entry never reaches the store: one view pair is enough
							if (rd == "get" || rd == "has" || rd == "wset" || rd == "wdel") && pre != "none" && (rvw != "sub" || wvw != "flat") {
								continue
							}
							all = append(all, s)
						}
					}
				}
			}
		}
	}
	return all
}

func (concProp) Generate(rng *rand.Rand, tier string) []corr.Case {
	var cases []corr.Case
	add := func(tag string, ops ...string) {
		cases = append(cases, corr.Case{Ops: append([]string{fmt.Sprintf("reset %d", rng.Int63n(1<<40))}, ops...), Tag: tag})
	}
	group := func(tag string, ops []string, per int) {
		for i := 0; i < len(ops); i += per {
			j := i + per
			if j > len(ops) {
				j = len(ops)
			}
			add(tag, ops[i:j]...)
		}
	}
	// (1) the C20 obligations: every reader x writer x view x stored combination of harness/c20
	var lu []string
	for _, s := range c20.AllLostUpdateSpecs(rng) {
		lu = append(lu, s.String())
	}
	group("lost-update", lu, 8)
	// (2) windows: every reader (through the root and through prefix views) against every writer — one random
	// choice of the remaining dimensions per (reader, reader view, writer) in the quick tier, a large sample of
	// the full product in the thorough tier; the motivating combinations are always present
	all := allWindowSpecs()
	var win []string
	directed := []windowSpec{
		{reader: "get", rview: "sub", writer: "set", wview: "flat", pre: "none", stored: true},
		{reader: "get", rview: "root", writer: "del", wview: "sub", pre: "none", stored: true},
		{reader: "has", rview: "mod", writer: "set", wview: "root", pre: "none", stored: true},
		{reader: "iter", rview: "root", writer: "set", wview: "sub", pre: "none", stored: true},
		{reader: "range", rview: "flat", writer: "del", wview: "mod", pre: "clean", stored: true},
		{reader: "iterr", rview: "sub", writer: "commitdset", wview: "root", pre: "dirty", stored: true},
		{reader: "wset", rview: "sub", writer: "del", wview: "flat", pre: "none", stored: true},
		{reader: "wdel", rview: "root", writer: "set", wview: "mod", pre: "none", stored: true},
	}
	for _, s := range directed {
		s.seed = rng.Int63n(1 << 40)
		win = append(win, s.String())
	}
	if tier == "thorough" {
		for i, n := 0, 2400; i < n; i++ {
			s := all[rng.Intn(len(all))]
			s.seed = rng.Int63n(1 << 40)
			win = append(win, s.String())
		}
	} else {
		by := map[string][]windowSpec{}
		var order []string
		for _, s := range all {
			k := s.reader + "/" + s.rview + "/" + s.writer
			if _, ok := by[k]; !ok {
				order = append(order, k)
			}
			by[k] = append(by[k], s)
		}
		sort.Strings(order)
		for _, k := range order {
			s := by[k][rng.Intn(len(by[k]))]
			s.seed = rng.Int63n(1 << 40)
			win = append(win, s.String())
		}
	}
	group("window", win, 8)
	// (3) free-running prefix views with snapshots (the C20 stress scenario)
	n := 2
	if tier == "thorough" {
		n = 8
	}
	for i := 0; i < n; i++ {
		add("views", fmt.Sprintf("views %d %d %d %d", 2+rng.Intn(5), 150+rng.Intn(200), rng.Intn(2), i%2))
	}
	return cases
}
