package c04

// Lookup oracle of C05 (class "every read path agrees with the database after removals").
//
// C05 says that removing the tip restores the node state that existed before the block was applied. The dump
// oracles of engine.go compare the DATABASE rows; what a user of the node sees, however, is what the public
// lookup API of blockchain.DataAccess / blockchain.Chain answers, and that API is served partly from memory
// (the block cache and whatever other in-memory index the code keeps). This oracle asks, after EVERY step of a
// history, every public lookup for every block id, transaction id and height the history has ever shown to the
// node (applied, removed, rejected, never applied) and compares the answers with a reference that is derived
// from the CURRENT chain only:
//
//	current chain   = the height -> block id rows of the database dump (key space 4), which the other oracles
//	                  and the Lean model tie to the history
//	block contents  = the blocks as the history delivered them (the operation lines carry them)
//
// An id / height that is not on the current chain must be answered "not found" by every lookup (a removed
// block, its transactions and its events are gone - also right after the block cache was exhausted and
// refilled, and after a reorganisation to a sibling); one that is on the chain must be answered with exactly
// the block / header / transaction of the chain. Nothing here looks into the block cache: a stale in-memory
// index of any kind shows as `c05-lookup-<API>-stale`.
//
// Signatures: c05-lookup-<API>-stale   the lookup serves something that is not on the current chain
//             c05-lookup-<API>-missing the lookup does not find something that is on the current chain
//             c05-lookup-<API>-wrong   found, but not the object of the current chain / wrong order / wrong error

import (
	"bytes"
	"errors"
	"fmt"
	"sort"

	"github.com/LiskHQ/lisk-engine/pkg/blockchain"
	"github.com/LiskHQ/lisk-engine/pkg/db"

	"verifharness/node"
)

// lookupState is what the oracle remembers about a history.
type lookupState struct {
	blocks  map[string]*blockchain.Block // every block the history has shown to the node, by id
	order   []string                     // ids in order of first appearance
	txs     map[string][]byte            // every transaction of those blocks: id -> encoding
	txOrder []string
	events  map[string][][]byte // block id -> encoded events of its (last) application
	maxH    uint32
	skip    bool // the current step leaves the node in a state the oracle does not judge
	enc     map[string][]byte // block id -> encoded block, "h"+id -> encoded header (of the delivered blocks)
	told    map[string]bool // signatures already reported for this case (a stale index shows again at every later step)
}

func newLookupState() *lookupState {
	return &lookupState{blocks: map[string]*blockchain.Block{}, txs: map[string][]byte{}, events: map[string][][]byte{}, told: map[string]bool{}, enc: map[string][]byte{}}
}

// see registers a block (whatever happens to it afterwards).
func (r *Runner) see(b *blockchain.Block) {
	if r.lk == nil || b == nil || b.Header == nil {
		return
	}
	l := r.lk
	id := string(b.Header.ID)
	if _, ok := l.blocks[id]; !ok {
		l.blocks[id] = b
		l.order = append(l.order, id)
		l.enc[id] = b.Encode()
		l.enc["h"+id] = b.Header.Encode()
	}
	if b.Header.Height > l.maxH {
		l.maxH = b.Header.Height
	}
	for _, tx := range b.Transactions {
		k := string(tx.ID)
		if _, ok := l.txs[k]; !ok {
			l.txs[k] = tx.Encode()
			l.txOrder = append(l.txOrder, k)
		}
	}
}

// noteEvents remembers the application events published with a block.
func (r *Runner) noteEvents(evs []node.Event) {
	if r.lk == nil {
		return
	}
	for _, e := range evs {
		if e.Kind != node.EvNew {
			continue
		}
		enc := make([][]byte, len(e.Events))
		for i, x := range e.Events {
			enc[i] = x.Encode()
		}
		r.lk.events[string(e.BlockID)] = enc
		r.see(e.Block)
	}
}

func notFound(err error) bool { return err != nil && errors.Is(err, db.ErrDataNotFound) }

func (l *lookupState) sameBlock(got, want *blockchain.Block) bool {
	return got != nil && got.Header != nil && bytes.Equal(got.Header.ID, want.Header.ID) && (got == want || bytes.Equal(got.Encode(), l.enc[string(want.Header.ID)]))
}

func (l *lookupState) sameHeader(got, want *blockchain.BlockHeader) bool {
	return got != nil && bytes.Equal(got.ID, want.ID) && (got == want || bytes.Equal(got.Encode(), l.enc["h"+string(want.ID)]))
}

// lookupOracle queries every public lookup. dump is the database dump of this step.
func (r *Runner) lookupOracle(dump []node.KV) {
	l := r.lk
	n := r.n
	if l == nil || l.skip || r.poisoned || r.sharedLost || n == nil || n.Chain == nil || n.Tip() == nil {
		return
	}
	defer func() {
		if x := recover(); x != nil {
			r.fail("c05-lookup-panic", fmt.Sprintf("a lookup of DataAccess / Chain panicked: %v", x))
		}
	}()
	r.Notes["lookup-oracle-steps"]++
	da := n.Chain.DataAccess()
	// ---- reference: the current chain, from the height index of the database
	chain := map[uint32][]byte{}
	onChain := map[string]uint32{}
	rows := map[string][]byte{}
	var heights []uint32
	for _, kv := range dump {
		if len(kv.Key) == 0 {
			continue
		}
		switch kv.Key[0] {
		case 4:
			if len(kv.Key) == 5 {
				h := be32(kv.Key[1:])
				chain[h] = kv.Value
				onChain[string(kv.Value)] = h
				heights = append(heights, h)
			}
		case 7, 9, 27:
			rows[string(kv.Key)] = kv.Value
		}
	}
	if len(heights) == 0 {
		return
	}
	sort.Slice(heights, func(i, j int) bool { return heights[i] < heights[j] })
	low, tip := heights[0], heights[len(heights)-1]
	for i, h := range heights {
		if h != low+uint32(i) {
			return // not a contiguous chain: the structural oracles report it
		}
	}
	txOn := map[string]bool{} // transactions of the blocks of the current chain
	for id := range onChain {
		if b, ok := l.blocks[id]; ok {
			for _, tx := range b.Transactions {
				txOn[string(tx.ID)] = true
			}
		}
	}
	bad := func(api, kind, format string, a ...interface{}) {
		if l.told["c05-lookup-"+api+"-"+kind] {
			return
		}
		l.told["c05-lookup-"+api+"-"+kind] = true
		r.fail("c05-lookup-"+api+"-"+kind, fmt.Sprintf("tip %d (cache %d): ", tip, n.Cfg.MaxBlockCache)+fmt.Sprintf(format, a...))
	}
	where := func(b *blockchain.Block) string {
		return fmt.Sprintf("block %s at height %d (txs=%d), not on the current chain", short(b.Header.ID), b.Header.Height, len(b.Transactions))
	}

	// ---- by block id
	var wantHeaders []*blockchain.BlockHeader
	ids := make([][]byte, 0, len(l.order))
	for _, id := range l.order {
		b := l.blocks[id]
		ids = append(ids, []byte(id))
		_, on := onChain[id]
		if on {
			wantHeaders = append(wantHeaders, b.Header)
		}
		hd, err := da.GetBlockHeader([]byte(id))
		switch {
		case !on && err == nil:
			bad("GetBlockHeader", "stale", "serves %s", where(b))
		case !on && !notFound(err):
			bad("GetBlockHeader", "wrong", "%s: error %v instead of not-found", where(b), err)
		case on && err != nil:
			bad("GetBlockHeader", "missing", "chain block %s at height %d: %v", short(b.Header.ID), b.Header.Height, err)
		case on && !l.sameHeader(hd, b.Header):
			bad("GetBlockHeader", "wrong", "chain block %s at height %d: another header is served", short(b.Header.ID), b.Header.Height)
		}
		blk, err := da.GetBlock([]byte(id))
		switch {
		case !on && err == nil:
			bad("GetBlock", "stale", "serves %s", where(b))
		case !on && !notFound(err):
			bad("GetBlock", "wrong", "%s: error %v instead of not-found", where(b), err)
		case on && err != nil:
			bad("GetBlock", "missing", "chain block %s at height %d: %v", short(b.Header.ID), b.Header.Height, err)
		case on && !l.sameBlock(blk, b):
			bad("GetBlock", "wrong", "chain block %s at height %d: another block is served", short(b.Header.ID), b.Header.Height)
		}
	}
	if hs, err := da.GetBlockHeaders(ids); err != nil {
		bad("GetBlockHeaders", "wrong", "error %v", err)
	} else if len(hs) != len(wantHeaders) {
		kind := "stale"
		if len(hs) < len(wantHeaders) {
			kind = "missing"
		}
		bad("GetBlockHeaders", kind, "%d headers for %d ids ever seen, %d of them are on the current chain", len(hs), len(ids), len(wantHeaders))
	} else {
		for i := range hs {
			if !l.sameHeader(hs[i], wantHeaders[i]) {
				bad("GetBlockHeaders", "wrong", "result %d is not the header of chain block %s", i, short(wantHeaders[i].ID))
				break
			}
		}
	}

	// ---- by height: every height from below the lowest stored block to above anything ever seen
	from := low
	if from > 0 {
		from--
	}
	to := l.maxH
	if tip > to {
		to = tip
	}
	to += 2
	var hq []uint32
	known := func(h uint32) (*blockchain.Block, bool) {
		id, on := chain[h]
		if !on {
			return nil, false
		}
		return l.blocks[string(id)], true // nil block: on the chain but never delivered by the history
	}
	for h := from; h <= to; h++ {
		hq = append(hq, h)
		b, on := known(h)
		hd, err := da.GetBlockHeaderByHeight(h)
		switch {
		case !on && err == nil:
			bad("GetBlockHeaderByHeight", "stale", "height %d is above / outside the current chain but block %s is served", h, short(hd.ID))
		case !on && !notFound(err):
			bad("GetBlockHeaderByHeight", "wrong", "height %d: error %v instead of not-found", h, err)
		case on && err != nil:
			bad("GetBlockHeaderByHeight", "missing", "height %d of the chain: %v", h, err)
		case on && !bytes.Equal(hd.ID, chain[h]):
			bad("GetBlockHeaderByHeight", "stale", "height %d: block %s is served, the chain has %s there", h, short(hd.ID), short(chain[h]))
		case on && b != nil && !l.sameHeader(hd, b.Header):
			bad("GetBlockHeaderByHeight", "wrong", "height %d: header differs from the chain block", h)
		}
		blk, err := da.GetBlockByHeight(h)
		switch {
		case !on && err == nil:
			bad("GetBlockByHeight", "stale", "height %d is above / outside the current chain but block %s is served", h, short(blk.Header.ID))
		case !on && !notFound(err):
			bad("GetBlockByHeight", "wrong", "height %d: error %v instead of not-found", h, err)
		case on && err != nil:
			bad("GetBlockByHeight", "missing", "height %d of the chain: %v", h, err)
		case on && !bytes.Equal(blk.Header.ID, chain[h]):
			bad("GetBlockByHeight", "stale", "height %d: block %s is served, the chain has %s there", h, short(blk.Header.ID), short(chain[h]))
		case on && b != nil && !l.sameBlock(blk, b):
			bad("GetBlockByHeight", "wrong", "height %d: block differs from the chain block (txs served %d, chain %d)", h, len(blk.Transactions), len(b.Transactions))
		}
		// events of the height: stored iff the database has the row; then they are the events of the chain block
		evs, err := da.GetEvents(h)
		_, row := rows[string(key32(9, h))]
		switch {
		case !row && err == nil:
			bad("GetEvents", "stale", "height %d: %d events are served but the database has no event row", h, len(evs))
		case !row && !notFound(err):
			bad("GetEvents", "wrong", "height %d: error %v instead of not-found", h, err)
		case row && err != nil:
			bad("GetEvents", "missing", "height %d: %v", h, err)
		case row && !on:
			bad("GetEvents", "stale", "height %d is not on the current chain but has %d stored events", h, len(evs))
		case row:
			if want, ok := l.events[string(chain[h])]; ok {
				same := len(want) == len(evs)
				for i := 0; same && i < len(evs); i++ {
					same = bytes.Equal(evs[i].Encode(), want[i])
				}
				if !same {
					bad("GetEvents", "stale", "height %d: the %d events served are not the %d events of chain block %s", h, len(evs), len(want), short(chain[h]))
				}
			}
		}
	}
	if hs, err := da.GetBlockHeadersByHeights(hq); err != nil {
		bad("GetBlockHeadersByHeights", "wrong", "error %v", err)
	} else if len(hs) != len(heights) {
		kind := "stale"
		if len(hs) < len(heights) {
			kind = "missing"
		}
		bad("GetBlockHeadersByHeights", kind, "%d headers for the heights %d..%d, the chain has %d of them", len(hs), from, to, len(heights))
	} else {
		for i, hd := range hs {
			if !bytes.Equal(hd.ID, chain[heights[i]]) {
				bad("GetBlockHeadersByHeights", "stale", "result %d is block %s, the chain has %s at height %d", i, short(hd.ID), short(chain[heights[i]]), heights[i])
				break
			}
		}
	}

	// ---- ranges (from <= to only: GetBlocksBetweenHeight sizes its result with to-from+1)
	cache := uint32(n.Cfg.MaxBlockCache)
	type rg struct{ a, b uint32 }
	ranges := []rg{{low, tip}, {tip, tip}, {low, low}}
	if tip > low {
		ranges = append(ranges, rg{tip - 1, tip})
	}
	if cache < tip-low {
		ranges = append(ranges, rg{tip - cache, tip}) // one more than the cache holds
		if cache+1 < tip-low {
			ranges = append(ranges, rg{tip - cache - 1, tip - cache})
		}
	}
	for _, q := range ranges {
		blocks, err := da.GetBlocksBetweenHeight(q.a, q.b)
		if err != nil {
			bad("GetBlocksBetweenHeight", "missing", "range %d..%d of the chain: %v", q.a, q.b, err)
			continue
		}
		if len(blocks) != int(q.b-q.a+1) {
			bad("GetBlocksBetweenHeight", "wrong", "range %d..%d: %d blocks", q.a, q.b, len(blocks))
			continue
		}
		for i, blk := range blocks {
			h := q.a + uint32(i)
			if blk == nil || !bytes.Equal(blk.Header.ID, chain[h]) {
				bad("GetBlocksBetweenHeight", "stale", "range %d..%d: entry %d is not the chain block of height %d", q.a, q.b, i, h)
				break
			}
			if b := l.blocks[string(chain[h])]; b != nil && !l.sameBlock(blk, b) {
				bad("GetBlocksBetweenHeight", "wrong", "range %d..%d: the block of height %d differs from the chain block", q.a, q.b, h)
				break
			}
		}
	}
	for _, q := range []rg{{tip, tip + 1}, {tip + 1, tip + 2}} {
		if blocks, err := da.GetBlocksBetweenHeight(q.a, q.b); err == nil {
			bad("GetBlocksBetweenHeight", "stale", "range %d..%d reaches above the tip %d but %d blocks are served", q.a, q.b, tip, len(blocks))
		}
	}
	for _, k := range []int{1, int(cache) + 1, len(heights) + 3} {
		if k < 1 {
			continue
		}
		blocks, err := n.Chain.GetLastNBlocks(k)
		want := k
		// Chain.GetLastNBlocks clamps to the genesis height
		if g := n.Cfg.GenesisHeight; tip >= g && int(tip-g)+1 < want {
			want = int(tip-g) + 1
		}
		if err != nil {
			bad("GetLastNBlocks", "missing", "n=%d: %v", k, err)
			continue
		}
		if len(blocks) != want {
			bad("GetLastNBlocks", "wrong", "n=%d: %d blocks, expected %d", k, len(blocks), want)
			continue
		}
		for i, blk := range blocks {
			h := tip - uint32(want) + 1 + uint32(i)
			if blk == nil || !bytes.Equal(blk.Header.ID, chain[h]) {
				bad("GetLastNBlocks", "stale", "n=%d: entry %d is not the chain block of height %d", k, i, h)
				break
			}
		}
	}

	// ---- the tip
	tipID := chain[tip]
	if b, err := da.GetLastBlock(); err != nil {
		bad("GetLastBlock", "missing", "%v", err)
	} else if !bytes.Equal(b.Header.ID, tipID) {
		bad("GetLastBlock", "stale", "block %s at %d is served, the chain ends with %s at %d", short(b.Header.ID), b.Header.Height, short(tipID), tip)
	}
	if hd, err := da.GetLastBlockHeader(); err != nil {
		bad("GetLastBlockHeader", "missing", "%v", err)
	} else if !bytes.Equal(hd.ID, tipID) {
		bad("GetLastBlockHeader", "stale", "block %s at %d is served, the chain ends with %s at %d", short(hd.ID), hd.Height, short(tipID), tip)
	}
	if b := da.CachedLastBlock(); b == nil || !bytes.Equal(b.Header.ID, tipID) {
		bad("CachedLastBlock", "stale", "not the block the chain ends with (%s at %d)", short(tipID), tip)
	}
	if b := n.Chain.LastBlock(); b == nil || !bytes.Equal(b.Header.ID, tipID) {
		bad("LastBlock", "stale", "not the block the chain ends with (%s at %d)", short(tipID), tip)
	}
	if ok, err := n.Chain.GenesisBlockExist(n.Genesis); err != nil || !ok {
		bad("GenesisBlockExist", "missing", "the genesis block of the node: exist=%v err=%v", ok, err)
	}

	// ---- transactions
	var txIDs [][]byte
	var wantTxs [][]byte
	for _, k := range l.txOrder {
		txIDs = append(txIDs, []byte(k))
		on := txOn[k]
		if on {
			wantTxs = append(wantTxs, l.txs[k])
		}
		tx, err := da.GetTransaction([]byte(k))
		switch {
		case !on && err == nil:
			bad("GetTransaction", "stale", "transaction %s is served although no block of the current chain contains it", short([]byte(k)))
		case !on && !notFound(err):
			bad("GetTransaction", "wrong", "transaction %s: error %v instead of not-found", short([]byte(k)), err)
		case on && err != nil:
			bad("GetTransaction", "missing", "transaction %s of a chain block: %v", short([]byte(k)), err)
		case on && !bytes.Equal(tx.Encode(), l.txs[k]):
			bad("GetTransaction", "wrong", "transaction %s: another transaction is served", short([]byte(k)))
		}
	}
	if len(txIDs) > 0 {
		if txs, err := da.GetTransactions(txIDs); err != nil {
			bad("GetTransactions", "wrong", "error %v", err)
		} else if len(txs) != len(wantTxs) {
			kind := "stale"
			if len(txs) < len(wantTxs) {
				kind = "missing"
			}
			bad("GetTransactions", kind, "%d transactions for the %d ids ever seen, %d of them are in blocks of the current chain", len(txs), len(txIDs), len(wantTxs))
		} else {
			for i, tx := range txs {
				if !bytes.Equal(tx.Encode(), wantTxs[i]) {
					bad("GetTransactions", "wrong", "result %d is not the expected transaction", i)
					break
				}
			}
		}
	}

	// ---- temporary blocks and the finalized height against their rows
	var tempRows [][]byte
	for k, v := range rows {
		if k[0] == 7 {
			tempRows = append(tempRows, append([]byte(k), v...))
		}
	}
	sort.Slice(tempRows, func(i, j int) bool { return bytes.Compare(tempRows[i][:5], tempRows[j][:5]) > 0 }) // GetTempBlocks: descending
	if temps, err := da.GetTempBlocks(); err != nil {
		bad("GetTempBlocks", "wrong", "error %v", err)
	} else if len(temps) != len(tempRows) {
		bad("GetTempBlocks", "stale", "%d temporary blocks are served, the database has %d rows", len(temps), len(tempRows))
	} else {
		for i, t := range temps {
			if len(tempRows[i]) < 5 || !bytes.Equal(t.Encode(), tempRows[i][5:]) || t.Header.Height != be32(tempRows[i][1:5]) {
				bad("GetTempBlocks", "wrong", "entry %d (height %d) is not the stored temporary block", i, t.Header.Height)
				break
			}
		}
	}
	if f, err := da.GetFinalizedHeight(); err != nil {
		bad("GetFinalizedHeight", "missing", "%v", err)
	} else if row, ok := rows[string([]byte{27})]; !ok || len(row) != 4 || be32(row) != f {
		bad("GetFinalizedHeight", "stale", "%d is served, the stored marker is %x", f, row)
	}
}
