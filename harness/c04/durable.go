package c04

// Durable variant of the node histories (class "durable state after flush / compaction / reopen" of C05).
//
// The node of every other C04 / C05 run lives on db.NewInMemoryDB(): a pebble whose 4 MB memtable is never
// flushed, so everything the histories read comes out of the memtable right after it was written. What C05
// claims, however, is about the PERSISTENT node state: what the database holds after the storage engine
// flushed its memtable, compacted its tables and the node was started again. A write that is only correct
// while it sits in the memtable (a delete that does not erase the history of a key, a range tombstone that
// is too short, a merge operand ...) passes every in-memory check.
//
// A reset line with `dur=<default|small|tiny>` puts the database on pebble's strict in-memory file system with
// the memtable settings of C13 (harness/c13 PebbleOptions: small = 16 KB, tiny = 3 KB memtables - flushes and
// L0 compactions then also happen on their own inside block steps; default = only at `settle`). The operation
//
//	settle flush=<0|1> compact=<0|1> reopen=<0|1|2>
//
// forces DB.Flush, a manual compaction of the whole key range, and a close / reopen of the database (2: after a
// simulated power loss - everything that was not synced is dropped) followed by a restart of the node, and
// compares the complete dump before and after: storage maintenance must be invisible
// (`c05-durable-state-changed-by-flush`). The dump after `settle` is also what the next step's oracles of
// engine.go (delete restores the state before the apply, re-apply equality, twin) compare with.

import (
	"bytes"
	"fmt"
	"strings"
	"time"

	"github.com/cockroachdb/pebble/vfs"

	"github.com/LiskHQ/lisk-engine/pkg/db"

	"verifharness/c13"
	"verifharness/node"
)

type durable struct {
	fs   *vfs.MemFS
	mode string
}

// newNode creates the node of a reset line.
func (r *Runner) newNode(cfg node.Config, a map[string]string) (*node.Node, error) {
	r.dur = nil
	mode, ok := a["dur"]
	if !ok || mode == "" {
		return node.New(cfg)
	}
	d := &durable{fs: vfs.NewStrictMem(), mode: mode}
	cfg.FS = d.fs
	cfg.Dir = ""
	n, err := node.New(cfg)
	if err != nil {
		return nil, err
	}
	// node.New opens the database with default options: replace it by one with the options of the mode
	_ = n.DB.Close()
	dbh, err := db.NewDBWithOptions("", c13.PebbleOptions(d.fs, mode))
	if err != nil {
		return nil, err
	}
	n.DB = dbh
	n.Cfg.FS = nil // twins (node.New(n.Cfg)) get their own in-memory database, not a second pebble on this file system
	if err := n.Restart(); err != nil {
		n.Close()
		return nil, err
	}
	r.dur = d
	return n, nil
}

// quiesce waits until pebble's background flushes / compactions have settled.
func quiesce(d *db.DB) {
	calm := 0
	for i := 0; i < 20000 && calm < 3; i++ {
		m := d.VerifPebble().Metrics()
		if m.MemTable.Count <= 1 && m.Compact.NumInProgress == 0 {
			calm++
		} else {
			calm = 0
		}
		time.Sleep(100 * time.Microsecond)
	}
}

// settle runs the `settle` operation.
func (r *Runner) settle(a map[string]string) string {
	n := r.n
	if r.dur == nil {
		return "unsupported" // the database of this case is the plain in-memory one
	}
	before := n.DumpDB()
	var tipID []byte
	if t := n.Tip(); t != nil {
		tipID = append([]byte{}, t.Header.ID...)
	}
	var steps []string
	fail := func(format string, x ...interface{}) string {
		r.fail("c05-durable-maintenance-failed", fmt.Sprintf("settle (%s): ", strings.Join(steps, "+"))+fmt.Sprintf(format, x...))
		return r.state("err", n.DrainEvents())
	}
	p := n.DB.VerifPebble()
	if a["flush"] == "1" {
		steps = append(steps, "flush")
		if err := p.Flush(); err != nil {
			return fail("Flush: %v", err)
		}
	}
	if a["compact"] == "1" {
		steps = append(steps, "compact")
		quiesce(n.DB)
		if err := p.Compact([]byte{0}, bytes.Repeat([]byte{0xff}, 40), false); err != nil {
			return fail("Compact: %v", err)
		}
	}
	if a["reopen"] == "1" || a["reopen"] == "2" {
		crash := a["reopen"] == "2"
		steps = append(steps, map[bool]string{false: "reopen", true: "powerloss+reopen"}[crash])
		quiesce(n.DB)
		if crash {
			r.dur.fs.SetIgnoreSyncs(true)
		}
		func() {
			defer func() { _ = recover() }()
			_ = n.DB.Close()
		}()
		if crash {
			r.dur.fs.ResetToSyncedState()
			r.dur.fs.SetIgnoreSyncs(false)
		}
		dbh, err := db.NewDBWithOptions("", c13.PebbleOptions(r.dur.fs, r.dur.mode))
		if err != nil {
			return fail("the database does not open again: %v", err)
		}
		n.DB = dbh
		if err := n.Restart(); err != nil {
			after := n.DumpDB()
			r.fail("c05-durable-state-changed-by-flush", fmt.Sprintf("settle (%s): the node does not start again on its database: %v; database changes: %s", strings.Join(steps, "+"), err, Delta(before, after)))
			r.stack = nil
			return r.state("err", n.DrainEvents())
		}
	}
	evs := n.DrainEvents()
	after := n.DumpDB()
	if d := node.DiffDumps(before, after); len(d) != 0 {
		if len(d) > 4 {
			d = append(d[:4], fmt.Sprintf("... %d more", len(d)-4))
		}
		for i := range d {
			if len(d[i]) > 120 {
				d[i] = d[i][:120] + "..."
			}
		}
		r.fail("c05-durable-state-changed-by-flush", fmt.Sprintf("settle (%s, memtables %s): the database read back differs from the database before the storage maintenance (nothing was written in between): %s", strings.Join(steps, "+"), r.dur.mode, strings.Join(d, "; ")))
	}
	if tipID != nil && (n.Tip() == nil || !bytes.Equal(n.Tip().Header.ID, tipID)) {
		r.fail("c05-durable-state-changed-by-flush", fmt.Sprintf("settle (%s): the tip after the reopen differs from the tip before (%x)", strings.Join(steps, "+"), tipID))
	}
	return r.state("ok", evs)
}
