// Package c04 contains the correspondence engine shared by the properties C04 (finalized blocks
// are irreversible, finalized height monotone) and C05 (deleting the tip restores the previous
// state): a recorder that drives a real node (verifharness/node) through a random history and
// writes every step as a self-contained low-level operation line, and a replayer that executes
// such lines on a fresh real node, prints what the Lean model (LiskVerif/Model/Node.lean) must
// predict and checks the two properties model-free after every step.
package c04

import (
	"bytes"
	"context"
	"encoding/binary"
	"encoding/hex"
	"fmt"
	"sort"
	"strconv"
	"strings"
	"time"

	"github.com/LiskHQ/lisk-engine/pkg/blockchain"
	"github.com/LiskHQ/lisk-engine/pkg/consensus/sync"
	"github.com/LiskHQ/lisk-engine/pkg/db/diffdb"

	"verifharness/corr"
	"verifharness/node"
)

// ---------------------------------------------------------------------------------------------
// tokens

func hx(b []byte) string { return corr.Hex(b) }

func be32(b []byte) uint32 { return binary.BigEndian.Uint32(b) }

func key32(prefix byte, h uint32) []byte {
	k := make([]byte, 5)
	k[0] = prefix
	binary.BigEndian.PutUint32(k[1:], h)
	return k
}

// BlockTokens describes a block for the model and carries everything needed to rebuild it.
func BlockTokens(b *blockchain.Block) string {
	h := b.Header
	txs := "-"
	if len(b.Transactions) > 0 {
		parts := make([]string, len(b.Transactions))
		for i, tx := range b.Transactions {
			parts[i] = hx(tx.ID) + ":" + hx(tx.Encode())
		}
		txs = strings.Join(parts, ",")
	}
	as := "-"
	if len(b.Assets) > 0 {
		parts := make([]string, len(b.Assets))
		for i, a := range b.Assets {
			parts[i] = hx(a.Encode())
		}
		as = strings.Join(parts, ",")
	}
	return fmt.Sprintf("id=%s h=%d prev=%s gen=%s mhp=%d mhg=%d ts=%d ver=%d hb=%s txs=%s as=%s",
		hx(h.ID), h.Height, hx(h.PreviousBlockID), hx(h.GeneratorAddress), h.MaxHeightPrevoted, h.MaxHeightGenerated,
		h.Timestamp, h.Version, hx(h.Encode()), txs, as)
}

func args(op string) map[string]string {
	m := map[string]string{}
	for _, w := range strings.Fields(op)[1:] {
		if i := strings.IndexByte(w, '='); i > 0 {
			m[w[:i]] = w[i+1:]
		}
	}
	return m
}

func unhexSafe(s string) ([]byte, error) {
	if s == "-" || s == "" {
		return []byte{}, nil
	}
	return hex.DecodeString(s)
}

// ParseBlock rebuilds the block of an operation line.
func ParseBlock(a map[string]string) (*blockchain.Block, error) {
	hb, err := unhexSafe(a["hb"])
	if err != nil {
		return nil, err
	}
	if a["nc"] == "1" {
		// the peer sends the header NON-canonically encoded (a spare byte after the last field, which the lenient
		// header decoder accepts): the block is the same block - same ID, same stored bytes
		hb = append(append([]byte{}, hb...), 0x00)
	}
	header, err := blockchain.NewBlockHeader(hb)
	if err != nil {
		return nil, err
	}
	b := &blockchain.Block{Header: header, Transactions: []*blockchain.Transaction{}, Assets: blockchain.BlockAssets{}}
	if s := a["txs"]; s != "-" && s != "" {
		for _, item := range strings.Split(s, ",") {
			p := strings.Split(item, ":")
			if len(p) != 2 {
				return nil, fmt.Errorf("bad tx item")
			}
			raw, err := unhexSafe(p[1])
			if err != nil {
				return nil, err
			}
			tx, err := blockchain.NewTransaction(raw)
			if err != nil {
				return nil, err
			}
			b.Transactions = append(b.Transactions, tx)
		}
	}
	if s := a["as"]; s != "-" && s != "" {
		for _, item := range strings.Split(s, ",") {
			raw, err := unhexSafe(item)
			if err != nil {
				return nil, err
			}
			as, err := blockchain.NewBlockAsset(raw)
			if err != nil {
				return nil, err
			}
			b.Assets = append(b.Assets, as)
		}
	}
	return b, nil
}

// ExecTokens describes what executing the block at height h did to the consensus store, read back
// from the database after the block was applied: the stored diff plus the new values.
func ExecTokens(n *node.Node, h uint32, events []*blockchain.Event, prefix string) string {
	_, mhpc, _ := n.BFTHeights()
	evs := "-"
	if len(events) > 0 {
		parts := make([]string, len(events))
		for i, e := range events {
			parts[i] = hx(e.Encode())
		}
		evs = strings.Join(parts, ",")
	}
	ov := "-"
	raw, ok := n.DB.Get(key32(51, h))
	if ok {
		d := &diffdb.Diff{}
		if err := d.Decode(raw); err == nil {
			var parts []string
			for _, k := range d.Added {
				v, _ := n.DB.Get(k)
				parts = append(parts, "a:"+hx(k)+":"+hx(v))
			}
			for _, kv := range d.Updated {
				v, _ := n.DB.Get(kv.Key)
				parts = append(parts, "u:"+hx(kv.Key)+":"+hx(kv.Value)+":"+hx(v))
			}
			for _, kv := range d.Deleted {
				parts = append(parts, "d:"+hx(kv.Key)+":"+hx(kv.Value))
			}
			sort.Slice(parts, func(i, j int) bool { return parts[i][2:] < parts[j][2:] })
			if len(parts) > 0 {
				ov = strings.Join(parts, ",")
			}
		}
	}
	return fmt.Sprintf("%smhpc=%d %sevs=%s %sov=%s", prefix, mhpc, prefix, evs, prefix, ov)
}

// EmptyExec is the execution result of a block that was not applied.
func EmptyExec(prefix string) string {
	return fmt.Sprintf("%smhpc=0 %sevs=- %sov=-", prefix, prefix, prefix)
}

// ---------------------------------------------------------------------------------------------
// canonical database views

func canonVal(k, v []byte) string {
	if len(k) > 0 && k[0] == 51 {
		d := &diffdb.Diff{}
		if err := d.Decode(v); err != nil {
			return "raw." + hx(v)
		}
		added := make([]string, len(d.Added))
		sort.Slice(d.Added, func(i, j int) bool { return bytes.Compare(d.Added[i], d.Added[j]) < 0 })
		for i, a := range d.Added {
			added[i] = hx(a)
		}
		kvs := func(l []*diffdb.KV) string {
			sort.Slice(l, func(i, j int) bool { return bytes.Compare(l[i].Key, l[j].Key) < 0 })
			if len(l) == 0 {
				return "-"
			}
			p := make([]string, len(l))
			for i, kv := range l {
				p[i] = hx(kv.Key) + ":" + hx(kv.Value)
			}
			return strings.Join(p, ";")
		}
		a := "-"
		if len(added) > 0 {
			a = strings.Join(added, ";")
		}
		return "A." + a + "|U." + kvs(d.Updated) + "|D." + kvs(d.Deleted)
	}
	return hx(v)
}

// Delta renders the difference between two dumps (both in key order) canonically.
func Delta(a, b []node.KV) string {
	var out []string
	i, j := 0, 0
	for i < len(a) || j < len(b) {
		switch {
		case j >= len(b) || (i < len(a) && bytes.Compare(a[i].Key, b[j].Key) < 0):
			out = append(out, "-"+hx(a[i].Key))
			i++
		case i >= len(a) || bytes.Compare(a[i].Key, b[j].Key) > 0:
			out = append(out, "+"+hx(b[j].Key)+"="+canonVal(b[j].Key, b[j].Value))
			j++
		default:
			if ca, cb := canonVal(a[i].Key, a[i].Value), canonVal(b[j].Key, b[j].Value); ca != cb {
				out = append(out, "~"+hx(b[j].Key)+"="+cb)
			}
			i++
			j++
		}
	}
	if len(out) == 0 {
		return "-"
	}
	return strings.Join(out, ",")
}

// volatile reports whether a key may differ after delete(apply(B)): the finalized-height marker,
// temporary blocks, state diffs below and events at or below the (current) finalized height.
func volatile(k []byte, fin uint32) bool {
	if len(k) == 0 {
		return false
	}
	switch k[0] {
	case 27, 7:
		return true
	case 51:
		return len(k) >= 5 && be32(k[1:5]) < fin
	case 9:
		return len(k) >= 5 && be32(k[1:5]) <= fin
	}
	return false
}

type kdiff struct {
	key  []byte
	a, b []byte
	inA  bool
	inB  bool
}

func (d kdiff) String() string {
	name := node.PrefixNames[d.key[0]]
	switch {
	case d.inA && !d.inB:
		return fmt.Sprintf("- %s %x", name, d.key)
	case !d.inA && d.inB:
		return fmt.Sprintf("+ %s %x", name, d.key)
	}
	return fmt.Sprintf("~ %s %x", name, d.key)
}

// persistentDiff lists the differences between two dumps outside the volatile keys.
func persistentDiff(a, b []node.KV, fin uint32) []kdiff {
	var out []kdiff
	i, j := 0, 0
	for i < len(a) || j < len(b) {
		switch {
		case j >= len(b) || (i < len(a) && bytes.Compare(a[i].Key, b[j].Key) < 0):
			if !volatile(a[i].Key, fin) {
				out = append(out, kdiff{key: a[i].Key, a: a[i].Value, inA: true})
			}
			i++
		case i >= len(a) || bytes.Compare(a[i].Key, b[j].Key) > 0:
			if !volatile(b[j].Key, fin) {
				out = append(out, kdiff{key: b[j].Key, b: b[j].Value, inB: true})
			}
			j++
		default:
			if !volatile(a[i].Key, fin) && canonVal(a[i].Key, a[i].Value) != canonVal(b[j].Key, b[j].Value) {
				out = append(out, kdiff{key: a[i].Key, a: a[i].Value, b: b[j].Value, inA: true, inB: true})
			}
			i++
			j++
		}
	}
	return out
}

func short(b []byte) string {
	if len(b) > 4 {
		b = b[:4]
	}
	return hx(b)
}

// ---------------------------------------------------------------------------------------------
// replayer

type snap struct {
	dump    []node.KV
	tipID   []byte
	blockID []byte // the block applied on top of this snapshot
}

// Runner replays operation lines on a real node.
type Runner struct {
	n          *node.Node
	prev       []node.KV
	fin        uint32
	finalIDs   map[uint32][]byte
	stack      []snap
	after      map[string][]node.KV // dump right after a block (by id) was applied for the first time
	txOwner    map[string]uint32    // transaction id -> lowest height of a chain block containing it
	fails      []corr.Fail
	sharedLost bool // a deletion removed a transaction an older block also contains
	poisoned   bool // a start with a foreign genesis block rewrote the database: what follows is not judged any more
	op         int
	Notes      map[string]int
	Lookups    bool            // run the lookup oracle of C05 (lookups.go) after every step
	lk         *lookupState    // lookups.go
	dur        *durable        // durable.go: the database lives on a strict in-memory file system with small memtables
	inj        *node.Injection // inject.go: the failure armed for the current step (token inj=)
	injKind    string          // its kind ("" = none)
}

func (r *Runner) fail(sig, detail string) {
	if r.poisoned {
		return
	}
	if len(detail) > 600 {
		detail = detail[:600] + "..."
	}
	r.fails = append(r.fails, corr.Fail{Sig: sig, Detail: detail, Op: r.op})
}

func (r *Runner) close() {
	r.freshEnd() // reorgfresh.go
	if r.n != nil {
		r.n.Close()
		r.n = nil
	}
}

func atoi(s string) int {
	v, _ := strconv.Atoi(s)
	return v
}

func (r *Runner) reset(a map[string]string) string {
	r.close()
	r.prev, r.fin, r.finalIDs, r.stack = nil, 0, map[uint32][]byte{}, nil
	r.after, r.txOwner = map[string][]node.KV{}, map[string]uint32{}
	r.sharedLost = false
	r.poisoned = false
	r.lk = nil
	if r.Lookups {
		r.lk = newLookupState()
	}
	keep := atoi(a["keep"])
	cfg := node.Config{
		NumValidators:        atoi(a["nv"]),
		BatchSize:            atoi(a["bs"]),
		Seed:                 int64(atoi(a["seed"])),
		GenesisTimestamp:     uint32(atoi(a["gts"])),
		BlockTime:            uint32(atoi(a["bt"])),
		MaxBlockCache:        atoi(a["cache"]),
		KeepEventsForHeights: &keep,
		ExtraValidators:      atoi(a["extra"]),
	}
	if g, ok := a["gh"]; ok {
		cfg.GenesisHeight = uint32(atoi(g))
	}
	n, err := r.newNode(cfg, a) // durable.go: node.New(cfg) unless the reset line asks for a flushable database (dur=...)
	if err != nil {
		return "reset-failed " + err.Error()
	}
	r.n = n
	if hx(n.Genesis.Header.ID) != a["id"] {
		return "genesis-mismatch"
	}
	r.see(n.Genesis)
	n.DrainEvents()
	r.fin = n.Finalized()
	r.slotGridOracle() // C07: the executer's slot calculator against the LIP-0014 grid (slotoracle.go)
	return r.state("ok", nil)
}

func evTokens(evs []node.Event) string {
	var out []string
	for _, e := range evs {
		switch e.Kind {
		case node.EvNew:
			out = append(out, fmt.Sprintf("new:%d:%s", e.Height, short(e.BlockID)))
		case node.EvDelete:
			out = append(out, fmt.Sprintf("del:%d:%s", e.Height, short(e.BlockID)))
		case node.EvFinalize:
			out = append(out, fmt.Sprintf("fin:%d:%d", e.Original, e.Next))
		}
	}
	if len(out) == 0 {
		return "-"
	}
	return strings.Join(out, ",")
}

// state prints the observable state after an operation and runs the C04 oracles that apply to
// every step.
func (r *Runner) state(res string, evs []node.Event) string {
	n := r.n
	dump := n.DumpDB()
	fin := "none"
	fz := "none"
	var f uint32
	finOK := false
	func() {
		defer func() { _ = recover() }()
		f = n.Finalized()
		finOK = true
	}()
	if finOK {
		fin = strconv.Itoa(int(f))
		if h, err := n.HeaderAt(f); err == nil {
			fz = short(h.ID)
		}
	}
	tip := "none"
	if t := n.Tip(); t != nil {
		tip = fmt.Sprintf("%s@%d", short(t.Header.ID), t.Header.Height)
	}
	line := fmt.Sprintf("%s fin=%s tip=%s fz=%s ev=%s d=%s", res, fin, tip, fz, evTokens(evs), Delta(r.prev, dump))
	// --- C04 oracles
	prevFin := r.fin
	if finOK {
		if f < r.fin {
			r.fail("c04-fin-decreased", fmt.Sprintf("finalized height %d -> %d", r.fin, f))
		}
		// finalize events must be exactly the chain of raises r.fin -> ... -> f
		cur := r.fin
		for _, e := range evs {
			if e.Kind != node.EvFinalize {
				continue
			}
			if e.Original != cur || e.Next <= e.Original {
				r.fail("c04-finalize-event-mismatch", fmt.Sprintf("event %d->%d while the finalized height was %d", e.Original, e.Next, cur))
			}
			cur = e.Next
		}
		if cur != f {
			r.fail("c04-finalize-event-mismatch", fmt.Sprintf("finalized height %d -> %d but the events end at %d (%s)", r.fin, f, cur, evTokens(evs)))
		}
		for h := n.Cfg.GenesisHeight; h <= f; h++ {
			var id []byte
			hd, err := n.HeaderAt(h)
			if err == nil {
				id = hd.ID
			}
			if old, ok := r.finalIDs[h]; ok {
				if err != nil {
					r.fail("c04-finalized-block-changed", fmt.Sprintf("finalized height %d (finalized %d) is no longer served: %v", h, f, err))
				} else if !bytes.Equal(old, id) {
					r.fail("c04-finalized-block-changed", fmt.Sprintf("height %d (finalized %d): id %x -> %x", h, f, old, id))
				}
			} else if err == nil {
				r.finalIDs[h] = append([]byte{}, id...)
			} else {
				r.fail("c04-finalized-block-changed", fmt.Sprintf("finalized height %d is not served: %v", h, err))
			}
			if err == nil {
				if dbid, ok := n.DB.Get(key32(4, h)); !ok || !bytes.Equal(dbid, id) {
					r.fail("c04-finalized-block-changed", fmt.Sprintf("height %d: served id %x, database index %x", h, id, dbid))
				}
				if blk, err := n.BlockAt(h); err != nil || !bytes.Equal(blk.Header.ID, id) {
					r.fail("c04-finalized-block-changed", fmt.Sprintf("height %d: GetBlockByHeight disagrees with the header served (%v)", h, err))
				}
			}
		}
		r.fin = f
	} else {
		r.fail("c04-fin-decreased", "finalized height is not readable")
	}
	// the cached tip is the block the database index ends with
	if t := n.Tip(); t != nil {
		var top []byte
		for _, kv := range dump {
			if len(kv.Key) == 5 && kv.Key[0] == 4 {
				top = kv.Value
			}
		}
		if !bytes.Equal(top, t.Header.ID) {
			r.fail("c05-cached-tip-wrong", fmt.Sprintf("cached tip %x at %d, database index ends with %x", []byte(t.Header.ID), t.Header.Height, top))
			r.fail("c04-cached-tip-not-database-tip", fmt.Sprintf("cached tip %x at %d, database index ends with %x", []byte(t.Header.ID), t.Header.Height, top))
		}
	}
	r.finAboveTip(finOK, f)              // stale.go
	r.afterStepOracle(finOK, f, prevFin) // inject.go (judged after EVERY step, failed or not)
	r.orderOracle()
	r.noteEvents(evs)
	r.lookupOracle(dump) // C05: every public lookup against the current chain (lookups.go)
	r.prev = dump
	return line
}

// orderOracle (C07, judged by C07NODE): every consensus API that orders a (maxHeightPrevoted, height) pair against
// the node's chain uses the LIP-0014 order. Executer.Synced answers for the chain's CURRENT pair - maxHeightPrevoted
// of the BFT store (the value after the tip was applied, which the tip header does not carry) and the tip height;
// Executer.HeaderHasPriority answers for the pair carried by the header it is given. Evaluated after every step on a
// grid of inputs around both pairs; on a version-0 (genesis) tip the rule is height <= tip and mhp <= tip height.
func (r *Runner) orderOracle() {
	n := r.n
	if r.poisoned || n == nil || n.Exec == nil || n.Tip() == nil {
		return
	}
	defer func() {
		if x := recover(); x != nil {
			r.fail("node-panic", fmt.Sprintf("Synced/HeaderHasPriority: %v", x))
		}
	}()
	tip := n.Tip().Header
	var chainMHP uint32
	ok := false
	func() {
		defer func() { _ = recover() }()
		chainMHP, _, _ = n.BFTHeights()
		ok = true
	}()
	if !ok {
		return
	}
	ref := func(refMHP, refHeight, h, mhp uint32) bool {
		if tip.Version == 0 {
			return h <= refHeight && mhp <= refHeight
		}
		return mhp < refMHP || (mhp == refMHP && h < refHeight)
	}
	around := func(vs ...uint32) []uint32 {
		seen := map[uint32]bool{}
		var out []uint32
		for _, v := range vs {
			for _, d := range []int64{-1, 0, 1} {
				x := int64(v) + d
				if x < 0 || x > 4294967295 || seen[uint32(x)] {
					continue
				}
				seen[uint32(x)] = true
				out = append(out, uint32(x))
			}
		}
		return out
	}
	hs := around(tip.Height, chainMHP, tip.MaxHeightPrevoted, 0, 4294967295)
	ms := around(chainMHP, tip.MaxHeightPrevoted, tip.Height, 0, 4294967295)
	r.Notes["order-oracle-steps"]++
	if chainMHP != tip.MaxHeightPrevoted {
		r.Notes["order-oracle-tip-moved-mhp"]++
	}
	store := n.Store()
	for _, m := range ms {
		for _, h := range hs {
			for _, mg := range []uint32{0, h} {
				got, err := n.Exec.Synced(h, m, mg)
				if want := ref(chainMHP, tip.Height, h, m); err != nil || got != want {
					r.fail("c07-synced-not-lip14-order", fmt.Sprintf("chain at (maxHeightPrevoted=%d from the BFT store, height=%d; tip header version %d carries maxHeightPrevoted=%d): Synced(height=%d, maxHeightPrevoted=%d, maxHeightGenerated=%d) = %v (err=%v), the LIP-0014 order gives %v", chainMHP, tip.Height, tip.Version, tip.MaxHeightPrevoted, h, m, mg, got, err, want))
					return
				}
				got, err = n.Exec.HeaderHasPriority(store, tip.Readonly(), h, m, mg)
				if want := ref(tip.MaxHeightPrevoted, tip.Height, h, m); err != nil || got != want {
					r.fail("c07-header-priority-not-lip14-order", fmt.Sprintf("header (maxHeightPrevoted=%d, height=%d, version %d): HeaderHasPriority(height=%d, maxHeightPrevoted=%d, maxHeightGenerated=%d) = %v (err=%v), the LIP-0014 order gives %v", tip.MaxHeightPrevoted, tip.Height, tip.Version, h, m, mg, got, err, want))
					return
				}
			}
		}
	}
}

func (r *Runner) rememberTxs(b *blockchain.Block) {
	for _, tx := range b.Transactions {
		k := string(tx.ID)
		if h, ok := r.txOwner[k]; !ok || b.Header.Height < h {
			r.txOwner[k] = b.Header.Height
		}
	}
}

// pushApplied records the snapshot taken before a block was applied and checks re-application.
func (r *Runner) pushApplied(before snap, b *blockchain.Block) {
	before.blockID = append([]byte{}, b.Header.ID...)
	r.stack = append(r.stack, before)
	now := r.n.DumpDB()
	id := string(b.Header.ID)
	if old, ok := r.after[id]; ok {
		if d := persistentDiff(old, now, r.n.Finalized()); len(d) != 0 && !r.sharedLost {
			r.fail("c05-reapply-differs", fmt.Sprintf("block %d applied again: %d differences to the first application, first: %s", b.Header.Height, len(d), d[0]))
		}
	} else {
		r.after[id] = now
	}
	// finality is raised to the precommitted height in the step that applies the block
	_, mhpc, _ := r.n.BFTHeights()
	want := r.fin
	if mhpc > want {
		want = mhpc
	}
	if got := r.n.Finalized(); got != want {
		r.fail("c04-fin-not-max-mhpc", fmt.Sprintf("after block %d: finalized %d, previous %d, maxHeightPrecommitted %d", b.Header.Height, got, r.fin, mhpc))
	}
}

// popDeleted checks that the database is what it was before the deleted block was applied.
func (r *Runner) popDeleted(deleted *blockchain.Block, what string, check bool) {
	if len(r.stack) == 0 {
		return
	}
	top := r.stack[len(r.stack)-1]
	r.stack = r.stack[:len(r.stack)-1]
	if !bytes.Equal(top.blockID, deleted.Header.ID) {
		r.stack = nil // the history was shrunk: no reference state
		return
	}
	if !check {
		return
	}
	n := r.n
	now := n.DumpDB()
	diffs := persistentDiff(top.dump, now, n.Finalized())
	if len(diffs) != 0 {
		shared := true
		for _, d := range diffs {
			if !(d.key[0] == 6 && d.inA && !d.inB) {
				shared = false
				break
			}
			h, ok := r.txOwner[string(d.key[1:])]
			if !ok || h >= deleted.Header.Height {
				shared = false
				break
			}
		}
		if shared {
			r.sharedLost = true
			r.fail("c05-shared-txid-lost", fmt.Sprintf("%s of block %d removed %d transaction(s) that an older block of the chain also contains, first: %s", what, deleted.Header.Height, len(diffs), diffs[0]))
		} else {
			r.fail("c05-delete-not-inverse", fmt.Sprintf("%s of block %d (txs=%d assets=%d): %d differences to the state before it was applied, first: %s", what, deleted.Header.Height, len(deleted.Transactions), len(deleted.Assets), len(diffs), diffs[0]))
		}
	}
	if t := n.Tip(); t == nil {
		r.fail("c05-cache-exhausted", fmt.Sprintf("after %s of block %d the block cache is empty: Chain.LastBlock() is nil", what, deleted.Header.Height))
	} else if !bytes.Equal(t.Header.ID, top.tipID) {
		r.fail("c05-cached-tip-wrong", fmt.Sprintf("after %s of block %d the cached tip is %x, before the block was applied it was %x", what, deleted.Header.Height, []byte(t.Header.ID), top.tipID))
	}
}

func (r *Runner) snapNow() snap {
	s := snap{dump: r.n.DumpDB()}
	if t := r.n.Tip(); t != nil {
		s.tipID = append([]byte{}, t.Header.ID...)
	}
	return s
}

// DeleteBlock runs Executer.deleteBlock under recover. (node.DeleteTip / node.DeleteBlock read the
// tip after the call and cannot be used when a deletion empties the block cache.)
func DeleteBlock(n *node.Node, b *blockchain.Block, saveTemp bool) (err error) {
	defer func() {
		if x := recover(); x != nil {
			err = &node.PanicError{Value: x}
		}
	}()
	return n.Exec.VerifDeleteBlock(context.Background(), b, saveTemp)
}

func isPanic(err error) bool {
	_, ok := err.(*node.PanicError)
	return ok
}

// deleteOp runs one deleteBlock call (on the tip or on a stored block) with the oracles.
func (r *Runner) deleteOp(target *blockchain.Block, saveTemp bool, what string) string {
	n := r.n
	finBefore := n.Finalized()
	before := n.DumpDB()
	tempsBefore, _ := n.TempBlocks()
	isTip := bytes.Equal(target.Header.ID, n.Tip().Header.ID)
	err := DeleteBlock(n, target, saveTemp)
	r.disarm()
	evs := n.DrainEvents()
	res := "ok"
	switch {
	case err != nil && isPanic(err):
		res = "panic"
		r.fail("node-panic", what+": "+err.Error())
	case err != nil:
		res = "err"
		if d := Delta(before, n.DumpDB()); d != "-" {
			res = "errWritten"
			sig := "c05-failed-delete-wrote"
			if r.sharedLost {
				sig = "c05-shared-txid-lost-delete-fails"
			}
			r.fail(sig, fmt.Sprintf("%s of block %d failed (%v) but changed the database: %s", what, target.Header.Height, err, d))
			r.stack = nil
		}
	default:
		if target.Header.Height <= finBefore {
			r.fail("c04-finalized-delete-accepted", fmt.Sprintf("%s removed block %d although the finalized height is %d", what, target.Header.Height, finBefore))
		}
		if isTip {
			r.popDeleted(target, what, true)
		}
		// temporary copy
		tempsAfter, terr := n.TempBlocks()
		if terr != nil {
			r.fail("c05-temp-block-mismatch", "GetTempBlocks: "+terr.Error())
		}
		found := false
		for _, t := range tempsAfter {
			if t.Header.Height == target.Header.Height {
				found = true
				if saveTemp && !bytes.Equal(t.Encode(), target.Encode()) {
					r.fail("c05-temp-block-mismatch", fmt.Sprintf("temporary block at height %d differs from the removed block", target.Header.Height))
				}
			}
		}
		hadBefore := false
		for _, t := range tempsBefore {
			if t.Header.Height == target.Header.Height {
				hadBefore = true
			}
		}
		if saveTemp && !found {
			r.fail("c05-temp-block-mismatch", fmt.Sprintf("block %d removed with saveTemp but no temporary block is stored", target.Header.Height))
		}
		if !saveTemp && found && !hadBefore {
			r.fail("c05-temp-block-mismatch", fmt.Sprintf("block %d removed without saveTemp but a temporary block appeared", target.Header.Height))
		}
	}
	return r.state(res, evs)
}

// Run executes all operations of a case.
func (r *Runner) Run(ops []string) (out []string, fails []corr.Fail) {
	defer r.close()
	for i, op := range ops {
		r.op = i
		line := r.safeStep(op)
		r.freshStep(op) // reorgfresh.go: after a removal, a fresh node given only the surviving chain must agree
		out = append(out, line)
	}
	return out, r.fails
}

func (r *Runner) safeStep(op string) (line string) {
	defer func() {
		if x := recover(); x != nil {
			line = "panic"
			r.fail("node-panic", fmt.Sprintf("%s: %v", strings.Fields(op)[0], x))
		}
	}()
	return r.step(op)
}

func (r *Runner) step(op string) string {
	w := strings.Fields(op)
	if len(w) == 0 {
		return "bad-op"
	}
	a := args(op)
	r.injKind = a["inj"]
	if w[0] == "reset" {
		return r.reset(a)
	}
	if r.lk != nil {
		r.lk.skip = false
	}
	// arithmetic of the synchronisers: no node needed
	switch w[0] {
	case "gap":
		if len(w) != 5 {
			return "bad-op"
		}
		return nats(sync.VerifC04HeightWithGap(uint32(atou(w[1])), uint32(atou(w[2])), atoi(w[3]), atoi(w[4])))
	case "lasth":
		if len(w) != 3 {
			return "bad-op"
		}
		return nats(sync.VerifC04LastHeights(uint32(atou(w[1])), atoi(w[2])))
	}
	n := r.n
	if n == nil {
		return "no-node"
	}
	if k := a["inj"]; k != "" {
		// failure injection (inject.go): armed for this step only
		switch w[0] {
		case "pv", "proc", "del", "delat", "till", "delarg":
			if n.Exec == nil {
				return "no-node"
			}
			inj, err := n.Arm(k)
			if err != nil {
				return "bad-op"
			}
			r.inj = inj
			defer r.disarm()
		}
	}
	switch w[0] {
	case "pv", "proc":
		b, err := ParseBlock(a)
		if err != nil {
			return "bad-block"
		}
		r.see(b)
		if a["nc"] == "1" {
			if hb, err := unhexSafe(a["hb"]); err == nil {
				n.NextWireHeader = append(append([]byte{}, hb...), 0x00)
			}
		}
		if n.Tip() == nil {
			// Executer.process / processValidated dereference Chain.LastBlock()
			return r.state(map[string]string{"pv": "panic", "proc": "panic fc=none"}[w[0]], nil)
		}
		before := r.snapNow()
		tipBefore := n.Tip()
		if w[0] == "pv" {
			// sy=1: the block is applied the way the synchronisers apply it - processValidated is their
			// processor and Executer.process holds the syncying flag while syncer.Sync runs
			if a["sy"] == "1" {
				n.Exec.VerifC04SetSyncing(true)
			}
			err := n.ProcessValidatedPublish(b, a["rt"] == "1", r.inj.Publish())
			r.disarm()
			if a["sy"] == "1" && n.Exec != nil {
				n.Exec.VerifC04SetSyncing(false)
			}
			evs := n.DrainEvents()
			applied := n.Tip() != nil && bytes.Equal(n.Tip().Header.ID, b.Header.ID) && !bytes.Equal(tipBefore.Header.ID, b.Header.ID)
			r.errorAfterWrite("processValidated", b, err, before.dump) // inject.go
			res := "ok"
			switch {
			case err != nil && isPanic(err):
				res = "panic"
				r.fail("node-panic", "processValidated: "+err.Error())
			case err != nil:
				res = "err"
				if d := Delta(before.dump, n.DumpDB()); d != "-" {
					r.fail("c05-failed-apply-wrote", fmt.Sprintf("processValidated of block %d failed (%v) but changed the database: %s", b.Header.Height, err, d))
				}
			case applied:
				r.pushApplied(before, b)
				r.rememberTxs(b)
			}
			return r.state(res, evs)
		}
		lr0 := n.Exec.VerifLastBlockReceived()
		now0 := time.Now()
		res := n.ProcessResult(b)
		r.disarm()
		r.errorAfterWrite("process", b, res.Err, before.dump)                               // inject.go
		r.tieBreakOracle(tipBefore.Header, b.Header, lr0, now0, time.Now(), res.ForkChoice) // C07 (slotoracle.go)
		evs := n.DrainEvents()
		out := ""
		// LIP-0014: the receive time used by the tie-break rule is that of the current tip; a block that is dropped,
		// handed to the synchroniser or rejected (the tip stays what it was) must not touch it
		if n.Tip() != nil && bytes.Equal(n.Tip().Header.ID, tipBefore.Header.ID) {
			if lr1 := n.Exec.VerifLastBlockReceived(); lr1 != lr0 && (lr0 == nil || lr1 == nil || !lr1.Equal(*lr0)) {
				r.fail("c07-receive-time-changed-by-unapplied-block", fmt.Sprintf("block %d classified %s (err=%v) left the tip unchanged but changed its recorded receive time (%v -> %v)", b.Header.Height, res.ForkChoice, res.Err, lr0, lr1))
			}
		}
		switch res.ForkChoice {
		case "identical", "doubleForging", "discard":
			out = res.ForkChoice
		case "differentChain":
			out = "wouldSync"
		case "valid":
			switch {
			case res.Err != nil && isPanic(res.Err):
				out = "panic"
				r.fail("node-panic", "process: "+res.Err.Error())
			case res.Err != nil:
				out = "err"
			case res.Applied:
				out = "applied"
				r.pushApplied(before, b)
				r.rememberTxs(b)
			default:
				out = "err"
			}
		case "tieBreak":
			switch {
			case res.Err != nil && isPanic(res.Err):
				out = "panic"
				r.fail("node-panic", "process: "+res.Err.Error())
			case res.Err != nil:
				out = "err"
			case res.Applied:
				out = "tieBreakApplied"
				// the replaced tip is gone: its reference state is the reference state of the new tip
				if len(r.stack) > 0 && bytes.Equal(r.stack[len(r.stack)-1].blockID, tipBefore.Header.ID) {
					ref := r.stack[len(r.stack)-1]
					r.stack = r.stack[:len(r.stack)-1]
					r.pushApplied(snap{dump: ref.dump, tipID: ref.tipID}, b)
				} else {
					r.stack = nil
				}
				r.rememberTxs(b)
			case !res.TipChanged:
				out = "tieBreakReverted"
				if d := persistentDiff(before.dump, n.DumpDB(), n.Finalized()); len(d) != 0 {
					r.fail("c05-delete-not-inverse", fmt.Sprintf("failed tie-break at height %d: %d differences after the previous tip was applied again, first: %s", b.Header.Height, len(d), d[0]))
				}
			default:
				out = "tieBreakLost"
				r.fail("c05-tiebreak-lost-tip", fmt.Sprintf("failed tie-break at height %d: the previous tip could not be applied again, tip is now %d", b.Header.Height, res.HeightAfter))
				if len(r.stack) > 0 {
					r.stack = r.stack[:len(r.stack)-1]
				}
			}
		default:
			out = "err"
		}
		if res.Err != nil && out == "err" {
			if d := Delta(before.dump, n.DumpDB()); d != "-" {
				r.fail("c05-failed-apply-wrote", fmt.Sprintf("process of block %d failed (%v) but changed the database: %s", b.Header.Height, res.Err, d))
			}
		}
		return r.state(out+" fc="+res.ForkChoice, evs)
	case "del":
		if n.Tip() == nil {
			return r.state("panic", nil)
		}
		return r.deleteOp(n.Tip(), a["st"] == "1", "deleteBlock(tip)")
	case "delat":
		if n.Tip() == nil {
			return "unsupported"
		}
		h := uint32(atoi(a["h"]))
		if h > n.Finalized() && h != n.Height() {
			return "unsupported"
		}
		b, err := n.BlockAt(h)
		if err != nil {
			return "unsupported"
		}
		return r.deleteOp(b, a["st"] == "1", fmt.Sprintf("deleteBlock(block at %d)", h))
	case "delarg":
		return r.staleDelete(a) // stale.go: Executer.deleteBlock with an explicit (stale / foreign) argument
	case "till":
		// deleteTillCommonBlock of the fast synchroniser with the block at height h as common block
		if n.Tip() == nil {
			return r.state("panic", nil)
		}
		h := uint32(atoi(a["h"]))
		common := &blockchain.BlockHeader{Height: h}
		if hd, err := n.HeaderAt(h); err == nil {
			common = hd
		}
		finBefore := n.Finalized()
		var deleted []*blockchain.Block
		for x := n.Height(); x > h && x > 0; x-- {
			if b, err := n.BlockAt(x); err == nil {
				deleted = append(deleted, b)
			}
		}
		var err error
		func() {
			defer func() {
				if x := recover(); x != nil {
					err = &node.PanicError{Value: x}
				}
			}()
			sy := n.Exec.VerifSyncer()
			if a["kind"] == "block" {
				err = sy.VerifC04BlockDeleteTillCommonBlock(&sync.SyncContext{Ctx: context.Background()}, common)
			} else {
				err = sy.VerifC04FastDeleteTillCommonBlock(&sync.SyncContext{Ctx: context.Background()}, common)
			}
		}()
		r.disarm()
		evs := n.DrainEvents()
		res := "ok"
		if err != nil {
			res = "err"
			if isPanic(err) {
				res = "panic"
				r.fail("node-panic", "deleteTillCommonBlock: "+err.Error())
			}
		}
		if n.Tip() != nil {
			for _, b := range deleted {
				if b.Header.Height > n.Height() {
					if b.Header.Height <= finBefore {
						r.fail("c04-finalized-delete-accepted", fmt.Sprintf("deleteTillCommonBlock(%d) removed block %d although the finalized height is %d", h, b.Header.Height, finBefore))
					}
					// only the state below the lowest removed block can be compared with the database now
					r.popDeleted(b, "deleteTillCommonBlock", b.Header.Height == n.Height()+1)
				}
			}
		} else {
			r.fail("c05-cache-exhausted", fmt.Sprintf("deleteTillCommonBlock(%d): the block cache is empty: Chain.LastBlock() is nil", h))
			r.stack = nil
		}
		return r.state(res, evs)
	case "restart":
		before := n.DumpDB()
		var tipID []byte
		if t := n.Tip(); t != nil {
			tipID = append([]byte{}, t.Header.ID...)
		}
		err := n.Restart()
		evs := n.DrainEvents()
		res := "ok"
		if err != nil {
			res = "err"
			sig := "c04-restart-failed"
			if r.sharedLost {
				// the transaction of an older block was removed together with a newer block (known
				// finding c05-shared-txid-lost): PrepareCache cannot load the older block any more
				sig = "c05-shared-txid-lost-restart-fails"
			}
			r.fail(sig, err.Error())
			return r.state(res, evs)
		}
		if d := Delta(before, n.DumpDB()); d != "-" {
			r.fail("c04-restart-changed-state", "database after restart: "+d)
		}
		if tipID != nil && !bytes.Equal(n.Tip().Header.ID, tipID) {
			r.fail("c04-restart-changed-state", fmt.Sprintf("tip after restart %x, before %x", []byte(n.Tip().Header.ID), tipID))
		}
		if !r.poisoned {
			r.slotGridOracle()
		}
		return r.state(res, evs)
	case "restartg":
		return r.startInputs(a)
	case "sctx":
		return r.syncContext()
	case "cleartemp":
		n.Chain.DataAccess().ClearTempBlocks()
		return r.state("ok", n.DrainEvents())
	case "temps":
		l, err := n.TempBlocks()
		if err != nil {
			return "err"
		}
		parts := make([]string, len(l))
		for i, b := range l {
			parts[i] = fmt.Sprintf("%d:%s", b.Header.Height, short(b.Header.ID))
		}
		if len(parts) == 0 {
			return "temps=-"
		}
		return "temps=" + strings.Join(parts, ",")
	case "twin":
		return r.twin()
	case "settle":
		return r.settle(a) // durable.go
	case "forge":
		return r.forgeOp(a) // reorgfresh.go
	}
	return "bad-op"
}

// startInputs runs `restartg`: the node is started again on its database (new Chain / Executer / Connection,
// Executer.Init) with WRONG or CHANGED start-up inputs.
//
//	v=genesis kind=<id|inside|tip|above|below> abi=<keep|fresh> gh=<height> gts=<timestamp> gid=<id>
//	    another genesis block than the one the database was built from (same validators; other timestamp, and
//	    for the kinds other than `id` another height: inside the stored chain, at its tip, above it, below the
//	    stored genesis block). abi=fresh: the application starts from an empty state (it accepts the foreign
//	    genesis block), abi=keep: the application keeps the state of the stored chain. The start must be
//	    REFUSED and must not write: a byte-exact dump of the database before == after
//	    (c04-foreign-genesis-accepted / c04-foreign-genesis-wrote, suffix :stored-height when the database
//	    holds a block at the height of the foreign genesis block, :unstored-height otherwise). The inputs of
//	    the node are restored afterwards; the recorder follows with a plain `restart`.
//	v=cfg cache=<n> keep=<k>
//	    MaxBlockCache / KeepEventsForHeights changed from now on: the start must succeed, write nothing, load
//	    the same tip; every finalized height stays served (the per-step oracles of state()).
//	v=chainid cid=<hex>
//	    another chain id (not stored in the database): as v=cfg; the chain id is restored afterwards.
func (r *Runner) startInputs(a map[string]string) string {
	n := r.n
	before := n.DumpDB()
	var tipID []byte
	if t := n.Tip(); t != nil {
		tipID = append([]byte{}, t.Header.ID...)
	}
	switch a["v"] {
	case "genesis":
		gh, gts := uint32(atou(a["gh"])), uint32(atou(a["gts"]))
		g, err := n.ForeignGenesis(gh, gts)
		if err != nil || hx(g.Header.ID) != a["gid"] {
			return "genesis-mismatch"
		}
		if bytes.Equal(g.Header.ID, n.Genesis.Header.ID) {
			return "bad-op"
		}
		class := "unstored-height"
		if _, ok := n.DB.Get(key32(4, gh)); ok {
			class = "stored-height"
		}
		finBefore := n.Finalized()
		if r.lk != nil {
			r.lk.skip = true // a refused start leaves Chain / cache half-initialised; the recorder restarts next
		}
		gen, cfg, abi := n.Genesis, n.Cfg, n.ABI
		err = n.RestartWith(node.StartInputs{Genesis: g, FreshABI: a["abi"] == "fresh"})
		evs := n.DrainEvents()
		n.Genesis, n.Cfg, n.ABI = gen, cfg, abi
		what := fmt.Sprintf("start with a foreign genesis block (kind=%s height=%d id=%s, genesis of the stored chain: height %d; application state: %s) on a database with tip height %d and finalized height %d",
			a["kind"], gh, short(g.Header.ID), cfg.GenesisHeight, a["abi"], heightOfTip(before), finBefore)
		res := "err"
		var sig, detail string
		if err == nil {
			res = "ok"
			sig, detail = "c04-foreign-genesis-accepted:"+class, what+": Init succeeded"
		}
		if d := node.DiffDumps(before, n.DumpDB()); len(d) != 0 {
			finAfter := "unreadable"
			func() {
				defer func() { _ = recover() }()
				finAfter = strconv.Itoa(int(n.Finalized()))
			}()
			if len(d) > 6 {
				d = append(d[:6], fmt.Sprintf("... %d more", len(d)-6))
			}
			for i := range d {
				if len(d[i]) > 90 {
					d[i] = d[i][:90] + "..."
				}
			}
			sig = "c04-foreign-genesis-wrote:" + class
			detail = fmt.Sprintf("%s: Init returned %v and changed the database: stored finalized height %d -> %s; %s", what, err, finBefore, finAfter, strings.Join(d, "; "))
		}
		if sig != "" {
			r.fail(sig, detail)
			// the database is no longer the one the history built: nothing after this is judged
			r.poisoned = true
			r.stack = nil
		}
		return r.state(res, evs)
	case "cfg", "chainid":
		in := node.StartInputs{}
		cfg := n.Cfg
		if a["v"] == "cfg" {
			keep := atoi(a["keep"])
			in.MaxBlockCache, in.KeepEventsForHeights = atoi(a["cache"]), &keep
			if in.MaxBlockCache < 1 {
				return "bad-op"
			}
		} else {
			cid, err := unhexSafe(a["cid"])
			if err != nil || len(cid) == 0 {
				return "bad-op"
			}
			in.ChainID = cid
		}
		err := n.RestartWith(in)
		evs := n.DrainEvents()
		if a["v"] == "chainid" {
			n.Cfg.ChainID = cfg.ChainID
		}
		if err != nil {
			r.fail("c04-restart-failed", fmt.Sprintf("restart with changed inputs (%s cache=%s keep=%s): %v", a["v"], a["cache"], a["keep"], err))
			return r.state("err", evs)
		}
		if d := Delta(before, n.DumpDB()); d != "-" {
			r.fail("c04-restart-changed-state", fmt.Sprintf("database after a restart with changed inputs (%s cache=%s keep=%s): %s", a["v"], a["cache"], a["keep"], d))
		}
		if tipID != nil && (n.Tip() == nil || !bytes.Equal(n.Tip().Header.ID, tipID)) {
			r.fail("c04-restart-changed-state", fmt.Sprintf("tip after a restart with changed inputs (%s cache=%s keep=%s) differs from the tip before (%x)", a["v"], a["cache"], a["keep"], tipID))
		}
		return r.state("ok", evs)
	}
	return "bad-op"
}

// heightOfTip: the largest height of the height->id index of a dump.
func heightOfTip(dump []node.KV) uint32 {
	var h uint32
	for _, kv := range dump {
		if len(kv.Key) == 5 && kv.Key[0] == 4 {
			h = be32(kv.Key[1:])
		}
	}
	return h
}

// syncContext runs Executer.createSyncContext (what Executer.process hands to the synchronisers when a
// block of a different chain arrives) and checks the finalized block header it carries: the fast
// synchroniser refuses common blocks below it, the block synchroniser never asks for heights below it.
// It must be the block stored at the STORED finalized height - also right after a restart, when nothing
// has been applied yet by this Executer object.
func (r *Runner) syncContext() string {
	n := r.n
	if n.Tip() == nil {
		return "unsupported" // createSyncContext dereferences Chain.LastBlock()
	}
	var sc *sync.SyncContext
	var err error
	func() {
		defer func() {
			if x := recover(); x != nil {
				err = &node.PanicError{Value: x}
			}
		}()
		sc, err = n.Exec.VerifC04CreateSyncContext(context.Background(), n.Tip(), n.PeerID)
	}()
	if err != nil {
		if isPanic(err) {
			r.fail("node-panic", "createSyncContext: "+err.Error())
			return "panic"
		}
		r.fail("c04-sync-context-finalized-wrong", "createSyncContext failed: "+err.Error())
		return "err"
	}
	fh := sc.FinalizedBlockHeader
	if fh == nil {
		r.fail("c04-sync-context-finalized-wrong", "createSyncContext returned no finalized block header")
		return "err"
	}
	stored := n.Finalized()
	dbid, _ := n.DB.Get(key32(4, stored))
	if fh.Height != stored || !bytes.Equal(fh.ID, dbid) {
		r.fail("c04-sync-context-finalized-wrong", fmt.Sprintf("sync context carries block %x at height %d as finalized block; the stored finalized height is %d (block %x)", []byte(fh.ID), fh.Height, stored, dbid))
	} else if old, ok := r.finalIDs[stored]; ok && !bytes.Equal(old, fh.ID) {
		r.fail("c04-sync-context-finalized-wrong", fmt.Sprintf("sync context carries block %x at the finalized height %d; the block finalized there was %x", []byte(fh.ID), stored, old))
	}
	if stored < r.fin {
		r.fail("c04-fin-decreased", fmt.Sprintf("finalized height %d -> %d", r.fin, stored))
	}
	return fmt.Sprintf("ok sfin=%d sfz=%s", fh.Height, short(fh.ID))
}

// twin replays the current chain on a second node with the same keys and genesis block and
// compares the databases: a node that went through deletions / re-applications / restarts must be
// in the state of a node that only ever applied the final chain (apart from the volatile keys).
func (r *Runner) twin() string {
	n := r.n
	if n.Tip() == nil {
		return "ok"
	}
	cfg := n.Cfg
	t, err := node.New(cfg)
	if err != nil {
		return "twin-failed"
	}
	defer t.Close()
	for h := cfg.GenesisHeight + 1; h <= n.Height(); h++ {
		b, err := n.BlockAt(h)
		if err != nil {
			r.fail("c05-reorg-not-confluent", fmt.Sprintf("chain block %d is not retrievable: %v", h, err))
			return "ok"
		}
		if res := t.ProcessResult(b); res.Err != nil || !res.Applied {
			r.fail("c05-reorg-not-confluent", fmt.Sprintf("a fresh node rejects chain block %d: applied=%v err=%v", h, res.Applied, res.Err))
			return "ok"
		}
	}
	fin := n.Finalized()
	if tf := t.Finalized(); tf > fin {
		r.fail("c05-reorg-not-confluent", fmt.Sprintf("finalized height %d is below the one of a node that applied only the final chain (%d)", fin, tf))
		fin = tf
	}
	if d := persistentDiff(t.DumpDB(), n.DumpDB(), fin); len(d) != 0 {
		sig := "c05-reorg-not-confluent"
		shared := true
		for _, x := range d {
			if !(x.key[0] == 6 && x.inA && !x.inB) {
				shared = false
			}
		}
		if shared {
			sig = "c05-shared-txid-lost"
		}
		r.fail(sig, fmt.Sprintf("%d differences to a node that applied only the final chain (height %d), first: %s", len(d), n.Height(), d[0]))
	}
	return "ok"
}

func atou(s string) uint64 {
	v, _ := strconv.ParseUint(s, 10, 64)
	return v
}

func nats(l []uint32) string {
	if len(l) == 0 {
		return "-"
	}
	p := make([]string, len(l))
	for i, v := range l {
		p[i] = strconv.FormatUint(uint64(v), 10)
	}
	return strings.Join(p, ",")
}

// Replay is RunImpl for both properties.
func Replay(c corr.Case) ([]string, []corr.Fail) {
	r := &Runner{Notes: map[string]int{}}
	return r.Run(c.Ops)
}

// ReplayLookups is Replay with the lookup oracle of C05 (lookups.go) after every step.
func ReplayLookups(c corr.Case) ([]string, []corr.Fail) {
	r := &Runner{Notes: map[string]int{}, Lookups: true}
	return r.Run(c.Ops)
}
