package c04

// Stale and foreign ARGUMENTS for the operations that remove or replace blocks (C04: a block at or below the
// finalized height is never removed or replaced).
//
// Executer.deleteBlock(ctx, deletingBlock, saveTemp) is written for ONE kind of argument - the block just read with
// chain.LastBlock() - and every in-tree caller passes exactly that (tie-break of Executer.process,
// deleteTillCommonBlock of both synchronisers; tools/delarggen regenerates the call sites). The function itself
// cannot know: its finalized guard tests the argument's height, previous header / state diff / revert request are
// derived from the argument's height, and Chain.RemoveBlock removes whatever the tip is. A change that makes the
// guard test one block while the action works on another (guard on the argument, action on the tip: seeded change
// C04-16) is invisible as long as argument == tip. This family calls the entry points with arguments that are
// stale relative to the current chain:
//
//	delarg st=<0|1> ab=<0|1> len=<0|1> kind=<label> <block tokens of the argument>
//
// runs Executer.deleteBlock on the given block - a copy of the tip, a block removed earlier (duplicate delivery of a
// delete request: the block at tip+1 right after a roll-back, also when the tip IS the finalized block), a removed
// block of another branch at the same / a lower / a higher height, a block of the chain below the tip, the
// finalized block itself, a block below it, a fabricated block on or above the tip. len=1: the application reverts
// its newest block whatever the request names (node.MockABI.SetLenientRevert; the default mock refuses a revert
// request that does not name its tip, which hides what the ENGINE does with the argument). ab=0 (recorded): the
// application refused. Lean: Model/NodeStale.lean `deleteBlockArg` (both sides print result, finalized height, tip,
// events and the full database delta).
//
// Composite scenarios built from delarg / pv / till lines: the tie-break sequence of Executer.process with a
// remembered last block that went stale (deleteBlock(old,false); processValidated(new); on failure
// processValidated(old)), deleteTillCommonBlock with a common block ABOVE the tip or at the height of a block of
// another branch (existing op `till`: it rolls back to the finalized block and fails).
//
// Model-free oracles after every delarg (besides those of Runner.state: finalized ids unchanged and served, stored
// finalized height never decreased, cached tip = database tip, stored finalized height <= tip height):
//
//	c04-stale-delete-removed-finalized   the call removed a block at or below the finalized height (the block
//	                                     removed is the tip BEFORE the call, whatever the argument was)
//	c04-finalized-delete-accepted        the call succeeded for an argument at or below the finalized height
//	c04-fin-above-tip                    stored finalized height above the tip height
//
// What C04 does not claim is not judged: when the unchanged code executes a request for a block that is not the tip
// (lenient application, finalized < argument height < tip height) the wrong state diff is reverted; the history
// ends there (tag stale-executed-not-tip, an observation), the application / BFT consistency oracles are skipped
// for that last step.

import (
	"bytes"
	"fmt"
	"strings"
	"sync"

	"github.com/LiskHQ/lisk-engine/pkg/blockchain"

	"verifharness/node"
)

// StaleSweep is the value of Profile.Sweep that selects the stale-argument history (Profile.Steps = number of
// scenarios).
const StaleSweep = "stale"

// staleState is the recorder's memory of the stale family.
type staleState struct {
	removed []*blockchain.Block // every block removed from the chain so far (all branches), oldest first
	dirty   bool                // a request for a block that is not the tip was executed at another height: the history ends
}

// the state lives beside the Recorder (no field of it): entries are dropped when the script ends
var staleStates sync.Map // *Recorder -> *staleState

func (r *Recorder) st() *staleState {
	if v, ok := staleStates.Load(r); ok {
		return v.(*staleState)
	}
	v, _ := staleStates.LoadOrStore(r, &staleState{})
	return v.(*staleState)
}

// StaleProfiles: the histories of the stale-argument family (appended to the C04 profiles).
func StaleProfiles(tier string) []Profile {
	k := 5
	if tier == "thorough" {
		k = 60
	}
	var ps []Profile
	for i := 0; i < k; i++ {
		p := Profile{Sweep: StaleSweep, Steps: 3 + i%3}
		switch i % 5 {
		case 1:
			p.SmallCache = true
		case 3:
			p.TxHeavy = true
		case 4:
			p.TinyCache = true // removals take the refill path of Chain.RemoveBlock
		}
		ps = append(ps, p)
	}
	return ps
}

// staleTags: the tags of the family that go into the case tag (Record).
func (r *Recorder) staleTags() []string {
	var tags []string
	for _, t := range []string{"stale", "stale-at-finalized-tip", "stale-sibling", "stale-tiebreak", "stale-till-above-tip", "stale-till-other-branch", "stale-executed", "stale-executed-not-tip"} {
		if r.Tags[t] > 0 {
			tags = append(tags, t)
		}
	}
	return tags
}

func (r *Recorder) noteRemoved(b *blockchain.Block) {
	r.st().removed = append(r.st().removed, b)
	r.saved[b.Header.Height] = b
}

// appRefused: since the call log had `from` entries, did the application answer InitStateMachine / Revert with an error?
func appRefused(n *node.Node, from int, err error) bool {
	if err == nil {
		return false
	}
	calls := n.ABI.Calls
	if from > len(calls) {
		from = len(calls)
	}
	for _, c := range calls[from:] {
		if (c.Hook == node.HookInitStateMachine || c.Hook == node.HookRevert) && c.Err != "" {
			return true
		}
	}
	return false
}

// StaleDelete runs Executer.deleteBlock on arg and writes the `delarg` line. It reports whether the tip was removed.
func (r *Recorder) StaleDelete(arg *blockchain.Block, kind string, lenient bool) bool {
	n := r.N
	if n == nil || n.Tip() == nil || arg == nil || r.st().dirty {
		return false
	}
	st := r.Rng.Intn(2) == 0
	tipBefore := n.Tip()
	from := len(n.ABI.Calls)
	n.ABI.SetLenientRevert(lenient)
	err := DeleteBlock(n, arg, st)
	n.ABI.SetLenientRevert(false)
	n.DrainEvents()
	ab := !appRefused(n, from, err)
	r.Ops = append(r.Ops, fmt.Sprintf("delarg st=%s ab=%s len=%s kind=%s %s", b2s(st), b2s(ab), b2s(lenient), kind, BlockTokens(arg)))
	r.tag("stale:" + kind)
	removed := n.Tip() == nil || !bytes.Equal(n.Tip().Header.ID, tipBefore.Header.ID)
	if removed {
		r.noteRemoved(tipBefore)
		r.fixMHG()
		if !bytes.Equal(arg.Header.ID, tipBefore.Header.ID) {
			r.tag("stale-executed")
			if arg.Header.Height != tipBefore.Header.Height {
				r.tag("stale-executed-not-tip")
				r.st().dirty = true
			}
		}
	} else if err == nil {
		r.tag("stale-ok-nothing-removed")
	}
	return removed
}

// rollback removes blocks (keeping temporary copies) until the tip is at height h, written as one `till` line or as
// `del` lines; returns the removed blocks, highest first.
func (r *Recorder) rollback(h uint32) []*blockchain.Block {
	n := r.N
	var removed []*blockchain.Block
	viaTill := r.Rng.Intn(2) == 0
	for n.Tip() != nil && n.Height() > h {
		tip := n.Tip()
		err := DeleteBlock(n, tip, true)
		n.DrainEvents()
		if !viaTill {
			r.Ops = append(r.Ops, "del st=1")
		}
		if err != nil {
			break
		}
		removed = append(removed, tip)
		r.noteRemoved(tip)
	}
	if viaTill {
		kind := "fast"
		if r.Rng.Intn(2) == 0 {
			kind = "block"
		}
		r.Ops = append(r.Ops, fmt.Sprintf("till h=%d kind=%s", h, kind))
	}
	r.fixMHG()
	return removed
}

// restore applies removed blocks again, lowest first (what restoreBlocks does with the temporary copies), or builds
// other blocks; the temporary copies are cleared in the second case.
func (r *Recorder) restore(removed []*blockchain.Block) {
	n := r.N
	if n.Tip() == nil || r.st().dirty {
		return
	}
	if len(removed) > 0 && r.Rng.Intn(3) != 0 {
		for i := len(removed) - 1; i >= 0; i-- {
			if n.Tip() == nil || removed[i].Header.Height != n.Height()+1 {
				continue
			}
			if !r.PV(removed[i], true) {
				break
			}
		}
		return
	}
	r.Extend(len(removed) + r.Rng.Intn(2))
	if n.Tip() != nil {
		n.Chain.DataAccess().ClearTempBlocks()
		r.Ops = append(r.Ops, "cleartemp")
	}
}

// fabricate builds a block on the current tip that is never applied; up > 0 raises its height.
func (r *Recorder) fabricate(up uint32) *blockchain.Block {
	n := r.N
	if n.Tip() == nil || r.slotsLeft() < 2 {
		return nil
	}
	o := r.randOpts()
	if up > 0 {
		o.Mutate = func(b *blockchain.Block) { b.Header.Height += up }
	}
	b, err := n.BuildBlock(o)
	if err != nil {
		return nil
	}
	return b
}

type staleArg struct {
	b    *blockchain.Block
	kind string
}

// staleArgs lists arguments that are not the tip, classified against the current chain.
func (r *Recorder) staleArgs() []staleArg {
	n := r.N
	var out []staleArg
	if n.Tip() == nil {
		return out
	}
	fin, tip := n.Finalized(), n.Height()
	onChain := func(b *blockchain.Block) bool {
		hd, err := n.HeaderAt(b.Header.Height)
		return err == nil && bytes.Equal(hd.ID, b.Header.ID)
	}
	seen := map[string]bool{}
	for i := len(r.st().removed) - 1; i >= 0 && len(out) < 24; i-- {
		b := r.st().removed[i]
		if seen[string(b.Header.ID)] || onChain(b) {
			continue
		}
		seen[string(b.Header.ID)] = true
		h := b.Header.Height
		switch {
		case h <= fin:
			out = append(out, staleArg{b, "removed-at-or-below-fin"})
		case h < tip:
			out = append(out, staleArg{b, "removed-lower"})
		case h == tip:
			out = append(out, staleArg{b, "removed-same-height"})
		case h == tip+1:
			out = append(out, staleArg{b, "removed-next"})
		default:
			out = append(out, staleArg{b, "removed-higher"})
		}
	}
	if b, err := n.BlockAt(fin); err == nil && fin != tip {
		out = append(out, staleArg{b, "finalized"})
	}
	if fin > n.Cfg.GenesisHeight {
		if b, err := n.BlockAt(n.Cfg.GenesisHeight + uint32(r.Rng.Intn(int(fin-n.Cfg.GenesisHeight)))); err == nil {
			out = append(out, staleArg{b, "below-fin"})
		}
	}
	if tip > fin+1 {
		if b, err := n.BlockAt(fin + 1 + uint32(r.Rng.Intn(int(tip-fin-1)))); err == nil {
			out = append(out, staleArg{b, "chain-below-tip"})
		}
	}
	if b := r.fabricate(0); b != nil {
		out = append(out, staleArg{b, "fabricated-next"})
	}
	if b := r.fabricate(1 + uint32(r.Rng.Intn(4))); b != nil {
		out = append(out, staleArg{b, "fabricated-above"})
	}
	return out
}

// staleBurst issues k stale requests chosen from the current candidates. Kinds that the unchanged code executes
// with a lenient application at another height than the tip's end the history and are therefore requested from a
// strict application here (lenientOK = false) unless the caller allows it.
func (r *Recorder) staleBurst(k int, lenientOK bool) {
	for i := 0; i < k && !r.st().dirty && r.N.Tip() != nil; i++ {
		args := r.staleArgs()
		if len(args) == 0 {
			return
		}
		a := args[r.Rng.Intn(len(args))]
		lenient := r.Rng.Intn(2) == 0
		if !lenientOK && (a.kind == "chain-below-tip" || a.kind == "removed-lower") {
			lenient = false
		}
		r.StaleDelete(a.b, a.kind, lenient)
	}
}

// scenarioRollbackDuplicate: all non-final blocks are rolled back (a synchronisation whose common block is the
// finalized block), then the delete request for the lowest removed block - no longer on the chain, height
// finalized+1 - arrives again; also the other removed blocks, a fabricated block, the finalized block.
func (r *Recorder) scenarioRollbackDuplicate() {
	n := r.N
	fin := n.Finalized()
	if n.Height() > fin {
		// the guard, probed with arguments it must refuse while the TIP is not finalized (a guard that tests the tip
		// instead of the argument lets them pass): the finalized block, a block below it - to an application that
		// would revert whatever it is asked
		if b, err := n.BlockAt(fin); err == nil {
			r.StaleDelete(b, "finalized", true)
		}
		if fin > n.Cfg.GenesisHeight && !r.st().dirty {
			if b, err := n.BlockAt(n.Cfg.GenesisHeight + uint32(r.Rng.Intn(int(fin-n.Cfg.GenesisHeight)))); err == nil {
				r.StaleDelete(b, "below-fin", true)
			}
		}
		if r.st().dirty || n.Tip() == nil {
			return
		}
	}
	removed := r.rollback(fin)
	if n.Tip() == nil {
		return
	}
	r.tag("stale-rollback-duplicate")
	if n.Height() == n.Finalized() {
		r.tag("stale-at-finalized-tip")
	}
	if k := len(removed); k > 0 {
		r.StaleDelete(removed[k-1], "removed-next", r.Rng.Intn(2) == 0) // the block at finalized+1
		if r.Rng.Intn(2) == 0 {
			r.StaleDelete(removed[k-1], "removed-next", r.Rng.Intn(2) == 0) // and once more
		}
		if k > 1 && r.Rng.Intn(2) == 0 {
			r.StaleDelete(removed[r.Rng.Intn(k-1)], "removed-higher", r.Rng.Intn(2) == 0)
		}
	} else if b := r.saved[n.Height()+1]; b != nil {
		r.StaleDelete(b, "removed-next", r.Rng.Intn(2) == 0)
	}
	r.staleBurst(1+r.Rng.Intn(3), false)
	if r.Rng.Intn(4) == 0 && !r.st().dirty {
		r.Restart()
		if n.Tip() != nil && len(removed) > 0 {
			r.StaleDelete(removed[len(removed)-1], "removed-next", r.Rng.Intn(2) == 0)
		}
	}
	r.restore(removed)
}

// scenarioPartial: some of the non-final blocks are removed, then stale requests of every kind.
func (r *Recorder) scenarioPartial() {
	n := r.N
	dist := int(n.Height()) - int(n.Finalized())
	var removed []*blockchain.Block
	if dist >= 2 {
		removed = r.rollback(n.Height() - uint32(1+r.Rng.Intn(dist-1)))
	}
	if n.Tip() == nil {
		return
	}
	r.tag("stale-partial")
	r.staleBurst(2+r.Rng.Intn(3), false)
	r.restore(removed)
}

// scenarioSibling: two blocks on the same parent; the first is applied and removed again, the second applied: the
// first is now a block of another branch at the height of the tip.
func (r *Recorder) scenarioSibling() {
	n := r.N
	if n.Tip() == nil || r.slotsLeft() < 3 {
		return
	}
	t, err := n.BuildBlock(r.randOpts())
	if err != nil {
		return
	}
	o := r.randOpts()
	o.Txs = append(o.Txs, r.newTx(node.TxOK, node.TxOK))
	if r.Rng.Intn(2) == 0 {
		o.SlotsAhead = 2
	}
	u, err := n.BuildBlock(o)
	if err != nil {
		return
	}
	if r.Proc(t) != "applied" {
		return
	}
	if len(r.rollback(t.Header.Height-1)) != 1 || n.Tip() == nil {
		return
	}
	if !r.PV(u, r.Rng.Intn(2) == 0) {
		return
	}
	r.tag("stale-sibling")
	r.StaleDelete(t, "removed-same-height", r.Rng.Intn(2) == 0)
	r.staleBurst(r.Rng.Intn(3), false)
	if n.Tip() != nil && !r.st().dirty {
		r.Extend(1 + r.Rng.Intn(2))
	}
}

// scenarioTieBreak: the tie-break sequence of Executer.process (deleteBlock(lastBlock,false);
// processValidated(new); on failure processValidated(lastBlock)) with a last block that went stale: after it was
// read the tip was removed / replaced / built upon.
func (r *Recorder) scenarioTieBreak() {
	n := r.N
	if n.Tip() == nil || r.slotsLeft() < 4 {
		return
	}
	t, err := n.BuildBlock(r.randOpts())
	if err != nil {
		return
	}
	o := r.randOpts()
	o.SlotsAhead = 2
	comp, err := n.BuildBlock(o)
	if err != nil {
		return
	}
	if r.Proc(t) != "applied" {
		return
	}
	how := "built-upon"
	switch r.Rng.Intn(3) {
	case 0:
		r.Extend(1)
	case 1:
		how = "removed"
		r.rollback(t.Header.Height - 1)
	default:
		how = "rolled-back-to-finalized"
		r.rollback(n.Finalized())
	}
	if n.Tip() == nil {
		return
	}
	r.tag("stale-tiebreak")
	if r.StaleDelete(t, "tiebreak-last-block-"+how, r.Rng.Intn(2) == 0) && !r.st().dirty {
		if !r.PV(comp, false) {
			r.PV(t, false)
		}
	}
	if n.Tip() != nil && !r.st().dirty {
		r.Extend(1 + r.Rng.Intn(2))
	}
}

// scenarioTill: deleteTillCommonBlock with a common block that is not on the chain: above the tip (the loop never
// meets its height: it rolls back until deleteBlock refuses), or a removed block of another branch.
func (r *Recorder) scenarioTill() {
	n := r.N
	if n.Tip() == nil {
		return
	}
	r.tag("stale-till")
	h := n.Height() + 1 + uint32(r.Rng.Intn(3))
	if k := len(r.st().removed); k > 0 && r.Rng.Intn(2) == 0 {
		h = r.st().removed[r.Rng.Intn(k)].Header.Height
		r.tag("stale-till-other-branch")
	} else {
		r.tag("stale-till-above-tip")
	}
	before := map[uint32]*blockchain.Block{}
	for x := n.Finalized() + 1; x <= n.Height(); x++ {
		if b, err := n.BlockAt(x); err == nil {
			before[x] = b
		}
	}
	r.tillTo(h)
	for x, b := range before {
		if n.Tip() != nil {
			if hd, err := n.HeaderAt(x); err == nil && bytes.Equal(hd.ID, b.Header.ID) {
				continue
			}
		}
		r.st().removed = append(r.st().removed, b)
	}
	r.staleBurst(1+r.Rng.Intn(2), false)
}

// StaleScript is the history of a stale-argument profile.
func (r *Recorder) StaleScript() {
	n, rng := r.N, r.Rng
	defer staleStates.Delete(r)
	r.tag("stale")
	r.warmUp()
	for i := 0; i < r.Prof.Steps && r.Err == nil && n.Tip() != nil && !r.st().dirty; i++ {
		r.Extend(2 + rng.Intn(4))
		if n.Tip() == nil || r.Err != nil {
			break
		}
		k := rng.Intn(5)
		if i == 0 {
			k = 0 // every history contains the roll-back to the finalized block followed by the duplicate request
		}
		switch k {
		case 0:
			r.scenarioRollbackDuplicate()
		case 1:
			r.scenarioPartial()
		case 2:
			r.scenarioSibling()
		case 3:
			r.scenarioTieBreak()
		default:
			r.scenarioTill()
		}
		if rng.Intn(6) == 0 && n.Tip() != nil && !r.st().dirty {
			r.Restart()
		}
	}
	if n.Tip() == nil || r.Err != nil {
		return
	}
	if !r.st().dirty && rng.Intn(3) != 0 {
		// last step: requests for blocks of the chain below the tip / removed blocks of shorter branches, to an
		// application that reverts whatever it is asked (what does the ENGINE do with the argument?)
		r.Extend(2 + rng.Intn(3))
		if n.Tip() != nil {
			r.staleBurst(2+rng.Intn(3), true)
		}
	}
	if n.Tip() != nil && !r.st().dirty {
		r.Ops = append(r.Ops, "twin")
	}
}

// ---------------------------------------------------------------------------------------------
// replayer side

// sigs of oracles that judge what C04 does not claim (application / BFT store in step with the chain, order rules
// computed from the BFT store): skipped for the one step after which the consensus store no longer belongs to the
// chain (the unchanged code reverted the state diff of another height than the tip's).
var staleUnjudged = []string{"c04-fin-not-max-mhpc", "c04-application-out-of-step", "c07-", "c05-"}

// staleDelete runs `delarg`.
func (r *Runner) staleDelete(a map[string]string) string {
	n := r.n
	if n.Tip() == nil {
		return "unsupported"
	}
	arg, err := ParseBlock(a)
	if err != nil {
		return "bad-block"
	}
	kind := a["kind"]
	st := a["st"] == "1"
	tipBefore := n.Tip()
	finBefore := n.Finalized()
	before := n.DumpDB()
	isTip := bytes.Equal(arg.Header.ID, tipBefore.Header.ID)
	n.ABI.SetLenientRevert(a["len"] == "1")
	err = DeleteBlock(n, arg, st)
	n.ABI.SetLenientRevert(false)
	r.disarm()
	evs := n.DrainEvents()
	what := fmt.Sprintf("deleteBlock(%s: block %s at height %d; tip %s at height %d, finalized height %d, saveTemp=%v, lenient application=%s)",
		kind, short(arg.Header.ID), arg.Header.Height, short(tipBefore.Header.ID), tipBefore.Header.Height, finBefore, st, a["len"])
	res := "ok"
	switch {
	case err != nil && isPanic(err):
		res = "panic"
		r.fail("node-panic", what+": "+err.Error())
	case err != nil:
		res = "err"
		if d := Delta(before, n.DumpDB()); d != "-" {
			res = "errWritten"
		}
	}
	removed := n.Tip() == nil || !bytes.Equal(n.Tip().Header.ID, tipBefore.Header.ID)
	if removed && tipBefore.Header.Height <= finBefore {
		r.fail("c04-stale-delete-removed-finalized", fmt.Sprintf("%s returned %v and removed the tip %s at height %d, which is at or below the finalized height %d", what, err, short(tipBefore.Header.ID), tipBefore.Header.Height, finBefore))
	}
	if err == nil && arg.Header.Height <= finBefore {
		r.fail("c04-finalized-delete-accepted", fmt.Sprintf("%s succeeded although the argument is at or below the finalized height", what))
	}
	dirty := false
	if removed {
		if isTip {
			r.popDeleted(arg, what, true)
		} else {
			r.stack = nil // no reference state for C05 any more
			r.Notes["stale-delete-executed"]++
			dirty = arg.Header.Height != tipBefore.Header.Height
		}
	}
	mark := len(r.fails)
	line := r.state(res, evs)
	if dirty {
		r.Notes["stale-delete-executed-not-tip"]++
		kept := r.fails[:mark:mark]
		for _, f := range r.fails[mark:] {
			skip := false
			for _, p := range staleUnjudged {
				if strings.HasPrefix(f.Sig, p) {
					skip = true
				}
			}
			if !skip {
				kept = append(kept, f)
			}
		}
		r.fails = kept
	}
	return line
}

// finAboveTip: the stored finalized height never exceeds the height of the tip (every finalized block is on the
// chain below or at the tip).
func (r *Runner) finAboveTip(finOK bool, fin uint32) {
	n := r.n
	if !finOK || n == nil || n.Tip() == nil {
		return
	}
	if t := n.Tip().Header; fin > t.Height {
		r.fail("c04-fin-above-tip", fmt.Sprintf("stored finalized height %d, tip %s at height %d", fin, short(t.ID), t.Height))
	}
}
