package c04

import (
	"bytes"
	"fmt"
	"math/rand"
	"strings"
	"time"

	"github.com/LiskHQ/lisk-engine/pkg/blockchain"
	"github.com/LiskHQ/lisk-engine/pkg/codec"
	"github.com/LiskHQ/lisk-engine/pkg/labi"

	"verifharness/node"
)

// Profile selects what a recorded history emphasises.
type Profile struct {
	Steps       int     // number of script steps
	TieBreak    bool    // genesis close to the wall clock, huge slots: the tie-break rule can fire
	SmallCache  bool    // block cache of 2..5 entries
	DeleteBias  float64 // probability weight of delete / re-apply steps
	ForkBias    float64 // probability weight of sibling / invalid / identical blocks
	DupTx       bool    // include a transaction twice in the chain (shared transaction id)
	Exhaust     bool    // delete until the block cache is empty
	ValidatorCh bool    // include a validator change
	RestartBias float64 // probability per script step of an additional restart followed directly by guard probes
	StartBias   float64 // probability per script step of a start with wrong / changed inputs (`restartg`); > 0 also adds one at the end
	TinyCache   bool    // block cache of 1..2 entries: (almost) every removal takes the refill path of Chain.RemoveBlock
	TxHeavy     bool    // every honest block carries transactions (what the transaction lookups answer after removals)
	Inject      float64 // probability per step (proc / pv / del / till) of a failure injection (inject.go); 0 = no draw at all
	Sweep       string  // "apply" | "sync" | "delete" | "tie": the history is the failure sweep of that step kind (inject.go)
}

// Recorder drives a real node and writes the operation lines.
type Recorder struct {
	N       *node.Node
	Rng     *rand.Rand
	Ops     []string
	Prof    Profile
	Tags    map[string]int
	nonce   uint64
	k       int // tie-break mode: slot of the wall clock
	oldTx   []*blockchain.Transaction
	saved   map[uint32]*blockchain.Block // blocks removed from the chain, by height (for re-application)
	Err     error
	inj     string // failure injection kind for the next step (inject.go); consumed by the step
	forceSy bool   // every PV runs with the syncing flag set (sync-apply sweep)
}

const tieBlockTime = 10_000_000

// NewRecorder creates the node of a case and writes the reset line.
func NewRecorder(rng *rand.Rand, prof Profile) (*Recorder, error) {
	nvs := []int{1, 2, 3, 4, 4, 5, 7}
	nv := nvs[rng.Intn(len(nvs))]
	if prof.TieBreak && nv < 2 {
		nv = 3
	}
	bs := nv + rng.Intn(3)
	if bs < 3 {
		bs = 3
	}
	cache := 515
	if prof.SmallCache || prof.Exhaust {
		cache = 2 + rng.Intn(4)
	}
	if prof.TinyCache {
		cache = 1 + rng.Intn(2)
	}
	gh := uint32(0)
	if (prof.SmallCache && rng.Intn(2) == 0) || (prof.Exhaust && rng.Intn(4) != 0) {
		// a migrated network: the genesis block is above height 0 (cache refills and restarts must clamp to it)
		gh = []uint32{1, 7, 50, 100000}[rng.Intn(4)]
	}
	keep := 0
	switch rng.Intn(6) {
	case 0:
		keep = -1
	case 1:
		keep = 1 + rng.Intn(5)
	}
	now := uint32(time.Now().Unix())
	bt := uint32(10)
	gts := now - 1_000_000
	// the genesis timestamp takes every residue modulo the block time (LIP-0014 counts slots from the genesis
	// timestamp itself; a slot calculator that assumes an aligned genesis is caught by slotoracle.go)
	gts = gts - gts%bt + uint32(rng.Intn(int(bt)))
	k := 0
	if prof.TieBreak {
		bt = tieBlockTime
		k = 8 + rng.Intn(30)
		// the wall clock lies in the middle quarter of slot k (weeks away from both boundaries); its exact phase,
		// and with it the residue of the genesis timestamp, is drawn per history
		gts = now - uint32(k)*bt - 3*(bt/8) - uint32(rng.Intn(int(bt/4)))
	}
	cfg := node.Config{NumValidators: nv, BatchSize: bs, Seed: int64(rng.Intn(1 << 30)), GenesisTimestamp: gts, BlockTime: bt,
		MaxBlockCache: cache, KeepEventsForHeights: &keep, ExtraValidators: 1, GenesisHeight: gh}
	n, err := node.New(cfg)
	if err != nil {
		return nil, err
	}
	n.DrainEvents()
	r := &Recorder{N: n, Rng: rng, Prof: prof, Tags: map[string]int{}, k: k, saved: map[uint32]*blockchain.Block{}}
	r.Ops = append(r.Ops, fmt.Sprintf("reset nv=%d bs=%d seed=%d gts=%d bt=%d cache=%d keep=%d extra=1 gh=%d %s %s",
		nv, bs, cfg.Seed, gts, bt, cache, keep, gh, BlockTokens(n.Genesis), ExecTokens(n, n.Cfg.GenesisHeight, nil, "")))
	return r, nil
}

func (r *Recorder) Close() {
	if r.N != nil {
		r.N.Close()
		r.N = nil
	}
}

func (r *Recorder) tag(t string) { r.Tags[t]++ }

// fixMHG recomputes every key holder's largest generated height from the current chain (blocks
// removed from the chain no longer count).
func (r *Recorder) fixMHG() {
	n := r.N
	for _, v := range n.Validators {
		v.MaxHeightGenerated = 0
	}
	if n.Tip() == nil {
		return
	}
	for h := n.Cfg.GenesisHeight + 1; h <= n.Height(); h++ {
		hd, err := n.HeaderAt(h)
		if err != nil {
			continue
		}
		if v := n.ValidatorByAddress(hd.GeneratorAddress); v != nil && hd.Height > v.MaxHeightGenerated {
			v.MaxHeightGenerated = hd.Height
		}
	}
}

func (r *Recorder) newTx(verdicts ...byte) *blockchain.Transaction {
	r.nonce++
	v := r.N.Validators[r.Rng.Intn(len(r.N.Validators))]
	params := append([]byte{}, verdicts...)
	params = append(params, byte(r.nonce), byte(r.nonce>>8))
	return r.N.NewTransaction(v, r.nonce, 100+uint64(r.Rng.Intn(1000)), params)
}

func (r *Recorder) randEvents(k int) []*blockchain.Event {
	var evs []*blockchain.Event
	for i := 0; i < k; i++ {
		data := make([]byte, r.Rng.Intn(6))
		r.Rng.Read(data)
		evs = append(evs, &blockchain.Event{Module: "reward", Name: "minted", Data: data, Topics: []codec.Hex{{0xaa, byte(r.Rng.Intn(256))}}})
	}
	return evs
}

// randOpts chooses the content of an honest block.
func (r *Recorder) randOpts() node.BlockOpts {
	o := node.BlockOpts{}
	rng := r.Rng
	switch rng.Intn(5) {
	case 0, 1:
		k := 1 + rng.Intn(3)
		for i := 0; i < k; i++ {
			if rng.Intn(5) == 0 {
				o.Txs = append(o.Txs, r.newTx(node.TxOK, node.TxFail))
			} else {
				o.Txs = append(o.Txs, r.newTx(node.TxOK, node.TxOK))
			}
		}
	}
	if r.Prof.TxHeavy && len(o.Txs) == 0 {
		for i, k := 0, 1+rng.Intn(2); i < k; i++ {
			o.Txs = append(o.Txs, r.newTx(node.TxOK, node.TxOK))
		}
	}
	if rng.Intn(4) == 0 {
		data := make([]byte, 1+rng.Intn(8))
		rng.Read(data)
		o.Assets = append(o.Assets, &blockchain.BlockAsset{Module: "aaa", Data: data})
		if rng.Intn(2) == 0 {
			o.Assets = append(o.Assets, &blockchain.BlockAsset{Module: "bbb", Data: []byte{byte(rng.Intn(256))}})
		}
	}
	if rng.Intn(4) == 0 {
		o.BeforeEvents = r.randEvents(1 + rng.Intn(2))
	}
	if rng.Intn(5) == 0 {
		o.AfterEvents = r.randEvents(1)
	}
	if r.Prof.DupTx && len(r.oldTx) > 0 && rng.Intn(3) == 0 {
		o.Txs = append(o.Txs, r.oldTx[rng.Intn(len(r.oldTx))])
		r.tag("dup-tx")
	}
	return o
}

func (r *Recorder) slotOf(ts uint32) int { return r.N.BlockSlot().GetSlotNumber(ts) }

// maxSlotsAhead limits the slot of new blocks in tie-break mode (nothing may lie in the future).
func (r *Recorder) slotsLeft() int {
	if !r.Prof.TieBreak {
		return 1 << 20
	}
	return r.k - r.slotOf(r.N.Tip().Header.Timestamp)
}

// flags evaluates the two wall-clock conditions of the fork choice as the executer will.
func (r *Recorder) flags(b *blockchain.Block) (rb, rl bool) {
	n := r.N
	now := uint32(time.Now().Unix())
	rb = r.slotOf(now) == r.slotOf(b.Header.Timestamp)
	rl = true
	if t := n.Exec.VerifLastBlockReceived(); t != nil {
		rl = r.slotOf(uint32(t.Unix())) == r.slotOf(n.Tip().Header.Timestamp)
	}
	return
}

func b2s(b bool) string {
	if b {
		return "1"
	}
	return "0"
}

func newEvents(evs []node.Event, id []byte) []*blockchain.Event {
	for _, e := range evs {
		if e.Kind == node.EvNew && bytes.Equal(e.BlockID, id) {
			return e.Events
		}
	}
	return nil
}

// Proc gives a block to Executer.process and writes the `proc` line. It returns the outcome.
func (r *Recorder) Proc(b *blockchain.Block) string {
	n := r.N
	if n.Tip() == nil {
		r.Ops = append(r.Ops, fmt.Sprintf("proc sv=1 valid=0 rb=0 rl=1 %s %s", BlockTokens(b), EmptyExec("")))
		return "panic"
	}
	rb, rl := r.flags(b)
	sv := b.Validate() == nil
	tipBefore := n.Tip()
	inj := r.arm()
	res := n.ProcessResult(b)
	injTok := r.disarm(inj, res.ForkChoice == "tieBreak")
	evs := n.DrainEvents()
	exec := EmptyExec("")
	old := ""
	valid := false
	out := res.ForkChoice
	switch res.ForkChoice {
	case "valid":
		out = "err"
		if res.Applied {
			valid = true
			out = "applied"
			exec = ExecTokens(n, b.Header.Height, newEvents(evs, b.Header.ID), "")
			r.remember(b)
		}
	case "tieBreak":
		switch {
		case res.Err != nil:
			out = "err"
		case res.Applied:
			valid = true
			out = "tieBreakApplied"
			exec = ExecTokens(n, b.Header.Height, newEvents(evs, b.Header.ID), "")
			r.remember(b)
			r.fixMHG()
		case !res.TipChanged:
			out = "tieBreakReverted"
			old = " o.valid=1 " + ExecTokens(n, tipBefore.Header.Height, newEvents(evs, tipBefore.Header.ID), "o.")
		default:
			out = "tieBreakLost"
			old = " o.valid=0 " + EmptyExec("o.")
			r.fixMHG()
		}
	case "differentChain":
		out = "wouldSync"
	}
	r.tag("proc:" + out)
	r.Ops = append(r.Ops, fmt.Sprintf("proc sv=%s valid=%s rb=%s rl=%s %s %s%s%s", b2s(sv), b2s(valid), b2s(rb), b2s(rl), BlockTokens(b), exec, old, injTok))
	return out
}

func (r *Recorder) remember(b *blockchain.Block) {
	for _, tx := range b.Transactions {
		if len(r.oldTx) < 8 {
			r.oldTx = append(r.oldTx, tx)
		}
	}
}

// PV gives a block to Executer.processValidated (the synchronisers' processor) and writes the `pv` line.
func (r *Recorder) PV(b *blockchain.Block, removeTemp bool) bool {
	n := r.N
	if n.Tip() == nil {
		r.Ops = append(r.Ops, fmt.Sprintf("pv valid=0 rt=%s %s %s", b2s(removeTemp), BlockTokens(b), EmptyExec("")))
		return false
	}
	tipBefore := n.Tip().Header.ID
	// half of the blocks are applied with the syncying flag set, as the synchronisers apply them
	// (Executer.process sets the flag around syncer.Sync, whose processor is processValidated)
	sy := r.forceSy || r.Rng.Intn(2) == 0
	if sy {
		n.Exec.VerifC04SetSyncing(true)
	}
	inj := r.arm()
	err := n.ProcessValidatedPublish(b, removeTemp, inj.Publish())
	injTok := r.disarm(inj, false)
	if sy && n.Exec != nil {
		n.Exec.VerifC04SetSyncing(false)
	}
	evs := n.DrainEvents()
	ok := err == nil && bytes.Equal(n.Tip().Header.ID, b.Header.ID) && !bytes.Equal(tipBefore, b.Header.ID)
	exec := EmptyExec("")
	if ok {
		exec = ExecTokens(n, b.Header.Height, newEvents(evs, b.Header.ID), "")
		r.remember(b)
	}
	r.tag("pv:" + b2s(ok))
	r.Ops = append(r.Ops, fmt.Sprintf("pv valid=%s rt=%s sy=%s %s %s%s", b2s(ok), b2s(removeTemp), b2s(sy), BlockTokens(b), exec, injTok))
	return ok
}

// Extend builds and processes k honest blocks.
func (r *Recorder) Extend(k int) {
	for i := 0; i < k && r.Err == nil; i++ {
		if r.N.Tip() == nil || r.slotsLeft() < 2 || (r.Prof.TieBreak && r.slotsLeft() < 3) {
			return
		}
		o := r.randOpts()
		if !r.Prof.TieBreak && r.Rng.Intn(6) == 0 {
			o.SlotsAhead = 2 + r.Rng.Intn(2)
		}
		b, err := r.N.BuildBlock(o)
		if err != nil {
			r.Err = err
			return
		}
		if r.Rng.Intn(5) == 0 {
			r.PV(b, r.Rng.Intn(2) == 0)
		} else {
			r.Proc(b)
		}
	}
}

// Invalid processes a block that must be rejected.
func (r *Recorder) Invalid() {
	n := r.N
	if n.Tip() == nil || r.slotsLeft() < 2 {
		return
	}
	o := r.randOpts()
	kind := r.Rng.Intn(7)
	var b *blockchain.Block
	var err error
	switch kind {
	case 0: // signature
		b, err = n.BuildBlock(o)
		if err == nil {
			b, _ = node.CopyBlock(b)
			b.Header.Signature[0] ^= 1
			b.Header.Init()
		}
	case 1: // state root: detected by the application at Commit, after the block was executed
		o.Mutate = func(b *blockchain.Block) {
			b.Header.StateRoot = append([]byte{}, b.Header.StateRoot...)
			b.Header.StateRoot[0] ^= 1
		}
		b, err = n.BuildBlock(o)
	case 2:
		o.FailHook = node.HookAfterTxs
		b, err = n.BuildBlock(o)
	case 3:
		o.FailHook = node.HookBeforeTxs
		b, err = n.BuildBlock(o)
	case 4: // wrong maxHeightPrevoted (still "valid" for the fork choice)
		mhp, _, _ := n.BFTHeights()
		o.MaxHeightPrevoted = node.U32(mhp + 1)
		b, err = n.BuildBlock(o)
		if err == nil && n.ForkChoice(b) != "valid" {
			b = nil
		}
	case 5: // statically invalid: transaction root does not match
		o.Mutate = func(b *blockchain.Block) { b.Header.TransactionRoot = bytes.Repeat([]byte{7}, 32) }
		b, err = n.BuildBlock(o)
	case 6: // validators hash
		o.Mutate = func(b *blockchain.Block) { b.Header.ValidatorsHash = bytes.Repeat([]byte{9}, 32) }
		b, err = n.BuildBlock(o)
	}
	if err != nil || b == nil {
		return
	}
	r.tag("invalid")
	if r.Rng.Intn(5) == 0 && kind != 5 {
		r.PV(b, false)
	} else {
		r.Proc(b)
	}
}

// Siblings builds a block T and competing blocks on the same parent, applies T and then offers
// the competitors (double forging, later slot: discarded or tie-break, identical).
func (r *Recorder) Siblings() {
	n := r.N
	if n.Tip() == nil || r.slotsLeft() < 2 {
		return
	}
	rng := r.Rng
	ot := r.randOpts()
	t, err := n.BuildBlock(ot)
	if err != nil {
		r.Err = err
		return
	}
	var sibs []*blockchain.Block
	// same generator, same slot, other content
	od := r.randOpts()
	od.Txs = append(od.Txs, r.newTx(node.TxOK, node.TxOK))
	if d, err := n.BuildBlock(od); err == nil {
		sibs = append(sibs, d)
	}
	// later slot (another generator unless there is only one)
	later := 2
	if r.Prof.TieBreak {
		later = r.slotsLeft() // exactly the slot of the wall clock
	}
	if later >= 2 {
		ol := r.randOpts()
		ol.SlotsAhead = later
		bad := rng.Intn(3) == 0
		if bad {
			if rng.Intn(2) == 0 {
				ol.FailHook = node.HookAfterTxs
			} else {
				ol.Mutate = func(b *blockchain.Block) {
					b.Header.StateRoot = append([]byte{}, b.Header.StateRoot...)
					b.Header.StateRoot[0] ^= 1
				}
			}
		}
		if l, err := n.BuildBlock(ol); err == nil {
			sibs = append(sibs, l)
			if r.Prof.TieBreak && !bad && rng.Intn(2) == 0 {
				// a second, valid competitor for the same slot is offered after a failed one
				ol2 := r.randOpts()
				ol2.SlotsAhead = later
				if l2, err := n.BuildBlock(ol2); err == nil {
					sibs = append(sibs, l2)
				}
			}
		}
	}
	if r.Proc(t) != "applied" {
		return
	}
	r.tag("siblings")
	rng.Shuffle(len(sibs), func(i, j int) { sibs[i], sibs[j] = sibs[j], sibs[i] })
	for _, s := range sibs {
		if n.Tip() == nil {
			return
		}
		if rng.Intn(4) == 0 {
			r.Proc(n.Tip()) // identical block
		}
		r.Proc(s)
	}
}

// Gap offers a block that does not connect to the tip (the executer would start a sync).
func (r *Recorder) Gap() {
	n := r.N
	if n.Tip() == nil || r.slotsLeft() < 2 {
		return
	}
	o := r.randOpts()
	o.Mutate = func(b *blockchain.Block) { b.Header.Height += 1 + uint32(r.Rng.Intn(3)) }
	if b, err := n.BuildBlock(o); err == nil {
		r.Proc(b)
	}
}

// Delete removes k blocks from the tip (k may exceed the distance to the finalized height, the
// surplus must be refused) and then, depending on mode, applies the same blocks again, new blocks,
// or leaves the chain shorter.
func (r *Recorder) Delete(k int, mode int) {
	n := r.N
	rng := r.Rng
	var removed []*blockchain.Block
	st := rng.Intn(2) == 0
	for i := 0; i < k; i++ {
		if n.Tip() == nil {
			r.Ops = append(r.Ops, "del st="+b2s(st))
			return
		}
		tip := n.Tip()
		inj := r.arm()
		err := DeleteBlock(n, tip, st)
		injTok := r.disarm(inj, true)
		n.DrainEvents()
		r.Ops = append(r.Ops, "del st="+b2s(st)+injTok)
		if err != nil {
			r.tag("del:refused")
			break
		}
		r.tag("del:ok")
		removed = append(removed, tip)
		r.saved[tip.Header.Height] = tip
		if rng.Intn(6) == 0 {
			r.Ops = append(r.Ops, "temps")
		}
	}
	r.fixMHG()
	if len(removed) == 0 || n.Tip() == nil {
		return
	}
	if rng.Intn(5) == 0 {
		r.Restart()
	}
	switch mode {
	case 0: // apply the removed blocks again (as restoreBlocks does: lowest first, removing the temp copy)
		for i := len(removed) - 1; i >= 0; i-- {
			if rng.Intn(2) == 0 {
				r.PV(removed[i], st)
			} else {
				r.Proc(removed[i])
			}
		}
		r.tag("reapply")
	case 1: // reorganisation: other blocks on the new tip
		r.Extend(len(removed) + rng.Intn(2))
		r.tag("reorg")
	case 2: // first a sibling, delete it again, then the original blocks
		if r.slotsLeft() >= 2 {
			if b, err := n.BuildBlock(r.randOpts()); err == nil {
				if r.Proc(b) == "applied" {
					_ = DeleteBlock(n, n.Tip(), false)
					n.DrainEvents()
					r.Ops = append(r.Ops, "del st=0")
					r.fixMHG()
				}
			}
		}
		for i := len(removed) - 1; i >= 0; i-- {
			r.Proc(removed[i])
		}
		r.tag("sibling-then-original")
	}
	if rng.Intn(3) == 0 {
		r.Ops = append(r.Ops, "temps")
	}
	if rng.Intn(4) == 0 {
		n.Chain.DataAccess().ClearTempBlocks()
		r.Ops = append(r.Ops, "cleartemp")
	}
}

// DeleteFinalized asks for the deletion of a block at or below the finalized height.
func (r *Recorder) DeleteFinalized() { r.deleteFinalized(false) }

// deleteFinalized: exact = the block at the finalized height itself (the only finalized block whose
// state diff is still stored, i.e. the one a missing guard would really remove).
func (r *Recorder) deleteFinalized(exact bool) {
	n := r.N
	if n.Tip() == nil {
		return
	}
	fin := n.Finalized()
	h := fin
	if !exact && fin > 0 && r.Rng.Intn(2) == 0 {
		h = uint32(r.Rng.Intn(int(fin) + 1))
	}
	b, err := n.BlockAt(h)
	if err != nil {
		return
	}
	st := r.Rng.Intn(2) == 0
	_ = DeleteBlock(n, b, st)
	n.DrainEvents()
	r.tag("delat")
	r.Ops = append(r.Ops, fmt.Sprintf("delat h=%d st=%s", h, b2s(st)))
}

// Till runs deleteTillCommonBlock with a common block between fin-2 and the tip.
func (r *Recorder) Till() { r.till(false) }

// till: below = the common block is (if possible) below the finalized height: the run must stop at the
// finalized block.
func (r *Recorder) till(below bool) {
	n := r.N
	if n.Tip() == nil {
		return
	}
	fin := int(n.Finalized())
	lo := fin - 2
	if lo < 0 {
		lo = 0
	}
	h := uint32(lo + r.Rng.Intn(int(n.Height())-lo+1))
	if below && fin > lo {
		h = uint32(lo + r.Rng.Intn(fin-lo))
	}
	r.tillTo(h)
}

// tillTo runs deleteTillCommonBlock with the block at height h as common block.
func (r *Recorder) tillTo(h uint32) {
	n := r.N
	fin := int(n.Finalized())
	kind := "fast"
	if r.Rng.Intn(2) == 0 {
		kind = "block"
	}
	// the same sequence of deleteBlock calls, executed directly
	inj := r.arm()
	for n.Tip() != nil && n.Height() != h {
		tip := n.Tip()
		if err := DeleteBlock(n, tip, true); err != nil {
			break
		}
		r.saved[tip.Header.Height] = tip
	}
	injTok := r.disarm(inj, true)
	n.DrainEvents()
	r.fixMHG()
	if int(h) < fin {
		r.tag("till:below-fin")
	} else {
		r.tag("till")
	}
	r.Ops = append(r.Ops, fmt.Sprintf("till h=%d kind=%s%s", h, kind, injTok))
	// the synchroniser would now apply downloaded blocks; on failure restoreBlocks applies the
	// temporary blocks again, lowest first, removing the copies
	if n.Tip() == nil {
		return
	}
	switch r.Rng.Intn(3) {
	case 0:
		r.Ops = append(r.Ops, "temps")
		temps, err := n.TempBlocks()
		if err == nil {
			blockchain.SortBlockByHeightAsc(temps)
			for _, b := range temps {
				if b.Header.Height == n.Height()+1 {
					r.PV(b, true)
				}
			}
		}
		r.tag("restore-temps")
	case 1:
		r.Extend(1 + r.Rng.Intn(3))
		n.Chain.DataAccess().ClearTempBlocks()
		r.Ops = append(r.Ops, "cleartemp")
	}
}

func (r *Recorder) Restart() {
	r.restartOnly()
	if r.Err == nil && r.Rng.Intn(3) != 0 {
		r.Guards(false)
	}
}

func (r *Recorder) restartOnly() {
	if err := r.N.Restart(); err != nil {
		r.Err = err
	}
	r.N.DrainEvents()
	r.tag("restart")
	r.Ops = append(r.Ops, "restart")
}

// StartProbe starts the node again on its database with WRONG or CHANGED inputs (op `restartg`, see
// Runner.startInputs): a foreign genesis block (same height and another id; a height inside the stored
// chain, at its tip, above it, below the stored genesis height), another block cache size / event
// retention, another chain id. genesisOnly: only the foreign-genesis family.
func (r *Recorder) StartProbe(genesisOnly bool) {
	n := r.N
	if n == nil || n.Tip() == nil || r.Err != nil {
		return
	}
	rng := r.Rng
	k := rng.Intn(10)
	if genesisOnly {
		k = rng.Intn(7)
	}
	switch {
	case k < 7:
		gh0, tip := n.Cfg.GenesisHeight, n.Height()
		kinds := []string{"id", "id", "tip", "above"}
		if tip > gh0+1 {
			kinds = append(kinds, "inside", "inside")
		}
		if gh0 > 0 {
			kinds = append(kinds, "below", "below")
		}
		kind := kinds[rng.Intn(len(kinds))]
		h := gh0
		switch kind {
		case "inside":
			h = gh0 + 1 + uint32(rng.Intn(int(tip-gh0-1)))
			if fin := n.Finalized(); fin > gh0 && fin < tip && rng.Intn(2) == 0 {
				h = fin // the block at the finalized height itself
			}
		case "tip":
			h = tip
		case "above":
			h = tip + 1 + uint32(rng.Intn(4))
		case "below":
			h = gh0 - 1 - uint32(rng.Intn(int(min32(gh0, 3))))
		}
		ts := n.Cfg.GenesisTimestamp + n.Cfg.BlockTime*uint32(1+rng.Intn(3))
		if kind != "id" && rng.Intn(3) == 0 {
			ts = n.Cfg.GenesisTimestamp
		}
		abi := "fresh"
		if rng.Intn(3) == 0 {
			abi = "keep"
		}
		g, err := n.ForeignGenesis(h, ts)
		if err != nil || bytes.Equal(g.Header.ID, n.Genesis.Header.ID) {
			return
		}
		r.tag("restartg:" + kind)
		r.Ops = append(r.Ops, fmt.Sprintf("restartg v=genesis kind=%s abi=%s gh=%d gts=%d gid=%s", kind, abi, h, ts, hx(g.Header.ID)))
		gen, cfg, mock := n.Genesis, n.Cfg, n.ABI
		_ = n.RestartWith(node.StartInputs{Genesis: g, FreshABI: abi == "fresh"})
		n.DrainEvents()
		n.Genesis, n.Cfg, n.ABI = gen, cfg, mock
		r.Restart()
	case k < 9:
		cache := []int{2, 3, 4, 5, 8, 515, n.Cfg.MaxBlockCache + 1}[rng.Intn(7)]
		if r.Prof.SmallCache && cache > 8 {
			cache = 2 + rng.Intn(4)
		}
		keep := []int{-1, 0, 0, 1, 2, 5}[rng.Intn(6)]
		r.tag("restartg:cfg")
		r.Ops = append(r.Ops, fmt.Sprintf("restartg v=cfg cache=%d keep=%d", cache, keep))
		if err := n.RestartWith(node.StartInputs{MaxBlockCache: cache, KeepEventsForHeights: &keep}); err != nil {
			r.Err = err
		}
		n.DrainEvents()
		if r.Err == nil && rng.Intn(2) == 0 {
			r.Guards(false)
		}
	default:
		cid := []byte{byte(rng.Intn(256)), 0, 0, byte(1 + rng.Intn(255))}
		if bytes.Equal(cid, n.Cfg.ChainID) {
			cid[3] ^= 0x55
		}
		r.tag("restartg:chainid")
		r.Ops = append(r.Ops, fmt.Sprintf("restartg v=chainid cid=%s", hx(cid)))
		orig := n.Cfg.ChainID
		if err := n.RestartWith(node.StartInputs{ChainID: cid}); err != nil {
			r.Err = err
		}
		n.DrainEvents()
		n.Cfg.ChainID = orig
		if r.Err == nil {
			r.Restart()
		}
	}
}

func min32(a, b uint32) uint32 {
	if a < b {
		return a
	}
	return b
}

// SyncCtx asks the executer for the context it would hand to the synchronisers.
func (r *Recorder) SyncCtx() {
	if r.N.Tip() == nil {
		return
	}
	r.tag("sctx")
	r.Ops = append(r.Ops, "sctx")
}

// Guards evaluates the guards of the property on the node as it is - called directly after a restart,
// before the new Executer object has applied anything: whatever the guards read must come from the
// database, not from memory of the previous run. reverting = also run deleteTillCommonBlock with a
// common block below the finalized height (it removes the unfinalized blocks).
func (r *Recorder) Guards(reverting bool) {
	if r.N == nil || r.N.Tip() == nil {
		return
	}
	r.tag("restart-guards")
	k := 4
	if reverting {
		k = 6
	}
	switch r.Rng.Intn(k) {
	case 0:
		r.SyncCtx()
	case 1:
		r.deleteFinalized(true)
	case 2:
		r.SyncCtx()
		r.deleteFinalized(r.Rng.Intn(2) == 0)
	case 3:
		r.deleteFinalized(r.Rng.Intn(2) == 0)
		r.SyncCtx()
	default:
		if r.Rng.Intn(2) == 0 {
			r.SyncCtx()
		}
		r.till(true)
	}
}

// RestartProbe is a restart followed directly by the guard probes (every time).
func (r *Recorder) RestartProbe() {
	r.restartOnly()
	if r.Err == nil {
		r.Guards(true)
	}
}

// ValidatorChange applies a block that replaces validator 0 by the extra key holder.
func (r *Recorder) ValidatorChange() {
	n := r.N
	if n.Tip() == nil || r.slotsLeft() < 2 {
		return
	}
	nv := n.Cfg.NumValidators
	extra := n.Validators[nv]
	var next []*labi.Validator
	total := uint64(0)
	if nv == 1 {
		next = []*labi.Validator{n.Validators[0].Labi(1), extra.Labi(1)}
		total = 2
	} else {
		next = append(next, extra.Labi(1))
		total = 1
		for _, v := range n.Validators[1:nv] {
			next = append(next, v.Labi(v.Weight))
			total += v.Weight
		}
	}
	o := r.randOpts()
	o.ValidatorChange = &node.ValidatorChange{Validators: next, PrecommitThreshold: node.DefaultThreshold(total), CertificateThreshold: node.DefaultThreshold(total)}
	b, err := n.BuildBlock(o)
	if err != nil {
		return
	}
	if r.Proc(b) == "applied" {
		r.tag("validator-change")
		// apply-delete-apply across the change
		if r.Rng.Intn(2) == 0 {
			r.Delete(1, 0)
		}
	}
}

// Exhaust deletes more blocks in a row than the block cache holds (until a deletion is refused).
func (r *Recorder) Exhaust() {
	n := r.N
	k := 0
	for i := 0; i < 8 && n.Tip() != nil; i++ {
		err := DeleteBlock(n, n.Tip(), false)
		n.DrainEvents()
		r.Ops = append(r.Ops, "del st=0")
		if err != nil {
			break
		}
		k++
	}
	if k >= n.Cfg.MaxBlockCache {
		r.tag("cache-exhausted")
	}
	if n.Tip() == nil {
		r.Ops = append(r.Ops, "del st=0")
		r.Restart()
	}
	r.fixMHG()
}

// Script runs the random history of the profile.
func (r *Recorder) Script() {
	rng := r.Rng
	p := r.Prof
	n := r.N
	if ParseReorgSpec(p.Sweep) != nil {
		r.ReorgScript() // reorgfresh.go: reorganisation across parameter changes, judged against a fresh node
		return
	}
	if p.Sweep == StaleSweep {
		r.StaleScript() // stale.go: deleteBlock / deleteTillCommonBlock / tie-break with stale and foreign arguments
		return
	}
	if p.Sweep != "" {
		r.SweepScript() // inject.go
		return
	}
	if p.Exhaust && n.Cfg.GenesisHeight > 0 {
		// cache exhaustion within reach of a genesis block above height 0: the refill must clamp to it
		r.Extend(n.Cfg.MaxBlockCache + rng.Intn(2))
		r.Exhaust()
	}
	r.Extend(1 + rng.Intn(4))
	changed := false
	for i := 0; i < p.Steps && r.Err == nil; i++ {
		if n.Tip() == nil {
			r.Restart()
			r.fixMHG()
			continue
		}
		if p.TieBreak && r.slotsLeft() < 2 {
			// the chain reached the slot of the wall clock: only deletions and restarts remain possible
			switch rng.Intn(3) {
			case 0:
				r.Delete(1+rng.Intn(2), 2)
			case 1:
				r.Restart()
			default:
				r.DeleteFinalized()
			}
			continue
		}
		if p.RestartBias > 0 && rng.Float64() < p.RestartBias {
			r.RestartProbe()
			if n.Tip() == nil {
				continue
			}
		}
		if p.StartBias > 0 && rng.Float64() < p.StartBias {
			r.StartProbe(false)
			if n.Tip() == nil {
				continue
			}
		}
		x := rng.Float64() * (3 + p.DeleteBias + p.ForkBias)
		switch {
		case x < 1.6:
			r.Extend(1 + rng.Intn(3))
		case x < 2.0:
			switch rng.Intn(6) {
			case 0:
				r.RestartProbe()
			case 5:
				r.SyncCtx()
			case 1:
				r.DeleteFinalized()
			case 2:
				r.Ops = append(r.Ops, "twin")
				r.tag("twin")
			case 3:
				r.Gap()
			default:
				r.Till()
			}
		case x < 3:
			r.Extend(2 + rng.Intn(4))
		case x < 3+p.DeleteBias:
			dist := int(n.Height()) - int(n.Finalized())
			k := 1
			if dist > 0 {
				k = 1 + rng.Intn(dist+1) // up to distance+1: the last one must be refused
			}
			r.Delete(k, rng.Intn(3))
		default:
			switch rng.Intn(3) {
			case 0:
				r.Invalid()
			default:
				r.Siblings()
			}
		}
		if p.ValidatorCh && !changed && i > p.Steps/3 {
			changed = true
			r.ValidatorChange()
		}
		if p.Exhaust && i == p.Steps/2 {
			r.Exhaust()
		}
	}
	if p.StartBias > 0 && r.Err == nil && n.Tip() != nil {
		// every history ends with a start on the wrong genesis block (finality has advanced by now)
		r.StartProbe(true)
	}
	if n.Tip() != nil {
		r.Ops = append(r.Ops, "twin")
	}
}

// Record produces one case.
func Record(rng *rand.Rand, prof Profile) (ops []string, tag string, err error) {
	newRec := NewRecorder
	if ParseReorgSpec(prof.Sweep) != nil {
		newRec = newReorgRecorder // reorgfresh.go
	}
	r, err := newRec(rng, prof)
	if err != nil {
		return nil, "", err
	}
	defer r.Close()
	func() {
		defer func() {
			if x := recover(); x != nil {
				r.Err = fmt.Errorf("recorder panic: %v", x)
			}
		}()
		r.Script()
	}()
	var tags []string
	for _, t := range []string{"proc:tieBreakApplied", "proc:tieBreakReverted", "proc:doubleForging", "cache-exhausted", "validator-change", "dup-tx", "till:below-fin", "restore-temps", "reorg", "reapply", "restart-guards",
		"restartg:id", "restartg:inside", "restartg:tip", "restartg:above", "restartg:below", "restartg:cfg", "restartg:chainid",
		"sweep-apply", "sweep-sync", "sweep-delete", "sweep-tie", "inject", "inject-fired", "inject-at-raise",
		"reorg-fresh", "reorg-change-removed", "reorg-change-new", "reorg-candidate-forge", "reorg-candidate-failed", "reorg-full-depth"} {
		if r.Tags[t] > 0 {
			tags = append(tags, strings.TrimPrefix(t, "proc:"))
		}
	}
	tags = append(tags, r.staleTags()...) // stale.go
	return r.Ops, strings.Join(tags, "+"), r.Err
}
