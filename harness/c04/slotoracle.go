package c04

// Node-level slot oracles of C07 (judged by the pseudo-property C07NODE): the slot calculator the Executer
// builds in Init, and the tie-break verdict of Executer.process, are compared with the LIP-0014 slot grid
// computed HERE from the genesis block's timestamp and the configured block time —
// slot(t) = floor((t - genesis) / blockTime) — never through validator.BlockSlot. The recorder gives the
// genesis timestamp every residue modulo the block time (record.go).

import (
	"bytes"
	"fmt"
	"time"

	"github.com/LiskHQ/lisk-engine/pkg/blockchain"

	"verifharness/node"
)

// lipSlot: the LIP-0014 slot of t for the node's genesis timestamp and block time (t >= genesis, blockTime > 0)
func lipSlot(n *node.Node, t uint32) (uint64, bool) {
	g, bt := n.Genesis.Header.Timestamp, n.Cfg.BlockTime
	if bt == 0 || t < g {
		return 0, false
	}
	return (uint64(t) - uint64(g)) / uint64(bt), true
}

// slotGridOracle: the executer's slot calculator on both sides of the first slot boundaries and of the boundaries
// around the current time, and the start times it reports.
func (r *Runner) slotGridOracle() {
	n := r.n
	if n == nil || n.Exec == nil || n.Cfg.BlockTime == 0 {
		return
	}
	bs := n.BlockSlot()
	g, bt := uint64(n.Genesis.Header.Timestamp), uint64(n.Cfg.BlockTime)
	nowSlot := (uint64(time.Now().Unix()) - g) / bt
	for _, k := range []uint64{0, 1, 2, 3, nowSlot, nowSlot + 1} {
		first := g + k*bt
		if first+bt >= 1<<32 {
			continue
		}
		if st := bs.GetSlotTime(int(k)); uint64(st) != first {
			r.fail("c07-node-slot-grid-differs-from-LIP14", fmt.Sprintf("GetSlotTime(%d) = %d; genesis timestamp %d (residue %d modulo the block time %d) + %d block times = %d", k, st, g, g%bt, bt, k, first))
			return
		}
		for _, t := range []uint64{first, first + 1, first + bt - 1, first + bt} {
			want := (t - g) / bt
			if got := bs.GetSlotNumber(uint32(t)); got < 0 || uint64(got) != want {
				r.fail("c07-node-slot-grid-differs-from-LIP14", fmt.Sprintf("GetSlotNumber(%d) = %d; genesis timestamp %d (residue %d modulo the block time %d): floor((t-genesis)/blockTime) = %d", t, got, g, g%bt, bt, want))
				return
			}
		}
	}
}

// tieBreakOracle: for an incoming block with the height, maxHeightPrevoted and parent of the tip (and another
// generator and id), Executer.process must answer "tieBreak" exactly when, on the LIP-0014 grid, the block belongs
// to a later slot than the tip, the tip has a recorded receive time outside its slot and the block was received
// (between now0 and now1) within its own slot.
func (r *Runner) tieBreakOracle(tip, cur *blockchain.BlockHeader, tipReceived *time.Time, now0, now1 time.Time, verdict string) {
	n := r.n
	if r.poisoned || n == nil || tip == nil || cur == nil || verdict == "" {
		return
	}
	if tip.Height != cur.Height || tip.MaxHeightPrevoted != cur.MaxHeightPrevoted || !bytes.Equal(tip.PreviousBlockID, cur.PreviousBlockID) ||
		bytes.Equal(tip.ID, cur.ID) || bytes.Equal(tip.GeneratorAddress, cur.GeneratorAddress) {
		return
	}
	if tip.Height+1 == cur.Height && bytes.Equal(tip.ID, cur.PreviousBlockID) {
		return
	}
	ls, ok1 := lipSlot(n, tip.Timestamp)
	cs, ok2 := lipSlot(n, cur.Timestamp)
	n0, ok3 := lipSlot(n, uint32(now0.Unix()))
	n1, ok4 := lipSlot(n, uint32(now1.Unix()))
	if !ok1 || !ok2 || !ok3 || !ok4 || n0 != n1 {
		return // before the genesis timestamp, or the wall clock crossed a slot boundary during the call
	}
	tipInSlot := true
	if tipReceived != nil {
		rs, ok := lipSlot(n, uint32(tipReceived.Unix()))
		if !ok {
			return
		}
		tipInSlot = rs == ls
	}
	want := ls < cs && !tipInSlot && n0 == cs
	if got := verdict == "tieBreak"; got != want {
		r.fail("c07-node-tiebreak-differs-from-LIP14-slots", fmt.Sprintf("block at height %d (timestamp %d) against the tip (timestamp %d, received %v): fork choice %q, LIP-0014 tie break %v (genesis timestamp %d, residue %d modulo the block time %d; slots: tip %d, block %d, now %d, tip received within its slot: %v)",
			cur.Height, cur.Timestamp, tip.Timestamp, tipReceived, verdict, want, n.Genesis.Header.Timestamp, n.Genesis.Header.Timestamp%n.Cfg.BlockTime, n.Cfg.BlockTime, ls, cs, n0, tipInSlot))
	}
}
