package c04

// C04SERVED (model-free pseudo-property of C04): "the block ID served for every finalized height stays the same
// forever" judged on EVERY accessor of blockchain.DataAccess / blockchain.Chain that serves headers or blocks, over
// histories in which the block cache is small and re-organisations are deeper than the cache.
//
// History family (ServedScript): a node with a block cache of 2..5 entries grows until the unfinalized suffix holds
// at least two cache refills; the tip is removed more often in a row than the cache holds (one deep run, two runs
// with a short extension in between, or a run of three cache sizes - Chain.RemoveBlock leaves the pop path for its
// refill path once per cache size); other blocks are applied on the shortened chain and the chain grows until every
// replaced height has left the block cache AND is finalized; the node is restarted and grows a little more. After
// EVERY step of the replay
//
//   - the lookup oracle of lookups.go asks every public lookup for every id / height the history has shown (this is
//     also what puts by-height lookups BELOW the block cache into the history, at every step), and
//   - servedState.check walks the chain from the cached tip along the previousBlockID links (by-id accessor), and
//     compares every by-height / by-id accessor at every height <= tip (and the two heights above) with that chain
//     and with the height index of the database, and records per (accessor, finalized height) the ID served: it must
//     never change for the rest of the history, restarts included.
//
// Signatures
//
//	c04-lookup-not-of-chain           an accessor serves a header / block that is not the one of the node's chain
//	                                  (or serves something above the tip, or does not serve a chain height)
//	c04-finalized-id-served-changed   the ID an accessor serves for a finalized height differs from the ID the same
//	                                  accessor served for it earlier (since the height was finalized)
//	c04-served-id-not-hash-of-header  a served header carries an ID that is not the hash of its serialisation (blocks
//	                                  arrive canonically and NON-canonically encoded: ParseBlock nc=1)
//	c04-lookup-panic                  an accessor panicked
//
// Nothing here reads the block cache or any other in-memory index of the code under test.

import (
	"bytes"
	"crypto/sha256"
	"fmt"
	"math/rand"
	"strings"
	"time"

	"github.com/LiskHQ/lisk-engine/pkg/blockchain"

	"verifharness/corr"
)

type servedProp struct{}

func init() { corr.Register(servedProp{}) }

func (servedProp) ID() string                 { return "C04SERVED" }
func (servedProp) NoModel() bool              { return true }
func (servedProp) Parallel() int              { return 6 }
func (servedProp) CaseTimeout() time.Duration { return 3 * time.Minute }

// ---------------------------------------------------------------------------------------------------------------
// generator

// servedRecorder: a node whose finality lags far enough behind the tip for removals of two cache sizes.
func servedRecorder(rng *rand.Rand) (*Recorder, error) {
	var last *Recorder
	for try := 0; try < 12; try++ {
		r, err := NewRecorder(rng, Profile{SmallCache: true, TxHeavy: true})
		if err != nil {
			return nil, err
		}
		if last != nil {
			last.Close()
		}
		last = r
		// the more validators, the longer the unfinalized suffix; small caches need less of it
		if r.N.Cfg.NumValidators >= 3 && r.N.Cfg.MaxBlockCache <= 4 {
			break
		}
	}
	return last, nil
}

func (r *Recorder) dist() int { return int(r.N.Height()) - int(r.N.Finalized()) }

// growTo extends the chain block by block until the unfinalized suffix has `want` blocks (or the budget is used up).
func (r *Recorder) growTo(want, budget int) {
	for i := 0; i < budget && r.Err == nil && r.N.Tip() != nil && r.dist() < want; i++ {
		r.Extend(1)
	}
}

// removeRun removes k blocks in a row (saveTemp as drawn); a refused removal ends the run. Returns the number removed.
func (r *Recorder) removeRun(k int) int {
	n := r.N
	st := r.Rng.Intn(3) == 0
	done := 0
	for i := 0; i < k && n.Tip() != nil; i++ {
		err := DeleteBlock(n, n.Tip(), st)
		n.DrainEvents()
		r.Ops = append(r.Ops, "del st="+b2s(st))
		if err != nil {
			r.tag("del:refused")
			break
		}
		done++
	}
	r.fixMHG()
	if st {
		n.Chain.DataAccess().ClearTempBlocks()
		r.Ops = append(r.Ops, "cleartemp")
	}
	return done
}

// ServedScript is the history of the family (see the file comment).
func (r *Recorder) ServedScript(variant int) {
	rng := r.Rng
	n := r.N
	c := n.Cfg.MaxBlockCache
	r.Extend(c + 1 + rng.Intn(3))
	want := 2*c + rng.Intn(2)
	if variant == 2 {
		want = 3*c + rng.Intn(2)
	}
	r.growTo(want, 70)
	if r.Err != nil || n.Tip() == nil {
		return
	}
	if rng.Intn(2) == 0 {
		r.SyncCtx() // the finalized block header of a sync context: one more by-height reader
	}
	top := n.Height()
	removed := 0
	switch variant {
	case 1: // two runs: the second one starts from a cache that a refill and a few pushes have shaped
		removed = r.removeRun(c + rng.Intn(2))
		r.Extend(1 + rng.Intn(2))
		if n.Tip() != nil {
			removed += r.removeRun(min(r.dist(), c+1+rng.Intn(c)))
		}
	default:
		k := r.dist()
		if k > want {
			k = want
		}
		if rng.Intn(4) == 0 {
			k++ // one more than the finalized height allows: the last one must be refused
		}
		removed = r.removeRun(k)
	}
	if removed >= 2*c {
		r.tag("served-two-refills")
	} else if removed >= c {
		r.tag("served-one-refill")
	}
	if r.Err != nil || n.Tip() == nil {
		return
	}
	// the better chain: grows until every replaced height is finalized and has left the block cache again
	for i := 0; i < 90 && r.Err == nil && n.Tip() != nil && (n.Finalized() < top || n.Height() < top+uint32(c)+1); i++ {
		r.Extend(1)
	}
	if n.Tip() != nil && n.Finalized() >= top {
		r.tag("served-replaced-finalized")
	}
	if r.Err != nil || n.Tip() == nil {
		return
	}
	r.restartOnly()
	if r.Err == nil && n.Tip() != nil {
		r.Extend(1 + rng.Intn(2))
	}
}

func min(a, b int) int {
	if a < b {
		return a
	}
	return b
}

func (servedProp) Generate(rng *rand.Rand, tier string) []corr.Case {
	k := 6
	if tier == "thorough" {
		k = 60
	}
	var cases []corr.Case
	for i := 0; i < k; i++ {
		r, err := servedRecorder(rng)
		if err != nil || r == nil {
			continue
		}
		cacheSize := r.N.Cfg.MaxBlockCache
		func() {
			defer r.Close()
			defer func() {
				if x := recover(); x != nil {
					r.Err = fmt.Errorf("recorder panic: %v", x)
				}
			}()
			r.ServedScript(i % 3)
		}()
		var tags []string
		for _, t := range []string{"served-two-refills", "served-one-refill", "served-replaced-finalized", "restart"} {
			if r.Tags[t] > 0 {
				tags = append(tags, t)
			}
		}
		if r.Err != nil {
			tags = append(tags, "recorder-error")
		}
		if len(r.Ops) < 2 {
			continue
		}
		// a third of the blocks arrive non-canonically encoded (ParseBlock nc=1): same block, same ID - whatever path
		// (cache, database after eviction, database after a restart) serves it later
		ops := append([]string{}, r.Ops...)
		for j, op := range ops {
			if (strings.HasPrefix(op, "proc ") || strings.HasPrefix(op, "pv ")) && rng.Intn(3) == 0 {
				ops[j] = op + " nc=1"
			}
		}
		cases = append(cases, corr.Case{Ops: ops, Tag: fmt.Sprintf("served-v%d-cache%d+", i%3, cacheSize) + strings.Join(tags, "+")})
	}
	return cases
}

func (servedProp) Classify(c corr.Case, out []string) string {
	if len(out) < 3 {
		return ""
	}
	return c.Tag
}

// ---------------------------------------------------------------------------------------------------------------
// replay + oracle

// the lookups of lookups.go that serve headers / blocks: their findings are findings of C04's clause as well
var servedAPIs = map[string]bool{"GetBlockHeaderByHeight": true, "GetBlockHeadersByHeights": true, "GetBlockByHeight": true, "GetBlockHeader": true,
	"GetBlockHeaders": true, "GetBlock": true, "GetBlocksBetweenHeight": true, "GetLastNBlocks": true, "GetLastBlock": true, "GetLastBlockHeader": true,
	"CachedLastBlock": true, "LastBlock": true, "panic": true}

type servedState struct {
	served   map[string][]byte // accessor@height -> ID served since the height is finalized
	told     map[string]bool
	restarts int
	since    map[string]int // accessor@height -> number of restarts when the ID was recorded
}

func (servedProp) RunImpl(c corr.Case) ([]string, []corr.Fail) {
	r := &Runner{Notes: map[string]int{}, Lookups: true}
	defer r.close()
	s := &servedState{served: map[string][]byte{}, told: map[string]bool{}, since: map[string]int{}}
	var out []string
	for i, op := range c.Ops {
		r.op = i
		line := r.safeStep(op)
		w := strings.Fields(op)
		if len(w) > 0 && w[0] == "reset" {
			s.served, s.since, s.restarts = map[string][]byte{}, map[string]int{}, 0
		}
		if len(w) > 0 && strings.HasPrefix(w[0], "restart") {
			s.restarts++
		}
		s.check(r)
		out = append(out, line)
	}
	var mine []corr.Fail
	for _, f := range r.fails {
		switch {
		case strings.HasPrefix(f.Sig, "c05-lookup-"):
			rest := strings.TrimPrefix(f.Sig, "c05-lookup-")
			api := rest
			if j := strings.Index(rest, "-"); j >= 0 {
				api = rest[:j]
			}
			if servedAPIs[api] {
				mine = append(mine, corr.Fail{Sig: "c04-lookup-not-of-chain", Detail: rest + ": " + f.Detail, Op: f.Op})
			}
		case strings.HasPrefix(f.Sig, "c04-"), strings.HasPrefix(f.Sig, "node-"):
			mine = append(mine, f)
		}
	}
	// a stale answer shows again at every later step: the first two findings per signature name the failing input
	perSig := map[string]int{}
	var kept []corr.Fail
	for _, f := range mine {
		if perSig[f.Sig]++; perSig[f.Sig] <= 2 {
			kept = append(kept, f)
		}
	}
	return out, kept
}

func (s *servedState) bad(r *Runner, sig, key, format string, a ...interface{}) {
	if s.told[sig+"/"+key] || len(s.told) > 40 {
		return
	}
	s.told[sig+"/"+key] = true
	r.fail(sig, fmt.Sprintf(format, a...))
}

// check is the oracle of this file, run after every step.
func (s *servedState) check(r *Runner) {
	n := r.n
	if n == nil || n.Chain == nil || r.poisoned {
		return
	}
	defer func() {
		if x := recover(); x != nil {
			s.bad(r, "c04-lookup-panic", "", "an accessor of DataAccess / Chain panicked: %v", x)
		}
	}()
	tipBlock := n.Chain.LastBlock()
	if tipBlock == nil {
		return
	}
	da := n.Chain.DataAccess()
	gh := n.Cfg.GenesisHeight
	tip := tipBlock.Header.Height
	cache := n.Cfg.MaxBlockCache
	// ---- the chain the node is on: the ancestry of the tip, by id
	chain := map[uint32][]byte{tip: tipBlock.Header.ID}
	prev := tipBlock.Header.PreviousBlockID
	for h := tip; h > gh; h-- {
		hd, err := da.GetBlockHeader(prev)
		if err != nil || hd == nil {
			s.bad(r, "c04-lookup-not-of-chain", "walk", "tip %d (cache %d): GetBlockHeader(%s), the parent of the chain block at height %d: %v", tip, cache, short(prev), h, err)
			return
		}
		if hd.Height != h-1 || !bytes.Equal(hd.ID, prev) {
			s.bad(r, "c04-lookup-not-of-chain", "walk", "tip %d (cache %d): GetBlockHeader(%s) serves block %s of height %d as the parent of height %d", tip, cache, short(prev), short(hd.ID), hd.Height, h)
			return
		}
		chain[h-1] = hd.ID
		prev = hd.PreviousBlockID
	}
	fin, err := da.GetFinalizedHeight()
	if err != nil {
		return // reported by the oracles of engine.go
	}
	if fin > tip {
		fin = tip
	}
	// ---- every accessor at every height
	type answer struct {
		api string
		id  []byte // nil: not served
		err error
	}
	var hs []uint32
	for h := gh; h <= tip; h++ {
		hs = append(hs, h)
	}
	many, manyErr := da.GetBlockHeadersByHeights(append(append([]uint32{}, hs...), tip+1, tip+2))
	if manyErr != nil || len(many) != len(hs) {
		s.bad(r, "c04-lookup-not-of-chain", "GetBlockHeadersByHeights", "tip %d (cache %d): GetBlockHeadersByHeights(%d..%d): %d headers for a chain of %d blocks (%v)", tip, cache, gh, tip+2, len(many), len(hs), manyErr)
		many = nil
	}
	for i, h := range hs {
		want := chain[h]
		var as []answer
		hd, err := da.GetBlockHeaderByHeight(h)
		a := answer{api: "GetBlockHeaderByHeight", err: err}
		if err == nil && hd != nil {
			a.id = hd.ID
			// the block ID is the hash of the (canonically) serialised header: an ID that is anything else changes
			// as soon as the header is read back from the database
			if sum := sha256.Sum256(hd.Encode()); !bytes.Equal(sum[:], hd.ID) {
				s.bad(r, "c04-served-id-not-hash-of-header", fmt.Sprint(h), "tip %d (cache %d): GetBlockHeaderByHeight(%d) serves a header with ID %s whose serialisation hashes to %s", tip, cache, h, short(hd.ID), short(sum[:]))
			}
		}
		as = append(as, a)
		blk, err := da.GetBlockByHeight(h)
		a = answer{api: "GetBlockByHeight", err: err}
		if err == nil && blk != nil && blk.Header != nil {
			a.id = blk.Header.ID
		}
		as = append(as, a)
		if many != nil {
			as = append(as, answer{api: "GetBlockHeadersByHeights", id: many[i].ID})
		}
		bs, err := da.GetBlocksBetweenHeight(h, h)
		a = answer{api: "GetBlocksBetweenHeight", err: err}
		if err == nil && len(bs) == 1 && bs[0] != nil {
			a.id = bs[0].Header.ID
		}
		as = append(as, a)
		// the height index of the database, and the block stored under that id
		if id, ok := n.DB.Get(key32(4, h)); ok {
			as = append(as, answer{api: "database-height-index", id: id})
			b, err := da.GetBlock(id)
			a = answer{api: "GetBlock(index)", err: err}
			if err == nil && b != nil && b.Header.Height == h {
				a.id = b.Header.ID
			}
			as = append(as, a)
		} else {
			as = append(as, answer{api: "database-height-index"})
		}
		for _, a := range as {
			if !bytes.Equal(a.id, want) {
				s.bad(r, "c04-lookup-not-of-chain", a.api, "tip %d, finalized %d (cache %d, %d restarts): %s serves block %s for height %d (err %v); the chain of the tip has block %s there",
					tip, fin, cache, s.restarts, a.api, short(a.id), h, a.err, short(want))
			}
			if h > fin {
				continue
			}
			k := fmt.Sprintf("%s@%d", a.api, h)
			if old, ok := s.served[k]; !ok {
				s.served[k] = append([]byte{}, a.id...)
				s.since[k] = s.restarts
			} else if !bytes.Equal(old, a.id) {
				s.bad(r, "c04-finalized-id-served-changed", k, "finalized height %d (finalized %d, tip %d, cache %d): %s served block %s before (at %d restarts) and serves block %s now (at %d restarts, err %v)",
					h, fin, tip, cache, a.api, short(old), s.since[k], short(a.id), s.restarts, a.err)
				s.served[k] = append([]byte{}, a.id...)
				s.since[k] = s.restarts
			}
		}
	}
	// ---- nothing is served above the tip
	for _, h := range []uint32{tip + 1, tip + 2} {
		if hd, err := da.GetBlockHeaderByHeight(h); err == nil {
			s.bad(r, "c04-lookup-not-of-chain", "above", "tip %d (cache %d): GetBlockHeaderByHeight serves block %s for height %d above the tip", tip, cache, short(hd.ID), h)
		}
		if b, err := da.GetBlockByHeight(h); err == nil {
			s.bad(r, "c04-lookup-not-of-chain", "above", "tip %d (cache %d): GetBlockByHeight serves block %s for height %d above the tip", tip, cache, short(b.Header.ID), h)
		}
	}
	// ---- the tip accessors
	for _, t := range []struct {
		api string
		get func() (*blockchain.BlockHeader, error)
	}{
		{"GetLastBlockHeader", da.GetLastBlockHeader},
		{"GetLastBlock", func() (*blockchain.BlockHeader, error) {
			b, err := da.GetLastBlock()
			if err != nil || b == nil {
				return nil, err
			}
			return b.Header, nil
		}},
		{"CachedLastBlock", func() (*blockchain.BlockHeader, error) {
			b := da.CachedLastBlock()
			if b == nil {
				return nil, nil
			}
			return b.Header, nil
		}},
	} {
		hd, err := t.get()
		if err != nil || hd == nil || !bytes.Equal(hd.ID, chain[tip]) {
			s.bad(r, "c04-lookup-not-of-chain", t.api, "tip %d (cache %d): %s does not serve the tip block %s (err %v)", tip, cache, t.api, short(chain[tip]), err)
		}
	}
	r.Notes["served-oracle-steps"]++
}
