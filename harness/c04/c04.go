package c04

import (
	"fmt"
	"math/rand"
	"strings"
	"time"

	"verifharness/corr"
)

// Prop is the corr.Property of C04 or C05 (same engine, different history profiles and oracle filter).
type Prop struct {
	Id       string
	Prefixes []string // signatures of the model-free oracle that belong to this property
	Profiles func(rng *rand.Rand, tier string) []Profile
}

func init() {
	corr.Register(Prop{Id: "C04", Prefixes: []string{"c04-", "node-"}, Profiles: c04Profiles})
	// the same node histories judged by the fork-choice oracle of C07 (receive-time bookkeeping of Executer.process)
	corr.Register(Prop{Id: "C07NODE", Prefixes: []string{"c07-", "node-"}, Profiles: c04Profiles})
}

func (p Prop) ID() string                 { return p.Id }
func (p Prop) Parallel() int              { return 6 }
func (p Prop) CaseTimeout() time.Duration { return 3 * time.Minute }

func c04Profiles(rng *rand.Rand, tier string) []Profile {
	n := 28
	if tier == "thorough" {
		n = 420
	}
	var ps []Profile
	for i := 0; i < n; i++ {
		// StartBias: starts of the node on its database with a foreign genesis block / changed configuration (`restartg`)
		p := Profile{Steps: 8 + rng.Intn(10), DeleteBias: 0.8, ForkBias: 0.9, RestartBias: 0.06, StartBias: 0.07}
		switch i % 7 {
		case 4, 6:
			p.RestartBias = 0.3 // restart-heavy: every guard of the property is evaluated right after restarts
		case 0, 3:
			p.TieBreak = true
			p.ForkBias = 2.5
		case 1:
			p.SmallCache = true
		case 2:
			p.ValidatorCh = true
		case 5:
			p.Steps += 10 // long chains: finality advances several times
			p.DeleteBias = 1.5
		}
		ps = append(ps, p)
	}
	// failure-injection family (appended: the profiles above keep their random draws), inject.go
	ps = append(ps, InjectProfiles(rng, tier)...)
	// stale-argument family (appended last: everything above keeps its random draws), stale.go
	return append(ps, StaleProfiles(tier)...)
}

// InjectProfiles: the failure sweeps (every injection kind once at every step kind: apply, sync apply, delete,
// tie-break) and ordinary histories in which a third of the steps runs with a random failure armed.
func InjectProfiles(_ *rand.Rand, tier string) []Profile {
	k := 1
	if tier == "thorough" {
		k = 12
	}
	var ps []Profile
	for i := 0; i < k; i++ {
		for _, sw := range []string{"apply", "sync", "delete", "tie"} {
			ps = append(ps, Profile{Sweep: sw, TieBreak: sw == "tie", SmallCache: i%3 == 2, TxHeavy: i%2 == 1})
		}
		// (no draw from rng here: the profiles are drawn before the first history is recorded)
		ps = append(ps, Profile{Steps: 10 + (3*i)%8, DeleteBias: 1.2, ForkBias: 0.9, RestartBias: 0.06, Inject: 0.3})
		ps = append(ps, Profile{Steps: 10 + (5*i+3)%8, DeleteBias: 1.0, ForkBias: 2.5, TieBreak: true, Inject: 0.3})
	}
	return ps
}

// arithmetic appends calls of the synchronisers' height selection.
func arithmetic(rng *rand.Rand, k int) []string {
	var ops []string
	pick := func() uint64 {
		switch rng.Intn(6) {
		case 0:
			return uint64(rng.Intn(4))
		case 1:
			return uint64(4294967295 - uint32(rng.Intn(40)))
		case 2:
			return uint64(rng.Intn(1 << 30))
		default:
			return uint64(rng.Intn(3000))
		}
	}
	for i := 0; i < k; i++ {
		if rng.Intn(3) == 0 {
			ops = append(ops, fmt.Sprintf("lasth %d %d", pick(), rng.Intn(220)))
			continue
		}
		start, min := pick(), pick()
		if rng.Intn(3) == 0 {
			min = start - uint64(rng.Intn(int(start%50+1)))
		}
		gap := []int{1, 2, 4, 7, 11, 101, 103}[rng.Intn(7)]
		num := []int{0, 1, 2, 3, 10, 10, 10, 25}[rng.Intn(8)]
		ops = append(ops, fmt.Sprintf("gap %d %d %d %d", start, min, gap, num))
	}
	return ops
}

func (p Prop) Generate(rng *rand.Rand, tier string) []corr.Case {
	var cases []corr.Case
	for i, prof := range p.Profiles(rng, tier) {
		ops, tag, err := Record(rng, prof)
		if err != nil && len(ops) == 0 {
			continue
		}
		if err != nil {
			tag += "+recorder-error"
		}
		if i%4 == 0 {
			ops = append(ops, arithmetic(rng, 12)...)
		}
		if tag == "" {
			tag = "plain"
		}
		cases = append(cases, corr.Case{Ops: ops, Tag: tag})
	}
	// one case that only exercises the height selection
	if len(cases) > 0 {
		reset := cases[0].Ops[0]
		k := 150
		if tier == "thorough" {
			k = 3000
		}
		cases = append(cases, corr.Case{Ops: append([]string{reset}, arithmetic(rng, k)...), Tag: "sync-heights"})
	}
	return cases
}

func (p Prop) RunImpl(c corr.Case) ([]string, []corr.Fail) {
	replay := Replay
	for _, pre := range p.Prefixes {
		if pre == "c05-" {
			replay = ReplayLookups // C05: every public lookup is compared with the current chain after every step
		}
	}
	out, fails := replay(c)
	var mine []corr.Fail
	for _, f := range fails {
		for _, pre := range p.Prefixes {
			if strings.HasPrefix(f.Sig, pre) {
				mine = append(mine, f)
				break
			}
		}
	}
	return out, mine
}

// Classify names the behaviours a case exercised.
func (p Prop) Classify(c corr.Case, out []string) string {
	has := map[string]bool{}
	maxFin := 0
	dels := 0
	for i, l := range out {
		w := strings.Fields(l)
		if len(w) == 0 {
			continue
		}
		op := strings.Fields(c.Ops[i])[0]
		switch op {
		case "proc":
			has[w[0]] = true
		case "del":
			if w[0] == "ok" {
				dels++
			} else {
				has["del-refused"] = true
			}
		case "delat":
			has["delat-"+w[0]] = true
		case "delarg": // stale.go
			has["delarg-"+w[0]] = true
		case "restart", "till", "twin", "gap", "lasth", "forge":
			has[op] = true
		case "restartg":
			a := args(c.Ops[i])
			k := a["v"]
			if k == "genesis" {
				k = "genesis-" + w[0] // refused (err) or accepted (ok)
			}
			has["restartg-"+k] = true
		case "sctx":
			has["sctx"] = true
		case "pv":
			has["pv-"+w[0]] = true
		}
		if strings.Contains(c.Ops[i], " inj=") {
			has["inject"] = true
		}
		if i > 0 && (op == "sctx" || op == "delat" || op == "till") && strings.HasPrefix(c.Ops[i-1], "restart") {
			has["restart-guard"] = true
		}
		if op == "pv" && w[0] == "ok" && strings.Contains(c.Ops[i], " sy=1 ") && strings.Contains(l, "ev=fin:") {
			has["pv-sync-fin"] = true
		}
		for _, t := range w {
			if strings.HasPrefix(t, "fin=") {
				var f int
				fmt.Sscanf(t[4:], "%d", &f)
				if f > maxFin {
					maxFin = f
				}
			}
		}
	}
	if maxFin == 0 && dels == 0 && !has["gap"] {
		return ""
	}
	var keys []string
	for _, k := range []string{"tieBreakApplied", "tieBreakReverted", "doubleForging", "identical", "discard", "wouldSync", "err", "del-refused", "delat-err", "restart", "restart-guard", "sctx", "till", "twin", "pv-ok", "pv-sync-fin", "gap",
		"restartg-genesis-err", "restartg-genesis-ok", "restartg-cfg", "restartg-chainid", "inject", "forge"} {
		if has[k] {
			keys = append(keys, k)
		}
	}
	for _, k := range []string{"delarg-ok", "delarg-err"} { // stale.go
		if has[k] {
			keys = append(keys, k)
		}
	}
	fin := "fin0"
	if maxFin > 0 {
		fin = "fin+"
	}
	d := "del0"
	if dels > 0 {
		d = "del+"
	}
	return fin + "," + d + "," + strings.Join(keys, ",")
}
