package c04

// Pseudo-property C04WRITER (model free, run as part of C04 through `also`): the SINGLE-WRITER assumption of
// the consensus path on the real, RUNNING Executer.
//
// Executer.process / processValidated / deleteBlock take no lock: they read the stored finalized height and
// the BFT heights, call the application and only then write block + max(current, maxHeightPrecommited) with
// Chain.AddBlock. All C04 theorems (and the C04 / C05 histories) run them as a LIST of operations. That is the
// node's semantics only as long as one goroutine - the loop of Executer.Start - ever runs them and every other
// goroutine (p2p handler onBlockReceived; generator / postBlock endpoint through AddInternal) merely enqueues.
// Props/C04_SingleWriter.lean states this about the source (tie A); here it is checked on the running code:
//
//   - a real Executer on the node harness, its Start loop running on its own goroutine;
//   - the application (MockABI) wrapped by a recorder that notes, for every ABI call, the calling goroutine and
//     the block session it belongs to (InitStateMachine .. Clear), and that can HOLD the loop inside any hook of
//     a chosen block X - the application call is the slow part of block processing (`hold`);
//   - while the loop is held, other goroutines hand in blocks: gossip through the registered postBlock handler
//     (`fill`, any level up to and beyond the queue capacity of 200), competing blocks Y for the height of X
//     through AddInternal, the chain_postBlock endpoint or gossip (`offer`), Y with or without implied votes;
//   - the loop is released and drained (`release`), the node is judged (`check`).
//
// Oracles (none uses a model):
//   c04w-abi-foreign-goroutine   an ABI call made while the loop runs comes from a goroutine other than the loop's
//   c04w-abi-overlap             ABI calls of two goroutines in flight at once / a block session opened while
//                                another block's session is open / a call on a session another block closed
//   c04w-offer-not-enqueue-only  handing in a block while the loop is held changed the database or the tip, or
//                                the queue length is not min(cap, before+1)
//   c04w-offer-blocked           AddInternal / the handler did not return (they must never block)
//   c04w-fin-decreased           the stored finalized height was observed to decrease
//   c04w-tip-mismatch            cached tip is not the block the database index serves for the largest height
//   c04w-index-chain             the height index is not a chain (height -> id -> header.height / previousBlockID)
//   c04w-fin-above-tip           stored finalized height above the tip
//   c04w-finalize-events         the finalize events are not the chain of raises ending at the stored height
//   c04w-app-inconsistency       the application saw a request it considers a protocol violation of the engine
//                                (commit on a wrong base, revert of a block that is not its tip) - strict mode
//   c04w-not-sequential          the final database differs from the one of a twin node that processed the
//                                ACCEPTED blocks (queue order; a block offered to a full queue is dropped) one
//                                after the other: "every concurrent execution of enqueuers and the loop is a list"
//   c04w-drain-timeout           the loop did not work off the queue
//
// app=strict: the MockABI checks base roots (a real application); app=lenient: Commit / Revert answer the
// expected root without looking (an application that relies on the engine's serialisation), which lets the
// lost update of the finalized height reach the database when two goroutines are inside process.
//
// Ops (one output line each):
//   reset vals=N seed=S pre=K app=strict|lenient     node with N validators, K blocks applied, recorder installed
//   start                                            go Executer.Start()
//   feed n=K                                         K next blocks through gossip, one at a time
//   hold x=vote|novote hook=H when=before|after txs=K   next block X (K transactions) through gossip, loop held in hook H of X
//   fill n=K kind=tip|old|mixed                      K gossiped blocks from another goroutine
//   offer y=vote|novote slot=D via=internal|endpoint|gossip    competing block Y (D slots after the tip's)
//   release                                          release the loop, wait until the queue is worked off
//   check                                            oracles

import (
	"bytes"
	"context"
	"encoding/json"
	"fmt"
	"math/rand"
	"runtime"
	"strconv"
	"strings"
	"sync"
	"time"

	"github.com/LiskHQ/lisk-engine/pkg/blockchain"
	"github.com/LiskHQ/lisk-engine/pkg/consensus"
	"github.com/LiskHQ/lisk-engine/pkg/engine/endpoint"
	"github.com/LiskHQ/lisk-engine/pkg/labi"
	"github.com/LiskHQ/lisk-engine/pkg/p2p"
	"github.com/LiskHQ/lisk-engine/pkg/router"
	"github.com/LiskHQ/lisk-engine/pkg/rpc"

	"verifharness/corr"
	"verifharness/node"
)

type writerProp struct{}

func init() { corr.Register(writerProp{}) }

func (writerProp) ID() string                 { return "C04WRITER" }
func (writerProp) NoModel() bool              { return true }
func (writerProp) Parallel() int              { return 4 }
func (writerProp) CaseTimeout() time.Duration { return 2 * time.Minute }

// WriterCases / WriterRun expose the generator and the runner to verifharness/c04race (the same cases under the
// Go race detector).
func WriterCases(rng *rand.Rand, tier string) []corr.Case { return writerProp{}.Generate(rng, tier) }
func WriterRun(c corr.Case) ([]string, []corr.Fail)       { return writerProp{}.RunImpl(c) }

// ---------------------------------------------------------------------------------------------
// generator

var writerHooks = []string{"Commit", "Commit", "Commit", "AfterTransactionsExecute", "BeforeTransactionsExecute", "VerifyAssets", "InitStateMachine", "Clear",
	"VerifyTransaction", "ExecuteTransaction"}

func (writerProp) Generate(rng *rand.Rand, tier string) []corr.Case {
	n := 21
	if tier == "thorough" {
		n = 420
	}
	var cases []corr.Case
	// the boundary itself, always present: the loop is inside the application's Commit of a block X that implies no
	// votes, the queue is exactly full, the node's own block Y for the same height (it raises finality) is handed in
	for k, app := range []string{"lenient", "strict"} {
		when, via := []string{"after", "before"}[k], []string{"internal", "endpoint"}[k]
		cases = append(cases, corr.Case{Tag: "boundary-" + app, Ops: []string{
			fmt.Sprintf("reset vals=1 seed=%d pre=%d app=%s", 1+rng.Intn(1000), 4+rng.Intn(6), app), "start",
			fmt.Sprintf("hold x=novote hook=Commit when=%s txs=0", when), "fill n=200 kind=tip",
			fmt.Sprintf("offer y=vote slot=2 via=%s", via), "release", "check"}})
	}
	for i := 0; i < n; i++ {
		vals := 1
		if rng.Intn(2) == 0 {
			vals = 2 + rng.Intn(3)
		}
		pre := 4 + rng.Intn(6)
		if vals > 1 {
			pre = 3*vals + rng.Intn(5)
		}
		app := "strict"
		if i%2 == 1 {
			app = "lenient"
		}
		ops := []string{fmt.Sprintf("reset vals=%d seed=%d pre=%d app=%s", vals, 1+rng.Intn(1000), pre, app), "start"}
		if rng.Intn(3) == 0 {
			ops = append(ops, fmt.Sprintf("feed n=%d", 1+rng.Intn(3)))
		}
		rounds := 1
		if rng.Intn(4) == 0 {
			rounds = 2
		}
		tag := ""
		for r := 0; r < rounds; r++ {
			// the competing pair: X is held in the loop, Y arrives from another goroutine
			x, y := "novote", "vote"
			switch rng.Intn(5) {
			case 0:
				x, y = "vote", "vote"
			case 1:
				x, y = "vote", "novote"
			}
			hook := writerHooks[rng.Intn(len(writerHooks))]
			when := []string{"before", "after"}[rng.Intn(2)]
			txs := 0
			if strings.HasSuffix(hook, "Transaction") {
				txs = 1 + rng.Intn(3)
			} else if rng.Intn(4) == 0 {
				txs = 1 + rng.Intn(2)
			}
			ops = append(ops, fmt.Sprintf("hold x=%s hook=%s when=%s txs=%d", x, hook, when, txs))
			// queue level when Y arrives: i%7 spreads the profiles; the boundary (exactly full) is the common one
			level := 200
			switch i % 7 {
			case 2:
				level = 199
			case 4:
				level = []int{0, 1, 5}[rng.Intn(3)]
			case 6:
				level = 200 + 1 + rng.Intn(8)
			}
			kind := []string{"tip", "old", "mixed"}[rng.Intn(3)]
			if level > 0 {
				ops = append(ops, fmt.Sprintf("fill n=%d kind=%s", level, kind))
			}
			offers := 1 + rng.Intn(2)
			for k := 0; k < offers; k++ {
				via := []string{"internal", "internal", "endpoint", "gossip"}[rng.Intn(4)]
				if k == 0 && i%7 != 5 {
					via = []string{"internal", "endpoint"}[rng.Intn(2)]
				}
				yk := y
				if k > 0 && rng.Intn(2) == 0 {
					yk = "novote"
				}
				ops = append(ops, fmt.Sprintf("offer y=%s slot=%d via=%s", yk, 2+k, via))
			}
			ops = append(ops, "release", "check")
			tag += fmt.Sprintf("q%d-%s-%s ", level, hook, app)
		}
		cases = append(cases, corr.Case{Ops: ops, Tag: strings.TrimSpace(tag)})
	}
	return cases
}

func (writerProp) Classify(c corr.Case, out []string) string {
	has := map[string]bool{}
	for i, l := range out {
		if i >= len(c.Ops) {
			break
		}
		op := strings.Fields(c.Ops[i])[0]
		switch op {
		case "hold":
			if strings.HasPrefix(l, "held") {
				has["held"] = true
			}
		case "offer":
			if strings.Contains(l, "accepted=0") {
				has["dropped"] = true
			}
			if strings.Contains(l, "accepted=1") {
				has["queued"] = true
			}
		case "release":
			if strings.Contains(l, "finraised=1") {
				has["fin+"] = true
			}
		}
	}
	if !has["held"] {
		return ""
	}
	var keys []string
	for _, k := range []string{"held", "dropped", "queued", "fin+"} {
		if has[k] {
			keys = append(keys, k)
		}
	}
	return strings.Join(keys, ",")
}

// ---------------------------------------------------------------------------------------------
// the recorder around the application

func goid() int64 {
	var buf [64]byte
	n := runtime.Stack(buf[:], false)
	f := strings.Fields(string(buf[:n]))
	if len(f) < 2 {
		return -1
	}
	id, err := strconv.ParseInt(f[1], 10, 64)
	if err != nil {
		return -1
	}
	return id
}

type wHold struct {
	blockID []byte
	hook    node.Hook
	after   bool
	entered chan struct{}
	release chan struct{}
	hit     bool
}

type wBlock struct {
	id     []byte
	height uint32
}

func (b wBlock) String() string { return fmt.Sprintf("h%d/%s", b.height, short(b.id)) }

type tracer struct {
	inner   labi.ABI
	lenient bool

	mu       sync.Mutex
	active   bool
	loopGID  int64
	inflight map[int64]string // goroutine -> hook in flight
	open     map[string]wBlock
	ctxBlock map[string]wBlock
	calls    int
	foreign  []string
	overlap  []string
	hold     *wHold
}

func newTracer(inner labi.ABI, lenient bool) *tracer {
	return &tracer{inner: inner, lenient: lenient, inflight: map[int64]string{}, open: map[string]wBlock{}, ctxBlock: map[string]wBlock{}}
}

func capAdd(l *[]string, s string) {
	if len(*l) < 3 {
		*l = append(*l, s)
	}
}

// enter records the start of an ABI call; the returned function records its end. blk is set for InitStateMachine.
func (t *tracer) enter(h node.Hook, ctxID []byte, hdr *blockchain.BlockHeader, of ...wBlock) (wBlock, func()) {
	gid := goid()
	t.mu.Lock()
	var blk wBlock
	if len(of) > 0 {
		blk = of[0]
	} else if hdr != nil {
		blk = wBlock{id: append([]byte{}, hdr.ID...), height: hdr.Height}
	} else if len(ctxID) != 0 {
		blk = t.ctxBlock[string(ctxID)]
	}
	if t.active {
		t.calls++
		if gid != t.loopGID {
			capAdd(&t.foreign, fmt.Sprintf("%s of block %s called by goroutine %d, the Start loop is goroutine %d", h, blk, gid, t.loopGID))
		}
		for g, oh := range t.inflight {
			if g != gid {
				capAdd(&t.overlap, fmt.Sprintf("%s of block %s (goroutine %d) entered while %s (goroutine %d) is in flight", h, blk, gid, oh, g))
			}
		}
		switch {
		case h == node.HookInitStateMachine:
			for _, ob := range t.open {
				capAdd(&t.overlap, fmt.Sprintf("session of block %s opened (goroutine %d) while the session of block %s is open", blk, gid, ob))
			}
		case len(ctxID) != 0:
			if _, ok := t.open[string(ctxID)]; !ok {
				capAdd(&t.overlap, fmt.Sprintf("%s of block %s (goroutine %d) on a session that was closed by another block's Clear", h, blk, gid))
			}
		}
	}
	t.inflight[gid] = string(h)
	t.mu.Unlock()
	return blk, func() {
		t.mu.Lock()
		delete(t.inflight, gid)
		t.mu.Unlock()
	}
}

// pause blocks the calling goroutine if the loop is to be held at this point of this block
func (t *tracer) pause(h node.Hook, blk wBlock, after bool) {
	t.mu.Lock()
	hd := t.hold
	if hd == nil || hd.hit || hd.hook != h || hd.after != after || !bytes.Equal(hd.blockID, blk.id) {
		t.mu.Unlock()
		return
	}
	hd.hit = true
	t.mu.Unlock()
	close(hd.entered)
	<-hd.release
}

func (t *tracer) Init(req *labi.InitRequest) (*labi.InitResponse, error) {
	_, done := t.enter(node.HookInit, nil, nil)
	defer done()
	return t.inner.Init(req)
}

func (t *tracer) InitStateMachine(req *labi.InitStateMachineRequest) (*labi.InitStateMachineResponse, error) {
	blk, done := t.enter(node.HookInitStateMachine, nil, req.Header)
	defer done()
	t.pause(node.HookInitStateMachine, blk, false)
	resp, err := t.inner.InitStateMachine(req)
	if err == nil && resp != nil {
		t.mu.Lock()
		t.ctxBlock[string(resp.ContextID)] = blk
		t.open[string(resp.ContextID)] = blk
		t.mu.Unlock()
	}
	t.pause(node.HookInitStateMachine, blk, true)
	return resp, err
}

func (t *tracer) InitGenesisState(req *labi.InitGenesisStateRequest) (*labi.InitGenesisStateResponse, error) {
	_, done := t.enter(node.HookInitGenesisState, req.ContextID, nil)
	defer done()
	return t.inner.InitGenesisState(req)
}

func (t *tracer) InsertAssets(req *labi.InsertAssetsRequest) (*labi.InsertAssetsResponse, error) {
	_, done := t.enter(node.HookInsertAssets, req.ContextID, nil)
	defer done()
	return t.inner.InsertAssets(req)
}

func (t *tracer) VerifyAssets(req *labi.VerifyAssetsRequest) (*labi.VerifyAssetsResponse, error) {
	blk, done := t.enter(node.HookVerifyAssets, req.ContextID, nil)
	defer done()
	t.pause(node.HookVerifyAssets, blk, false)
	resp, err := t.inner.VerifyAssets(req)
	t.pause(node.HookVerifyAssets, blk, true)
	return resp, err
}

func (t *tracer) BeforeTransactionsExecute(req *labi.BeforeTransactionsExecuteRequest) (*labi.BeforeTransactionsExecuteResponse, error) {
	blk, done := t.enter(node.HookBeforeTxs, req.ContextID, nil)
	defer done()
	t.pause(node.HookBeforeTxs, blk, false)
	resp, err := t.inner.BeforeTransactionsExecute(req)
	t.pause(node.HookBeforeTxs, blk, true)
	return resp, err
}

func (t *tracer) AfterTransactionsExecute(req *labi.AfterTransactionsExecuteRequest) (*labi.AfterTransactionsExecuteResponse, error) {
	blk, done := t.enter(node.HookAfterTxs, req.ContextID, nil)
	defer done()
	t.pause(node.HookAfterTxs, blk, false)
	resp, err := t.inner.AfterTransactionsExecute(req)
	t.pause(node.HookAfterTxs, blk, true)
	return resp, err
}

func (t *tracer) VerifyTransaction(req *labi.VerifyTransactionRequest) (*labi.VerifyTransactionResponse, error) {
	blk, done := t.enter(node.HookVerifyTx, req.ContextID, nil)
	defer done()
	t.pause(node.HookVerifyTx, blk, false)
	resp, err := t.inner.VerifyTransaction(req)
	t.pause(node.HookVerifyTx, blk, true)
	return resp, err
}

func (t *tracer) ExecuteTransaction(req *labi.ExecuteTransactionRequest) (*labi.ExecuteTransactionResponse, error) {
	blk, done := t.enter(node.HookExecuteTx, req.ContextID, nil)
	defer done()
	t.pause(node.HookExecuteTx, blk, false)
	resp, err := t.inner.ExecuteTransaction(req)
	t.pause(node.HookExecuteTx, blk, true)
	return resp, err
}

func (t *tracer) Commit(req *labi.CommitRequest) (*labi.CommitResponse, error) {
	blk, done := t.enter(node.HookCommit, req.ContextID, nil)
	defer done()
	t.pause(node.HookCommit, blk, false)
	var resp *labi.CommitResponse
	var err error
	if t.lenient {
		resp = &labi.CommitResponse{StateRoot: req.ExpectedStateRoot}
	} else {
		resp, err = t.inner.Commit(req)
	}
	t.pause(node.HookCommit, blk, true)
	return resp, err
}

func (t *tracer) Revert(req *labi.RevertRequest) (*labi.RevertResponse, error) {
	_, done := t.enter(node.HookRevert, req.ContextID, nil)
	defer done()
	if t.lenient {
		return &labi.RevertResponse{StateRoot: req.ExpectedStateRoot}, nil
	}
	return t.inner.Revert(req)
}

func (t *tracer) Clear(req *labi.ClearRequest) (*labi.ClearResponse, error) {
	// Clear carries no context id: it closes every session (the application drops all contexts)
	t.mu.Lock()
	var blk wBlock
	for _, b := range t.open {
		blk = b
	}
	t.mu.Unlock()
	_, done := t.enter(node.HookClear, nil, nil, blk)
	defer done()
	t.pause(node.HookClear, blk, false)
	resp, err := t.inner.Clear(req)
	t.mu.Lock()
	t.open = map[string]wBlock{}
	t.mu.Unlock()
	t.pause(node.HookClear, blk, true)
	return resp, err
}

func (t *tracer) Finalize(req *labi.FinalizeRequest) (*labi.FinalizeResponse, error) {
	_, done := t.enter(node.HookFinalize, nil, nil)
	defer done()
	return t.inner.Finalize(req)
}

func (t *tracer) GetMetadata(req *labi.MetadataRequest) (*labi.MetadataResponse, error) {
	return t.inner.GetMetadata(req)
}
func (t *tracer) Query(req *labi.QueryRequest) (*labi.QueryResponse, error) {
	return t.inner.Query(req)
}
func (t *tracer) Prove(req *labi.ProveRequest) (*labi.ProveResponse, error) {
	return t.inner.Prove(req)
}

var _ labi.ABI = (*tracer)(nil)

// ---------------------------------------------------------------------------------------------
// runner

type wAccepted struct {
	block    *blockchain.Block
	internal bool
}

type wRunner struct {
	n        *node.Node
	tr       *tracer
	cfg      node.Config
	pre      []*blockchain.Block
	accepted []wAccepted
	started  bool
	loopDone chan struct{}
	qcap     int
	held     *wHold
	heldX    *blockchain.Block
	fins     []uint32
	startFin uint32
	stuck    bool
	postEP   router.EndpointHandler
	conn     *p2p.Connection // started (loopback, no peers): a block that starts the synchroniser fails its requests instead of crashing
	fails    []corr.Fail
	op       int
	seen     map[string]bool
	nonce    uint64
}

func (r *wRunner) fail(sig, detail string) {
	if r.seen[sig] {
		return
	}
	r.seen[sig] = true
	r.fails = append(r.fails, corr.Fail{Sig: sig, Detail: detail, Op: r.op})
}

func (r *wRunner) observeFin() {
	if r.n == nil || r.n.Chain == nil {
		return
	}
	f, err := r.n.Chain.DataAccess().GetFinalizedHeight()
	if err != nil {
		return
	}
	if k := len(r.fins); k > 0 && f < r.fins[k-1] {
		r.fail("c04w-fin-decreased", fmt.Sprintf("the stored finalized height decreased from %d to %d (observations %v)", r.fins[k-1], f, append(append([]uint32{}, r.fins...), f)))
	}
	if k := len(r.fins); k == 0 || r.fins[k-1] != f {
		r.fins = append(r.fins, f)
	}
}

func (writerProp) RunImpl(c corr.Case) ([]string, []corr.Fail) {
	r := &wRunner{seen: map[string]bool{}}
	out := make([]string, len(c.Ops))
	for i, op := range c.Ops {
		r.op = i
		func() {
			defer func() {
				if p := recover(); p != nil {
					out[i] = "panic"
					r.fail("c04w-panic", fmt.Sprintf("op %q: %v", op, p))
				}
			}()
			out[i] = r.step(op)
		}()
		r.observeFin()
	}
	r.shutdown()
	return out, r.fails
}

// shutdown releases a held loop, lets it finish, stops it and closes the node (the database must not be
// closed under a goroutine that is still inside process).
func (r *wRunner) shutdown() {
	if r.n == nil {
		return
	}
	if r.held != nil {
		close(r.held.release)
		r.held = nil
	}
	if r.started {
		if !r.stuck {
			r.drain(10 * time.Second)
		}
		r.n.Exec.VerifC04StopLoop()
		select {
		case <-r.loopDone:
		case <-time.After(10 * time.Second):
			// leak the node rather than close the database under a running goroutine
			r.n = nil
			return
		}
	}
	if r.conn != nil {
		_ = r.conn.Stop()
		r.conn = nil
	}
	r.n.Close()
	r.n = nil
}

func (r *wRunner) step(op string) string {
	w := strings.Fields(op)
	if len(w) == 0 {
		return "bad-op"
	}
	a := args(op)
	if w[0] != "reset" && r.n == nil {
		return "no-node"
	}
	switch w[0] {
	case "reset":
		return r.reset(a)
	case "start":
		return r.start()
	case "feed":
		return r.feed(int(atou(a["n"])))
	case "hold":
		return r.hold(a)
	case "fill":
		return r.fill(int(atou(a["n"])), a["kind"])
	case "offer":
		return r.offer(a)
	case "release":
		return r.release()
	case "check":
		return r.check()
	}
	return "bad-op"
}

func (r *wRunner) reset(a map[string]string) string {
	r.shutdown()
	*r = wRunner{seen: r.seen, fails: r.fails, op: r.op}
	vals := int(atou(a["vals"]))
	if vals < 1 || vals > 7 {
		vals = 1
	}
	pre := int(atou(a["pre"]))
	if pre > 60 {
		pre = 60
	}
	n, err := node.New(node.Config{NumValidators: vals, Seed: int64(atou(a["seed"]))})
	if err != nil {
		return "reset-failed"
	}
	r.n, r.cfg = n, n.Cfg
	blocks, err := n.Extend(pre)
	if err != nil {
		n.Close()
		r.n = nil
		return "reset-failed"
	}
	r.pre = blocks
	// a started connection without peers: should the loop ever classify a block as "different chain", the
	// synchroniser's requests fail (on an unstarted connection they dereference nil on a goroutine of their own)
	n.Conn.VerifC19SetListen([]string{"/ip4/127.0.0.1/tcp/0"})
	n.Conn.VerifC19SetTimeout(300 * time.Millisecond)
	if err := n.Conn.Start([]byte{}); err != nil {
		n.Close()
		r.n = nil
		return "reset-failed"
	}
	r.conn = n.Conn
	r.tr = newTracer(n.ABI, a["app"] == "lenient")
	n.Exec.VerifC04SetABI(r.tr)
	r.qcap = n.Exec.VerifC04ProcessQueueCap()
	r.postEP = endpoint.NewChainEndpoint(n.Chain, n.Exec, n.Conn, nil, r.tr).Endpoint()["postBlock"]
	n.DrainEvents()
	r.startFin = n.Finalized()
	return fmt.Sprintf("ok h=%d fin=%d cap=%d", n.Height(), r.startFin, r.qcap)
}

func (r *wRunner) start() string {
	if r.started {
		return "already"
	}
	r.started = true
	r.loopDone = make(chan struct{})
	gidCh := make(chan int64, 1)
	exec := r.n.Exec
	go func() {
		defer close(r.loopDone)
		gidCh <- goid()
		_ = exec.Start()
	}()
	gid := <-gidCh
	r.tr.mu.Lock()
	r.tr.loopGID = gid
	r.tr.active = true
	r.tr.mu.Unlock()
	return "ok"
}

// gossip hands a block to the registered postBlock handler, as the p2p layer does on its own goroutine
func (r *wRunner) gossip(b *blockchain.Block) {
	r.n.Exec.VerifOnBlockReceived(p2p.NewEvent(r.n.PeerID, consensus.P2PEventPostBlock, b.Encode()))
}

// other runs f on a fresh goroutine and waits for it; false = it did not return in time
func other(f func(), d time.Duration) (ok bool, panicked interface{}) {
	done := make(chan interface{}, 1)
	go func() {
		defer func() { done <- recover() }()
		f()
	}()
	select {
	case p := <-done:
		return true, p
	case <-time.After(d):
		return false, nil
	}
}

// drain waits until the loop has worked off the queue: two marker blocks (copies of the genesis block, which
// process discards without touching the database) are queued behind everything; when the queue is empty the
// second marker has been taken, so the processing of everything before the first one is complete.
func (r *wRunner) drain(d time.Duration) bool {
	if !r.started {
		return true
	}
	deadline := time.Now().Add(d)
	marker := r.n.Genesis
	for k := 0; k < 2; k++ {
		for {
			if r.n.Exec.VerifProcessQueueLen() < r.qcap {
				r.gossip(marker)
				break
			}
			if time.Now().After(deadline) {
				return false
			}
			time.Sleep(200 * time.Microsecond)
		}
	}
	for r.n.Exec.VerifProcessQueueLen() > 0 {
		if time.Now().After(deadline) {
			return false
		}
		time.Sleep(200 * time.Microsecond)
		r.observeFin()
	}
	return true
}

// build makes the next block on the current tip. kind "novote": maxHeightGenerated = height (valid, implies no
// prevotes / precommits: applying it leaves the precommitted height where it is); "vote": truthful.
func (r *wRunner) build(kind string, slotsAhead int, txs ...int) (*blockchain.Block, error) {
	opts := node.BlockOpts{SlotsAhead: slotsAhead}
	if len(txs) > 0 {
		for i := 0; i < txs[0] && i < 8; i++ {
			r.nonce++
			opts.Txs = append(opts.Txs, r.n.NewTransaction(r.n.Validators[0], r.nonce, 100, []byte{node.TxOK, node.TxOK}))
		}
	}
	gen, err := r.n.GeneratorAt(max(slotsAhead, 1))
	if err != nil {
		return nil, err
	}
	opts.Generator = gen
	// truthful maxHeightGenerated: the largest height of a block by this generator on the current chain
	mhg := uint32(0)
	for h := r.n.Height(); h > r.cfg.GenesisHeight; h-- {
		hd, err := r.n.HeaderAt(h)
		if err != nil {
			break
		}
		if bytes.Equal(hd.GeneratorAddress, gen.Address) {
			mhg = h
			break
		}
	}
	if kind == "novote" {
		mhg = r.n.Height() + 1
	}
	opts.MaxHeightGenerated = node.U32(mhg)
	return r.n.BuildBlock(opts)
}

func (r *wRunner) feed(k int) string {
	if !r.started || r.held != nil {
		return "not-running"
	}
	if k > 20 {
		k = 20
	}
	for i := 0; i < k; i++ {
		b, err := r.build("vote", 1)
		if err != nil {
			return "build-failed"
		}
		r.gossip(b)
		r.accepted = append(r.accepted, wAccepted{block: b})
		if !r.drain(20 * time.Second) {
			r.stuck = true
			r.fail("c04w-drain-timeout", "the loop did not work off a single gossiped block")
			return "stuck"
		}
	}
	return fmt.Sprintf("ok h=%d fin=%d", r.n.Height(), r.n.Finalized())
}

func (r *wRunner) hold(a map[string]string) string {
	if !r.started || r.held != nil || r.stuck {
		return "not-running"
	}
	x, err := r.build(a["x"], 1, int(atou(a["txs"])))
	if err != nil {
		return "build-failed"
	}
	hd := &wHold{blockID: append([]byte{}, x.Header.ID...), hook: node.Hook(a["hook"]), after: a["when"] == "after", entered: make(chan struct{}), release: make(chan struct{})}
	r.tr.mu.Lock()
	r.tr.hold = hd
	r.tr.mu.Unlock()
	r.gossip(x)
	r.accepted = append(r.accepted, wAccepted{block: x})
	select {
	case <-hd.entered:
	case <-time.After(10 * time.Second):
		r.tr.mu.Lock()
		r.tr.hold = nil
		r.tr.mu.Unlock()
		return "not-held"
	}
	r.held, r.heldX = hd, x
	return fmt.Sprintf("held h=%d x=%s", x.Header.Height, a["x"])
}

func (r *wRunner) fill(k int, kind string) string {
	if !r.started || r.stuck {
		return "not-running"
	}
	if k > 400 {
		k = 400
	}
	tip := r.n.Tip()
	var olds []*blockchain.Block
	for h := r.n.Height(); h > r.cfg.GenesisHeight && len(olds) < 4; h-- {
		if b, err := r.n.BlockAt(h); err == nil {
			olds = append(olds, b)
		}
	}
	pick := func(i int) *blockchain.Block {
		switch kind {
		case "old":
			if len(olds) > 1 {
				return olds[1+i%(len(olds)-1)]
			}
		case "mixed":
			if len(olds) > 0 {
				return olds[i%len(olds)]
			}
		}
		return tip
	}
	before := r.n.Exec.VerifProcessQueueLen()
	ok, p := other(func() {
		for i := 0; i < k; i++ {
			b := pick(i)
			if r.held == nil {
				// the loop is running: one at a time, so that every block is accepted
				for r.n.Exec.VerifProcessQueueLen() >= r.qcap {
					time.Sleep(100 * time.Microsecond)
				}
			}
			l := r.n.Exec.VerifProcessQueueLen()
			r.gossip(b)
			if r.held == nil || l < r.qcap {
				r.accepted = append(r.accepted, wAccepted{block: b})
			}
		}
	}, 30*time.Second)
	if p != nil {
		panic(p)
	}
	if !ok {
		r.stuck = true
		r.fail("c04w-offer-blocked", fmt.Sprintf("the postBlock handler did not return while %d blocks were gossiped (queue %d of %d)", k, r.n.Exec.VerifProcessQueueLen(), r.qcap))
		return "blocked"
	}
	after := r.n.Exec.VerifProcessQueueLen()
	if r.held != nil {
		want := before + k
		if want > r.qcap {
			want = r.qcap
		}
		if after != want {
			r.fail("c04w-offer-not-enqueue-only", fmt.Sprintf("%d gossiped blocks while the loop is held: queue length %d -> %d, expected %d (capacity %d)", k, before, after, want, r.qcap))
		}
	}
	return fmt.Sprintf("queued=%d", after)
}

func (r *wRunner) offer(a map[string]string) string {
	if !r.started || r.stuck {
		return "not-running"
	}
	slot := int(atou(a["slot"]))
	if slot < 1 || slot > 50 {
		slot = 2
	}
	y, err := r.build(a["y"], slot)
	if err != nil {
		return "build-failed"
	}
	if r.held == nil {
		// loop running: wait for an empty queue so that the block is accepted
		if !r.drain(20 * time.Second) {
			r.stuck = true
			return "stuck"
		}
	}
	before := r.n.Exec.VerifProcessQueueLen()
	var dumpBefore []node.KV
	var tipBefore []byte
	if r.held != nil {
		dumpBefore = r.n.DumpDB()
		tipBefore = append([]byte{}, r.n.Tip().Header.ID...)
	}
	via := a["via"]
	internal := via != "gossip"
	epErr := ""
	ok, p := other(func() {
		switch via {
		case "gossip":
			r.gossip(y)
		case "endpoint":
			js, err := json.Marshal(map[string]any{"block": y})
			if err != nil {
				epErr = "marshal"
				return
			}
			rw := rpc.NewEndpointResponseWriter()
			r.postEP(rw, router.NewEndpointRequest(context.Background(), node.NopLogger(), js))
			if e := rw.Result().Err(); e != nil {
				epErr = e.Error()
			}
		default:
			cp, err := node.CopyBlock(y)
			if err != nil {
				epErr = "copy"
				return
			}
			r.n.Exec.AddInternal(cp)
		}
	}, 5*time.Second)
	if p != nil {
		panic(p)
	}
	if !ok {
		r.stuck = true
		r.fail("c04w-offer-blocked", fmt.Sprintf("handing in block h=%d via %s did not return within 5 s (queue %d of %d, loop held: %v)", y.Header.Height, via, before, r.qcap, r.held != nil))
		return "blocked"
	}
	if epErr != "" {
		return "endpoint-error"
	}
	after := r.n.Exec.VerifProcessQueueLen()
	accepted := r.held == nil || before < r.qcap
	if accepted {
		r.accepted = append(r.accepted, wAccepted{block: y, internal: internal})
	}
	if r.held != nil {
		// the loop is inside X: nobody may write; the call must have done nothing but (try to) enqueue
		want := before
		if accepted {
			want++
		}
		if after != want {
			r.fail("c04w-offer-not-enqueue-only", fmt.Sprintf("block h=%d handed in via %s while the loop is held: queue length %d -> %d, expected %d (capacity %d)", y.Header.Height, via, before, after, want, r.qcap))
		}
		if d := Delta(dumpBefore, r.n.DumpDB()); d != "-" {
			r.fail("c04w-offer-not-enqueue-only", fmt.Sprintf("handing in block h=%d via %s with %d of %d blocks queued changed the database while the loop is inside another block: %s", y.Header.Height, via, before, r.qcap, clip(d, 400)))
		}
		if !bytes.Equal(tipBefore, r.n.Tip().Header.ID) {
			r.fail("c04w-offer-not-enqueue-only", fmt.Sprintf("handing in block h=%d via %s with %d of %d blocks queued changed the cached tip while the loop is inside another block", y.Header.Height, via, before, r.qcap))
		}
	}
	acc := 0
	if accepted {
		acc = 1
	}
	return fmt.Sprintf("returned queued=%d accepted=%d", after, acc)
}

func clip(s string, n int) string {
	if len(s) > n {
		return s[:n] + "…"
	}
	return s
}

func (r *wRunner) release() string {
	if r.held == nil {
		return "not-held"
	}
	finBefore := r.n.Finalized()
	close(r.held.release)
	r.held, r.heldX = nil, nil
	r.tr.mu.Lock()
	r.tr.hold = nil
	r.tr.mu.Unlock()
	if !r.drain(30 * time.Second) {
		r.stuck = true
		r.fail("c04w-drain-timeout", fmt.Sprintf("the loop did not work off the queue within 30 s (%d left)", r.n.Exec.VerifProcessQueueLen()))
		return "stuck"
	}
	r.observeFin()
	raised := 0
	if r.n.Finalized() > finBefore {
		raised = 1
	}
	return fmt.Sprintf("drained h=%d fin=%d finraised=%d", r.n.Height(), r.n.Finalized(), raised)
}

func (r *wRunner) check() string {
	if r.held != nil || r.stuck {
		return "not-idle"
	}
	if !r.drain(20 * time.Second) {
		r.stuck = true
		r.fail("c04w-drain-timeout", "the loop did not work off the queue")
		return "stuck"
	}
	n := r.n
	bad := 0
	f := func(sig, detail string) {
		bad++
		r.fail(sig, detail)
	}
	// the recorder
	r.tr.mu.Lock()
	foreign, overlap, calls := append([]string{}, r.tr.foreign...), append([]string{}, r.tr.overlap...), r.tr.calls
	r.tr.mu.Unlock()
	if len(foreign) > 0 {
		f("c04w-abi-foreign-goroutine", fmt.Sprintf("%d application calls recorded; %s", calls, strings.Join(foreign, "; ")))
	}
	if len(overlap) > 0 {
		f("c04w-abi-overlap", strings.Join(overlap, "; "))
	}
	if inc := n.ABI.Inconsistencies; len(inc) > 0 && !r.tr.lenient {
		f("c04w-app-inconsistency", clip(strings.Join(inc, "; "), 600))
	}
	// database against cache
	r.observeFin()
	fin := n.Finalized()
	tip := n.Tip().Header
	dump := n.DumpDB()
	index := map[uint32][]byte{}
	headers := map[string][]byte{}
	maxH, any := uint32(0), false
	for _, kv := range dump {
		switch {
		case len(kv.Key) == 5 && kv.Key[0] == 4:
			h := be32(kv.Key[1:5])
			index[h] = kv.Value
			if !any || h > maxH {
				maxH, any = h, true
			}
		case len(kv.Key) > 1 && kv.Key[0] == 3:
			headers[string(kv.Key[1:])] = kv.Value
		}
	}
	if !any || !bytes.Equal(index[maxH], tip.ID) || maxH != tip.Height {
		f("c04w-tip-mismatch", fmt.Sprintf("the node works on block %s at height %d but the database index serves %s for its largest height %d", short(tip.ID), tip.Height, short(index[maxH]), maxH))
	}
	if fin > tip.Height {
		f("c04w-fin-above-tip", fmt.Sprintf("stored finalized height %d above the tip %d", fin, tip.Height))
	}
	var prev []byte
	for h := r.cfg.GenesisHeight; any && h <= maxH; h++ {
		id, ok := index[h]
		if !ok {
			f("c04w-index-chain", fmt.Sprintf("no index entry for height %d (largest %d)", h, maxH))
			break
		}
		hb, ok := headers[string(id)]
		if !ok {
			f("c04w-index-chain", fmt.Sprintf("no header stored for the block %s the index serves at height %d", short(id), h))
			break
		}
		hd, err := blockchain.NewBlockHeader(hb)
		if err != nil {
			f("c04w-index-chain", fmt.Sprintf("header at height %d does not decode", h))
			break
		}
		if hd.Height != h || (prev != nil && !bytes.Equal(hd.PreviousBlockID, prev)) {
			f("c04w-index-chain", fmt.Sprintf("the block the index serves at height %d has height %d and previousBlockID %s, the index serves %s at height %d", h, hd.Height, short(hd.PreviousBlockID), short(prev), h-1))
			break
		}
		prev = id
	}
	// finalize events = the chain of raises
	at := r.startFin
	for _, e := range n.DrainEvents() {
		if e.Kind != node.EvFinalize {
			continue
		}
		if e.Original != at || e.Next <= e.Original {
			f("c04w-finalize-events", fmt.Sprintf("finalize event %d->%d after the finalized height was %d", e.Original, e.Next, at))
		}
		at = e.Next
	}
	if at != fin {
		f("c04w-finalize-events", fmt.Sprintf("the finalize events end at %d, the stored finalized height is %d", at, fin))
	}
	r.startFin = fin
	// a twin node processes the accepted blocks as a list
	if d := r.twinDelta(dump); d != "" {
		f("c04w-not-sequential", d)
	}
	if bad > 0 {
		return fmt.Sprintf("FAIL h=%d fin=%d", tip.Height, fin)
	}
	return fmt.Sprintf("ok h=%d fin=%d", tip.Height, fin)
}

func (r *wRunner) twinDelta(dump []node.KV) string {
	t, err := node.New(r.cfg)
	if err != nil {
		return ""
	}
	defer t.Close()
	for _, b := range r.pre {
		if res := t.ProcessResult(b); res.Err != nil || !res.Applied {
			return "" // harness problem, not a finding
		}
	}
	for _, a := range r.accepted {
		if a.internal {
			t.PeerID = ""
		} else {
			t.PeerID = r.n.PeerID
		}
		t.ProcessResult(a.block)
	}
	if !bytes.Equal(t.Tip().Header.ID, r.n.Tip().Header.ID) {
		return fmt.Sprintf("tip %s at height %d, but a node that processes the %d accepted blocks one after the other ends at %s height %d", short(r.n.Tip().Header.ID), r.n.Height(), len(r.accepted), short(t.Tip().Header.ID), t.Height())
	}
	if d := Delta(t.DumpDB(), dump); d != "-" {
		return fmt.Sprintf("database differs from the one of a node that processed the %d accepted blocks one after the other (finalized %d vs %d): %s", len(r.accepted), r.n.Finalized(), t.Finalized(), clip(d, 500))
	}
	return ""
}
