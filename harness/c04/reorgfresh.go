package c04

// Reorganisations against a FRESH node (property C05, clause "a reorg to a sibling block ends in the same state
// as if the sibling had been applied first").
//
// Defect class: a component that takes part in apply / delete (the BFT module, its API, the chain object, the
// data access layer, the executer) keeps something in memory across blocks - decoded BFT parameters, a memoized
// height, a list it appends to. Executer.deleteBlock reverts the PERSISTENT state underneath; the memory stays.
// After a reorganisation the next apply is then no longer a function of the persistent state: the node accepts /
// rejects other blocks, or writes another BFT store, than a node that was only ever given the chain which is left.
//
// Two pieces, both on the engine of this package (ops proc / pv / del / forge are replayed on a real node and on
// the Lean model, which has no component memory at all):
//
//  1. the oracle (Runner, switched on by `fresh=1` on the reset line). After the first removal of a block, the next
//     block that is offered on top of the tip (pv, or proc classified `valid`) is ALSO given to a shadow: a node
//     created at that moment with node.New(cfg) - new database, new application, new Chain / Executer / BFT module -
//     which has been fed nothing but the blocks of the surviving chain. The shadow keeps following the node until the
//     next removal (then it is dropped and a new one is built: it must never have seen a removed block). After every
//     such block, model-free:
//       - the node accepts the block iff the shadow accepts it,
//       - the complete database dump of the node (block indexes, BFT store = votes, parameters, generator keys,
//         state diffs) equals the shadow's outside the volatile keys of the property, the cached tip is the same
//         block, the finalized height is not BELOW the shadow's.
//     Signature c05-reorg-history-dependent. A surviving chain block which the shadow rejects is the same failure.
//     Steps with an armed failure (inj=), starts on foreign inputs and a lost shared transaction id (known finding)
//     end the judgement until the next removal.
//
//  2. the history family (Recorder, Profile.Sweep = "reorg ..": ReorgProfiles): reorganisations of depth 1..4 that cross a validator-set change,
//     a threshold-only change or a weight-only change - on the removed branch only, on the new branch only, on both
//     with different content - at every position of the branch, with
//       - a candidate for the height after the removed branch that never becomes part of the chain: forged by the
//         node itself (op `forge`: Executer.BFTBeforeTransactionsExecute on a staged store that is dropped - the call
//         pkg/generator makes for its own block) or received and rejected after the BFT step (the application fails
//         in AfterTransactionsExecute / refuses the state root),
//       - several rounds (A -> B -> C), the new branch growing beyond the removed one so that the votes counted with
//         the parameters of the crossing heights reach the prevote / precommit thresholds.

import (
	"bytes"
	"fmt"
	"math/rand"
	"strings"
	"sync"
	"time"

	"github.com/LiskHQ/lisk-engine/pkg/blockchain"
	"github.com/LiskHQ/lisk-engine/pkg/consensus/liskbft"
	"github.com/LiskHQ/lisk-engine/pkg/labi"

	"verifharness/node"
)

// SigReorgHistory is the signature of the fresh-node oracle.
const SigReorgHistory = "c05-reorg-history-dependent"

// ---------------------------------------------------------------------------------------------
// oracle (replayer side)

type freshState struct {
	on      bool       // `fresh=1` on the reset line
	stale   bool       // a block was removed since the shadow was built (or none was built yet after a removal)
	shadow  *node.Node // fed only the surviving chain
	tipID   []byte     // tip of the node after the previous step
	tipH    uint32
	builds  int
	judged  int
	removed bool // at least one removal happened in this case
}

// the state of the oracle per replayer (a side table, so that this file compiles with or without the three hook
// lines in engine.go: Runner.close -> freshEnd, Runner.Run -> freshStep, Runner.step -> forgeOp)
var freshStates sync.Map // *Runner -> *freshState

func (r *Runner) fresh() *freshState {
	if v, ok := freshStates.Load(r); ok {
		return v.(*freshState)
	}
	return nil
}

func (r *Runner) freshDrop() {
	if f := r.fresh(); f != nil && f.shadow != nil {
		f.shadow.Close()
		f.shadow = nil
	}
}

// freshEnd releases the shadow and forgets the replayer (Runner.close).
func (r *Runner) freshEnd() {
	r.freshDrop()
	freshStates.Delete(r)
}

func (r *Runner) freshNoteTip() {
	f := r.fresh()
	f.tipID, f.tipH = nil, 0
	if r.n != nil && r.n.Chain != nil {
		func() {
			defer func() { _ = recover() }()
			if t := r.n.Tip(); t != nil {
				f.tipID = append([]byte{}, t.Header.ID...)
				f.tipH = t.Header.Height
			}
		}()
	}
}

// freshStep runs after every step of the replayer (engine.go, Runner.Run).
func (r *Runner) freshStep(op string) {
	w := strings.Fields(op)
	if len(w) == 0 {
		return
	}
	if w[0] == "reset" {
		r.freshDrop()
		f := &freshState{on: args(op)["fresh"] == "1"}
		freshStates.Store(r, f)
		if f.on && r.n != nil {
			r.freshNoteTip()
		}
		return
	}
	f := r.fresh()
	if f == nil || !f.on || r.n == nil {
		return
	}
	defer func() {
		if x := recover(); x != nil {
			r.freshDrop()
			f.stale = false
		}
		r.freshNoteTip()
	}()
	n := r.n
	tipBefore, tipBeforeH := f.tipID, f.tipH
	var tipNow []byte
	if n.Chain != nil {
		if t := n.Tip(); t != nil {
			tipNow = t.Header.ID
		}
	}
	stop := func() { // no judgement until the next removal
		r.freshDrop()
		f.stale = false
	}
	removedNow := func() {
		r.freshDrop()
		f.stale = true
		f.removed = true
		r.Notes["fresh-removals"]++
	}
	if r.poisoned || r.sharedLost || tipNow == nil || tipBefore == nil {
		stop()
		return
	}
	a := args(op)
	switch w[0] {
	case "pv", "proc":
	case "restartg":
		stop()
		return
	default:
		// del / delat / till: blocks were removed; anything else leaves the chain alone
		if !bytes.Equal(tipNow, tipBefore) {
			removedNow()
		}
		return
	}
	b, err := ParseBlock(a)
	if err != nil {
		return
	}
	applied := bytes.Equal(tipNow, b.Header.ID) && !bytes.Equal(tipBefore, b.Header.ID)
	extends := b.Header.Height == tipBeforeH+1 && bytes.Equal(b.Header.PreviousBlockID, tipBefore)
	if a["inj"] != "" {
		if !bytes.Equal(tipNow, tipBefore) {
			stop()
		}
		return
	}
	if !extends {
		// tie-break (the tip is replaced: a removal and an application in one step), identical / discarded blocks
		if !bytes.Equal(tipNow, tipBefore) {
			removedNow()
		}
		return
	}
	if !applied && !bytes.Equal(tipNow, tipBefore) {
		removedNow()
		return
	}
	if f.shadow == nil {
		if !f.stale {
			return // nothing was removed since the node started: it IS a fresh node
		}
		s, h, err := r.freshBuild(tipBeforeH)
		if err != nil {
			r.fail(SigReorgHistory, fmt.Sprintf("the chain that is left (tip %s at height %d) is not accepted by a fresh node: block %d: %v", short(tipBefore), tipBeforeH, h, err))
			stop()
			return
		}
		f.shadow, f.stale = s, false
		f.builds++
		r.Notes["fresh-shadow-built"]++
	}
	s := f.shadow
	if st := s.Tip(); st == nil || !bytes.Equal(st.Header.ID, tipBefore) {
		stop()
		return
	}
	// the block, through the same entry point
	var sApplied bool
	var sErr error
	if w[0] == "pv" {
		sErr = s.ProcessValidated(b, a["rt"] == "1")
	} else {
		res := s.ProcessResult(b)
		sErr = res.Err
	}
	s.DrainEvents()
	if st := s.Tip(); st != nil && bytes.Equal(st.Header.ID, b.Header.ID) {
		sApplied = true
	}
	f.judged++
	r.Notes["fresh-judged"]++
	what := fmt.Sprintf("%s of block %s at height %d (generator %s, maxHeightPrevoted %d) after %d removal(s)", w[0], short(b.Header.ID), b.Header.Height, short(b.Header.GeneratorAddress), b.Header.MaxHeightPrevoted, r.Notes["fresh-removals"])
	if applied != sApplied {
		r.fail(SigReorgHistory, fmt.Sprintf("%s: the node that went through the reorganisation %s it, a fresh node that was given only the surviving chain %s it (fresh node: %v)",
			what, map[bool]string{true: "ACCEPTS", false: "REJECTS"}[applied], map[bool]string{true: "accepts", false: "rejects"}[sApplied], sErr))
		stop()
		return
	}
	fin, sfin := n.Finalized(), s.Finalized()
	if sfin > fin {
		r.fail(SigReorgHistory, fmt.Sprintf("%s: finalized height %d is below the one of a fresh node that was given only the surviving chain (%d)", what, fin, sfin))
		fin = sfin
	}
	if d := persistentDiff(s.DumpDB(), r.prev, fin); len(d) != 0 {
		names := make([]string, 0, 4)
		for i, x := range d {
			if i == 4 {
				names = append(names, "...")
				break
			}
			names = append(names, x.String())
		}
		mhp, mhpc, _ := n.BFTHeights()
		smhp, smhpc, _ := s.BFTHeights()
		r.fail(SigReorgHistory, fmt.Sprintf("%s (applied=%v): %d differences between the database of the node that went through the reorganisation and a fresh node that was given only the surviving chain (maxHeightPrevoted %d / %d, maxHeightPrecommitted %d / %d): %s",
			what, applied, len(d), mhp, smhp, mhpc, smhpc, strings.Join(names, "; ")))
		stop()
		return
	}
	if !bytes.Equal(s.Tip().Header.ID, tipNow) {
		r.fail(SigReorgHistory, fmt.Sprintf("%s: cached tip %s, fresh node %s", what, short(tipNow), short(s.Tip().Header.ID)))
		stop()
	}
}

// freshBuild creates the shadow and feeds it the chain of the node up to height upTo.
func (r *Runner) freshBuild(upTo uint32) (*node.Node, uint32, error) {
	n := r.n
	cfg := n.Cfg
	cfg.FS, cfg.Dir = nil, ""
	s, err := node.New(cfg)
	if err != nil {
		return nil, 0, err
	}
	s.DrainEvents()
	for h := cfg.GenesisHeight + 1; h <= upTo; h++ {
		b, err := n.BlockAt(h)
		if err != nil {
			s.Close()
			return nil, h, fmt.Errorf("not retrievable from the node: %w", err)
		}
		if err := s.ProcessValidated(b, false); err != nil {
			s.Close()
			return nil, h, err
		}
		if t := s.Tip(); t == nil || !bytes.Equal(t.Header.ID, b.Header.ID) {
			s.Close()
			return nil, h, fmt.Errorf("not applied")
		}
	}
	s.DrainEvents()
	return s, 0, nil
}

// bftStep runs the BFT step of a candidate block on a staged store that is dropped: what pkg/generator does for the
// block it forges (generator/abi_caller.go: consensus.BFTBeforeTransactionsExecute(header, diffStore)).
func bftStep(n *node.Node, b *blockchain.Block) (err error) {
	defer func() {
		if x := recover(); x != nil {
			err = &node.PanicError{Value: x}
		}
	}()
	return n.Exec.BFTBeforeTransactionsExecute(b.Header.Readonly(), n.Store())
}

// bftStepDump is bftStep returning the complete staged BFT store after the step (liskbft.VerifDump).
func bftStepDump(n *node.Node, b *blockchain.Block) (dump string, err error) {
	defer func() {
		if x := recover(); x != nil {
			err = &node.PanicError{Value: x}
		}
	}()
	store := n.Store()
	err = n.Exec.BFTBeforeTransactionsExecute(b.Header.Readonly(), store)
	d, derr := liskbft.VerifDump(store)
	if derr != nil {
		d = "dump-err " + derr.Error()
	}
	return d, err
}

// forgeOp: op `forge <block>`. Nothing is written, the model does nothing: output `ok`. Model-free: the step must
// compute what a node RESTARTED on the same database (node.Twin: new Chain / Executer / BFT module objects, nothing
// remembered) computes for the same candidate - the same verdict and the same staged BFT store.
func (r *Runner) forgeOp(a map[string]string) string {
	n := r.n
	b, err := ParseBlock(a)
	if err != nil {
		return "bad-block"
	}
	r.see(b)
	if n.Tip() == nil {
		return "ok"
	}
	dump, err := bftStepDump(n, b)
	if err != nil && isPanic(err) {
		r.fail("node-panic", "BFTBeforeTransactionsExecute of a forged candidate: "+err.Error())
	} else if f := r.fresh(); f != nil && f.on && !r.poisoned && !r.sharedLost {
		if t, terr := n.Twin(); terr == nil {
			tdump, tErr := bftStepDump(t, b)
			t.Release()
			r.Notes["fresh-forge-twin"]++
			if (err == nil) != (tErr == nil) || dump != tdump {
				r.fail(SigReorgHistory, fmt.Sprintf("BFT step of a forged candidate at height %d (generator %s) on a dropped store: the node answers err=%v, a node restarted on the same database err=%v; staged BFT stores equal: %v",
					b.Header.Height, short(b.Header.GeneratorAddress), err, tErr, dump == tdump))
			}
		}
	}
	if d := Delta(r.prev, n.DumpDB()); d != "-" {
		r.fail("c05-failed-apply-wrote", fmt.Sprintf("the BFT step of a forged candidate at height %d on a dropped store changed the database: %s", b.Header.Height, d))
	}
	return "ok"
}

// ---------------------------------------------------------------------------------------------
// history family (recorder side)

// ReorgSpec describes one history of the family.
type ReorgSpec struct {
	Depth     int    // blocks removed per round, 1..4
	KindA     string // change on the removed branch: "" | "set" | "thr" | "wgt"
	KindB     string // change on the branch that replaces it
	Candidate string // "" | "forge" | "failed": a candidate for the height after the removed branch
	Rounds    int    // 1..2
	NV        int    // genesis validators
	Cache     int    // block cache
}

// String / ParseReorgSpec: the spec travels in Profile.Sweep as "reorg d=.. a=.. b=.. c=.. r=.. nv=.. cache=..".
func (sp *ReorgSpec) String() string {
	return fmt.Sprintf("reorg d=%d a=%s b=%s c=%s r=%d nv=%d cache=%d", sp.Depth, sp.KindA, sp.KindB, sp.Candidate, sp.Rounds, sp.NV, sp.Cache)
}

// ParseReorgSpec returns nil if the profile is not of this family.
func ParseReorgSpec(sweep string) *ReorgSpec {
	if !strings.HasPrefix(sweep, "reorg ") {
		return nil
	}
	a := args(sweep)
	sp := &ReorgSpec{Depth: atoi(a["d"]), KindA: a["a"], KindB: a["b"], Candidate: a["c"], Rounds: atoi(a["r"]), NV: atoi(a["nv"]), Cache: atoi(a["cache"])}
	if sp.Depth < 1 {
		sp.Depth = 1
	}
	if sp.Rounds < 1 {
		sp.Rounds = 1
	}
	if sp.NV < 3 {
		sp.NV = 3
	}
	if sp.Cache < 1 {
		sp.Cache = 515
	}
	return sp
}

// ReorgProfiles: the family, enumerated without a draw from the generator (the profiles of a property are drawn
// before its first history is recorded; the histories themselves draw).
func ReorgProfiles(tier string) []Profile {
	pairs := [][2]string{
		{"set", ""}, {"", "set"}, {"set", "set"}, {"thr", ""}, {"", "thr"}, {"thr", "thr"}, {"wgt", ""}, {"", "wgt"}, {"wgt", "wgt"},
		{"set", "thr"}, {"thr", "wgt"}, {"wgt", "set"}, {"set", "wgt"}, {"thr", "set"}, {"wgt", "thr"},
	}
	k := 1
	if tier == "thorough" {
		k = 12
	}
	var ps []Profile
	for rep := 0; rep < k; rep++ {
		for i, p := range pairs {
			j := i + rep*len(pairs)
			spec := &ReorgSpec{
				Depth:     1 + (j+rep)%4,
				KindA:     p[0],
				KindB:     p[1],
				Candidate: []string{"", "forge", "failed"}[(j/2+rep)%3],
				Rounds:    1 + (j/5)%2,
				NV:        3 + (j+j/4)%3,
				Cache:     515,
			}
			if spec.Depth == 1 && spec.Candidate == "" && spec.KindA != "" {
				// depth 1: the parameters written by the removed block are only ever READ by a block (or candidate) above it
				spec.Candidate = []string{"forge", "failed"}[j%2]
			}
			if j%7 == 3 {
				spec.Cache = 2 + j%3
			}
			ps = append(ps, Profile{Sweep: spec.String()})
		}
	}
	return ps
}

// newReorgRecorder: the node of a reorg history (3..5 validators of weight 1, two more key holders outside the set).
func newReorgRecorder(rng *rand.Rand, prof Profile) (*Recorder, error) {
	sp := ParseReorgSpec(prof.Sweep)
	if sp == nil {
		return nil, fmt.Errorf("not a reorg profile: %q", prof.Sweep)
	}
	nv := sp.NV
	bs := nv + 1 + rng.Intn(2)
	keep := []int{0, 0, -1, 2}[rng.Intn(4)]
	now := uint32(time.Now().Unix())
	bt := uint32(10)
	gts := now - 1_000_000
	gts = gts - gts%bt + uint32(rng.Intn(int(bt)))
	cfg := node.Config{NumValidators: nv, BatchSize: bs, Seed: int64(rng.Intn(1 << 30)), GenesisTimestamp: gts, BlockTime: bt,
		MaxBlockCache: sp.Cache, KeepEventsForHeights: &keep, ExtraValidators: 2}
	n, err := node.New(cfg)
	if err != nil {
		return nil, err
	}
	n.DrainEvents()
	r := &Recorder{N: n, Rng: rng, Prof: prof, Tags: map[string]int{}, saved: map[uint32]*blockchain.Block{}}
	r.Ops = append(r.Ops, fmt.Sprintf("reset nv=%d bs=%d seed=%d gts=%d bt=%d cache=%d keep=%d extra=2 gh=0 fresh=1 %s %s",
		nv, bs, cfg.Seed, gts, bt, sp.Cache, keep, BlockTokens(n.Genesis), ExecTokens(n, 0, nil, "")))
	return r, nil
}

// currentSet: the weighted validators valid from the height after the next block, as application-side records.
func (r *Recorder) currentSet() ([]*labi.Validator, uint64, uint64, bool) {
	n := r.N
	p, err := n.BFTParams(n.Height() + 1)
	if err != nil {
		return nil, 0, 0, false
	}
	var set []*labi.Validator
	for _, v := range p.Validators() {
		kh := n.ValidatorByAddress(v.Address())
		if kh == nil {
			return nil, 0, 0, false
		}
		set = append(set, kh.Labi(v.BFTWeight()))
	}
	return set, p.PrecommitThreshold(), p.CertificateThreshold(), true
}

func totalWeight(set []*labi.Validator) uint64 {
	t := uint64(0)
	for _, v := range set {
		t += v.BFTWeight
	}
	return t
}

// reorgChange builds a parameter change of the kind relative to the parameters in force. variant selects WHICH
// change of the kind (the two branches of a reorganisation use different variants: different content).
func (r *Recorder) reorgChange(kind string, variant int) *node.ValidatorChange {
	n := r.N
	set, pre, cert, ok := r.currentSet()
	if !ok || len(set) == 0 {
		return nil
	}
	rng := r.Rng
	in := func(addr []byte) bool {
		for _, v := range set {
			if bytes.Equal(v.Address, addr) {
				return true
			}
		}
		return false
	}
	switch kind {
	case "set":
		// replace / add / drop a validator; which one depends on the variant
		var outside []*node.Validator
		for _, kh := range n.Validators {
			if !in(kh.Address) {
				outside = append(outside, kh)
			}
		}
		next := append([]*labi.Validator{}, set...)
		how := rng.Intn(3)
		if len(outside) == 0 {
			how = 2
		}
		if how == 2 && len(next) < 3 {
			how = 0
			if len(outside) == 0 {
				return nil
			}
		}
		if how == 1 && len(next)+1 > n.Cfg.BatchSize {
			how = 0
		}
		switch how {
		case 0: // replace
			next[variant%len(next)] = outside[variant%len(outside)].Labi(next[variant%len(next)].BFTWeight)
		case 1: // add
			next = append(next, outside[variant%len(outside)].Labi(1))
		case 2: // drop
			i := variant % len(next)
			next = append(next[:i:i], next[i+1:]...)
		}
		t := totalWeight(next)
		return &node.ValidatorChange{Validators: next, PrecommitThreshold: node.DefaultThreshold(t), CertificateThreshold: node.DefaultThreshold(t)}
	case "thr":
		// the same validators and weights; thresholds anywhere in the admissible range [floor(W/3)+1, W], different
		// from the ones in force (variant 0 tends to the top of the range, variant 1 to the bottom)
		t := totalWeight(set)
		lo, hi := t/3+1, t
		if lo == hi {
			return r.reorgChange("wgt", variant)
		}
		np, nc := pre, cert
		for try := 0; try < 20 && np == pre && nc == cert; try++ {
			if variant%2 == 0 {
				np, nc = hi-uint64(rng.Intn(int(hi-lo+1)))/2, lo+uint64(rng.Intn(int(hi-lo+1)))
			} else {
				np, nc = lo+uint64(rng.Intn(int(hi-lo+1)))/2, lo+uint64(rng.Intn(int(hi-lo+1)))
			}
		}
		if np == pre && nc == cert {
			np = lo + (pre-lo+1)%(hi-lo+1)
		}
		return &node.ValidatorChange{Validators: set, PrecommitThreshold: np, CertificateThreshold: nc}
	case "wgt":
		// the same validators, other weights (1..4), default or explicit thresholds
		next := make([]*labi.Validator, len(set))
		changed := false
		for i, v := range set {
			w := v.BFTWeight
			if (i+variant)%2 == 0 || rng.Intn(3) == 0 {
				w = 1 + (v.BFTWeight+uint64(variant)+uint64(rng.Intn(3)))%4
			}
			if w != v.BFTWeight {
				changed = true
			}
			c := *v
			c.BFTWeight = w
			next[i] = &c
		}
		if !changed {
			c := *next[variant%len(next)]
			c.BFTWeight = c.BFTWeight%4 + 1
			next[variant%len(next)] = &c
		}
		t := totalWeight(next)
		np, nc := node.DefaultThreshold(t), node.DefaultThreshold(t)
		if rng.Intn(3) == 0 {
			lo := t/3 + 1
			np, nc = lo+uint64(rng.Intn(int(t-lo+1))), lo+uint64(rng.Intn(int(t-lo+1)))
		}
		return &node.ValidatorChange{Validators: next, PrecommitThreshold: np, CertificateThreshold: nc}
	}
	return nil
}

// offer builds the next block (with an optional parameter change) and gives it to the node.
func (r *Recorder) offer(vc *node.ValidatorChange) bool {
	n := r.N
	if n.Tip() == nil {
		return false
	}
	o := r.randOpts()
	o.ValidatorChange = vc
	b, err := n.BuildBlock(o)
	if err != nil {
		return false
	}
	if r.Rng.Intn(4) == 0 {
		r.Forge(b) // the node is the generator of this block: it forged it before it processes it (AddInternal)
	}
	if r.Rng.Intn(3) == 0 {
		return r.PV(b, r.Rng.Intn(2) == 0)
	}
	return r.Proc(b) == "applied"
}

// Forge writes the `forge` op: the node runs the BFT step of its own candidate on a store that is dropped.
func (r *Recorder) Forge(b *blockchain.Block) {
	_ = bftStep(r.N, b)
	r.tag("forge")
	r.Ops = append(r.Ops, "forge "+BlockTokens(b))
}

// candidate: a block for the next height that never becomes part of the chain.
func (r *Recorder) candidate(kind string) {
	n := r.N
	if n.Tip() == nil || kind == "" {
		return
	}
	o := r.randOpts()
	switch kind {
	case "forge":
		if b, err := n.BuildBlock(o); err == nil {
			r.Forge(b)
		}
	case "failed":
		// rejected after the BFT step of the block ran: the application fails at the end of the block, or refuses the
		// state root at Commit
		if r.Rng.Intn(2) == 0 {
			o.FailHook = node.HookAfterTxs
		} else {
			o.Mutate = func(b *blockchain.Block) {
				b.Header.StateRoot = append([]byte{}, b.Header.StateRoot...)
				b.Header.StateRoot[0] ^= 1
			}
		}
		if b, err := n.BuildBlock(o); err == nil {
			r.tag("failed-candidate")
			if r.Rng.Intn(2) == 0 {
				r.PV(b, false)
			} else {
				r.Proc(b)
			}
		}
	}
}

// removeTip removes k blocks, one deleteBlock call each.
func (r *Recorder) removeTip(k int) int {
	n := r.N
	st := r.Rng.Intn(2) == 0
	done := 0
	for i := 0; i < k && n.Tip() != nil; i++ {
		tip := n.Tip()
		err := DeleteBlock(n, tip, st)
		n.DrainEvents()
		r.Ops = append(r.Ops, "del st="+b2s(st))
		if err != nil {
			r.tag("del:refused")
			break
		}
		r.saved[tip.Header.Height] = tip
		done++
	}
	r.fixMHG()
	return done
}

// ReorgScript is the history of a reorg profile (Profile.Sweep = "reorg ..").
func (r *Recorder) ReorgScript() {
	sp := ParseReorgSpec(r.Prof.Sweep)
	if sp == nil {
		return
	}
	rng := r.Rng
	n := r.N
	r.tag("reorg-fresh")
	r.tag(fmt.Sprintf("reorg-d%d", sp.Depth))
	r.tag("reorg-A" + sp.KindA + "-B" + sp.KindB)
	// common part: short, so that the blocks of the branches are above the finalized height
	for i, k := 0, 1+rng.Intn(3); i < k; i++ {
		r.offer(nil)
	}
	variant := rng.Intn(4)
	for round := 0; round < sp.Rounds && r.Err == nil && n.Tip() != nil; round++ {
		kindA, kindB := sp.KindA, sp.KindB
		if round%2 == 1 {
			kindA, kindB = kindB, kindA // second round: the roles change, the contents differ again
		}
		// the branch that will be removed
		posA := rng.Intn(sp.Depth)
		applied := 0
		for i := 0; i < sp.Depth; i++ {
			var vc *node.ValidatorChange
			if i == posA && kindA != "" {
				vc = r.reorgChange(kindA, variant)
			}
			if !r.offer(vc) {
				break
			}
			applied++
			if vc != nil {
				r.tag("reorg-change-removed")
			}
		}
		if applied == 0 {
			return
		}
		cand := sp.Candidate
		if cand == "" && rng.Intn(4) == 0 {
			cand = []string{"forge", "failed"}[rng.Intn(2)]
		}
		r.candidate(cand)
		if cand != "" {
			r.tag("reorg-candidate-" + cand)
		}
		removed := r.removeTip(applied)
		if removed == 0 || n.Tip() == nil {
			return
		}
		if removed == applied {
			r.tag("reorg-full-depth")
		}
		// the branch that replaces it: the change (if any) at a position of the removed stretch, then beyond it
		posB := rng.Intn(removed)
		grow := removed + 1 + rng.Intn(3)
		for i := 0; i < grow && n.Tip() != nil; i++ {
			var vc *node.ValidatorChange
			if i == posB && kindB != "" {
				vc = r.reorgChange(kindB, variant+1+round)
				if vc != nil {
					r.tag("reorg-change-new")
				}
			}
			r.offer(vc)
		}
		variant += 2
	}
	// long enough for the votes counted with the parameters of the crossing heights to decide prevotes / precommits
	for i, k := 0, n.Cfg.NumValidators+1+rng.Intn(3); i < k && n.Tip() != nil; i++ {
		r.offer(nil)
	}
	if n.Tip() != nil {
		r.Ops = append(r.Ops, "twin")
	}
}
