package c04

// Failure injection: "errors after the point of no return".
//
// A step of the node (Executer.process / processValidated / deleteBlock / deleteTillCommonBlock) writes its batch
// once; whatever it calls AFTER that write - application hooks, event publication, p2p publication - must not be
// able to turn the step into a reported failure or to make it skip the events of what it has already stored.
// The histories of C04 / C05 inject failures only where the recorder asks for them; the token
//
//	inj=<kind>       on a proc / pv / del / till line
//
// arms ONE failure for the duration of that step (node.Arm): kind = a method of labi.ABI (every method, also those the
// engine does not call on this path today: the mock application answers the next call of it with an error) or a
// pseudo kind (node.InjSlowSubscriber, node.InjP2PPublish). The recorder adds
//
//	ab=0             the injected failure was consumed by an application call of deleteBlock
//	                 (InitStateMachine / Revert) - the model input "the application refused the removal"
//
// for del / till / tie-break proc lines (the model abstracts the application: for the apply path the recorded
// `valid=` already carries it). The replayer arms the same failure, and the oracles of Runner.state judge the node
// after EVERY step, failed or not (engine.go: c04-finalize-event-mismatch, c04-fin-not-max-mhpc,
// c04-cached-tip-not-database-tip, c04-application-out-of-step, c04-error-after-write).
//
// Sweep histories (Profile.Sweep): every injection kind fails once at every step kind -
// apply (Executer.process), sync apply (processValidated with the syncing flag), delete (deleteBlock,
// deleteTillCommonBlock), tie-break (process replacing the tip) - on a chain whose finalized height advances with
// (almost) every block, so that the failing step is a raising one.

import (
	"bytes"
	"fmt"

	"github.com/LiskHQ/lisk-engine/pkg/blockchain"

	"verifharness/node"
)

// arm prepares the pending injection (r.inj, or a random one with probability Prof.Inject) for the step that follows.
func (r *Recorder) arm() *node.Injection {
	if r.inj == "" && r.Prof.Inject > 0 && r.Rng.Float64() < r.Prof.Inject {
		ks := node.InjectionKinds()
		r.inj = ks[r.Rng.Intn(len(ks))]
	}
	if r.inj == "" || r.N == nil || r.N.Exec == nil {
		r.inj = ""
		return nil
	}
	inj, err := r.N.Arm(r.inj)
	if err != nil {
		r.Err = err
		r.inj = ""
		return nil
	}
	return inj
}

// disarm ends the injection and returns the tokens for the operation line. deletesFirst: the step starts with
// deleteBlock (del, till, tie-break).
func (r *Recorder) disarm(inj *node.Injection, deletesFirst bool) string {
	if inj == nil {
		return ""
	}
	kind := r.inj
	r.inj = ""
	fired := inj.Disarm()
	r.tag("inject")
	tok := " inj=" + kind
	if len(fired) > 0 {
		r.tag("inject-fired")
	}
	if deletesFirst && len(fired) > 0 && (fired[0] == node.HookInitStateMachine || fired[0] == node.HookRevert) {
		tok += " ab=0"
	}
	return tok
}

// sweepKinds: every injection kind, in random order.
func (r *Recorder) sweepKinds() []string {
	ks := node.InjectionKinds()
	r.Rng.Shuffle(len(ks), func(i, j int) { ks[i], ks[j] = ks[j], ks[i] })
	return ks
}

// txOpts: block content with at least one transaction (so that the per-transaction hooks are called).
func (r *Recorder) txOpts() node.BlockOpts {
	o := r.randOpts()
	if len(o.Txs) == 0 {
		o.Txs = append(o.Txs, r.newTx(node.TxOK, node.TxOK))
	}
	return o
}

// SweepScript is the history of a sweep profile.
func (r *Recorder) SweepScript() {
	r.tag("sweep-" + r.Prof.Sweep)
	switch r.Prof.Sweep {
	case "apply":
		r.sweepApply(false)
	case "sync":
		r.sweepApply(true)
	case "delete":
		r.sweepDelete()
	case "tie":
		r.sweepTie()
	}
	if r.N != nil && r.N.Tip() != nil {
		r.Ops = append(r.Ops, "twin")
	}
}

// warmUp extends the chain until the finalized height follows the tip.
func (r *Recorder) warmUp() {
	nv := r.N.Cfg.NumValidators
	r.Extend(3*nv + 2 + r.Rng.Intn(3))
}

// sweepApply: for every kind, a block is offered with the failure armed; if it was not applied it is offered again
// undisturbed. Repeated (up to three blocks per kind) until the block of the disturbed step was one that raises the
// finalized height.
func (r *Recorder) sweepApply(sync bool) {
	n := r.N
	r.forceSy = sync
	defer func() { r.forceSy = false }()
	r.warmUp()
	for _, k := range r.sweepKinds() {
		for try := 0; try < 3 && r.Err == nil; try++ {
			if n.Tip() == nil || r.slotsLeft() < 2 {
				return
			}
			b, err := n.BuildBlock(r.txOpts())
			if err != nil {
				r.Err = err
				return
			}
			finBefore := n.Finalized()
			tipBefore := append([]byte{}, n.Tip().Header.ID...)
			r.inj = k
			if sync {
				r.PV(b, r.Rng.Intn(2) == 0)
			} else {
				r.Proc(b)
			}
			if n.Tip() == nil {
				return
			}
			if bytes.Equal(n.Tip().Header.ID, tipBefore) {
				// refused: the same block again, undisturbed
				if sync {
					r.PV(b, false)
				} else {
					r.Proc(b)
				}
			}
			if n.Tip() != nil && n.Finalized() > finBefore {
				r.tag("inject-at-raise")
				break
			}
		}
		if r.Rng.Intn(9) == 0 {
			r.Restart()
		}
	}
}

// sweepDelete: for every kind, the tip is removed (deleteBlock directly, or deleteTillCommonBlock down to the
// parent) with the failure armed; a removed block is applied again (or replaced), and the chain grows by one block
// so that finality keeps advancing between the removals.
func (r *Recorder) sweepDelete() {
	n := r.N
	r.warmUp()
	for _, k := range r.sweepKinds() {
		if r.Err != nil || n.Tip() == nil || r.slotsLeft() < 3 {
			return
		}
		if n.Height() <= n.Finalized() {
			r.Extend(1)
			if n.Tip() == nil || n.Height() <= n.Finalized() {
				continue
			}
		}
		r.inj = k
		if r.Rng.Intn(3) == 0 {
			tip := n.Tip()
			r.tillTo(tip.Header.Height - 1)
			if n.Tip() != nil && n.Height() == tip.Header.Height-1 {
				r.PV(tip, true) // restoreBlocks: the temporary copy is applied again
			}
		} else {
			r.Delete(1, r.Rng.Intn(2))
		}
		r.inj = ""
		if r.Rng.Intn(2) == 0 {
			r.Extend(1)
		}
	}
}

// sweepTie: a tip T and one later-slot competitor per kind, all built on the same parent; T is applied, then every
// competitor is offered (tie-break: deleteBlock(T), processValidated(competitor), on failure processValidated(T))
// with the failure of its kind armed. When a competitor won, it is removed and T applied again.
func (r *Recorder) sweepTie() {
	n := r.N
	if !r.Prof.TieBreak {
		r.Err = fmt.Errorf("tie-break sweep needs a tie-break profile")
		return
	}
	r.Extend(2 + r.Rng.Intn(3))
	if n.Tip() == nil || r.slotsLeft() < 2 {
		return
	}
	kinds := r.sweepKinds()
	t, err := n.BuildBlock(r.txOpts())
	if err != nil {
		r.Err = err
		return
	}
	later := r.slotsLeft() // exactly the slot of the wall clock
	var comp []*blockchain.Block
	for range kinds {
		o := r.txOpts()
		o.SlotsAhead = later
		l, err := n.BuildBlock(o)
		if err != nil {
			break
		}
		comp = append(comp, l)
	}
	if r.Proc(t) != "applied" {
		return
	}
	for i, l := range comp {
		if r.Err != nil || n.Tip() == nil {
			return
		}
		if !bytes.Equal(n.Tip().Header.ID, t.Header.ID) {
			// a competitor won: remove it and apply T again
			if n.Tip().Header.Height != t.Header.Height {
				return
			}
			err := DeleteBlock(n, n.Tip(), false)
			n.DrainEvents()
			r.Ops = append(r.Ops, "del st=0")
			r.fixMHG()
			if err != nil || n.Tip() == nil {
				return
			}
			if r.Proc(t) != "applied" {
				return
			}
		}
		r.inj = kinds[i]
		r.Proc(l)
		r.inj = ""
	}
}

// ---------------------------------------------------------------------------------------------
// replayer side

// disarm ends the injection of the current step (idempotent).
func (r *Runner) disarm() {
	if r.inj != nil {
		r.inj.Disarm()
		r.inj = nil
	}
}

// errorAfterWrite: a step that reports an error must not have changed the database ("point of no return": once the
// block batch is written the step can only succeed). what = process | processValidated. For Executer.process the
// only error exits are before any write (static validation, a refused deleteBlock of the tie-break, the valid path's
// processValidated error).
func (r *Runner) errorAfterWrite(what string, b *blockchain.Block, err error, before []node.KV) {
	if err == nil || isPanic(err) || r.n == nil || r.n.Exec == nil {
		return
	}
	d := Delta(before, r.n.DumpDB())
	if d == "-" {
		return
	}
	fin := "unreadable"
	func() {
		defer func() { _ = recover() }()
		fin = fmt.Sprint(r.n.Finalized())
	}()
	r.fail("c04-error-after-write", fmt.Sprintf("%s of block %d returned an error (%v; injected failure: %q) although the step had written its batch: stored finalized height %d -> %s; database delta %s",
		what, b.Header.Height, err, r.injKind, r.fin, fin, d))
}

// afterStepOracle: what must hold after EVERY step, whether it reported success or failure, with or without an
// injected failure (the event chain against the stored finalized height and the cached tip against the database are
// checked in Runner.state itself):
//   - the stored finalized height is max(previous stored height, maxHeightPrecommitted of the BFT store as it is now)
//   - i.e. the maximum of maxHeightPrecommitted over the blocks applied so far;
//   - the application is at the engine's tip (height and state root): abi.Commit / abi.Revert and the engine's
//     write happen in the same step or not at all (the one-block gap documented for crashes between the two - C13 /
//     C16 - cannot arise without a crash).
func (r *Runner) afterStepOracle(finOK bool, fin, prevFin uint32) {
	n := r.n
	if r.poisoned || n == nil || n.Exec == nil || n.Tip() == nil || !finOK {
		return
	}
	var mhpc uint32
	ok := false
	func() {
		defer func() { _ = recover() }()
		_, mhpc, _ = n.BFTHeights()
		ok = true
	}()
	if ok {
		want := prevFin
		if mhpc > want {
			want = mhpc
		}
		if fin != want {
			r.fail("c04-fin-not-max-mhpc", fmt.Sprintf("after the step: stored finalized height %d, before it %d, maxHeightPrecommitted of the chain now %d", fin, prevFin, mhpc))
		}
	}
	tip := n.Tip().Header
	if h, root := n.ABI.StateRoot(); n.ABI.Depth() > 0 && (h != tip.Height || !bytes.Equal(root, tip.StateRoot)) {
		r.fail("c04-application-out-of-step", fmt.Sprintf("engine tip at height %d (state root %x), application at height %d (state root %x)", tip.Height, short(tip.StateRoot), h, short(root)))
	}
}
