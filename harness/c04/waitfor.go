package c04

// Pseudo-property C20WAITFOR (model free, run as part of C20 through `also`): wait-for cycles through the process
// queue and the event emitter on the real, RUNNING Executer.
//
// Props/C20.lean proves deadlock freedom for mutexes; a cycle through CHANNELS is outside it: the consensus
// goroutine (the loop of Executer.Start) is the only one that takes blocks from the process queue (capacity 200),
// and while it raises an event (EventEmitter.Publish: emitter lock held, send on the unbuffered channel of every
// subscriber) it waits for the subscriber to receive. A goroutine that is a subscriber of these events AND hands
// blocks to the consensus (the generator: Generator.Start receives the events and calls forge -> AddInternal from
// the same loop; the chain_postBlock endpoint) must therefore never wait for the consensus goroutine: if its
// enqueue waits for a free place while the queue is full, both goroutines wait for each other for ever, the
// emitter lock stays held and every other Publish / Subscribe (the p2p handler) queues up behind it.
// Model/WaitFor.lean + Props/C20_WaitFor.lean prove the criterion (every enqueue of a subscriber is non-blocking
// => no deadlock, for any number of goroutines, any capacity, every schedule; counterexample for a blocking
// enqueue) and check it on the regenerated skeletons. Here it is run on the real code:
//
//   - the set-up of C04WRITER (writer.go): a real Executer on the node harness, its Start loop on its own
//     goroutine, the application wrapped so that the loop can be HELD inside any hook of a chosen block X, the
//     queue filled through the registered postBlock handler to 0 / 199 / 200 / 200+ blocks;
//   - NEW: live event subscribers that behave like the generator - each subscribes (EventEmitter.Subscribe:
//     unbuffered channels) to the new-block, delete-block and finalize events of the executer and runs ONE event
//     loop: `select` over its three subscriptions, a ticker and stop; on a tick (mode tick: "my slot came"), on a
//     finalize event (mode finalize) or on a new-block event (mode new) it hands a block to Executer.AddInternal
//     from that same loop;
//   - a hang watchdog.
//
// Oracles (none uses a model):
//   c20-queue-emitter-deadlock      the node stopped: the goroutine dump shows the Start loop's goroutine parked in a
//                                   channel send inside EventEmitter.Publish AND a goroutine parked inside
//                                   Executer.AddInternal, and neither the queue length nor the application calls nor
//                                   the submissions moved for WaitForConfirm (the cycle can only be broken by Stop).
//                                   Both goroutines are named in the detail. Failing input = the ops.
//   c20-waitfor-stall               the queue was not worked off within WaitForStall and the dump does not show
//                                   the cycle (some other hang)
//   c20-subscriber-enqueue-blocked  AddInternal, called from a subscriber's event loop while the consensus goroutine
//                                   is busy, did not return (the hypothesis of C20_waitfor_progress is violated on
//                                   the running code); reported at the end of the case unless the deadlock it leads
//                                   to was reported
//   c20-subscriber-missed-event     a live subscriber did not receive exactly one new-block event per applied block
//   + every oracle of C04WRITER's `check` (c04w-*: single writer, twin database, finalize events ...)
//
// Ops (one output line each; reset / start / feed / hold / fill / offer / check are those of writer.go):
//   subscribe n=K mode=tick|finalize|new|mixed   K subscriber goroutines
//   tick wait=MS                                 every subscriber's ticker fires once; wait for the submissions
//   release                                      release the loop, watchdog until the queue is worked off

import (
	"fmt"
	"math/rand"
	"runtime"
	"strings"
	"sync"
	"sync/atomic"
	"time"

	"github.com/LiskHQ/lisk-engine/pkg/consensus"

	"verifharness/corr"
	"verifharness/node"
)

type waitForProp struct{}

func init() { corr.Register(waitForProp{}) }

func (waitForProp) ID() string                 { return "C20WAITFOR" }
func (waitForProp) NoModel() bool              { return true }
func (waitForProp) Parallel() int              { return 4 }
func (waitForProp) CaseTimeout() time.Duration { return 3 * time.Minute }

// WaitForCases / WaitForRun expose generator and runner (go test -race in verifharness/c20race).
func WaitForCases(rng *rand.Rand, tier string) []corr.Case { return waitForProp{}.Generate(rng, tier) }
func WaitForRun(c corr.Case) ([]string, []corr.Fail)       { return waitForProp{}.RunImpl(c) }

// WaitForStall is the time without a worked-off queue after which the node is declared hung when the goroutine
// dump does not show the wait-for cycle itself; WaitForConfirm is the time for which the cycle (consensus goroutine
// blocked inside Publish, a subscriber blocked inside AddInternal, nothing moving) must persist to be reported.
var (
	WaitForStall   = 6 * time.Second
	WaitForConfirm = 300 * time.Millisecond
)

// A tree on which the cycle exists fails in every case that fills the queue; each failing case is re-run many
// times by the shrinker. To keep the check of such a tree within the quick-tier budget only the first
// waitForMaxReports cases (identified by their reset line, so that shrunk variants still report) record the failure.
const waitForMaxReports = 3

var (
	waitForMu       sync.Mutex
	waitForReported = map[string]bool{}
)

func waitForMayReport(caseKey string) bool {
	waitForMu.Lock()
	defer waitForMu.Unlock()
	if waitForReported[caseKey] {
		return true
	}
	if len(waitForReported) >= waitForMaxReports {
		return false
	}
	waitForReported[caseKey] = true
	return true
}

// ---------------------------------------------------------------------------------------------
// generator

func (waitForProp) Generate(rng *rand.Rand, tier string) []corr.Case {
	n := 10
	if tier == "thorough" {
		n = 160
	}
	var cases []corr.Case
	add := func(tag string, vals int, ops ...string) {
		pre := 4 + rng.Intn(5)
		if vals > 1 {
			pre = 3*vals + rng.Intn(4)
		}
		head := []string{fmt.Sprintf("reset vals=%d seed=%d pre=%d app=strict", vals, 1+rng.Intn(1000), pre), "start"}
		cases = append(cases, corr.Case{Ops: append(head, ops...), Tag: tag})
	}
	hooks := []string{"Commit", "Commit", "AfterTransactionsExecute", "VerifyAssets", "InitStateMachine"}
	hold := func() string {
		return fmt.Sprintf("hold x=vote hook=%s when=%s txs=0", hooks[rng.Intn(len(hooks))], []string{"before", "after"}[rng.Intn(2)])
	}
	// the boundary itself, always present: the queue is exactly full when (a) the subscriber's ticker fires while the
	// loop is inside a block, (b) the subscriber reacts to the finalize event of that block
	add("q200-tick", 1, "subscribe n=1 mode=tick", "hold x=vote hook=Commit when=before txs=0", "fill n=200 kind=tip", "tick wait=1500", "release", "check")
	add("q200-finalize", 1, "subscribe n=1 mode=finalize", "hold x=vote hook=Commit when=before txs=0", "fill n=200 kind=tip", "release", "check")
	for i := 0; i < n; i++ {
		level := 200
		switch i % 5 {
		case 1:
			level = 199
		case 2:
			level = []int{0, 1, 7}[rng.Intn(3)]
		case 3:
			level = 200 + 1 + rng.Intn(12)
		}
		mode := []string{"tick", "finalize", "mixed", "new"}[i%4]
		if i%8 == 7 {
			mode = []string{"tick", "finalize", "mixed"}[rng.Intn(3)]
		}
		vals := 1
		if i%6 == 5 {
			vals = 2 + rng.Intn(2)
		}
		ops := []string{fmt.Sprintf("subscribe n=%d mode=%s", 1+rng.Intn(3), mode)}
		if rng.Intn(3) == 0 {
			ops = append(ops, fmt.Sprintf("feed n=%d", 1+rng.Intn(2)))
		}
		rounds := 1 + rng.Intn(2)
		for r := 0; r < rounds; r++ {
			ops = append(ops, hold())
			if level > 0 {
				ops = append(ops, fmt.Sprintf("fill n=%d kind=%s", level, []string{"tip", "mixed", "old"}[rng.Intn(3)]))
			}
			if mode == "tick" || mode == "mixed" || rng.Intn(3) == 0 {
				ops = append(ops, "tick wait=1500")
			}
			ops = append(ops, "release")
			if rng.Intn(2) == 0 {
				ops = append(ops, fmt.Sprintf("feed n=%d", 1+rng.Intn(2)))
			}
			ops = append(ops, "check")
		}
		add(fmt.Sprintf("q%d-%s", level, mode), vals, ops...)
	}
	return cases
}

func (waitForProp) Classify(c corr.Case, out []string) string {
	has := map[string]bool{}
	for i, l := range out {
		if i >= len(c.Ops) {
			break
		}
		switch strings.Fields(c.Ops[i])[0] {
		case "hold":
			if strings.HasPrefix(l, "held") {
				has["held"] = true
			}
		case "fill":
			if strings.HasPrefix(l, "queued=200") {
				has["full"] = true
			}
		case "tick":
			if strings.HasPrefix(l, "ticked") {
				has["tick"] = true
			}
		case "release":
			if strings.HasPrefix(l, "drained") {
				has["drained"] = true
			}
			if strings.Contains(l, "submits=") && !strings.Contains(l, "submits=0") {
				has["submitted"] = true
			}
		}
	}
	if !has["held"] {
		return ""
	}
	var keys []string
	for _, k := range []string{"held", "full", "tick", "submitted", "drained"} {
		if has[k] {
			keys = append(keys, k)
		}
	}
	return strings.Join(keys, ",")
}

// ---------------------------------------------------------------------------------------------
// subscribers

type qSub struct {
	id       int
	mode     string
	tick     chan struct{}
	stop     chan struct{}
	done     chan struct{}
	started  int64 // submissions started (atomic)
	returned int64 // submissions whose AddInternal returned
	news     int64 // new-block events received
	deletes  int64
	finals   int64
	gid      int64
	h0       uint32 // height when it subscribed
}

type qRunner struct {
	*wRunner
	subs    []*qSub
	caseKey string
	blocked string // a submission was seen blocked inside AddInternal (reported at the end unless a deadlock follows)
}

// qfail records a failure of this pseudo-property (bounded number of reporting cases per process, see above)
func (q *qRunner) qfail(sig, detail string) {
	if waitForMayReport(q.caseKey) {
		q.fail(sig, detail)
	}
}

func (q *qRunner) subscribe(a map[string]string) string {
	if q.n == nil {
		return "no-node"
	}
	k := int(atou(a["n"]))
	if k < 1 || k > 8 {
		k = 1
	}
	exec := q.n.Exec
	marker := q.n.Genesis
	for i := 0; i < k; i++ {
		mode := a["mode"]
		if mode == "mixed" {
			mode = []string{"tick", "finalize", "new"}[(len(q.subs))%3]
		}
		s := &qSub{id: len(q.subs), mode: mode, tick: make(chan struct{}, 64), stop: make(chan struct{}), done: make(chan struct{}), h0: q.n.Height()}
		// what Generator.Start does: three subscriptions, then one loop
		onNew := exec.Subscribe(consensus.EventBlockNew)
		onDelete := exec.Subscribe(consensus.EventBlockDelete)
		onFinalize := exec.Subscribe(consensus.EventBlockFinalize)
		submit := func() {
			cp, err := node.CopyBlock(marker)
			if err != nil {
				return
			}
			atomic.AddInt64(&s.started, 1)
			exec.AddInternal(cp) // forge() -> consensus.AddInternal, on the goroutine that receives the events
			atomic.AddInt64(&s.returned, 1)
		}
		ready := make(chan struct{})
		go func() {
			defer close(s.done)
			atomic.StoreInt64(&s.gid, goid())
			close(ready)
			for {
				select {
				case _, ok := <-onNew:
					if !ok {
						return
					}
					atomic.AddInt64(&s.news, 1)
					if s.mode == "new" {
						submit()
					}
				case _, ok := <-onDelete:
					if !ok {
						return
					}
					atomic.AddInt64(&s.deletes, 1)
				case _, ok := <-onFinalize:
					if !ok {
						return
					}
					atomic.AddInt64(&s.finals, 1)
					if s.mode == "finalize" {
						submit()
					}
				case <-s.tick:
					submit()
				case <-s.stop:
					return
				}
			}
		}()
		<-ready
		q.subs = append(q.subs, s)
	}
	return fmt.Sprintf("subscribed=%d", len(q.subs))
}

func (q *qRunner) submits() (started, returned int64) {
	for _, s := range q.subs {
		started += atomic.LoadInt64(&s.started)
		returned += atomic.LoadInt64(&s.returned)
	}
	return
}

func (q *qRunner) doTick(a map[string]string) string {
	if !q.started || q.stuck {
		return "not-running"
	}
	wait := time.Duration(atou(a["wait"])) * time.Millisecond
	if wait <= 0 || wait > 10*time.Second {
		wait = 1500 * time.Millisecond
	}
	st0, _ := q.submits()
	for _, s := range q.subs {
		select {
		case s.tick <- struct{}{}:
		default:
		}
	}
	want := st0 + int64(len(q.subs))
	deadline := time.Now().Add(wait)
	var firstSeen time.Time
	lastDump := time.Now()
	for {
		st, ret := q.submits()
		if st >= want && ret == st {
			return fmt.Sprintf("ticked returned=%d/%d queue=%d", ret, st, q.n.Exec.VerifProcessQueueLen())
		}
		blocked := false
		if st > ret && time.Since(lastDump) > 50*time.Millisecond {
			// submissions are outstanding: are their goroutines parked inside AddInternal?
			lastDump = time.Now()
			if _, add := q.parked(); len(add) > 0 {
				if firstSeen.IsZero() {
					firstSeen = time.Now()
				} else if time.Since(firstSeen) > WaitForConfirm {
					blocked = true
				}
			} else {
				firstSeen = time.Time{}
			}
		}
		if blocked || time.Now().After(deadline) {
			if st > ret {
				q.blocked = fmt.Sprintf("Executer.AddInternal called from the event loop of a subscriber did not return: %d of %d submissions are parked inside it (process queue %d of %d, the Start loop is %s): the subscriber waits for the consensus goroutine, which delivers its events synchronously to this very goroutine", st-ret, st, q.n.Exec.VerifProcessQueueLen(), q.qcap, q.loopState())
			}
			return fmt.Sprintf("ticked returned=%d/%d queue=%d", ret, st, q.n.Exec.VerifProcessQueueLen())
		}
		time.Sleep(500 * time.Microsecond)
	}
}

func (q *qRunner) loopState() string {
	if q.held != nil {
		return "inside a block (held in an application hook)"
	}
	return "running"
}

// parked looks for the two ends of the wait-for cycle in the goroutine dump: the Start loop's goroutine blocked in
// a channel send inside EventEmitter.Publish, and goroutines blocked inside Executer.AddInternal.
func (q *qRunner) parked() (pub, add []string) {
	buf := make([]byte, 4<<20)
	buf = buf[:runtime.Stack(buf, true)]
	// only the goroutines of THIS node: its Start loop and its subscribers (cases run in parallel)
	q.tr.mu.Lock()
	loop := q.tr.loopGID
	q.tr.mu.Unlock()
	mine := map[int64]bool{}
	for _, s := range q.subs {
		mine[atomic.LoadInt64(&s.gid)] = true
	}
	for _, g := range strings.Split(string(buf), "\n\n") {
		head, _, _ := strings.Cut(g, "\n")
		var id int64
		if _, err := fmt.Sscanf(head, "goroutine %d ", &id); err != nil {
			continue
		}
		switch {
		case id == loop && strings.Contains(g, "event.(*EventEmitter).Publish") && strings.Contains(g, "consensus.(*Executer).Start") && strings.Contains(head, "chan send"):
			pub = append(pub, strings.TrimSuffix(head, ":"))
		case mine[id] && strings.Contains(g, "consensus.(*Executer).AddInternal") && (strings.Contains(head, "chan send") || strings.Contains(head, "select")):
			add = append(add, strings.TrimSuffix(head, ":"))
		}
	}
	return
}

func cycleText(pub, add []string) string {
	return fmt.Sprintf("the consensus goroutine (%s) is inside EventEmitter.Publish called from Executer.Start -> process, sending to a subscriber that does not receive; %d subscriber goroutine(s) (%s) are inside Executer.AddInternal waiting for a place in the process queue, which only the consensus goroutine frees; the emitter lock stays held", strings.Join(pub, ", "), len(add), strings.Join(add, ", "))
}

// drainWatch is wRunner.drain (two markers behind everything, then wait for the empty queue) with a hang watchdog:
// it gives up when the wait-for cycle is visible in the goroutine dump and nothing has moved for WaitForConfirm, or
// after WaitForStall. progress = queue length, application calls, submissions.
func (q *qRunner) drainWatch() (ok bool, cycle bool, report string) {
	deadline := time.Now().Add(WaitForStall)
	marker := q.n.Genesis
	snapshot := func() [3]int64 {
		q.tr.mu.Lock()
		calls := q.tr.calls
		q.tr.mu.Unlock()
		_, ret := q.submits()
		return [3]int64{int64(q.n.Exec.VerifProcessQueueLen()), int64(calls), ret}
	}
	last, lastMove, lastDump := snapshot(), time.Now(), time.Now()
	var cycleSince time.Time
	stalled := func() (bool, string) {
		now := snapshot()
		if now != last {
			last, lastMove, cycleSince = now, time.Now(), time.Time{}
			return false, ""
		}
		if time.Since(lastMove) > 100*time.Millisecond && time.Since(lastDump) > 50*time.Millisecond {
			lastDump = time.Now()
			if pub, add := q.parked(); len(pub) > 0 && len(add) > 0 {
				if cycleSince.IsZero() {
					cycleSince = time.Now()
				} else if time.Since(cycleSince) > WaitForConfirm {
					return true, cycleText(pub, add)
				}
			} else {
				cycleSince = time.Time{}
			}
		}
		return false, ""
	}
	markers := 0
	for {
		if markers < 2 {
			if q.n.Exec.VerifProcessQueueLen() < q.qcap {
				q.gossip(marker)
				markers++
				continue
			}
		} else if q.n.Exec.VerifProcessQueueLen() == 0 {
			return true, false, ""
		}
		if c, rep := stalled(); c {
			return false, true, rep
		}
		if time.Now().After(deadline) {
			pub, add := q.parked()
			return false, false, fmt.Sprintf("goroutines inside Publish from the Start loop: %v; inside AddInternal: %v", pub, add)
		}
		time.Sleep(200 * time.Microsecond)
		q.observeFin()
	}
}

func (q *qRunner) qrelease() string {
	if q.held == nil {
		return "not-held"
	}
	finBefore := q.n.Finalized()
	close(q.held.release)
	q.held, q.heldX = nil, nil
	q.tr.mu.Lock()
	q.tr.hold = nil
	q.tr.mu.Unlock()
	if ok, cycle, rep := q.drainWatch(); !ok {
		q.stuck = true
		st, ret := q.submits()
		if cycle {
			q.blocked = ""
			q.qfail("c20-queue-emitter-deadlock", fmt.Sprintf("the node stopped after the Start loop was released: the process queue holds %d of %d blocks and nothing moves, %d of %d submissions of the event subscribers have not returned; %s", q.n.Exec.VerifProcessQueueLen(), q.qcap, st-ret, st, rep))
		} else {
			q.qfail("c20-waitfor-stall", fmt.Sprintf("the Start loop did not work off the process queue within %v (%d of %d left, submissions returned %d of %d); %s", WaitForStall, q.n.Exec.VerifProcessQueueLen(), q.qcap, ret, st, rep))
		}
		return "stuck"
	}
	q.observeFin()
	raised := 0
	if q.n.Finalized() > finBefore {
		raised = 1
	}
	st, ret := q.submits()
	if st != ret {
		// the queue is empty and the loop idle: a submission that has still not returned never will
		time.Sleep(50 * time.Millisecond)
		if st2, ret2 := q.submits(); st2 != ret2 {
			q.blocked = fmt.Sprintf("%d of %d submissions of the event subscribers have not returned although the queue is worked off", st2-ret2, st2)
		}
	}
	return fmt.Sprintf("drained h=%d fin=%d finraised=%d submits=%d", q.n.Height(), q.n.Finalized(), raised, st)
}

func (q *qRunner) qcheck() string {
	out := q.wRunner.check()
	if q.stuck || q.held != nil {
		return out
	}
	// exactly-once delivery to the live subscribers: one new-block event per applied block, one delete event per
	// removed block, so news - deletes = growth of the chain since the subscription
	for _, s := range q.subs {
		news, dels := atomic.LoadInt64(&s.news), atomic.LoadInt64(&s.deletes)
		if got, want := news-dels, int64(q.n.Height())-int64(s.h0); got != want {
			q.qfail("c20-subscriber-missed-event", fmt.Sprintf("subscriber %d (mode %s) received %d new-block and %d delete-block events, the chain grew by %d blocks since it subscribed", s.id, s.mode, news, dels, want))
			return "FAIL events"
		}
	}
	return out
}

func (q *qRunner) stopSubs() {
	for _, s := range q.subs {
		close(s.stop)
	}
	for _, s := range q.subs {
		select {
		case <-s.done:
		case <-time.After(2 * time.Second):
		}
	}
	q.subs = nil
}

func (q *qRunner) step(op string) string {
	w := strings.Fields(op)
	if len(w) == 0 {
		return "bad-op"
	}
	a := args(op)
	switch w[0] {
	case "subscribe":
		return q.subscribe(a)
	case "tick":
		if q.n == nil {
			return "no-node"
		}
		return q.doTick(a)
	case "release":
		if q.n == nil {
			return "no-node"
		}
		return q.qrelease()
	case "check":
		if q.n == nil {
			return "no-node"
		}
		return q.qcheck()
	}
	if w[0] != "reset" && q.stuck {
		return "stuck" // the node hangs: every further Publish (gossip) would queue up behind the emitter lock
	}
	if w[0] == "reset" || w[0] == "start" {
		return q.wRunner.step(op)
	}
	// feed / hold / fill / offer hand blocks in through the p2p handler, which publishes an event first: on a node
	// whose emitter lock is held for ever they never return. Run them under the watchdog.
	res := make(chan string, 1)
	var pan interface{}
	go func() {
		defer func() {
			if p := recover(); p != nil {
				pan = p
				res <- "panic"
			}
		}()
		res <- q.wRunner.step(op)
	}()
	timeout := time.NewTimer(45 * time.Second)
	defer timeout.Stop()
	tickCheck := time.NewTicker(100 * time.Millisecond)
	defer tickCheck.Stop()
	var cycleSince time.Time
	for {
		select {
		case r := <-res:
			if pan != nil {
				panic(pan)
			}
			return r
		case <-tickCheck.C:
			if pub, add := q.parked(); len(pub) > 0 && len(add) > 0 {
				if cycleSince.IsZero() {
					cycleSince = time.Now()
				} else if time.Since(cycleSince) > 4*WaitForConfirm {
					q.stuck = true
					st, ret := q.submits()
					q.blocked = ""
					q.qfail("c20-queue-emitter-deadlock", fmt.Sprintf("the node stopped during %q: the process queue holds %d of %d blocks, %d of %d submissions of the event subscribers have not returned; %s", op, q.n.Exec.VerifProcessQueueLen(), q.qcap, st-ret, st, cycleText(pub, add)))
					return "stuck"
				}
			} else {
				cycleSince = time.Time{}
			}
		case <-timeout.C:
			q.stuck = true
			pub, add := q.parked()
			q.qfail("c20-waitfor-stall", fmt.Sprintf("%q did not return within 45 s; goroutines inside Publish from the Start loop: %v; inside AddInternal: %v", op, pub, add))
			return "stuck"
		}
	}
}

func (waitForProp) RunImpl(c corr.Case) ([]string, []corr.Fail) {
	q := &qRunner{wRunner: &wRunner{seen: map[string]bool{}}}
	if len(c.Ops) > 0 {
		q.caseKey = c.Ops[0]
	}
	out := make([]string, len(c.Ops))
	for i, op := range c.Ops {
		q.op = i
		func() {
			defer func() {
				if p := recover(); p != nil {
					out[i] = "panic"
					q.fail("c20-waitfor-panic", fmt.Sprintf("op %q: %v", op, p))
				}
			}()
			out[i] = q.step(op)
		}()
		q.observeFin()
	}
	if q.n != nil && q.held != nil && !q.stuck {
		// the case ends with the loop held: release it under the watchdog (shutdown would wait much longer)
		q.op = len(c.Ops) - 1
		q.qrelease()
	}
	if q.blocked != "" {
		// a subscriber was seen waiting inside AddInternal and no deadlock was reported for it
		q.op = len(c.Ops) - 1
		q.qfail("c20-subscriber-enqueue-blocked", q.blocked)
	}
	// the loop is stopped first (closeCh), with the subscribers still receiving; then the subscribers
	q.shutdown()
	q.stopSubs()
	return out, q.fails
}
