package c05

// maint.go - the storage-maintenance steps of the durable checks (C05DUR, C12DUR) on a pkg/db database, exported so
// that other harness packages run the same steps: memtable flush, manual compaction of the whole key range, waiting
// for pebble's background work, close / reopen with or without a simulated power loss.

import (
	"bytes"
	"time"

	"github.com/cockroachdb/pebble"
	"github.com/cockroachdb/pebble/vfs"

	"github.com/LiskHQ/lisk-engine/pkg/db"

	"verifharness/c13"
)

// DurModes are the pebble settings of the durable checks (see c13.PebbleOptions): default, 16 KB and 3 KB memtables.
var DurModes = []string{"default", "small", "tiny"}

// OpenDurable opens (or reopens) the pkg/db database that lives in dir on fs with the memtable settings of mode.
func OpenDurable(fs vfs.FS, dir, mode string) (*db.DB, error) {
	return db.NewDBWithOptions(dir, c13.PebbleOptions(fs, mode))
}

// Quiesce waits until pebble has no flush or compaction in progress.
func Quiesce(p *pebble.DB) {
	calm := 0
	for i := 0; i < 20000 && calm < 3; i++ {
		m := p.Metrics()
		if m.MemTable.Count <= 1 && m.Compact.NumInProgress == 0 {
			calm++
		} else {
			calm = 0
		}
		time.Sleep(100 * time.Microsecond)
	}
}

// Flush writes the memtable to an sstable.
func Flush(d *db.DB) error { return d.VerifPebble().Flush() }

// CompactAll runs a manual compaction of the whole key range (down to the bottom level).
func CompactAll(d *db.DB) error {
	p := d.VerifPebble()
	Quiesce(p)
	return p.Compact([]byte{}, bytes.Repeat([]byte{0xff}, 40), false)
}

// CloseQuiet closes the database after its background work has ended; a panic of Close is swallowed.
func CloseQuiet(d *db.DB) {
	if d == nil {
		return
	}
	defer func() { _ = recover() }()
	Quiesce(d.VerifPebble())
	_ = d.Close()
}

// PowerLoss closes the database while the strict in-memory file system ignores every sync and then drops
// everything that was not synced before: what a reopen finds is what was durable.
func PowerLoss(fs *vfs.MemFS, d *db.DB) {
	Quiesce(d.VerifPebble())
	fs.SetIgnoreSyncs(true)
	func() {
		defer func() { _ = recover() }()
		_ = d.Close()
	}()
	fs.ResetToSyncedState()
	fs.SetIgnoreSyncs(false)
}
