// Package c05 registers property C05 (deleting the tip restores the exact previous node state) on
// the engine of package c04: histories with deep apply / delete / re-apply sequences, rich block
// contents, small block caches, shared transaction ids.
package c05

import (
	"math/rand"

	"verifharness/c04"
	"verifharness/corr"
)

func init() {
	corr.Register(c04.Prop{Id: "C05", Prefixes: []string{"c05-", "node-"}, Profiles: profiles})
}

func profiles(rng *rand.Rand, tier string) []c04.Profile {
	n := 28
	if tier == "thorough" {
		n = 420
	}
	var ps []c04.Profile
	for i := 0; i < n; i++ {
		p := c04.Profile{Steps: 8 + rng.Intn(10), DeleteBias: 2.5, ForkBias: 0.6}
		switch i % 8 {
		case 0:
			p.TieBreak = true
			p.ForkBias = 2.5
		case 1, 5:
			p.SmallCache = true
		case 2:
			p.ValidatorCh = true
		case 3:
			p.DupTx = true
		case 4:
			p.Exhaust = true
		case 6:
			p.Steps += 10
		}
		ps = append(ps, p)
	}
	// lookup family (appended, the profiles above keep their random draws): block caches of 1..2 entries, every block
	// with transactions, deep removals and reorganisations to siblings - what GetTransaction(s) / GetBlock* answer
	// right after the cache refill (c04/lookups.go)
	for i, k := 0, 2+n/60; i < k; i++ {
		ps = append(ps, c04.Profile{Steps: 8 + rng.Intn(6), DeleteBias: 3, ForkBias: 0.8, TinyCache: true, TxHeavy: true, Exhaust: i%2 == 1})
	}
	// failure-injection family (c04/inject.go): every application hook / publication failing once at every step kind
	ps = append(ps, c04.InjectProfiles(rng, tier)...)
	// reorganisations of depth 1..4 across validator / threshold / weight changes, judged against a fresh node that was
	// given only the surviving chain (c04/reorgfresh.go, c05-reorg-history-dependent); appended last, no draw here
	return append(ps, c04.ReorgProfiles(tier)...)
}
