package c05

// C05DUR - model-free pseudo-property of C05 (wired through "also"): the persistent state after memtable flush,
// compaction and reopen. C05 speaks about the PERSISTENT node state; every other run of C04 / C05 / C12 keeps
// its database in a pebble memtable that is never flushed and reads right after the write. Here the same
// write paths run on a pebble that lives on the strict in-memory file system with the memtable settings of C13
// (default / 16 KB / 3 KB), and explicit `settle` operations force Flush + manual compaction of the whole key
// range + close / reopen (optionally after a simulated power loss). Two families:
//
//   node   histories of the C05 recorder (harness/c04 Record, delete-heavy profiles) replayed by the C04 / C05
//          runner on such a database (reset ... dur=<mode>, see c04/durable.go); removals save the temporary
//          copy more often than recorded and the temp table is cleared in between, so that rows are written
//          several times before they are deleted. Oracles: storage maintenance is invisible (dump before ==
//          dump after `settle`), plus everything the runner checks anyway on the settled state (delete restores
//          the dump before the apply, re-apply equality, twin node, lookups).
//   store  the revert law C05 rests on, on the staged store itself (pkg/db/diffdb over pkg/db): a STACK of
//          commits and reverts over a tiny key space - keys added by one commit, updated by later ones,
//          deleted, re-created -, the diff of every commit stored and read back like Executer does, direct
//          DB.Set / DB.Del and raw db.Batch writes next to it. Reference: plain Go maps. After every write and
//          every `settle` the complete database must equal the reference; after all reverts it is the initial
//          content again.
//
// Signatures: c05-durable-state-changed-by-flush (node), c05-durable-store-changed-by-flush,
// c05-store-not-reference (store: wrong before any maintenance ran), c05-durable-maintenance-failed.

import (
	"bytes"
	"fmt"
	"math/rand"
	"sort"
	"strings"
	"time"

	"github.com/cockroachdb/pebble/vfs"

	"github.com/LiskHQ/lisk-engine/pkg/db"
	"github.com/LiskHQ/lisk-engine/pkg/db/diffdb"

	"verifharness/c04"
	"verifharness/c13"
	"verifharness/corr"
)

type durProp struct{}

func init() { corr.Register(durProp{}) }

func (durProp) ID() string                 { return "C05DUR" }
func (durProp) NoModel() bool              { return true }
func (durProp) Parallel() int              { return 6 }
func (durProp) CaseTimeout() time.Duration { return 3 * time.Minute }

var durModes = []string{"default", "default", "small", "tiny"}

func settleOp(rng *rand.Rand) string {
	switch rng.Intn(6) {
	case 0, 1:
		return "settle flush=1 compact=0 reopen=0"
	case 2:
		return "settle flush=1 compact=1 reopen=0"
	case 3:
		return "settle flush=1 compact=1 reopen=1"
	case 4:
		return "settle flush=0 compact=0 reopen=1"
	default:
		return "settle flush=1 compact=0 reopen=2"
	}
}

const settleAll = "settle flush=1 compact=1 reopen=1"

func (durProp) Generate(rng *rand.Rand, tier string) []corr.Case {
	nNode, nStore := 10, 260
	if tier == "thorough" {
		nNode, nStore = 150, 6000
	}
	var cases []corr.Case
	for i := 0; i < nNode; i++ {
		p := c04.Profile{Steps: 7 + rng.Intn(8), DeleteBias: 3.0, ForkBias: 0.5}
		switch i % 5 {
		case 1:
			p.SmallCache = true
		case 2:
			p.ValidatorCh = true
		case 3:
			p.Exhaust = true
		}
		ops, tag, err := c04.Record(rng, p)
		if len(ops) < 2 {
			continue
		}
		if err != nil {
			tag += "+recorder-error"
		}
		mode := durModes[rng.Intn(len(durModes))]
		out := []string{ops[0] + " dur=" + mode}
		for _, op := range ops[1:] {
			w := strings.Fields(op)[0]
			if op == "del st=0" && rng.Intn(2) == 0 {
				op = "del st=1" // the temporary copy is saved more often than recorded (rows written repeatedly)
			}
			out = append(out, op)
			switch w {
			case "del", "till", "cleartemp":
				if rng.Intn(3) == 0 {
					out = append(out, settleOp(rng))
				}
				if w == "del" && rng.Intn(6) == 0 {
					out = append(out, "cleartemp")
					if rng.Intn(2) == 0 {
						out = append(out, settleOp(rng))
					}
				}
			case "pv", "proc":
				if rng.Intn(8) == 0 {
					out = append(out, settleOp(rng))
				}
			}
		}
		out = append(out, "cleartemp", settleAll, "twin")
		cases = append(cases, corr.Case{Ops: out, Tag: "node/" + mode + "/" + tag})
	}
	for i := 0; i < nStore; i++ {
		cases = append(cases, genStore(rng))
	}
	return cases
}

// ---------------------------------------------------------------------------------------------
// store family

var storeKeys = [][]byte{{0x00}, {0x01}, {0x00, 0x01}, {0x01, 0x00}, {0x02}, {0xff}}

func genStore(rng *rand.Rand) corr.Case {
	mode := durModes[rng.Intn(len(durModes))]
	key := func() string { return corr.Hex(storeKeys[rng.Intn(len(storeKeys))]) }
	val := func() string {
		n := rng.Intn(4)
		if mode == "tiny" && rng.Intn(4) == 0 {
			n = 700 + rng.Intn(900) // a few values fill a 3 KB memtable
		}
		v := make([]byte, n)
		rng.Read(v)
		return corr.Hex(v)
	}
	var init []string
	seen := map[string]bool{}
	for j, m := 0, rng.Intn(4); j < m; j++ {
		k := key()
		if !seen[k] {
			seen[k] = true
			init = append(init, k+":"+val())
		}
	}
	is := "-"
	if len(init) > 0 {
		is = strings.Join(init, ",")
	}
	ops := []string{fmt.Sprintf("sreset mode=%s init=%s", mode, is)}
	depth, staged := 0, false
	n := 10 + rng.Intn(30)
	for j := 0; j < n; j++ {
		switch x := rng.Intn(100); {
		case x < 30:
			ops = append(ops, "sset "+key()+" "+val())
			staged = true
		case x < 44:
			ops = append(ops, "sdel "+key())
			staged = true
		case x < 62:
			ops = append(ops, "scommit")
			depth++
			staged = false
		case x < 74:
			if depth > 0 && !staged {
				ops = append(ops, "srevert")
				depth--
			}
		case x < 84:
			ops = append(ops, settleOp(rng))
			if strings.Contains(ops[len(ops)-1], "reopen=0") == false {
				staged = false
			}
		case x < 89:
			ops = append(ops, "sdbset "+key()+" "+val())
		case x < 93:
			ops = append(ops, "sdbdel "+key())
		default:
			var items []string
			for q, m := 0, 1+rng.Intn(4); q < m; q++ {
				if rng.Intn(3) == 0 {
					items = append(items, "d:"+key())
				} else {
					items = append(items, "s:"+key()+":"+val())
				}
			}
			ops = append(ops, "sbatch "+strings.Join(items, ","))
		}
	}
	if staged {
		ops = append(ops, "scommit")
		depth++
	}
	// back to the initial content: every commit is reverted, storage maintenance somewhere in between
	for ; depth > 0; depth-- {
		ops = append(ops, "srevert")
		if rng.Intn(4) == 0 {
			ops = append(ops, settleOp(rng))
		}
	}
	ops = append(ops, settleAll, "sinitial")
	return corr.Case{Ops: ops, Tag: "store/" + mode}
}

type storeRunner struct {
	fs    *vfs.MemFS
	mode  string
	d     *db.DB
	root  *diffdb.Database
	base  map[string][]byte   // reference: the committed content
	eff   map[string][]byte   // reference: committed + staged
	stack []map[string][]byte // reference: content before each commit
	init  map[string][]byte
	fails []corr.Fail
	op    int
}

var (
	statePfx  = []byte{10}   // the staged store is a view of this prefix, like the consensus store
	directPfx = []byte{0xee} // keys written directly / through raw batches
)

func cp(m map[string][]byte) map[string][]byte {
	r := make(map[string][]byte, len(m))
	for k, v := range m {
		r[k] = v
	}
	return r
}

func (r *storeRunner) fail(sig, format string, a ...interface{}) {
	d := fmt.Sprintf(format, a...)
	if len(d) > 700 {
		d = d[:700] + "..."
	}
	r.fails = append(r.fails, corr.Fail{Sig: sig, Detail: d, Op: r.op})
}

func (r *storeRunner) dump() map[string][]byte {
	m := map[string][]byte{}
	for _, kv := range r.d.IterateRange([]byte{}, bytes.Repeat([]byte{0xff}, 40), -1, false) {
		m[string(kv.Key())] = append([]byte{}, kv.Value()...)
	}
	return m
}

func diffMaps(want, got map[string][]byte) []string {
	var out []string
	show := func(v []byte) string {
		if len(v) > 8 {
			return fmt.Sprintf("%x..(%d bytes)", v[:8], len(v))
		}
		return corr.Hex(v)
	}
	for k, v := range want {
		if w, ok := got[k]; !ok {
			out = append(out, fmt.Sprintf("key %x is missing (reference %s)", k, show(v)))
		} else if !bytes.Equal(v, w) {
			out = append(out, fmt.Sprintf("key %x = %s, reference %s", k, show(w), show(v)))
		}
	}
	for k, v := range got {
		if _, ok := want[k]; !ok {
			out = append(out, fmt.Sprintf("key %x = %s exists, the reference has no such key", k, show(v)))
		}
	}
	sort.Strings(out)
	return out
}

// reference content of the whole database: committed keys plus one stored diff per open commit
func (r *storeRunner) check(sig, what string) bool {
	got := r.dump()
	for k := range got {
		if len(k) > 0 && k[0] == 51 {
			delete(got, k) // diff rows: existence is checked by srevert reading them back
		}
	}
	if d := diffMaps(r.base, got); len(d) != 0 {
		r.fail(sig, "%s (memtables %s): %s", what, r.mode, strings.Join(d, "; "))
		return false
	}
	return true
}

func diffKey(depth int) []byte { return []byte{51, 0, 0, 0, byte(depth)} }

func (r *storeRunner) open() error {
	d, err := db.NewDBWithOptions("", c13.PebbleOptions(r.fs, r.mode))
	if err != nil {
		return err
	}
	r.d = d
	r.root = diffdb.New(d, statePfx)
	r.eff = cp(r.base)
	return nil
}

func (r *storeRunner) close() {
	if r.d != nil {
		func() {
			defer func() { _ = recover() }()
			_ = r.d.Close()
		}()
		r.d = nil
	}
}

func (r *storeRunner) quiesce() {
	calm := 0
	for i := 0; i < 20000 && calm < 3; i++ {
		m := r.d.VerifPebble().Metrics()
		if m.MemTable.Count <= 1 && m.Compact.NumInProgress == 0 {
			calm++
		} else {
			calm = 0
		}
		time.Sleep(100 * time.Microsecond)
	}
}

func kvArgs(op string) map[string]string {
	m := map[string]string{}
	for _, w := range strings.Fields(op)[1:] {
		if i := strings.IndexByte(w, '='); i > 0 {
			m[w[:i]] = w[i+1:]
		}
	}
	return m
}

func (r *storeRunner) step(op string) string {
	w := strings.Fields(op)
	if w[0] != "sreset" && r.d == nil {
		return "no-db"
	}
	full := func(p []byte, hexKey string) string { return string(append(append([]byte{}, p...), corr.UnHex(hexKey)...)) }
	switch w[0] {
	case "sreset":
		r.close()
		a := kvArgs(op)
		r.fs, r.mode = vfs.NewStrictMem(), a["mode"]
		r.base, r.stack = map[string][]byte{}, nil
		if err := r.open(); err != nil {
			return "open-failed"
		}
		if a["init"] != "-" && a["init"] != "" {
			for _, item := range strings.Split(a["init"], ",") {
				kv := strings.Split(item, ":")
				k := full(statePfx, kv[0])
				r.d.Set([]byte(k), corr.UnHex(kv[1]))
				r.base[k] = corr.UnHex(kv[1])
			}
		}
		r.eff = cp(r.base)
		r.init = cp(r.base)
		return "ok"
	case "sset":
		r.root.Set(corr.UnHex(w[1]), corr.UnHex(w[2]))
		r.eff[full(statePfx, w[1])] = corr.UnHex(w[2])
		return "ok"
	case "sdel":
		r.root.Del(corr.UnHex(w[1]))
		delete(r.eff, full(statePfx, w[1]))
		return "ok"
	case "scommit":
		batch := r.d.NewBatch()
		diff := r.root.Commit(batch)
		batch.Set(diffKey(len(r.stack)), diff.Encode()) // as Executer.processValidated stores the diff of the height
		r.d.Write(batch)
		r.stack = append(r.stack, r.base)
		r.base = cp(r.eff)
		r.root = diffdb.New(r.d, statePfx)
		r.check("c05-store-not-reference", fmt.Sprintf("after commit %d", len(r.stack)))
		return fmt.Sprintf("ok a=%d u=%d d=%d", len(diff.Added), len(diff.Updated), len(diff.Deleted))
	case "srevert":
		if len(r.stack) == 0 {
			return "none"
		}
		depth := len(r.stack) - 1
		raw, ok := r.d.Get(diffKey(depth))
		if !ok {
			r.fail("c05-store-not-reference", "the stored diff of commit %d is gone", depth+1)
			return "err"
		}
		diff := &diffdb.Diff{}
		if err := diff.Decode(raw); err != nil {
			r.fail("c05-store-not-reference", "the stored diff of commit %d does not decode: %v", depth+1, err)
			return "err"
		}
		batch := r.d.NewBatch()
		r.root = diffdb.New(r.d, statePfx)
		r.root.RevertDiff(batch, diff) // as Executer.deleteBlock
		batch.Del(diffKey(depth))
		r.d.Write(batch)
		r.base = r.stack[depth]
		r.stack = r.stack[:depth]
		r.eff = cp(r.base)
		r.root = diffdb.New(r.d, statePfx)
		r.check("c05-store-not-reference", fmt.Sprintf("after the revert of commit %d", depth+1))
		return "ok"
	case "sdbset":
		k := full(directPfx, w[1])
		r.d.Set([]byte(k), corr.UnHex(w[2]))
		r.setAll(k, corr.UnHex(w[2]))
		r.check("c05-store-not-reference", "after DB.Set")
		return "ok"
	case "sdbdel":
		k := full(directPfx, w[1])
		r.d.Del([]byte(k))
		r.setAll(k, nil)
		r.check("c05-store-not-reference", "after DB.Del")
		return "ok"
	case "sbatch":
		batch := r.d.NewBatch()
		for _, item := range strings.Split(w[1], ",") {
			p := strings.Split(item, ":")
			k := full(directPfx, p[1])
			if p[0] == "s" {
				batch.Set([]byte(k), corr.UnHex(p[2]))
				r.setAll(k, corr.UnHex(p[2]))
			} else {
				batch.Del([]byte(k))
				r.setAll(k, nil)
			}
		}
		r.d.Write(batch)
		r.check("c05-store-not-reference", "after a raw batch")
		return "ok"
	case "settle":
		return r.settle(kvArgs(op))
	case "sinitial":
		// every commit was reverted: the store part is the initial content again
		got := r.dump()
		for k := range got {
			if !bytes.HasPrefix([]byte(k), statePfx) {
				delete(got, k)
			}
		}
		if len(r.stack) == 0 {
			if d := diffMaps(r.init, got); len(d) != 0 {
				r.fail("c05-durable-store-changed-by-flush", "all commits reverted and the database settled (memtables %s), the store is not its initial content: %s", r.mode, strings.Join(d, "; "))
			}
		}
		return fmt.Sprintf("ok keys=%d", len(got))
	}
	return "bad-op"
}

// setAll applies a direct write to every level of the reference (direct keys are outside the staged store).
func (r *storeRunner) setAll(k string, v []byte) {
	for _, m := range append([]map[string][]byte{r.base, r.eff}, r.stack...) {
		if v == nil {
			delete(m, k)
		} else {
			m[k] = v
		}
	}
}

func (r *storeRunner) settle(a map[string]string) string {
	var steps []string
	okBefore := len(diffMaps(r.base, func() map[string][]byte {
		m := r.dump()
		for k := range m {
			if len(k) > 0 && k[0] == 51 {
				delete(m, k)
			}
		}
		return m
	}())) == 0
	before := r.dump()
	p := r.d.VerifPebble()
	if a["flush"] == "1" {
		steps = append(steps, "flush")
		if err := p.Flush(); err != nil {
			r.fail("c05-durable-maintenance-failed", "Flush: %v", err)
			return "err"
		}
	}
	if a["compact"] == "1" {
		steps = append(steps, "compact")
		r.quiesce()
		if err := p.Compact([]byte{0}, bytes.Repeat([]byte{0xff}, 40), false); err != nil {
			r.fail("c05-durable-maintenance-failed", "Compact: %v", err)
			return "err"
		}
	}
	if a["reopen"] == "1" || a["reopen"] == "2" {
		crash := a["reopen"] == "2"
		steps = append(steps, map[bool]string{false: "reopen", true: "powerloss+reopen"}[crash])
		r.quiesce()
		if crash {
			r.fs.SetIgnoreSyncs(true)
		}
		r.close()
		if crash {
			r.fs.ResetToSyncedState()
			r.fs.SetIgnoreSyncs(false)
		}
		if err := r.open(); err != nil {
			r.fail("c05-durable-maintenance-failed", "the database does not open again after %s: %v", strings.Join(steps, "+"), err)
			return "err"
		}
	}
	after := r.dump()
	if d := diffMaps(before, after); len(d) != 0 && okBefore {
		r.fail("c05-durable-store-changed-by-flush", "settle (%s, memtables %s, %d open commits): the database read back differs from the database before the storage maintenance (nothing was written in between): %s",
			strings.Join(steps, "+"), r.mode, len(r.stack), strings.Join(d, "; "))
	}
	return "ok " + strings.Join(steps, "+")
}

func runStore(c corr.Case) (out []string, fails []corr.Fail) {
	r := &storeRunner{}
	defer r.close()
	for i, op := range c.Ops {
		r.op = i
		func() {
			defer func() {
				if x := recover(); x != nil {
					out = append(out, "panic")
					r.fail("c05-store-panic", "%s: %v", strings.Fields(op)[0], x)
				}
			}()
			out = append(out, r.step(op))
		}()
	}
	return out, r.fails
}

func (durProp) RunImpl(c corr.Case) ([]string, []corr.Fail) {
	if len(c.Ops) > 0 && strings.HasPrefix(c.Ops[0], "sreset") {
		return runStore(c)
	}
	out, fails := c04.ReplayLookups(c)
	var mine []corr.Fail
	for _, f := range fails {
		if strings.HasPrefix(f.Sig, "c05-") || strings.HasPrefix(f.Sig, "node-") {
			mine = append(mine, f)
		}
	}
	return out, mine
}

// Classify: non-trivial = storage maintenance ran after a removal (node) / after a revert with open history (store).
func (durProp) Classify(c corr.Case, out []string) string {
	removed, settledAfter, reopen := false, false, false
	for i, op := range c.Ops {
		w := strings.Fields(op)[0]
		ok := i < len(out) && strings.HasPrefix(out[i], "ok")
		switch w {
		case "del", "till", "srevert", "cleartemp":
			removed = removed || ok
		case "settle":
			if removed && ok {
				settledAfter = true
				if !strings.Contains(op, "reopen=0") {
					reopen = true
				}
			}
		}
	}
	if !settledAfter {
		return ""
	}
	fam := "node"
	if strings.HasPrefix(c.Ops[0], "sreset") {
		fam = "store"
	}
	if reopen {
		return fam + ",removal+flush+reopen"
	}
	return fam + ",removal+flush"
}
