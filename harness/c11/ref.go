package c11

// Model-free reference for LIP-0031 regular Merkle trees: plain recursion on the leaf list, exact
// integer arithmetic, crypto/sha256 directly (nothing of pkg/trie/rmt is used here).

import (
	"crypto/sha256"
)

func sha(parts ...[]byte) []byte {
	h := sha256.New()
	for _, p := range parts {
		h.Write(p)
	}
	return h.Sum(nil)
}

func refLeaf(data []byte) []byte   { return sha([]byte{0x00}, data) }
func refBranch(l, r []byte) []byte { return sha([]byte{0x01}, l, r) }
func refEmpty() []byte             { return sha() }
func isPow2(n int) bool            { return n > 0 && n&(n-1) == 0 }
func pow2Below(n int) int { // largest power of two strictly below n (n >= 2)
	k := 1
	for k*2 < n {
		k *= 2
	}
	return k
}

// refRoot is the LIP-0031 root of a list of leaf hashes.
func refRoot(hashes [][]byte) []byte {
	switch len(hashes) {
	case 0:
		return refEmpty()
	case 1:
		return hashes[0]
	}
	k := pow2Below(len(hashes))
	return refBranch(refRoot(hashes[:k]), refRoot(hashes[k:]))
}

// refRootCached computes the root with memoised perfect subtrees (key = lo,len); used on long walks.
type refCache struct {
	perfect map[[2]int][]byte
}

func newRefCache() *refCache { return &refCache{perfect: map[[2]int][]byte{}} }

func (c *refCache) invalidate() { c.perfect = map[[2]int][]byte{} }

func (c *refCache) root(hashes [][]byte, lo, hi int) []byte {
	n := hi - lo
	switch n {
	case 0:
		return refEmpty()
	case 1:
		return hashes[lo]
	}
	if isPow2(n) {
		if h, ok := c.perfect[[2]int{lo, n}]; ok {
			return h
		}
	}
	k := pow2Below(n)
	h := refBranch(c.root(hashes, lo, lo+k), c.root(hashes, lo+k, hi))
	if isPow2(n) {
		c.perfect[[2]int{lo, n}] = h
	}
	return h
}

// refPeaks: roots of the perfect subtrees of the binary decomposition of len(hashes), smallest first
// (what the append path must be).
func (c *refCache) peaks(hashes [][]byte) [][]byte {
	var desc [][]byte
	lo, n := 0, len(hashes)
	for n > 0 {
		k := 1
		for k*2 <= n {
			k *= 2
		}
		desc = append(desc, c.root(hashes, lo, lo+k))
		lo += k
		n -= k
	}
	res := make([][]byte, len(desc))
	for i := range desc {
		res[len(desc)-1-i] = desc[i]
	}
	return res
}

// refPath: the inclusion path of leaf i bottom-up: for each level the sibling hash and whether the
// sibling is on the right.
func refPath(hashes [][]byte, i int) (right []bool, sibs [][]byte) {
	if len(hashes) <= 1 {
		return nil, nil
	}
	k := pow2Below(len(hashes))
	if i < k {
		r, s := refPath(hashes[:k], i)
		return append(r, true), append(s, refRoot(hashes[k:]))
	}
	r, s := refPath(hashes[k:], i-k)
	return append(r, false), append(s, refRoot(hashes[:k]))
}

func refFold(h []byte, right []bool, sibs [][]byte) []byte {
	cur := h
	for i := range sibs {
		if right[i] {
			cur = refBranch(cur, sibs[i])
		} else {
			cur = refBranch(sibs[i], cur)
		}
	}
	return cur
}

// refNodes enumerates every node of the tree with the (layer, index) location the implementation's
// index scheme assigns to it (parent of (l,k) is (l+1,k>>1)); a perfect subtree over leaves
// [lo,lo+2^a) sits at (a, lo>>a), a ragged right-edge subtree whose left child has 2^a leaves at
// (a+1, lo>>(a+1)).
func refNodes(hashes [][]byte, lo, hi int, visit func(layer, index int, h []byte)) []byte {
	n := hi - lo
	if n == 0 {
		return refEmpty()
	}
	if n == 1 {
		visit(0, lo, hashes[lo])
		return hashes[lo]
	}
	k := pow2Below(n)
	l := refNodes(hashes, lo, lo+k, visit)
	r := refNodes(hashes, lo+k, hi, visit)
	h := refBranch(l, r)
	a := 0
	for 1<<a < k {
		a++
	}
	visit(a+1, lo>>(a+1), h)
	return h
}
