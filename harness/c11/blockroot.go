package c11

// Users of the regular Merkle tree root inside pkg/blockchain (model-free, part of Extra): Block.Validate ties
// header.transactionRoot to the LIP-0031 root of the transaction IDs of the payload and header.assetRoot to the
// root of the encoded assets (BlockAssets.GetRoot). The roots must be those of the payload the block object holds
// NOW: one block object is validated, its payload is changed in place (no Block.Init), and validated again -
//
//	honest block                                   -> accepted, header roots = reference roots (ref.go)
//	payload changed (reordered / dropped / replaced / appended / duplicated / emptied / a transaction changed and
//	re-initialised / asset data changed)           -> rejected
//	header root set to the reference root of the changed payload -> accepted
//	payload and header restored                    -> accepted
//
// for k = 0,1,2,3,4,5,7,8,9,16,17,... transactions and 0..4 assets.

import (
	"bytes"
	"fmt"
	"math/rand"

	"github.com/LiskHQ/lisk-engine/pkg/blockchain"
	"github.com/LiskHQ/lisk-engine/pkg/codec"
	"github.com/LiskHQ/lisk-engine/pkg/trie/rmt"
)

func refRootOfData(data [][]byte) []byte {
	hs := make([][]byte, len(data))
	for i, d := range data {
		hs[i] = refLeaf(d)
	}
	return refRoot(hs)
}

func txIDs(txs []*blockchain.Transaction) [][]byte {
	ids := make([][]byte, len(txs))
	for i, t := range txs {
		ids[i] = t.ID
	}
	return ids
}

func assetData(as []*blockchain.BlockAsset) [][]byte {
	d := make([][]byte, len(as))
	for i, a := range as {
		d[i] = a.Encode()
	}
	return d
}

func rb(rng *rand.Rand, n int) []byte {
	b := make([]byte, n)
	rng.Read(b)
	return b
}

func newValidTx(rng *rand.Rand) *blockchain.Transaction {
	tx := &blockchain.Transaction{
		Module: "token", Command: "transfer", Nonce: rng.Uint64(), Fee: uint64(rng.Intn(1 << 30)),
		SenderPublicKey: rb(rng, 32), Params: rb(rng, rng.Intn(40)), Signatures: []codec.Hex{rb(rng, 64)},
	}
	tx.Init()
	return tx
}

type payloadMut struct {
	name string
	// apply changes the block in place and returns false if it is not applicable
	apply func(b *blockchain.Block) bool
}

func txMutations(rng *rand.Rand) []payloadMut {
	return []payloadMut{
		{"two transactions swapped in place", func(b *blockchain.Block) bool {
			n := len(b.Transactions)
			if n < 2 {
				return false
			}
			i := rng.Intn(n - 1)
			b.Transactions[i], b.Transactions[n-1] = b.Transactions[n-1], b.Transactions[i]
			return true
		}},
		{"transactions reversed in place", func(b *blockchain.Block) bool {
			n := len(b.Transactions)
			if n < 2 {
				return false
			}
			for i, j := 0, n-1; i < j; i, j = i+1, j-1 {
				b.Transactions[i], b.Transactions[j] = b.Transactions[j], b.Transactions[i]
			}
			return true
		}},
		{"last transaction dropped", func(b *blockchain.Block) bool {
			if len(b.Transactions) == 0 {
				return false
			}
			b.Transactions = b.Transactions[:len(b.Transactions)-1]
			return true
		}},
		{"first transaction dropped", func(b *blockchain.Block) bool {
			if len(b.Transactions) == 0 {
				return false
			}
			b.Transactions = b.Transactions[1:]
			return true
		}},
		{"one transaction replaced by another one", func(b *blockchain.Block) bool {
			if len(b.Transactions) == 0 {
				return false
			}
			b.Transactions[rng.Intn(len(b.Transactions))] = newValidTx(rng)
			return true
		}},
		{"a transaction appended", func(b *blockchain.Block) bool {
			b.Transactions = append(b.Transactions, newValidTx(rng))
			return true
		}},
		{"a transaction duplicated", func(b *blockchain.Block) bool {
			if len(b.Transactions) == 0 {
				return false
			}
			b.Transactions = append(b.Transactions, b.Transactions[rng.Intn(len(b.Transactions))])
			return true
		}},
		{"payload emptied", func(b *blockchain.Block) bool {
			if len(b.Transactions) == 0 {
				return false
			}
			if rng.Intn(2) == 0 {
				b.Transactions = nil
			} else {
				b.Transactions = []*blockchain.Transaction{}
			}
			return true
		}},
		{"payload replaced by that of another block", func(b *blockchain.Block) bool {
			n := 1 + rng.Intn(4)
			txs := make([]*blockchain.Transaction, n)
			for i := range txs {
				txs[i] = newValidTx(rng)
			}
			b.Transactions = txs
			return true
		}},
		{"a transaction object changed and re-initialised (same slice, same pointers)", func(b *blockchain.Block) bool {
			if len(b.Transactions) == 0 {
				return false
			}
			i := rng.Intn(len(b.Transactions))
			cp := *b.Transactions[i] // the original object stays intact for the restore step
			cp.Fee++
			b.Transactions[i] = &cp
			b.Transactions[i].Init()
			return true
		}},
	}
}

func assetMutations(rng *rand.Rand) []payloadMut {
	return []payloadMut{
		{"last asset dropped", func(b *blockchain.Block) bool {
			if len(b.Assets) == 0 {
				return false
			}
			b.Assets = b.Assets[:len(b.Assets)-1]
			return true
		}},
		{"first asset dropped", func(b *blockchain.Block) bool {
			if len(b.Assets) == 0 {
				return false
			}
			b.Assets = b.Assets[1:]
			return true
		}},
		{"data of one asset replaced (asset object replaced)", func(b *blockchain.Block) bool {
			if len(b.Assets) == 0 {
				return false
			}
			i := rng.Intn(len(b.Assets))
			b.Assets[i] = &blockchain.BlockAsset{Module: b.Assets[i].Module, Data: rb(rng, 1+rng.Intn(20))}
			return true
		}},
		{"an asset appended", func(b *blockchain.Block) bool {
			b.Assets = append(b.Assets, &blockchain.BlockAsset{Module: "zz", Data: rb(rng, rng.Intn(20))})
			return true
		}},
		{"assets emptied", func(b *blockchain.Block) bool {
			if len(b.Assets) == 0 {
				return false
			}
			b.Assets = nil
			return true
		}},
	}
}

// blockRoots runs the scenario for every payload size of the tier.
func (e *extraRun) blockRoots(rng *rand.Rand, tier string) {
	sizes := []int{0, 1, 2, 3, 4, 5, 7, 8, 9, 16, 17}
	if tier == "thorough" {
		for k := 0; k <= 70; k++ {
			sizes = append(sizes, k)
		}
		sizes = append(sizes, 127, 128, 129, 255, 256, 257)
	}
	const sigTx, sigAs = "c11-block-root-not-of-payload", "c11-block-asset-root-not-of-payload"
	modules := []string{"auth", "dpos", "random", "token"}
	for _, k := range sizes {
		na := rng.Intn(len(modules) + 1)
		if k == 0 {
			na = 2
		}
		txs := make([]*blockchain.Transaction, k)
		for i := range txs {
			txs[i] = newValidTx(rng)
		}
		assets := make([]*blockchain.BlockAsset, na)
		for i := range assets {
			assets[i] = &blockchain.BlockAsset{Module: modules[i], Data: rb(rng, rng.Intn(24))}
		}
		hdr := &blockchain.BlockHeader{
			Version: 2, Timestamp: rng.Uint32(), Height: 1 + uint32(rng.Intn(1000)), PreviousBlockID: rb(rng, 32), GeneratorAddress: rb(rng, 20),
			EventRoot: rb(rng, 32), StateRoot: rb(rng, 32), ValidatorsHash: rb(rng, 32), AggregateCommit: &blockchain.AggregateCommit{AggregationBits: []byte{}, CertificateSignature: []byte{}},
			Signature: rb(rng, 64),
		}
		hdr.TransactionRoot = refRootOfData(txIDs(txs))
		hdr.AssetRoot = refRootOfData(assetData(assets))
		hdr.Init()
		b := &blockchain.Block{Header: hdr, Transactions: append([]*blockchain.Transaction{}, txs...), Assets: append([]*blockchain.BlockAsset{}, assets...)}
		e.res.Evaluations++
		// the root functions of the package against the reference
		if got := rmt.CalculateRoot(txIDs(txs)); !bytes.Equal(got, hdr.TransactionRoot) {
			e.fail("batch-root-differs-from-reference", fmt.Sprintf("CalculateRoot of %d transaction ids: %x, LIP-0031 reference %x", k, got, []byte(hdr.TransactionRoot)))
			continue
		}
		if got := blockchain.BlockAssets(b.Assets).GetRoot(); !bytes.Equal(got, hdr.AssetRoot) {
			e.fail(sigAs, fmt.Sprintf("BlockAssets.GetRoot of %d assets: %x, LIP-0031 reference root of the encoded assets %x", na, got, []byte(hdr.AssetRoot)))
			continue
		}
		if err := b.Validate(); err != nil {
			e.fail(sigTx, fmt.Sprintf("block with %d transactions, %d assets and the LIP-0031 reference roots in its header is rejected: %v", k, na, err))
			continue
		}
		// a block decoded from the wire behaves the same
		if b2, err := blockchain.NewBlock(b.Encode()); err != nil || b2.Validate() != nil {
			e.fail(sigTx, fmt.Sprintf("block with %d transactions: NewBlock(Encode()) is rejected (%v)", k, err))
		}
		run := func(sig string, muts []payloadMut, isTx bool) {
			for _, m := range muts {
				origTx, origAs := append([]*blockchain.Transaction{}, txs...), append([]*blockchain.BlockAsset{}, assets...)
				origTR, origAR := hdr.TransactionRoot, hdr.AssetRoot
				b.Transactions, b.Assets = origTx, origAs
				if err := b.Validate(); err != nil { // fills whatever the block object remembers
					e.fail(sig, fmt.Sprintf("k=%d: honest block rejected before '%s': %v", k, m.name, err))
					return
				}
				if !m.apply(b) {
					continue
				}
				e.res.Evaluations++
				newTR, newAR := refRootOfData(txIDs(b.Transactions)), refRootOfData(assetData(b.Assets))
				changed := !bytes.Equal(newTR, origTR) || !bytes.Equal(newAR, origAR)
				desc := fmt.Sprintf("block object with %d transactions / %d assets validated, then %s (no Init; now %d / %d)", k, na, m.name, len(b.Transactions), len(b.Assets))
				if err := b.Validate(); changed && err == nil {
					e.fail(sig, fmt.Sprintf("%s: Validate accepts although header roots %x / %x are not the roots of the payload %x / %x", desc, []byte(origTR), []byte(origAR), newTR, newAR))
				}
				if isTx {
					if got := rmt.CalculateRoot(txIDs(b.Transactions)); !bytes.Equal(got, newTR) {
						e.fail("batch-root-differs-from-reference", fmt.Sprintf("%s: CalculateRoot %x reference %x", desc, got, newTR))
					}
				} else if got := blockchain.BlockAssets(b.Assets).GetRoot(); !bytes.Equal(got, newAR) {
					e.fail(sig, fmt.Sprintf("%s: BlockAssets.GetRoot %x, reference root of the encoded assets %x", desc, got, newAR))
				}
				// the header follows the payload: accepted
				hdr.TransactionRoot, hdr.AssetRoot = newTR, newAR
				if err := b.Validate(); err != nil {
					e.fail(sig, fmt.Sprintf("%s, header roots set to the reference roots of the new payload: Validate rejects: %v", desc, err))
				}
				// payload and header repaired: accepted again
				hdr.TransactionRoot, hdr.AssetRoot = origTR, origAR
				if err := b.Validate(); changed && err == nil {
					e.fail(sig, fmt.Sprintf("%s, header roots restored but not the payload: Validate accepts", desc))
				}
				b.Transactions, b.Assets = append([]*blockchain.Transaction{}, txs...), append([]*blockchain.BlockAsset{}, assets...)
				if err := b.Validate(); err != nil {
					e.fail(sig, fmt.Sprintf("%s, then payload repaired: Validate rejects the original block: %v", desc, err))
				}
			}
		}
		run(sigTx, txMutations(rng), true)
		run(sigAs, assetMutations(rng), false)
	}
}
