package c11

import (
	"bytes"
	"fmt"
	"math"
	"math/bits"
	"math/rand"

	"github.com/LiskHQ/lisk-engine/pkg/trie/rmt"

	"verifharness/corr"
)

// exact integer counterparts of the float expressions in pkg/trie/rmt
func clog2(n uint64) uint64 { // ceil(log2(n)), n >= 1
	if n <= 1 {
		return 0
	}
	return uint64(bits.Len64(n - 1))
}

// closed form of getLayerStructure: perfect nodes of the layer plus the ragged right-edge node.
func layerCount(n uint64, layer uint64) int {
	if layer == 0 {
		return int(n)
	}
	c := n >> layer
	if (n>>(layer-1))&1 == 1 && n&((1<<(layer-1))-1) != 0 {
		c++
	}
	return int(c)
}

type extraRun struct {
	res  corr.ExtraResult
	sigs map[string]int
}

func (e *extraRun) fail(sig, detail string) {
	e.sigs[sig]++
	if e.sigs[sig] <= 3 {
		e.res.Fails = append(e.res.Fails, corr.Fail{Sig: sig, Detail: detail, Op: -1})
	}
}

func (e *extraRun) floatChecks(limit uint64, structLimit uint64) {
	firstBad := map[string]uint64{}
	note := func(kind string, n uint64) {
		if _, ok := firstBad[kind]; !ok {
			firstBad[kind] = n
		}
		if n <= 1<<32 {
			e.fail("float-arithmetic-differs-"+kind, fmt.Sprintf("n=%d", n))
		}
	}
	check := func(n uint64) {
		e.res.Evaluations++
		if n == 0 {
			return
		}
		if got := rmt.VerifGetHeight(n); got != clog2(n)+1 {
			note("height", n)
		}
		if got := rmt.VerifIntToBinaryLen(n); got != bits.Len64(n) {
			note("binarylen", n)
		}
		if n >= 2 {
			// the split of calculateRoot: int(math.Pow(2, math.Floor(math.Log2(float64(len(data))-1))))
			divider := uint64(math.Pow(2, math.Floor(math.Log2(float64(n)-1))))
			if divider != uint64(1)<<(bits.Len64(n-1)-1) {
				note("divider", n)
			}
		}
	}
	for n := uint64(0); n <= limit; n++ {
		check(n)
	}
	for k := uint64(1); k <= 53; k++ {
		for d := int64(-3); d <= 3; d++ {
			v := int64(1)<<k + d
			if v > 0 && uint64(v) <= 1<<53 {
				check(uint64(v))
			}
		}
	}
	for n := uint64(1); n <= structLimit; n++ {
		e.res.Evaluations++
		st := rmt.VerifGetLayerStructure(n)
		if uint64(len(st)) != clog2(n)+1 {
			e.fail("layer-structure-length", fmt.Sprintf("n=%d", n))
			continue
		}
		for l := range st {
			if st[l] != layerCount(n, uint64(l)) {
				e.fail("layer-structure-differs", fmt.Sprintf("n=%d layer %d: %d want %d", n, l, st[l], layerCount(n, uint64(l))))
				break
			}
		}
	}
	for k, v := range firstBad {
		e.res.Notes["float-first-disagreement-"+k] = v
	}
}

// exhaustiveSubsets: for every size n <= maxN and every non-empty subset of the leaves: the generated
// proof verifies, does not verify for another root or another leaf, and the root computed from the
// proof for replaced leaves is the root of the modified list.
func (e *extraRun) exhaustiveSubsets(maxN int) {
	for n := 1; n <= maxN; n++ {
		data := make([][]byte, n)
		hashes := make([][]byte, n)
		tr := rmt.NewRegularMerkleTree(mapDB{})
		for i := range data {
			data[i] = []byte{0x10, byte(i)}
			hashes[i] = refLeaf(data[i])
			if err := tr.Append(data[i]); err != nil {
				e.fail("append-error", err.Error())
				return
			}
		}
		root := refRoot(hashes)
		for mask := 1; mask < 1<<n; mask++ {
			e.res.Evaluations++
			var q [][]byte
			var pos []int
			for i := 0; i < n; i++ {
				if mask>>i&1 == 1 {
					q = append(q, hashes[i])
					pos = append(pos, i)
				}
			}
			ok := func() bool {
				defer func() {
					if r := recover(); r != nil {
						e.fail("subset-proof-panic", fmt.Sprintf("n=%d mask=%b: %v", n, mask, r))
					}
				}()
				p, err := tr.GenerateProof(copyList(q))
				if err != nil {
					e.fail("generate-proof-error", fmt.Sprintf("n=%d mask=%b: %v", n, mask, err))
					return false
				}
				if !rmt.VerifyProof(copyList(q), p, root) {
					e.fail("generated-proof-rejected", fmt.Sprintf("n=%d mask=%b", n, mask))
				}
				if rmt.VerifyProof(copyList(q), p, flip(root)) {
					e.fail("tampered-proof-accepted", fmt.Sprintf("n=%d mask=%b other root", n, mask))
				}
				for k := range q {
					q2 := copyList(q)
					q2[k] = refLeaf([]byte{0x99, byte(k)})
					if rmt.VerifyProof(q2, p, root) {
						e.fail("tampered-proof-accepted", fmt.Sprintf("n=%d mask=%b other leaf %d", n, mask, k))
					}
				}
				upd := make([][]byte, len(q))
				hs := copyList(hashes)
				for k, i := range pos {
					upd[k] = []byte{0x20, byte(i), byte(mask)}
					hs[i] = refLeaf(upd[k])
				}
				got, err := rmt.CalculateRootFromUpdateData(upd, p)
				if err != nil || !bytes.Equal(got, refRoot(hs)) {
					e.fail("update-root-from-proof-wrong", fmt.Sprintf("n=%d mask=%b err=%v", n, mask, err))
				}
				return true
			}()
			if !ok {
				return
			}
		}
	}
}

// bigSizes: append up to maxSize leaves and compare with the reference around every power of two.
func (e *extraRun) bigSizes(rng *rand.Rand, maxExp int) {
	tr := rmt.NewRegularMerkleTree(mapDB{})
	cache := newRefCache()
	var data, hashes [][]byte
	limit := 1<<maxExp + 3
	near := func(n int) bool {
		for d := -2; d <= 2; d++ {
			if v := n + d; v > 0 && isPow2(v) {
				return true
			}
		}
		return false
	}
	for n := 0; n < limit; n++ {
		v := []byte{byte(n), byte(n >> 8), byte(n >> 16), byte(rng.Intn(256))}
		pred := rmt.CalculateRootFromAppendPath(v, copyList(tr.AppendPath()), tr.Size())
		if err := tr.Append(v); err != nil {
			e.fail("append-error", fmt.Sprintf("size %d: %v", n, err))
			return
		}
		data = append(data, v)
		hashes = append(hashes, refLeaf(v))
		if !bytes.Equal(pred.Root, tr.Root()) || !eqList(pred.AppendPath, tr.AppendPath()) || pred.Size != tr.Size() {
			e.fail("predicted-append-differs", fmt.Sprintf("size %d", n))
		}
		size := n + 1
		if size < 1<<9 || !near(size) {
			continue
		}
		e.res.Evaluations++
		want := cache.root(hashes, 0, size)
		if !bytes.Equal(tr.Root(), want) {
			e.fail("append-root-not-lip31", fmt.Sprintf("size %d", size))
		}
		if !eqList(tr.AppendPath(), cache.peaks(hashes)) {
			e.fail("append-path-not-peaks", fmt.Sprintf("size %d", size))
		}
		if got := rmt.CalculateRoot(data); !bytes.Equal(got, want) {
			e.fail("batch-root-not-lip31", fmt.Sprintf("size %d", size))
		}
		var q [][]byte
		for k := 0; k < 5; k++ {
			q = append(q, hashes[rng.Intn(size)])
		}
		q = append(q, hashes[size-1], hashes[0])
		uniq := map[string]bool{}
		var q2 [][]byte
		for _, h := range q {
			if !uniq[string(h)] {
				uniq[string(h)] = true
				q2 = append(q2, h)
			}
		}
		p, err := tr.GenerateProof(copyList(q2))
		if err != nil || !rmt.VerifyProof(copyList(q2), p, want) {
			e.fail("generated-proof-rejected", fmt.Sprintf("size %d err=%v", size, err))
		} else if rmt.VerifyProof(copyList(q2), p, flip(want)) {
			e.fail("tampered-proof-accepted", fmt.Sprintf("size %d", size))
		}
		for _, i := range []int{0, 1, size / 3, size - 1, size} {
			wit, err := tr.GenerateRightWitness(uint64(i))
			if err != nil {
				e.fail("witness-error", fmt.Sprintf("size %d index %d: %v", size, i, err))
				continue
			}
			partial := newRefCache().peaks(hashes[:i])
			if !rmt.VerifyRightWitness(uint64(i), partial, wit, want) {
				e.fail("right-witness-rejected", fmt.Sprintf("size %d index %d", size, i))
			}
		}
	}
}

func (prop) Extra(rng *rand.Rand, tier string) corr.ExtraResult {
	e := &extraRun{res: corr.ExtraResult{Notes: map[string]any{}}, sigs: map[string]int{}}
	func() {
		defer func() {
			if r := recover(); r != nil {
				e.fail("extra-panic", fmt.Sprint(r))
			}
		}()
		if tier == "thorough" {
			e.floatChecks(1<<22, 1<<16)
			e.exhaustiveSubsets(12)
			e.bigSizes(rng, 16)
		} else {
			e.floatChecks(1<<20, 1<<12)
			e.exhaustiveSubsets(10)
			e.bigSizes(rng, 12)
		}
		// users of the root in pkg/blockchain: Block.Validate / BlockAssets.GetRoot on payloads changed in place (blockroot.go)
		e.blockRoots(rng, tier)
	}()
	e.res.Exhaustive = true
	e.res.Notes["scope"] = "float vs integer height/split/binary length exhaustively and around 2^k (k<=53); layer structure closed form; every leaf subset of every small tree; sizes around powers of two"
	for k, v := range e.sigs {
		e.res.Notes["fails-"+k] = v
	}
	return e.res
}
