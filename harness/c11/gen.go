package c11

import (
	"fmt"
	"math/rand"
	"sort"
	"strconv"
	"strings"

	"verifharness/corr"
)

// leafGen produces leaf data in one of several styles (distinct, duplicate-heavy, empty/short, hash-like).
type leafGen struct {
	rng   *rand.Rand
	style int
	n     int
}

func (g *leafGen) next() []byte {
	g.n++
	switch g.style {
	case 1: // tiny alphabet: many duplicate leaves
		return []byte{byte(g.rng.Intn(3))}
	case 2: // empty and very short data
		b := make([]byte, g.rng.Intn(3))
		for i := range b {
			b[i] = byte(g.rng.Intn(4))
		}
		return b
	case 3: // 32-byte values (transaction ids)
		b := make([]byte, 32)
		g.rng.Read(b)
		return b
	case 4: // periodic: whole subtrees repeat
		return []byte{0xee, byte(g.n % 4)}
	default: // pairwise distinct: a counter followed by random bytes; the empty string once
		if g.n == 3 {
			return []byte{}
		}
		b := make([]byte, 2+g.rng.Intn(7))
		g.rng.Read(b)
		b[0], b[1] = byte(g.n>>8), byte(g.n)
		return b
	}
}

func posList(l []int) string {
	if len(l) == 0 {
		return "-"
	}
	parts := make([]string, len(l))
	for i, v := range l {
		parts[i] = strconv.Itoa(v)
	}
	return strings.Join(parts, ",")
}

// subset picks leaf positions: small sets, contiguous runs (sibling pairs merge), large sets, everything.
func subset(rng *rand.Rand, n int) []int {
	if n == 0 {
		return nil
	}
	var res []int
	switch r := rng.Intn(10); {
	case r < 3:
		res = []int{rng.Intn(n)}
	case r < 6:
		k := 1 + rng.Intn(6)
		seen := map[int]bool{}
		for i := 0; i < k; i++ {
			p := rng.Intn(n)
			if !seen[p] {
				seen[p] = true
				res = append(res, p)
			}
		}
	case r < 8:
		start := rng.Intn(n)
		k := 1 + rng.Intn(6)
		for p := start; p < n && p < start+k; p++ {
			res = append(res, p)
		}
	case r < 9:
		for p := 0; p < n; p++ {
			if rng.Intn(2) == 0 {
				res = append(res, p)
			}
		}
		if len(res) == 0 {
			res = []int{n - 1}
		}
	default:
		if n <= 40 {
			for p := 0; p < n; p++ {
				res = append(res, p)
			}
		} else {
			res = []int{0, n - 1, n / 2}
		}
	}
	if rng.Intn(3) == 0 {
		rng.Shuffle(len(res), func(i, j int) { res[i], res[j] = res[j], res[i] })
	}
	return res
}

var tamperModes = []string{"root", "q", "sib", "idx", "size", "dropsib", "addsib", "swapq"}

func genTamper(rng *rand.Rand) string {
	m := tamperModes[rng.Intn(len(tamperModes))]
	switch m {
	case "q", "sib", "idx":
		return fmt.Sprintf("%s:%d", m, rng.Intn(12))
	case "size":
		return fmt.Sprintf("size:%d", rng.Intn(2))
	}
	return m
}

// sim mirrors the leaf data on the generator side so that explicit hashes can be produced.
type sim struct {
	dups     bool // leaf values may repeat (appends and updates)
	uniq     int
	noUpdate bool
	rng      *rand.Rand
	lg       *leafGen
	data     [][]byte
	old      [][]byte // data replaced by updates (stale hashes)
	ops      []string
}

func (s *sim) add(op string) { s.ops = append(s.ops, op) }

func (s *sim) appendOne() {
	v := s.lg.next()
	s.data = append(s.data, v)
	if len(v) == 0 {
		s.add("append")
	} else {
		s.add("append " + corr.Hex(v))
	}
}

func (s *sim) appendN(k int, seed []byte, mod int) {
	for i := 0; i < k; i++ {
		s.data = append(s.data, genLeaf(seed, uint64(len(s.data)), uint64(mod)))
	}
	if mod > 0 {
		s.add(fmt.Sprintf("appendn %d %s %d", k, corr.Hex(seed), mod))
	} else {
		s.add(fmt.Sprintf("appendn %d %s", k, corr.Hex(seed)))
	}
}

func (s *sim) proveOps() {
	n := len(s.data)
	rng := s.rng
	pos := subset(rng, n)
	if rng.Intn(4) == 0 { // queries that are not in the tree (index 0 in the proof), at ANY place of the query list
		for k := 1 + rng.Intn(2); k > 0; k-- {
			at := rng.Intn(len(pos) + 1)
			pos = append(pos[:at], append([]int{n + rng.Intn(3)}, pos[at:]...)...)
		}
	}
	if rng.Intn(25) == 0 && len(pos) > 0 { // the same leaf twice
		pos = append(pos, pos[0])
	}
	if rng.Intn(12) == 0 && len(s.old) > 0 { // explicit hashes, one of them stale
		q := [][]byte{refLeaf(s.old[rng.Intn(len(s.old))])}
		for _, p := range pos {
			if p < n {
				q = append(q, refLeaf(s.data[p]))
			}
		}
		s.add("prove " + hexList(q))
	} else {
		s.add("provepos " + posList(pos))
	}
	s.add("verify ok")
	for k := rng.Intn(3); k > 0; k-- {
		s.add("verify " + genTamper(rng))
	}
	if rng.Intn(5) == 0 {
		upd := make([][]byte, len(pos))
		for i := range upd {
			upd[i] = []byte{0xdd, byte(rng.Intn(256)), byte(i)}
		}
		if rng.Intn(8) == 0 && len(upd) > 0 {
			upd = upd[1:]
		}
		s.add("updproof " + hexList(upd))
	}
}

func (s *sim) updateOp() {
	n := len(s.data)
	rng := s.rng
	if s.noUpdate {
		return
	}
	if n == 0 {
		s.add("update 0 aa")
		return
	}
	var pos []int
	k := 1 + rng.Intn(3)
	seen := map[int]bool{}
	for i := 0; i < k; i++ {
		p := rng.Intn(n)
		if !seen[p] {
			seen[p] = true
			pos = append(pos, p)
		}
	}
	if rng.Intn(4) == 0 {
		sort.Ints(pos)
	}
	upd := make([][]byte, len(pos))
	for i := range upd {
		s.uniq++
		fresh := []byte{0xcc, byte(s.uniq >> 16), byte(s.uniq >> 8), byte(s.uniq)}
		kind := rng.Intn(4)
		if !s.dups {
			kind = 1
		}
		switch kind {
		case 0: // data already used by another leaf (creates duplicates), distinct within this update
			upd[i] = append([]byte{}, s.data[(pos[i]+1+i)%n]...)
			for j := 0; j < i; j++ {
				if string(upd[j]) == string(upd[i]) {
					upd[i] = fresh
				}
			}
		default:
			upd[i] = fresh
		}
	}
	if rng.Intn(20) == 0 { // length mismatch: rejected
		s.add(fmt.Sprintf("update %s %s", posList(pos), dataList(append(upd, []byte{1}))))
		return
	}
	for i, p := range pos {
		s.old = append(s.old, s.data[p])
		s.data[p] = upd[i]
	}
	s.add(fmt.Sprintf("update %s %s", posList(pos), dataList(upd)))
}

// opsAt emits a few observations / mutations at the current size.
func (s *sim) opsAt(density int) {
	rng := s.rng
	n := len(s.data)
	for k := 0; k < density; k++ {
		switch r := rng.Intn(100); {
		case r < 12:
			s.add("predict " + corr.Hex(append([]byte{0x77}, byte(rng.Intn(256)))))
		case r < 18:
			if n <= 128 || rng.Intn(8) == 0 {
				s.add("batchroot")
			}
		case r < 50:
			s.proveOps()
		case r < 68:
			i := rng.Intn(n + 1)
			if rng.Intn(15) == 0 {
				i = n + 1 + rng.Intn(2)
			}
			s.add(fmt.Sprintf("witness %d", i))
		case r < 70:
			// arbitrary append path / right witness lists (mostly not belonging to any tree)
			mk := func(k int) [][]byte {
				l := make([][]byte, k)
				for i := range l {
					l[i] = refLeaf([]byte{byte(rng.Intn(4))})
				}
				return l
			}
			idx := uint64(rng.Intn(64))
			if rng.Intn(3) == 0 {
				idx = rng.Uint64() >> uint(rng.Intn(64))
			}
			s.add(fmt.Sprintf("rwraw %d %s %s", idx, hexList(mk(rng.Intn(5))), hexList(mk(rng.Intn(5)))))
		case r < 76:
			s.add(fmt.Sprintf("specpath %d", rng.Intn(n+1)))
		case r < 84:
			s.add("reload")
		case r < 94:
			s.updateOp()
		default:
			if n <= 600 {
				s.add("nodes")
			}
		}
	}
}

// styles 0 and 3 produce pairwise distinct leaves; 1, 2, 4 duplicate-heavy ones.
func newSim(rng *rand.Rand, style int, reset string) *sim {
	return &sim{rng: rng, lg: &leafGen{rng: rng, style: style}, ops: []string{reset}, dups: style == 1 || style == 2 || style == 4}
}

func sizesAroundPowers(maxExp int) []int {
	var res []int
	for k := 0; k <= maxExp; k++ {
		for d := -2; d <= 2; d++ {
			if v := 1<<k + d; v >= 0 {
				res = append(res, v)
			}
		}
	}
	return res
}

func (prop) Generate(rng *rand.Rand, tier string) []corr.Case {
	walkMax, walks, perSizeMax, randomCases, maxExp := 300, 5, 40, 120, 9
	if tier == "thorough" {
		walkMax, walks, perSizeMax, randomCases, maxExp = 2100, 6, 130, 700, 11
	}
	var cases []corr.Case

	// (A) walks: every size 0..walkMax is visited, with observations at every size
	for wk := 0; wk < walks; wk++ {
		style := wk % 5
		reset := "reset"
		if wk == 1 {
			reset = "reset pebble"
		}
		s := newSim(rng, style, reset)
		s.noUpdate = s.dups // long walks with duplicate leaves do not update (see the short walk below)
		for n := 0; n <= walkMax; n++ {
			density := 2
			if n > 400 {
				density = 1
			}
			s.opsAt(density)
			if n%97 == 13 {
				s.add("reload")
			}
			s.appendOne()
		}
		s.add("batchroot")
		s.add("reload")
		s.add("nodes")
		cases = append(cases, corr.Case{Ops: s.ops, Tag: fmt.Sprintf("walk-style%d", style)})
	}
	// a short walk with duplicate leaves and updates (the hash -> location index is single-valued: the
	// known finding proof-index-stale-duplicate-leaf shows up here and in the *-dup-update cases)
	{
		s := newSim(rng, 1, "reset")
		for n := 0; n <= 120; n++ {
			s.opsAt(2)
			s.appendOne()
		}
		s.add("batchroot")
		s.add("nodes")
		cases = append(cases, corr.Case{Ops: s.ops, Tag: "walk-dup-update"})
	}
	// one append-only walk: predicted = actual and incremental = batch at every single size
	{
		s := newSim(rng, 0, "reset full")
		for n := 0; n <= walkMax; n++ {
			s.add("predict " + corr.Hex([]byte{byte(n), byte(n >> 8)}))
			if n <= 300 || n%50 == 0 {
				s.add("batchroot")
			}
			s.appendOne()
		}
		cases = append(cases, corr.Case{Ops: s.ops, Tag: "walk-append-only"})
	}

	// (B) per-size cases: all witness positions, all single-leaf proofs, subsets
	for n := 0; n <= perSizeMax; n++ {
		s := newSim(rng, 0, "reset full")
		mod := 0
		if n%5 == 4 {
			mod = 1 + rng.Intn(4) // duplicate leaves
		}
		s.dups = mod > 0
		s.noUpdate = mod > 0 && n%10 == 4
		seed := []byte{byte(rng.Intn(256))}
		half := rng.Intn(n + 1)
		s.appendN(half, seed, mod)
		if rng.Intn(2) == 0 {
			s.add("reload")
		}
		s.appendN(n-half, seed, mod)
		s.add("batchroot")
		s.add("nodes")
		for i := 0; i <= n+1; i++ {
			s.add(fmt.Sprintf("witness %d", i))
		}
		if mod == 0 {
			for i := 0; i < n; i++ {
				s.add(fmt.Sprintf("provepos %d", i))
				s.add("verify ok")
				if i%3 == 0 {
					s.add("verify " + genTamper(rng))
				}
				s.add(fmt.Sprintf("specpath %d", i))
			}
		}
		for k := 0; k < 6; k++ {
			s.proveOps()
		}
		s.add("reload")
		for k := 0; k < 3; k++ {
			s.updateOp()
			s.add("nodes")
			s.proveOps()
			s.appendOne()
			s.add("batchroot")
		}
		tag := "per-size"
		if mod > 0 {
			tag = "per-size-dup"
			if !s.noUpdate {
				tag = "per-size-dup-update"
			}
		}
		cases = append(cases, corr.Case{Ops: s.ops, Tag: tag})
	}

	// (C) random cases, sizes around powers of two or uniform
	pows := sizesAroundPowers(maxExp)
	for i := 0; i < randomCases; i++ {
		style := rng.Intn(5)
		s := newSim(rng, style, "reset")
		var n int
		if rng.Intn(2) == 0 {
			n = pows[rng.Intn(len(pows))]
		} else {
			n = rng.Intn(600)
		}
		mod := 0
		if rng.Intn(4) == 0 {
			mod = 1 + rng.Intn(6)
		}
		s.dups = s.dups || mod > 0
		s.noUpdate = s.dups && rng.Intn(4) != 0
		seed := []byte{byte(rng.Intn(256)), byte(rng.Intn(256))}
		chunks := 1 + rng.Intn(3)
		done := 0
		for c := 0; c < chunks; c++ {
			k := n - done
			if c < chunks-1 {
				k = rng.Intn(k + 1)
			}
			s.appendN(k, seed, mod)
			done += k
			if rng.Intn(3) == 0 {
				s.add("reload")
			}
		}
		for k := 0; k < 3; k++ {
			s.opsAt(2 + rng.Intn(3))
			s.appendOne()
		}
		s.opsAt(2)
		tag := "random"
		if s.dups {
			tag = "random-dup"
			if !s.noUpdate {
				tag = "random-dup-update"
			}
		}
		cases = append(cases, corr.Case{Ops: s.ops, Tag: tag})
	}

	// (D) crafted index lists: duplicated, permuted, out-of-range, ancestor-overlapping, of another length
	// than the query hashes (crafted.go); appended last, so the cases above are the same as before for a seed
	cases = append(cases, craftedCases(rng, tier)...)
	return cases
}
