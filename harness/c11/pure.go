package c11

// Purity of the verification / root-calculation entry points of pkg/trie/rmt (class "functions that must not
// mutate their inputs"; the oracle of seeded change C11-4 for CalculateRootFromAppendPath, generalised through
// corr.PureCall to every entry point the runner calls):
//
//	rmt.VerifyProof, rmt.CalculateRootFromUpdateData, rmt.CalculateRootFromRightWitness, rmt.VerifyRightWitness,
//	rmt.CalculateRootFromAppendPath, rmt.CalculateRoot
//
// Each call: image of all arguments (every query / sibling hash / append-path entry / index, the proof's encoding)
// before and after -> "<sig>-mutates-argument" (CalculateRootFromAppendPath keeps its historical signature
// "predict-mutated-append-path"); the same objects a second time -> "<sig>-not-idempotent"; a deep clone and the
// decode(encode(proof)) clone, taken before and after -> "<sig>-copy-differs:<variant>".  The hash lists handed to the
// functions are private copies whose elements carry sentinel-filled spare capacity (corr.SpareList: what a caller
// holds who keeps the hashes of a proof as sub-slices of one receive buffer); an `append(<argument hash>, ...)`
// inside the package overwrites the sentinel -> "<sig>-writes-beyond-argument" (found on the original code: with
// proof.SiblingHashes = [buf[0:32], buf[32:64]] VerifyProof of a right-hand leaf overwrites the second sibling hash
// and rejects the honest proof; fixes/C11-rmt-append-into-argument.patch).

import (
	"fmt"
	"strconv"

	"github.com/LiskHQ/lisk-engine/pkg/trie/rmt"

	"verifharness/corr"
)

func proofImage(img []string, p *rmt.Proof) []string {
	img = append(img, "proof.Size="+strconv.FormatUint(p.Size, 10))
	img = corr.SnapUints(img, "proof.Idxs", p.Idxs)
	img = corr.SnapListCap(img, "proof.SiblingHashes", p.SiblingHashes)
	return corr.SnapBytes(img, "proof.Encode()", p.Encode())
}

func cloneProof(p *rmt.Proof) *rmt.Proof {
	return &rmt.Proof{Size: p.Size, Idxs: append([]uint64{}, p.Idxs...), SiblingHashes: corr.SpareList(p.SiblingHashes)}
}

func wireProof(p *rmt.Proof) (*rmt.Proof, error) {
	q := new(rmt.Proof)
	if err := q.Decode(p.Encode()); err != nil {
		return nil, err
	}
	return q, nil
}

// proofVariants: the same proof as a deep clone and as its re-encoding.
func proofVariants(p *rmt.Proof, stage string, call func(q *rmt.Proof) string) []corr.PureVariant {
	vs := []corr.PureVariant{}
	w, err := wireProof(p)
	vs = append(vs, corr.PureVariant{Name: "decode(encode(proof))", Call: func() string {
		if err != nil {
			return "decode-error"
		}
		return call(w)
	}})
	if stage == "before" {
		c := cloneProof(p)
		vs = append(vs, corr.PureVariant{Name: "deep-clone", Call: func() string { return call(c) }})
	}
	return vs
}

func (r *runner) pure(p corr.Pure) {
	_, fails := corr.PureCall(p)
next:
	for _, f := range fails {
		for _, g := range r.fails { // once per case and signature
			if g.Sig == f.Sig {
				continue next
			}
		}
		r.fail(f.Sig, f.Detail)
	}
}

// pureVerifyProof = rmt.VerifyProof(q, p, root)
func (r *runner) pureVerifyProof(ctx string, q [][]byte, p *rmt.Proof, root []byte) bool {
	q, root, p = corr.SpareList(q), corr.Spare(root), cloneProof(p) // private copies with sentinel-filled spare capacity
	var first bool
	calls := 0
	run := func(pp *rmt.Proof) string { return strconv.FormatBool(rmt.VerifyProof(q, pp, root)) }
	r.pure(corr.Pure{Sig: "c11-verifyproof", Name: "rmt.VerifyProof", Context: ctx,
		Snap: func() []string {
			return proofImage(corr.SnapBytesCap(corr.SnapListCap(nil, "queryHashes", q), "rootHash", root), p)
		},
		Call: func() string {
			got := rmt.VerifyProof(q, p, root)
			if calls == 0 {
				first = got
			}
			calls++
			return strconv.FormatBool(got)
		},
		Variants: func(stage string) []corr.PureVariant { return proofVariants(p, stage, run) },
	})
	return first
}

// pureUpdateData = rmt.CalculateRootFromUpdateData(upd, p)
func (r *runner) pureUpdateData(ctx string, upd [][]byte, p *rmt.Proof) ([]byte, error) {
	upd, p = corr.SpareList(upd), cloneProof(p)
	var first []byte
	var firstErr error
	calls := 0
	show := func(got []byte, err error) string {
		if err != nil {
			return "err"
		}
		return corr.Hex(got)
	}
	run := func(pp *rmt.Proof) string { return show(rmt.CalculateRootFromUpdateData(upd, pp)) }
	r.pure(corr.Pure{Sig: "c11-updatedata", Name: "rmt.CalculateRootFromUpdateData", Context: ctx,
		Snap: func() []string { return proofImage(corr.SnapListCap(nil, "updateData", upd), p) },
		Call: func() string {
			got, err := rmt.CalculateRootFromUpdateData(upd, p)
			if calls == 0 {
				first, firstErr = got, err
			}
			calls++
			return show(got, err)
		},
		Variants: func(stage string) []corr.PureVariant { return proofVariants(p, stage, run) },
	})
	return first, firstErr
}

func witnessImage(i uint64, appendPath, wit [][]byte, root []byte) []string {
	img := []string{"nodeIndex=" + strconv.FormatUint(i, 10)}
	img = corr.SnapListCap(img, "appendPath", appendPath)
	img = corr.SnapListCap(img, "rightWitness", wit)
	return corr.SnapBytesCap(img, "root", root)
}

// pureRootFromRightWitness = rmt.CalculateRootFromRightWitness(i, appendPath, wit)
func (r *runner) pureRootFromRightWitness(i uint64, appendPath, wit [][]byte) []byte {
	appendPath, wit = corr.SpareList(appendPath), corr.SpareList(wit)
	var first []byte
	calls := 0
	r.pure(corr.Pure{Sig: "c11-rightwitness-root", Name: "rmt.CalculateRootFromRightWitness",
		Context: fmt.Sprintf("index %d", i),
		Snap:    func() []string { return witnessImage(i, appendPath, wit, nil) },
		Call: func() string {
			got := rmt.CalculateRootFromRightWitness(i, appendPath, wit)
			if calls == 0 {
				first = got
			}
			calls++
			return corr.Hex(got)
		},
		Variants: func(stage string) []corr.PureVariant {
			a, w := copyList(appendPath), copyList(wit)
			return []corr.PureVariant{{Name: "deep-clone", Call: func() string { return corr.Hex(rmt.CalculateRootFromRightWitness(i, a, w)) }}}
		},
	})
	return first
}

// pureVerifyRightWitness = rmt.VerifyRightWitness(i, appendPath, wit, root)
func (r *runner) pureVerifyRightWitness(i uint64, appendPath, wit [][]byte, root []byte) bool {
	appendPath, wit, root = corr.SpareList(appendPath), corr.SpareList(wit), corr.Spare(root)
	var first bool
	calls := 0
	r.pure(corr.Pure{Sig: "c11-verifyrightwitness", Name: "rmt.VerifyRightWitness",
		Context: fmt.Sprintf("index %d", i),
		Snap:    func() []string { return witnessImage(i, appendPath, wit, root) },
		Call: func() string {
			got := rmt.VerifyRightWitness(i, appendPath, wit, root)
			if calls == 0 {
				first = got
			}
			calls++
			return strconv.FormatBool(got)
		},
		Variants: func(stage string) []corr.PureVariant {
			a, w := copyList(appendPath), copyList(wit)
			return []corr.PureVariant{{Name: "deep-clone", Call: func() string { return strconv.FormatBool(rmt.VerifyRightWitness(i, a, w, root)) }}}
		},
	})
	return first
}

// purePredict = rmt.CalculateRootFromAppendPath(v, path, size); `also` is a second view of the memory the path may
// share (the live tree's AppendPath()).
func (r *runner) purePredict(v []byte, path [][]byte, size uint64, also func() [][]byte) *rmt.RootWithAppendPath {
	var first *rmt.RootWithAppendPath
	calls := 0
	show := func(p *rmt.RootWithAppendPath) string { return triple(p.Root, p.AppendPath, p.Size) }
	r.pure(corr.Pure{Sig: "c11-predict", MutSig: "predict-mutated-append-path", Name: "rmt.CalculateRootFromAppendPath",
		Context: fmt.Sprintf("size %d", size),
		Snap: func() []string {
			img := corr.SnapListCap(corr.SnapBytesCap(nil, "value", v), "appendPath", path)
			if also != nil {
				img = corr.SnapList(img, "tree.AppendPath()", also())
			}
			return img
		},
		Call: func() string {
			got := rmt.CalculateRootFromAppendPath(v, path, size)
			if calls == 0 {
				first = got
			}
			calls++
			return show(got)
		},
		Variants: func(stage string) []corr.PureVariant {
			c := copyList(path)
			return []corr.PureVariant{{Name: "deep-clone", Call: func() string { return show(rmt.CalculateRootFromAppendPath(v, c, size)) }}}
		},
	})
	return first
}

// pureBatchRoot = rmt.CalculateRoot(data)
func (r *runner) pureBatchRoot(data [][]byte) []byte {
	data = corr.SpareList(data)
	var first []byte
	calls := 0
	r.pure(corr.Pure{Sig: "c11-batchroot", Name: "rmt.CalculateRoot", Context: fmt.Sprintf("%d leaves", len(data)),
		Snap: func() []string { return corr.SnapListCap(nil, "data", data) },
		Call: func() string {
			got := rmt.CalculateRoot(data)
			if calls == 0 {
				first = got
			}
			calls++
			return corr.Hex(got)
		},
	})
	return first
}
