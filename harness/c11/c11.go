// Package c11: correspondence and model-free oracle for the regular Merkle tree (pkg/trie/rmt):
// incremental root / append path vs batch root vs a plain LIP-0031 reference, reload from storage,
// inclusion proofs (generate / verify / tampered), update through a proof, right witnesses and the
// root predicted from the append path.
package c11

import (
	"bytes"
	"crypto/sha256"
	"encoding/binary"
	"fmt"
	"strconv"
	"strings"
	"sync/atomic"
	"time"

	"github.com/LiskHQ/lisk-engine/pkg/db"
	"github.com/LiskHQ/lisk-engine/pkg/trie/rmt"

	"verifharness/corr"
)

type prop struct{}

func init() { corr.Register(prop{}) }

func (prop) ID() string    { return "C11" }
func (prop) Parallel() int { return 8 }

// mapDB is the simplest rmt.Database; values are copied so that no slice handed to the tree aliases
// another one.
type mapDB map[string][]byte

func (m mapDB) Get(k []byte) ([]byte, bool) {
	v, ok := m[string(k)]
	if !ok {
		return nil, false
	}
	return append(make([]byte, 0, len(v)), v...), true
}
func (m mapDB) Del(k []byte)    { delete(m, string(k)) }
func (m mapDB) Set(k, v []byte) { m[string(k)] = append(make([]byte, 0, len(v)), v...) }

// rwLoops is set once CalculateRootFromRightWitness was seen not to terminate.
var rwLoops atomic.Bool

// rwTerminates replays the control flow of CalculateRootFromRightWitness on list lengths only and
// reports whether both lists are consumed within 64 layers.
func rwTerminates(nodeIndex uint64, nap, nrw int) bool {
	if nap == 0 || nrw == 0 {
		return true
	}
	nap--
	nrw--
	inc := nodeIndex
	initDone := false
	for layer := uint(0); layer < 64; layer++ {
		if nap == 0 && nrw == 0 {
			return true
		}
		if nap > 0 && (nodeIndex>>layer)&1 == 1 {
			if !initDone {
				inc += 1 << layer
				initDone = true
			} else {
				nap--
			}
		}
		if nrw > 0 && (inc>>layer)&1 == 1 {
			nrw--
			inc += 1 << layer
		}
	}
	return nap == 0 && nrw == 0
}

type runner struct {
	store    rmt.Database
	pebble   *db.DB
	tr       *rmt.RegularMerkleTree
	data     [][]byte // current leaf data
	hashes   [][]byte // reference leaf hashes of data
	cache    *refCache
	appended bool // at least one successful append: tree information must be stored
	lastQ    [][]byte
	lastP    *rmt.Proof
	lastWF   bool // the last proof addresses distinct leaves that carry the queried hashes
	fails    []corr.Fail
	opIdx    int
	full     bool // check the reference root after every append (short cases)
}

func (r *runner) fail(sig, detail string) {
	if len(r.fails) < 50 {
		r.fails = append(r.fails, corr.Fail{Sig: sig, Detail: detail, Op: r.opIdx})
	}
}

func hexList(l [][]byte) string {
	if len(l) == 0 {
		return "-"
	}
	parts := make([]string, len(l))
	for i, b := range l {
		parts[i] = corr.Hex(b)
	}
	return strings.Join(parts, ",")
}

func unHexList(s string) [][]byte {
	if s == "-" {
		return [][]byte{}
	}
	parts := strings.Split(s, ",")
	res := make([][]byte, len(parts))
	for i, p := range parts {
		if p == "e" { // explicit empty element inside a list
			res[i] = []byte{}
		} else {
			res[i] = corr.UnHex(p)
		}
	}
	return res
}

// dataList encodes leaf data: an empty element is written "e".
func dataList(l [][]byte) string {
	if len(l) == 0 {
		return "-"
	}
	parts := make([]string, len(l))
	for i, b := range l {
		if len(b) == 0 {
			parts[i] = "e"
		} else {
			parts[i] = corr.Hex(b)
		}
	}
	return strings.Join(parts, ",")
}

func uintList(l []uint64) string {
	if len(l) == 0 {
		return "-"
	}
	parts := make([]string, len(l))
	for i, v := range l {
		parts[i] = strconv.FormatUint(v, 10)
	}
	return strings.Join(parts, ",")
}

func parseInts(s string) []int {
	if s == "-" {
		return nil
	}
	parts := strings.Split(s, ",")
	res := make([]int, len(parts))
	for i, p := range parts {
		v, err := strconv.Atoi(p)
		if err != nil {
			panic(err)
		}
		res[i] = v
	}
	return res
}

func triple(root []byte, path [][]byte, size uint64) string {
	return fmt.Sprintf("root=%s size=%d path=%s", corr.Hex(root), size, hexList(path))
}

func (r *runner) triple() string { return triple(r.tr.Root(), r.tr.AppendPath(), r.tr.Size()) }

func eqList(a, b [][]byte) bool {
	if len(a) != len(b) {
		return false
	}
	for i := range a {
		if !bytes.Equal(a[i], b[i]) {
			return false
		}
	}
	return true
}

func copyList(l [][]byte) [][]byte {
	res := make([][]byte, len(l))
	for i, b := range l {
		res[i] = append(make([]byte, 0, len(b)), b...)
	}
	return res
}

// genLeaf: the data of the i-th leaf of a bulk append (both sides compute it the same way).
func genLeaf(seed []byte, i uint64, mod uint64) []byte {
	var b [4]byte
	v := i
	if mod > 0 {
		v = i % mod
	}
	binary.BigEndian.PutUint32(b[:], uint32(v))
	return append(append([]byte{}, seed...), b[:]...)
}

func (r *runner) refRoot() []byte { return r.cache.root(r.hashes, 0, len(r.hashes)) }

func (r *runner) wantCheck() bool {
	n := len(r.hashes)
	return r.full || n <= 260 || n%29 == 0 || isPow2(n) || isPow2(n+1) || isPow2(n-1)
}

// doAppend appends one leaf, checking prediction = actual and incremental = reference.
func (r *runner) doAppend(v []byte) (ok bool) {
	oldSize := r.tr.Size()
	var pred *rmt.RootWithAppendPath
	predPanic := false
	func() {
		defer func() {
			if e := recover(); e != nil {
				predPanic = true
				r.fail("predict-panic", fmt.Sprintf("CalculateRootFromAppendPath at size %d: %v", oldSize, e))
			}
		}()
		// the prediction is given the tree's own append path, as a caller holding the tree would do; it is a
		// pure function of its arguments, so the path (and with it the live tree) must come back unchanged
		// (corr.PureCall, pure.go: arguments and the tree's path compared before / after, second call, clone)
		pred = r.purePredict(v, r.tr.AppendPath(), oldSize, r.tr.AppendPath)
	}()
	if err := r.tr.Append(v); err != nil {
		r.fail("append-error", fmt.Sprintf("size %d: %v", oldSize, err))
		return false
	}
	r.appended = true
	r.data = append(r.data, v)
	r.hashes = append(r.hashes, refLeaf(v))
	if r.tr.Size() != oldSize+1 {
		r.fail("append-size", fmt.Sprintf("size %d after appending to %d", r.tr.Size(), oldSize))
	}
	if !predPanic {
		if !bytes.Equal(pred.Root, r.tr.Root()) || pred.Size != r.tr.Size() {
			r.fail("predicted-root-differs", fmt.Sprintf("size %d: predicted root %x size %d, actual %x size %d", oldSize, pred.Root, pred.Size, r.tr.Root(), r.tr.Size()))
		}
		if !eqList(pred.AppendPath, r.tr.AppendPath()) {
			r.fail("predicted-append-path-differs", fmt.Sprintf("size %d: predicted path %s, actual %s", oldSize, hexList(pred.AppendPath), hexList(r.tr.AppendPath())))
		}
	}
	if r.wantCheck() {
		if want := r.refRoot(); !bytes.Equal(want, r.tr.Root()) {
			r.fail("append-root-not-lip31", fmt.Sprintf("size %d: root %x, reference %x", r.tr.Size(), r.tr.Root(), want))
		}
		if want := r.cache.peaks(r.hashes); !eqList(want, r.tr.AppendPath()) {
			r.fail("append-path-not-peaks", fmt.Sprintf("size %d: path %s, reference %s", r.tr.Size(), hexList(r.tr.AppendPath()), hexList(want)))
		}
	}
	return true
}

func flip(b []byte) []byte {
	res := append([]byte{}, b...)
	if len(res) == 0 {
		return []byte{1}
	}
	res[0] ^= 1
	return res
}

// tamper applies a symbolic modification to (queries, proof, root); effective reports whether the
// oracle may demand rejection.
func tamper(mode string, q [][]byte, p *rmt.Proof, root []byte) (q2 [][]byte, p2 *rmt.Proof, root2 []byte, mustReject bool) {
	q2 = copyList(q)
	p2 = &rmt.Proof{Size: p.Size, Idxs: append([]uint64{}, p.Idxs...), SiblingHashes: copyList(p.SiblingHashes)}
	root2 = append([]byte{}, root...)
	w := strings.Split(mode, ":")
	k := 0
	if len(w) > 1 {
		k, _ = strconv.Atoi(w[1])
	}
	switch w[0] {
	case "ok":
	case "root":
		root2 = flip(root2)
		mustReject = true
	case "q":
		if len(q2) > 0 {
			k %= len(q2)
			q2[k] = flip(q2[k])
			mustReject = k < len(p2.Idxs) && p2.Idxs[k] != 0
		}
	case "sib":
		if len(p2.SiblingHashes) > 0 {
			k %= len(p2.SiblingHashes)
			p2.SiblingHashes[k] = flip(p2.SiblingHashes[k])
			mustReject = true
		}
	case "idx":
		if len(p2.Idxs) > 0 {
			k %= len(p2.Idxs)
			p2.Idxs[k] ^= 1
		}
	case "size":
		if k == 0 {
			p2.Size++
		} else if p2.Size > 0 {
			p2.Size--
		}
	case "dropsib":
		if n := len(p2.SiblingHashes); n > 0 {
			p2.SiblingHashes = p2.SiblingHashes[:n-1]
		}
	case "addsib":
		p2.SiblingHashes = append(p2.SiblingHashes, refEmpty())
	case "swapq":
		if len(q2) > 1 {
			q2[0], q2[1] = q2[1], q2[0]
			mustReject = !bytes.Equal(q2[0], q2[1]) && p2.Idxs[0] != 0 && p2.Idxs[1] != 0
		}
	default:
		panic("bad tamper mode " + mode)
	}
	return
}

// proofWellFormed: the queries found in the tree are pairwise distinct (a set of leaves) and at
// least one was found.
func proofWellFormed(p *rmt.Proof) bool {
	seen := map[uint64]bool{}
	found := 0
	for _, idx := range p.Idxs {
		if idx == 0 {
			continue
		}
		if seen[idx] {
			return false
		}
		seen[idx] = true
		found++
	}
	return found > 0 && p.Size > 0
}

func (r *runner) absentHash(pos int) []byte {
	return refLeaf([]byte(fmt.Sprintf("absent-%d", pos)))
}

func (r *runner) prove(q [][]byte) string {
	p, err := r.tr.GenerateProof(copyList(q))
	if err != nil {
		r.lastQ, r.lastP = nil, nil
		r.fail("generate-proof-error", err.Error())
		return "err"
	}
	r.lastQ, r.lastP = q, p
	if p.Size != r.tr.Size() {
		r.fail("proof-size", fmt.Sprintf("proof size %d tree size %d", p.Size, r.tr.Size()))
	}
	// A query that is the hash of a current leaf must be found at a leaf carrying that hash. Queries
	// that are no leaf hashes (absent, or replaced by an update: the hash index keeps stale entries)
	// are outside the property: no claim, and the proof is then not required to verify.
	height := 0
	for 1<<height < len(r.hashes) {
		height++
	}
	height++
	r.lastWF = proofWellFormed(p) && len(p.Idxs) == len(q)
	for i, idx := range p.Idxs {
		if i >= len(q) {
			break
		}
		isLeaf := false
		for _, h := range r.hashes {
			if bytes.Equal(h, q[i]) {
				isLeaf = true
				break
			}
		}
		if idx == 0 {
			if isLeaf {
				r.fail("proof-leaf-not-found", fmt.Sprintf("query %x is a leaf but index is 0", q[i]))
			}
			continue
		}
		pos := int(idx) - 1<<height
		if pos < 0 || pos >= len(r.hashes) || !bytes.Equal(r.hashes[pos], q[i]) {
			r.lastWF = false
			if isLeaf {
				// the single-valued hash -> location index points at a position that was overwritten by an
				// update while another leaf still carries the value (duplicate leaves + update)
				r.fail("proof-index-stale-duplicate-leaf", fmt.Sprintf("query %x is a leaf, but index %d (height %d) is a leaf with another hash", q[i], idx, height))
			}
		}
	}
	if len(q) == 1 && len(p.Idxs) == 1 && p.Idxs[0] != 0 {
		pos := int(p.Idxs[0]) - 1<<height
		if pos >= 0 && pos < len(r.hashes) {
			_, sibs := refPath(r.hashes, pos)
			if !eqList(sibs, p.SiblingHashes) {
				r.fail("single-proof-not-reference-path", fmt.Sprintf("size %d pos %d: siblings %s, reference %s", len(r.hashes), pos, hexList(p.SiblingHashes), hexList(sibs)))
			}
		}
	}
	return fmt.Sprintf("size=%d idxs=%s sib=%s", p.Size, uintList(p.Idxs), hexList(p.SiblingHashes))
}

func (r *runner) step(op string) string {
	w := strings.Fields(op)
	switch w[0] {
	case "reset":
		if r.pebble != nil {
			r.pebble.Close()
			r.pebble = nil
		}
		r.full = false
		r.store = mapDB{}
		for _, a := range w[1:] {
			switch a {
			case "pebble":
				d, err := db.NewInMemoryDB()
				if err != nil {
					panic(err)
				}
				r.pebble = d
				r.store = d
			case "full":
				r.full = true
			}
		}
		r.tr = rmt.NewRegularMerkleTree(r.store)
		r.data, r.hashes = nil, nil
		r.cache = newRefCache()
		r.appended = false
		r.lastQ, r.lastP = nil, nil
		return "ok"
	case "append":
		v := []byte{}
		if len(w) > 1 {
			v = corr.UnHex(w[1])
		}
		if !r.doAppend(v) {
			return "err"
		}
		return "ok " + r.triple()
	case "appendn":
		k, _ := strconv.Atoi(w[1])
		seed := corr.UnHex(w[2])
		mod := uint64(0)
		if len(w) > 3 {
			m, _ := strconv.Atoi(w[3])
			mod = uint64(m)
		}
		acc := sha256.New()
		for i := 0; i < k; i++ {
			if !r.doAppend(genLeaf(seed, r.tr.Size(), mod)) {
				return "err"
			}
			acc.Write(r.tr.Root())
		}
		return "ok " + r.triple() + " acc=" + corr.Hex(acc.Sum(nil))
	case "batchroot":
		got := r.pureBatchRoot(copyList(r.data))
		if want := refRoot(r.hashes); !bytes.Equal(got, want) {
			r.fail("batch-root-not-lip31", fmt.Sprintf("size %d: CalculateRoot %x, reference %x", len(r.data), got, want))
		}
		if !bytes.Equal(got, r.tr.Root()) {
			r.fail("incremental-root-differs-from-batch", fmt.Sprintf("size %d: tree root %x, CalculateRoot %x", len(r.data), r.tr.Root(), got))
		}
		return corr.Hex(got)
	case "predict":
		v := []byte{}
		if len(w) > 1 {
			v = corr.UnHex(w[1])
		}
		pred := r.purePredict(v, r.tr.AppendPath(), r.tr.Size(), r.tr.AppendPath)
		hs := append(append([][]byte{}, r.hashes...), refLeaf(v))
		c := newRefCache()
		if want := c.root(hs, 0, len(hs)); !bytes.Equal(want, pred.Root) {
			r.fail("predicted-root-not-lip31", fmt.Sprintf("size %d: predicted root %x, reference %x", len(r.hashes), pred.Root, want))
		}
		if want := c.peaks(hs); !eqList(want, pred.AppendPath) {
			r.fail("predicted-append-path-not-peaks", fmt.Sprintf("size %d: predicted path %s, reference %s", len(r.hashes), hexList(pred.AppendPath), hexList(want)))
		}
		return triple(pred.Root, pred.AppendPath, pred.Size)
	case "reload":
		tr2, err := rmt.NewRegularMerkleTreeWithPastData(r.store)
		if err != nil {
			if r.appended {
				r.fail("reload-error", fmt.Sprintf("size %d: %v", r.tr.Size(), err))
			}
			return "err"
		}
		if !bytes.Equal(tr2.Root(), r.tr.Root()) || tr2.Size() != r.tr.Size() || !eqList(tr2.AppendPath(), r.tr.AppendPath()) {
			r.fail("reload-differs", fmt.Sprintf("before %s after %s", r.triple(), triple(tr2.Root(), tr2.AppendPath(), tr2.Size())))
		}
		r.tr = tr2
		return "ok " + r.triple()
	case "prove":
		return r.prove(unHexList(w[1]))
	case "provepos":
		var q [][]byte
		for _, pos := range parseInts(w[1]) {
			if pos < len(r.hashes) {
				q = append(q, r.hashes[pos])
			} else {
				q = append(q, r.absentHash(pos))
			}
		}
		return r.prove(q)
	case "verify":
		if r.lastP == nil {
			return "noproof"
		}
		mode := "ok"
		if len(w) > 1 {
			mode = w[1]
		}
		q, p, root, mustReject := tamper(mode, r.lastQ, r.lastP, r.tr.Root())
		got := r.pureVerifyProof("verify "+mode, q, p, root)
		wf := r.lastWF
		if mode == "ok" && wf && !got {
			r.fail("generated-proof-rejected", fmt.Sprintf("size %d idxs %s", r.lastP.Size, uintList(r.lastP.Idxs)))
		}
		if mustReject && wf && got {
			r.fail("tampered-proof-accepted", fmt.Sprintf("size %d idxs %s tamper %s", r.lastP.Size, uintList(r.lastP.Idxs), mode))
		}
		return strconv.FormatBool(got)
	case "update", "updproof":
		if w[0] == "updproof" {
			if r.lastP == nil {
				return "noproof"
			}
			upd := unHexList(w[1])
			got, err := r.pureUpdateData("updproof", copyList(upd), r.lastP)
			wf := r.lastWF && len(upd) == len(r.lastP.Idxs)
			for _, idx := range r.lastP.Idxs {
				wf = wf && idx != 0
			}
			if err != nil {
				if wf {
					r.fail("update-root-from-proof-error", err.Error())
				}
				return "err"
			}
			if wf {
				height := 0
				for 1<<height < len(r.hashes) {
					height++
				}
				height++
				hs := copyList(r.hashes)
				for i, idx := range r.lastP.Idxs {
					hs[int(idx)-1<<height] = refLeaf(upd[i])
				}
				if want := refRoot(hs); !bytes.Equal(want, got) {
					r.fail("update-root-from-proof-wrong", fmt.Sprintf("size %d idxs %s: got %x, reference %x", len(hs), uintList(r.lastP.Idxs), got, want))
				}
			}
			return corr.Hex(got)
		}
		poss := parseInts(w[1])
		upd := unHexList(w[2])
		height := r.tr.Size()
		if height > 0 {
			height = rmt.VerifGetHeight(r.tr.Size())
		}
		idxs := make([]uint64, len(poss))
		valid := len(poss) > 0 && len(poss) == len(upd)
		seen := map[int]bool{}
		for i, pos := range poss {
			idxs[i] = uint64(1)<<height + uint64(pos)
			if pos >= len(r.hashes) || seen[pos] {
				valid = false
			}
			seen[pos] = true
		}
		err := r.tr.Update(idxs, copyList(upd))
		if err != nil {
			if valid {
				r.fail("update-error", fmt.Sprintf("size %d positions %v: %v", len(r.hashes), poss, err))
			}
			return "err"
		}
		if valid {
			for i, pos := range poss {
				r.data[pos] = upd[i]
				r.hashes[pos] = refLeaf(upd[i])
			}
			r.cache.invalidate()
			if want := r.refRoot(); !bytes.Equal(want, r.tr.Root()) {
				r.fail("update-root-wrong", fmt.Sprintf("size %d positions %v: root %x, reference %x", len(r.hashes), poss, r.tr.Root(), want))
			}
			if want := r.cache.peaks(r.hashes); !eqList(want, r.tr.AppendPath()) {
				r.fail("update-append-path-stale", fmt.Sprintf("size %d positions %v: path %s, reference %s", len(r.hashes), poss, hexList(r.tr.AppendPath()), hexList(want)))
			}
		} else {
			r.fail("update-accepted-invalid", fmt.Sprintf("size %d positions %v data %d", len(r.hashes), poss, len(upd)))
		}
		return "ok " + r.triple()
	case "vcraft", "ucraft", "updidx":
		// crafted index lists (crafted.go)
		return r.crafted(w)
	case "witness":
		i, _ := strconv.Atoi(w[1])
		wit, err := r.tr.GenerateRightWitness(uint64(i))
		if err != nil {
			if i <= len(r.hashes) {
				r.fail("witness-error", fmt.Sprintf("size %d index %d: %v", len(r.hashes), i, err))
			}
			return "err"
		}
		if i > len(r.hashes) {
			r.fail("witness-accepted-out-of-range", fmt.Sprintf("size %d index %d", len(r.hashes), i))
			return "w=" + hexList(wit)
		}
		partial := newRefCache().peaks(r.hashes[:i])
		got := r.pureRootFromRightWitness(uint64(i), copyList(partial), copyList(wit))
		if !bytes.Equal(got, r.tr.Root()) {
			r.fail("right-witness-root-differs", fmt.Sprintf("size %d index %d: %x, tree root %x", len(r.hashes), i, got, r.tr.Root()))
		}
		if !r.pureVerifyRightWitness(uint64(i), copyList(partial), copyList(wit), r.tr.Root()) {
			r.fail("right-witness-rejected", fmt.Sprintf("size %d index %d", len(r.hashes), i))
		}
		if rmt.VerifyRightWitness(uint64(i), copyList(partial), copyList(wit), flip(r.tr.Root())) {
			r.fail("right-witness-accepts-other-root", fmt.Sprintf("size %d index %d", len(r.hashes), i))
		}
		return "w=" + hexList(wit) + " root=" + corr.Hex(got)
	case "rwraw":
		// CalculateRootFromRightWitness on arbitrary (possibly malformed) input: must terminate
		i, _ := strconv.ParseUint(w[1], 10, 64)
		ap, rw := unHexList(w[2]), unHexList(w[3])
		if !rwTerminates(i, len(ap), len(rw)) && rwLoops.Load() {
			// already observed on this build: the loop never ends on such input; do not spawn another spinning goroutine
			r.fail("right-witness-no-termination", op)
			return "timeout"
		}
		ch := make(chan []byte, 1)
		go func() {
			defer func() {
				if e := recover(); e != nil {
					ch <- []byte("panic")
				}
			}()
			ch <- rmt.CalculateRootFromRightWitness(i, ap, rw)
		}()
		select {
		case res := <-ch:
			if string(res) == "panic" {
				r.fail("rwraw-panic", op)
				return "panic"
			}
			return corr.Hex(res)
		case <-time.After(2 * time.Second):
			rwLoops.Store(true)
			r.fail("right-witness-no-termination", op)
			return "timeout"
		}
	case "specpath":
		pos, _ := strconv.Atoi(w[1])
		if pos >= len(r.hashes) {
			return "none"
		}
		right, sibs := refPath(r.hashes, pos)
		if got := refFold(r.hashes[pos], right, sibs); !bytes.Equal(got, r.tr.Root()) {
			r.fail("reference-path-root-differs", fmt.Sprintf("size %d pos %d", len(r.hashes), pos))
		}
		sides := make([]byte, len(right))
		for i, b := range right {
			if b {
				sides[i] = 'R'
			} else {
				sides[i] = 'L'
			}
		}
		s := string(sides)
		if s == "" {
			s = "-"
		}
		return "sides=" + s + " sib=" + hexList(sibs)
	case "nodes":
		// every node of the reference tree is stored at its location with its hash
		bad := 0
		count := 0
		refNodes(r.hashes, 0, len(r.hashes), func(layer, index int, h []byte) {
			count++
			got, ok := r.tr.VerifNodeHash(uint64(layer), uint64(index))
			if !ok || !bytes.Equal(got, h) {
				bad++
				if bad == 1 {
					r.fail("stored-node-differs", fmt.Sprintf("size %d node (%d,%d): stored %x (%v), reference %x", len(r.hashes), layer, index, got, ok, h))
				}
			}
		})
		return fmt.Sprintf("nodes=%d bad=%d", count, bad)
	}
	return "bad-op"
}

func (prop) RunImpl(c corr.Case) ([]string, []corr.Fail) {
	r := &runner{}
	out := make([]string, 0, len(c.Ops))
	for i, op := range c.Ops {
		r.opIdx = i
		func() {
			defer func() {
				if e := recover(); e != nil {
					out = append(out, "panic")
					r.fail(strings.Fields(op)[0]+"-panic", fmt.Sprintf("%s: %v", op, e))
				}
			}()
			out = append(out, r.step(op))
		}()
	}
	if r.pebble != nil {
		r.pebble.Close()
	}
	return out, r.fails
}

func (prop) Classify(c corr.Case, out []string) string {
	kinds := map[string]bool{}
	size := 0
	dup := false
	seen := map[string]bool{}
	for i, op := range c.Ops {
		if i >= len(out) {
			break
		}
		w := strings.Fields(op)
		switch w[0] {
		case "append":
			if strings.HasPrefix(out[i], "ok") {
				size++
				if size > 1 && size&(size-1) != 0 {
					kinds["append"] = true
				}
				d := ""
				if len(w) > 1 {
					d = w[1]
				}
				if seen[d] {
					dup = true
				}
				seen[d] = true
			}
		case "appendn":
			if strings.HasPrefix(out[i], "ok") {
				k, _ := strconv.Atoi(w[1])
				size += k
				if k > 2 {
					kinds["append"] = true
				}
				if len(w) > 3 {
					dup = true
				}
			}
		case "predict":
			if size > 1 {
				kinds["predict"] = true
			}
		case "reload":
			if strings.HasPrefix(out[i], "ok") && size > 1 {
				kinds["reload"] = true
			}
		case "verify":
			if out[i] == "true" && size > 2 {
				kinds["proof"] = true
			}
			if out[i] == "false" && len(w) > 1 && w[1] != "ok" && size > 2 {
				kinds["tamper"] = true
			}
		case "update", "updproof":
			if out[i] != "err" && out[i] != "noproof" && size > 1 {
				kinds["update"] = true
			}
		case "witness":
			if strings.HasPrefix(out[i], "w=") && !strings.HasPrefix(out[i], "w=- ") && size > 2 {
				kinds["witness"] = true
			}
		case "vcraft":
			if size > 2 && out[i] == "true" {
				kinds["crafted-accepted"] = true
			}
			if size > 2 && out[i] == "false" {
				kinds["crafted-rejected"] = true
			}
		case "ucraft", "updidx":
			if size > 1 && out[i] == "err" {
				kinds["crafted-rejected"] = true
			}
			if size > 1 && out[i] != "err" && out[i] != "noproof" {
				kinds["update"] = true
			}
		}
	}
	if len(kinds) == 0 {
		return ""
	}
	order := []string{"append", "predict", "reload", "proof", "tamper", "update", "witness", "crafted-accepted", "crafted-rejected"}
	ks := []string{}
	for _, k := range order {
		if kinds[k] {
			ks = append(ks, k)
		}
	}
	if dup {
		ks = append(ks, "dup")
	}
	return strings.Join(ks, "+")
}
